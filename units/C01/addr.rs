// ---- units/C01/addr.rs: the address size of an instruction (Mode::address_bits), the count / index registers of that
// size (Semantics::address_register) and the LOOP / LOOPE / LOOPNE condition (Semantics::loop_condition).
// These functions exist in the tree with units/C01/proposed_fix_5.diff applied (address-size prefix 0x67).
// ORACLE: Intel SDM vol. 2 "LOOP/LOOPcc": the count register is CX / ECX / RCX according to the ADDRESS size; after the
// decrement the branch is taken if count != 0 (LOOP), count != 0 and ZF = 1 (LOOPE), count != 0 and ZF = 0 (LOOPNE).

/// SDM vol. 1 3.6 / vol. 2 2.1.1: the address size capstone decoded (cs_x86.addr_size, in bytes), the mode's default without detail
pub open spec fn addr_bits_spec(mode: Mode, instruction: capstone::Instr) -> usize {
    let dflt: usize = match mode { Mode::X86 => 32, Mode::Amd64 => 64 };
    match instruction.detail {
        Some(d) => match d.arch {
            capstone::DetailsArch::X86(x) => if x.addr_size != 0 { (x.addr_size as usize * 8) as usize } else { dflt },
            capstone::DetailsArch::Other => dflt,
        },
        None => dflt,
    }
}

/// CX / SI / DI at an address size
pub open spec fn addr_reg_id(register: x86_reg, bits: usize) -> Option<x86_reg> {
    match register {
        x86_reg::X86_REG_CX => if bits == 16 { Some(x86_reg::X86_REG_CX) } else if bits == 32 { Some(x86_reg::X86_REG_ECX) } else if bits == 64 { Some(x86_reg::X86_REG_RCX) } else { None },
        x86_reg::X86_REG_SI => if bits == 16 { Some(x86_reg::X86_REG_SI) } else if bits == 32 { Some(x86_reg::X86_REG_ESI) } else if bits == 64 { Some(x86_reg::X86_REG_RSI) } else { None },
        x86_reg::X86_REG_DI => if bits == 16 { Some(x86_reg::X86_REG_DI) } else if bits == 32 { Some(x86_reg::X86_REG_EDI) } else if bits == 64 { Some(x86_reg::X86_REG_RDI) } else { None },
        _ => None,
    }
}

//@ source lib/translator/x86/mode.rs
impl Mode {
//@ fn impl Mode :: fn address_bits
//@ spec
    ensures /*@spec*/ r == addr_bits_spec(*self, *instruction),
//@ end
}

/// `e` is 1 exactly when register `x` reads as non-zero (and ZF has the required value)
pub open spec fn loop_env_ok(e: Expression, x: X86Register, zf: Option<nat>, env: Env) -> bool {
    (env_sorted(env) && env(flag_scalar("ZF"@)) is Some) ==> (reg_read(x, env) matches EvalR::Val(w, v) ==>
        eval_spec(e, env) == EvalR::Val(1, b2n(v != 0 && (zf matches Some(z) ==> fl(env, "ZF"@) == z))))
}
/// LOOP family: the count register is the record of CX at the address size
pub open spec fn loop_test_ok(r: Result<Expression, Error>, mode: Mode, bits: usize, zf: Option<nat>) -> bool {
    match addr_reg_id(x86_reg::X86_REG_CX, bits) {
        Some(id) => match lookup(table_of(mode), id) {
            Some(k) => {
                let x = table_of(mode)[k];
                r matches Ok(e) && expr_wf(e) && expr_bits(e) == 1 && (forall|env: Env| #[trigger] loop_env_ok(e, x, zf, env))
            }
            None => r is Err,
        },
        None => r is Err,
    }
}

pub proof fn lemma_reg_nonzero(x: X86Register, e: Expression, c: Constant, env: Env)
    requires env_sorted(env), eval_spec(e, env) == reg_read(x, env), c.wf(), c.bits == x.bits, c.value@ == 0,
    ensures reg_read(x, env) matches EvalR::Val(w, v) ==> eval_spec(Expression::Cmpneq(Box::new(e), Box::new(Expression::Constant(c))), env) == EvalR::Val(1, b2n(v != 0)),
{
    reveal(bv_cmpneq);
    assert(eval_spec(Expression::Constant(c), env) == EvalR::Val(c.bits as nat, c.value@));
}

//@ source lib/translator/x86/semantics.rs
impl<'s> Semantics<'s> {

//@ fn impl<'s> Semantics<'s> :: fn address_register
//@ spec
    ensures
        /*@found*/ addr_reg_id(register, addr_bits_spec(*self.mode, *self.instruction)) matches Some(id) ==> (lookup(table_of(*self.mode), id) matches Some(k) ==> (r matches Ok(x) && *x == table_of(*self.mode)[k] && x.rec_ok() && x.mode == *self.mode)),
        /*@missing*/ addr_reg_id(register, addr_bits_spec(*self.mode, *self.instruction)) matches Some(id) ==> (lookup(table_of(*self.mode), id) is None ==> r is Err),
        /*@invalid*/ addr_reg_id(register, addr_bits_spec(*self.mode, *self.instruction)) is None ==> r is Err,
//@ end

//@ fn impl<'s> Semantics<'s> :: fn loop_condition
//@ attr #[verifier::rlimit(80)]
//@ spec
    ensures
        /*@loop*/ self.instruction.id matches capstone::InstrIdArch::X86(i) ==> i == x86_insn::X86_INS_LOOP ==> loop_test_ok(r, *self.mode, addr_bits_spec(*self.mode, *self.instruction), None),
        /*@loope*/ self.instruction.id matches capstone::InstrIdArch::X86(i) ==> i == x86_insn::X86_INS_LOOPE ==> loop_test_ok(r, *self.mode, addr_bits_spec(*self.mode, *self.instruction), Some(1nat)),
        /*@loopne*/ self.instruction.id matches capstone::InstrIdArch::X86(i) ==> i == x86_insn::X86_INS_LOOPNE ==> loop_test_ok(r, *self.mode, addr_bits_spec(*self.mode, *self.instruction), Some(0nat)),
        /*@other*/ self.instruction.id matches capstone::InstrIdArch::X86(i) ==> (i != x86_insn::X86_INS_LOOP && i != x86_insn::X86_INS_LOOPE && i != x86_insn::X86_INS_LOOPNE) ==> r is Err,
        /*@not_x86*/ self.instruction.id is Other ==> r is Err,
//@ enter
    proof {
        broadcast use crate::strmap::axiom_into_string_str;
        lemma2_to64();
        assert(pow2(1) == 2);
        reveal_with_fuel(expr_wf, 3); reveal_with_fuel(expr_bits, 3);
        lemma_small_mod(0, 2); lemma_small_mod(1, 2);
        assert forall|w: nat| w >= 1 implies #[trigger] (0nat % pow2(w)) == 0 by { lemma_pow2_pos(w); lemma_small_mod(0, pow2(w)); }
        assert forall|s: Scalar, c: Constant, env: Env| (c.wf() && c.bits == 1 && s.bits == 1 && env_sorted(env) && env(s) is Some)
            implies #[trigger] eval_spec(Expression::Cmpeq(Box::new(Expression::Scalar(s)), Box::new(Expression::Constant(c))), env) == EvalR::Val(1, b2n(sv(env, s) == c.value@)) by { lemma_scalar_is(s, c, env); }
        assert forall|x: Expression, y: Expression, env: Env| (is_bit(eval_spec(x, env)) && is_bit(eval_spec(y, env)))
            implies #[trigger] eval_spec(Expression::And(Box::new(x), Box::new(y)), env) == EvalR::Val(1, b2n(bit_set(eval_spec(x, env)) && bit_set(eval_spec(y, env)))) by { lemma_bool_ops(x, y, env); }
        assert forall|s: Scalar, env: Env| (env_sorted(env) && s.bits == 1) implies #[trigger] sv(env, s) < 2 by { lemma_scalar_bit(s, env); }
        assert forall|x: X86Register, e: Expression, c: Constant, env: Env|
            #![trigger eval_spec(Expression::Cmpneq(Box::new(e), Box::new(Expression::Constant(c))), env), reg_read(x, env)]
            (env_sorted(env) && eval_spec(e, env) == reg_read(x, env) && c.wf() && c.bits == x.bits && c.value@ == 0)
            implies (reg_read(x, env) matches EvalR::Val(w, v) ==> eval_spec(Expression::Cmpneq(Box::new(e), Box::new(Expression::Constant(c))), env) == EvalR::Val(1, b2n(v != 0))) by { lemma_reg_nonzero(x, e, c, env); }
    }
//@ end

} // impl Semantics (addr.rs)
