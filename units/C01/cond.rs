// ---- units/C01/cond.rs: condition codes of Jcc / SETcc / CMOVcc / JCXZ / JECXZ (Semantics::cc_condition)
// ORACLE (external, transcribed here as spec functions): Intel SDM vol. 2, "Jcc - Jump if Condition Is Met" /
// "SETcc" / "CMOVcc" tables and appendix B "EFLAGS Condition Codes":
//   A / NBE: CF=0 and ZF=0     AE / NB / NC: CF=0     B / C / NAE: CF=1     BE / NA: CF=1 or ZF=1     E / Z: ZF=1
//   G / NLE: ZF=0 and SF=OF    GE / NL: SF=OF         L / NGE: SF<>OF       LE / NG: ZF=1 or SF<>OF   NE / NZ: ZF=0
//   NO: OF=0    NP / PO: PF=0    NS: SF=0    O: OF=1    P / PE: PF=1    S: SF=1
//   JCXZ: CX = 0 (16-bit count)    JECXZ: ECX = 0 (32-bit count)
// capstone names each condition by ONE mnemonic per instruction family (JA, CMOVA, SETA, ..), the aliases decode to it.

pub enum Cc { O, NO, B, AE, E, NE, BE, A, S, NS, P, NP, L, GE, LE, G }

/// SDM: which condition a mnemonic tests (None: not a flag-conditional instruction)
pub open spec fn sdm_cc(i: x86_insn) -> Option<Cc> {
    match i {
        x86_insn::X86_INS_JO | x86_insn::X86_INS_SETO | x86_insn::X86_INS_CMOVO => Some(Cc::O),
        x86_insn::X86_INS_JNO | x86_insn::X86_INS_SETNO | x86_insn::X86_INS_CMOVNO => Some(Cc::NO),
        x86_insn::X86_INS_JB | x86_insn::X86_INS_SETB | x86_insn::X86_INS_CMOVB => Some(Cc::B),
        x86_insn::X86_INS_JAE | x86_insn::X86_INS_SETAE | x86_insn::X86_INS_CMOVAE => Some(Cc::AE),
        x86_insn::X86_INS_JE | x86_insn::X86_INS_SETE | x86_insn::X86_INS_CMOVE => Some(Cc::E),
        x86_insn::X86_INS_JNE | x86_insn::X86_INS_SETNE | x86_insn::X86_INS_CMOVNE => Some(Cc::NE),
        x86_insn::X86_INS_JBE | x86_insn::X86_INS_SETBE | x86_insn::X86_INS_CMOVBE => Some(Cc::BE),
        x86_insn::X86_INS_JA | x86_insn::X86_INS_SETA | x86_insn::X86_INS_CMOVA => Some(Cc::A),
        x86_insn::X86_INS_JS | x86_insn::X86_INS_SETS | x86_insn::X86_INS_CMOVS => Some(Cc::S),
        x86_insn::X86_INS_JNS | x86_insn::X86_INS_SETNS | x86_insn::X86_INS_CMOVNS => Some(Cc::NS),
        x86_insn::X86_INS_JP | x86_insn::X86_INS_SETP | x86_insn::X86_INS_CMOVP => Some(Cc::P),
        x86_insn::X86_INS_JNP | x86_insn::X86_INS_SETNP | x86_insn::X86_INS_CMOVNP => Some(Cc::NP),
        x86_insn::X86_INS_JL | x86_insn::X86_INS_SETL | x86_insn::X86_INS_CMOVL => Some(Cc::L),
        x86_insn::X86_INS_JGE | x86_insn::X86_INS_SETGE | x86_insn::X86_INS_CMOVGE => Some(Cc::GE),
        x86_insn::X86_INS_JLE | x86_insn::X86_INS_SETLE | x86_insn::X86_INS_CMOVLE => Some(Cc::LE),
        x86_insn::X86_INS_JG | x86_insn::X86_INS_SETG | x86_insn::X86_INS_CMOVG => Some(Cc::G),
        _ => None,
    }
}

pub struct Flags { pub cf: bool, pub zf: bool, pub sf: bool, pub of: bool, pub pf: bool }

/// SDM appendix B: the condition holds in a flag state
pub open spec fn sdm_holds(cc: Cc, f: Flags) -> bool {
    match cc {
        Cc::O => f.of, Cc::NO => !f.of,
        Cc::B => f.cf, Cc::AE => !f.cf,
        Cc::E => f.zf, Cc::NE => !f.zf,
        Cc::BE => f.cf || f.zf, Cc::A => !f.cf && !f.zf,
        Cc::S => f.sf, Cc::NS => !f.sf,
        Cc::P => f.pf, Cc::NP => !f.pf,
        Cc::L => f.sf != f.of, Cc::GE => f.sf == f.of,
        Cc::LE => f.zf || f.sf != f.of, Cc::G => !f.zf && f.sf == f.of,
    }
}

/// the value of a 1-bit flag scalar in an IL state
/// the value of a scalar in an IL state
pub open spec fn sv(env: Env, s: Scalar) -> nat { match env(s) { Some((w, v)) => v, None => 0 } }
pub open spec fn fl(env: Env, name: Seq<char>) -> nat { sv(env, flag_scalar(name)) }
pub open spec fn flags_bound(env: Env) -> bool {
    env(flag_scalar("CF"@)) is Some && env(flag_scalar("ZF"@)) is Some && env(flag_scalar("SF"@)) is Some && env(flag_scalar("OF"@)) is Some && env(flag_scalar("PF"@)) is Some
}
pub open spec fn flags_of(env: Env) -> Flags {
    Flags { cf: fl(env, "CF"@) == 1, zf: fl(env, "ZF"@) == 1, sf: fl(env, "SF"@) == 1, of: fl(env, "OF"@) == 1, pf: fl(env, "PF"@) == 1 }
}

/// in every IL state that binds the flags, `e` evaluates to 1 exactly when the SDM condition holds
pub open spec fn cc_env_ok(e: Expression, cc: Cc, env: Env) -> bool {
    (env_sorted(env) && flags_bound(env)) ==> eval_spec(e, env) == EvalR::Val(1, b2n(sdm_holds(cc, flags_of(env))))
}
pub open spec fn cc_result_ok(r: Result<Expression, Error>, cc: Cc) -> bool {
    r matches Ok(e) && expr_wf(e) && expr_bits(e) == 1 && (forall|env: Env| #[trigger] cc_env_ok(e, cc, env))
}

// ---- flag formulas: a truth-table interpreter for the 1-bit expressions cc_condition builds -------------------------------
/// truth value of a flag formula under a valuation of the 1-bit scalars (None: not a flag formula)
pub open spec fn feval(e: Expression, val: spec_fn(Scalar) -> bool) -> Option<bool>
    decreases e,
{
    match e {
        Expression::Scalar(s) => if s.bits == 1 { Some(val(s)) } else { None },
        Expression::Constant(c) => if c.bits == 1 && c.wf() { Some(c.value@ == 1) } else { None },
        Expression::Cmpeq(l, r) => match (feval(*l, val), feval(*r, val)) { (Some(a), Some(b)) => Some(a == b), _ => None },
        Expression::Cmpneq(l, r) => match (feval(*l, val), feval(*r, val)) { (Some(a), Some(b)) => Some(a != b), _ => None },
        Expression::And(l, r) => match (feval(*l, val), feval(*r, val)) { (Some(a), Some(b)) => Some(a && b), _ => None },
        Expression::Or(l, r) => match (feval(*l, val), feval(*r, val)) { (Some(a), Some(b)) => Some(a || b), _ => None },
        _ => None,
    }
}
/// every scalar of the formula is one of the five flag scalars
pub open spec fn only_flags(e: Expression) -> bool
    decreases e,
{
    match e {
        Expression::Scalar(s) => s == flag_scalar("CF"@) || s == flag_scalar("ZF"@) || s == flag_scalar("SF"@) || s == flag_scalar("OF"@) || s == flag_scalar("PF"@),
        Expression::Cmpeq(l, r) | Expression::Cmpneq(l, r) | Expression::And(l, r) | Expression::Or(l, r) => only_flags(*l) && only_flags(*r),
        _ => true,
    }
}
pub open spec fn val_of(env: Env) -> spec_fn(Scalar) -> bool { |s: Scalar| sv(env, s) == 1 }
pub open spec fn flags_val(val: spec_fn(Scalar) -> bool) -> Flags {
    Flags { cf: val(flag_scalar("CF"@)), zf: val(flag_scalar("ZF"@)), sf: val(flag_scalar("SF"@)), of: val(flag_scalar("OF"@)), pf: val(flag_scalar("PF"@)) }
}
/// the truth table of `e` over ALL valuations of the flags is the SDM condition
pub open spec fn cc_table_ok(e: Expression, cc: Cc, val: spec_fn(Scalar) -> bool) -> bool { feval(e, val) == Some(sdm_holds(cc, flags_val(val))) }
pub open spec fn cc_formula_ok(r: Result<Expression, Error>, cc: Cc) -> bool {
    r matches Ok(e) && expr_wf(e) && expr_bits(e) == 1 && only_flags(e) && (forall|val: spec_fn(Scalar) -> bool| #[trigger] cc_table_ok(e, cc, val))
}

/// soundness of the interpreter: in a state that binds the flags a flag formula evaluates to its truth value
pub proof fn lemma_feval_sound(e: Expression, env: Env)
    requires expr_wf(e), env_sorted(env), flags_bound(env), only_flags(e), feval(e, val_of(env)) is Some,
    ensures eval_spec(e, env) == EvalR::Val(1, b2n(feval(e, val_of(env))->Some_0)),
    decreases e,
{
    lemma2_to64();
    assert(pow2(1) == 2);
    match e {
        Expression::Scalar(s) => { lemma_scalar_bit(s, env); assert(env(s) is Some); }
        Expression::Constant(c) => { }
        Expression::Cmpeq(l, r) => { lemma_feval_sound(*l, env); lemma_feval_sound(*r, env); reveal(bv_cmpeq); }
        Expression::Cmpneq(l, r) => { lemma_feval_sound(*l, env); lemma_feval_sound(*r, env); reveal(bv_cmpneq); }
        Expression::And(l, r) => { lemma_feval_sound(*l, env); lemma_feval_sound(*r, env); lemma_bool_ops(*l, *r, env); }
        Expression::Or(l, r) => { lemma_feval_sound(*l, env); lemma_feval_sound(*r, env); lemma_bool_ops(*l, *r, env); }
        _ => { }
    }
}

/// the truth-table statement implies the statement about IL states (the property's wording)
pub proof fn lemma_formula_semantics(r: Result<Expression, Error>, cc: Cc)
    requires cc_formula_ok(r, cc),
    ensures cc_result_ok(r, cc),
{
    let e = r->Ok_0;
    assert forall|env: Env| #[trigger] cc_env_ok(e, cc, env) by {
        if env_sorted(env) && flags_bound(env) {
            let val = val_of(env);
            assert(cc_table_ok(e, cc, val));
            lemma_feval_sound(e, env);
            assert(flags_val(val) == flags_of(env));
        }
    }
}

/// `e` is 1 exactly when register `x` reads as zero
pub open spec fn count_env_ok(e: Expression, x: X86Register, env: Env) -> bool {
    env_sorted(env) ==> (reg_read(x, env) matches EvalR::Val(w, v) ==> eval_spec(e, env) == EvalR::Val(1, b2n(v == 0)))
}
/// JCXZ / JECXZ: the tested register is the record with capstone id `id` of the mode's table, it is the low `bits` bits of
/// the mode's count register (ECX / RCX), and the condition is "that register reads as zero"
pub open spec fn count_test_ok(r: Result<Expression, Error>, mode: Mode, id: x86_reg, bits: usize) -> bool {
    match lookup(table_of(mode), id) {
        Some(k) => {
            let x = table_of(mode)[k];
            &&& x.bits == bits && x.offset == 0
            &&& x.full_reg == (match mode { Mode::X86 => x86_reg::X86_REG_ECX, Mode::Amd64 => x86_reg::X86_REG_RCX })
            &&& r matches Ok(e) && expr_wf(e) && expr_bits(e) == 1 && (forall|env: Env| #[trigger] count_env_ok(e, x, env))
        }
        None => r is Err,
    }
}

pub proof fn lemma_count_records()
    ensures
        lookup(x86_table_spec(), x86_reg::X86_REG_CX) matches Some(k) && x86_table_spec()[k].bits == 16 && x86_table_spec()[k].offset == 0 && x86_table_spec()[k].full_reg == x86_reg::X86_REG_ECX,
        lookup(x86_table_spec(), x86_reg::X86_REG_ECX) matches Some(k) && x86_table_spec()[k].bits == 32 && x86_table_spec()[k].offset == 0 && x86_table_spec()[k].full_reg == x86_reg::X86_REG_ECX,
        lookup(amd64_table_spec(), x86_reg::X86_REG_CX) matches Some(k) && amd64_table_spec()[k].bits == 16 && amd64_table_spec()[k].offset == 0 && amd64_table_spec()[k].full_reg == x86_reg::X86_REG_RCX,
        lookup(amd64_table_spec(), x86_reg::X86_REG_ECX) matches Some(k) && amd64_table_spec()[k].bits == 32 && amd64_table_spec()[k].offset == 0 && amd64_table_spec()[k].full_reg == x86_reg::X86_REG_RCX,
{
    assert(lookup(x86_table_spec(), x86_reg::X86_REG_CX) matches Some(k) && x86_table_spec()[k].bits == 16 && x86_table_spec()[k].offset == 0 && x86_table_spec()[k].full_reg == x86_reg::X86_REG_ECX) by (compute);
    assert(lookup(x86_table_spec(), x86_reg::X86_REG_ECX) matches Some(k) && x86_table_spec()[k].bits == 32 && x86_table_spec()[k].offset == 0 && x86_table_spec()[k].full_reg == x86_reg::X86_REG_ECX) by (compute);
    assert(lookup(amd64_table_spec(), x86_reg::X86_REG_CX) matches Some(k) && amd64_table_spec()[k].bits == 16 && amd64_table_spec()[k].offset == 0 && amd64_table_spec()[k].full_reg == x86_reg::X86_REG_RCX) by (compute);
    assert(lookup(amd64_table_spec(), x86_reg::X86_REG_ECX) matches Some(k) && amd64_table_spec()[k].bits == 32 && amd64_table_spec()[k].offset == 0 && amd64_table_spec()[k].full_reg == x86_reg::X86_REG_RCX) by (compute);
}

// ---- evaluation of the three expression shapes cc_condition builds ----------------------------------------------------
/// 1-bit scalar == constant
pub proof fn lemma_scalar_is(s: Scalar, c: Constant, env: Env)
    requires c.wf(), c.bits == 1, s.bits == 1, env_sorted(env), env(s) is Some,
    ensures eval_spec(Expression::Cmpeq(Box::new(Expression::Scalar(s)), Box::new(Expression::Constant(c))), env) == EvalR::Val(1, b2n(sv(env, s) == c.value@)),
{
    reveal(bv_cmpeq);
    assert(eval_spec(Expression::Scalar(s), env) == EvalR::Val(1, sv(env, s)));
    assert(eval_spec(Expression::Constant(c), env) == EvalR::Val(1, c.value@));
}

/// 1-bit scalar == / != 1-bit scalar
pub proof fn lemma_scalar_cmp(a: Scalar, b: Scalar, env: Env)
    requires env_sorted(env), a.bits == 1, b.bits == 1, env(a) is Some, env(b) is Some,
    ensures
        eval_spec(Expression::Cmpeq(Box::new(Expression::Scalar(a)), Box::new(Expression::Scalar(b))), env) == EvalR::Val(1, b2n(sv(env, a) == sv(env, b))),
        eval_spec(Expression::Cmpneq(Box::new(Expression::Scalar(a)), Box::new(Expression::Scalar(b))), env) == EvalR::Val(1, b2n(sv(env, a) != sv(env, b))),
{
    reveal(bv_cmpeq); reveal(bv_cmpneq);
    assert(eval_spec(Expression::Scalar(a), env) == EvalR::Val(1, sv(env, a)));
    assert(eval_spec(Expression::Scalar(b), env) == EvalR::Val(1, sv(env, b)));
}

/// a 1-bit value
pub open spec fn is_bit(r: EvalR) -> bool { r matches EvalR::Val(w, v) && w == 1 && v < 2 }
pub open spec fn bit_set(r: EvalR) -> bool { r matches EvalR::Val(w, v) && v == 1 }

/// and / or of two 1-bit values
pub proof fn lemma_bool_ops(x: Expression, y: Expression, env: Env)
    requires is_bit(eval_spec(x, env)), is_bit(eval_spec(y, env)),
    ensures
        eval_spec(Expression::And(Box::new(x), Box::new(y)), env) == EvalR::Val(1, b2n(bit_set(eval_spec(x, env)) && bit_set(eval_spec(y, env)))),
        eval_spec(Expression::Or(Box::new(x), Box::new(y)), env) == EvalR::Val(1, b2n(bit_set(eval_spec(x, env)) || bit_set(eval_spec(y, env)))),
{
    reveal(bv_and); reveal(bv_or);
    reveal_with_fuel(nat_and, 3); reveal_with_fuel(nat_or, 3);
    assert(nat_and(1, 1) == 1);
    assert(nat_or(1, 1) == 1);
}

/// 1-bit scalars hold 0 or 1 in a sorted state
pub proof fn lemma_scalar_bit(s: Scalar, env: Env)
    requires env_sorted(env), s.bits == 1,
    ensures sv(env, s) < 2,
{
    lemma2_to64();
    assert(pow2(1) == 2);
    if env(s) is Some { }
}

/// register == 0
pub proof fn lemma_reg_zero(x: X86Register, e: Expression, c: Constant, env: Env)
    requires env_sorted(env), eval_spec(e, env) == reg_read(x, env), c.wf(), c.bits == x.bits, c.value@ == 0,
    ensures count_env_ok(Expression::Cmpeq(Box::new(e), Box::new(Expression::Constant(c))), x, env),
{
    reveal(bv_cmpeq);
    assert(eval_spec(Expression::Constant(c), env) == EvalR::Val(c.bits as nat, c.value@));
}

//@ source lib/translator/x86/semantics.rs
impl<'s> Semantics<'s> {

//@ fn impl<'s> Semantics<'s> :: fn cc_condition
//@ spec
    ensures
        /*@flags*/ self.instruction.id matches capstone::InstrIdArch::X86(i) ==> (sdm_cc(i) matches Some(cc) ==> cc_formula_ok(r, cc)),
        /*@flags_states*/ self.instruction.id matches capstone::InstrIdArch::X86(i) ==> (sdm_cc(i) matches Some(cc) ==> (cc_formula_ok(r, cc) ==> cc_result_ok(r, cc))),
        /*@jcxz*/ self.instruction.id matches capstone::InstrIdArch::X86(i) ==> i == x86_insn::X86_INS_JCXZ ==> count_test_ok(r, *self.mode, x86_reg::X86_REG_CX, 16),
        /*@jecxz*/ self.instruction.id matches capstone::InstrIdArch::X86(i) ==> i == x86_insn::X86_INS_JECXZ ==> count_test_ok(r, *self.mode, x86_reg::X86_REG_ECX, 32),
        /*@other*/ self.instruction.id matches capstone::InstrIdArch::X86(i) ==> (sdm_cc(i) is None && i != x86_insn::X86_INS_JCXZ && i != x86_insn::X86_INS_JECXZ) ==> r is Err,
        /*@not_x86*/ self.instruction.id is Other ==> r is Err,
//@ enter
    proof {
        broadcast use crate::strmap::axiom_into_string_str;
        lemma2_to64();
        assert(pow2(1) == 2);
        lemma_count_records();
        reveal_with_fuel(expr_wf, 3); reveal_with_fuel(expr_bits, 3);
        lemma_pow2_pos(16); lemma_pow2_pos(32);
        lemma_small_mod(0, pow2(16)); lemma_small_mod(0, pow2(32)); lemma_small_mod(0, 2); lemma_small_mod(1, 2);
        reveal_with_fuel(feval, 4); reveal_with_fuel(only_flags, 4);
        assert forall|r0: Result<Expression, Error>, cc: Cc| #[trigger] cc_formula_ok(r0, cc) implies cc_result_ok(r0, cc) by { lemma_formula_semantics(r0, cc); }
        assert forall|x: X86Register, e: Expression, c: Constant, env: Env| (env_sorted(env) && eval_spec(e, env) == reg_read(x, env) && c.wf() && c.bits == x.bits && c.value@ == 0)
            implies #[trigger] count_env_ok(Expression::Cmpeq(Box::new(e), Box::new(Expression::Constant(c))), x, env) by { lemma_reg_zero(x, e, c, env); }
    }
//@ end

} // impl Semantics (cond.rs)
