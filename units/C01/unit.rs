// Unit C01 (PARTIAL / residual) - the sub-register and flag machinery every lifted x86 / x86-64 instruction goes
// through: translator::x86::x86register (the two register tables, get_register, X86Register::{bits, is_full,
// get_full, get, set}) and the flag helpers of translator::x86::semantics (set_zf, set_sf, set_of, set_cf).
// Extended: condition codes / count registers / stack helpers (cond.rs, addr.rs, stack.rs), operand decoding - effective
// address, operand_value / operand_load / operand_store (operand.rs) - and the repeat prefixes rep_prefix / repne_prefix
// (rep.rs, over unit C15's ControlFlowGraph edit contracts: cfg_glue.rs).
// Generated file = this template + the real text of the items named in the `//@` holes.
// Imported under contract: il::{Constant, Scalar, Expression}, eval_spec (C04); il core + Block::assign (C15);
// graph (C11, only because il::ControlFlowGraph's definition mentions it).
#![feature(allocator_api)]
#![allow(unused_imports, unused_variables, dead_code, unused_mut, non_snake_case, non_camel_case_types, unused_parens, unused_braces, deprecated)]
use vstd::prelude::*;
use vstd::arithmetic::power2::*;
use vstd::arithmetic::div_mod::*;
use vstd::arithmetic::mul::*;
use std::ops::*;
use std::cmp;
use std::cmp::Ordering;
use std::collections::{BTreeMap, BTreeSet, VecDeque};
use std::fmt;
use std::rc::Rc;

verus! {

//@ include spec/bv.rs
//@ include prelude/bigint.rs
//@ include prelude/error.rs
//@ include prelude/fxhash.rs
//@ include prelude/stdcoll.rs
//@ include prelude/rc_asref.rs
//@ include prelude/strmap.rs
//@ include prelude/capstone_x86.rs
//@ include prelude/capstone_x86_insn.rs
//@ include prelude/int_std.rs
//@ mode contracts-only C11
//@ include units/C11/error_from.rs
//@ mode contracts-only C15
//@ include units/C15/error_from_string.rs
//@ mode full

// falcon::RC (default build, feature "thread_safe" off): the real alias, extracted
//@ item lib/lib.rs :: type RC#0

pub mod graph {
use super::*;
use vstd::std_specs::iter::IteratorSpec;
use rustc_hash::{FxHashMap, FxHashSet};
broadcast use {rustc_hash::axiom_fx_builds_valid_hashers, stdcoll::axiom_btreemap_index_req, stdcoll::axiom_hashmap_index_req, stdcoll::axiom_usize_pair_obeys_key_model};
//@ mode contracts-only C11
//@ include units/C11/graph_core.rs
//@ mode full
proof fn vf_canary_graph() ensures false {}
} // mod graph

pub mod il {
use super::*;
use super::strmap::*;
use vstd::std_specs::iter::IteratorSpec;
// il::ProgramLocation (lib/il/location.rs) is only a payload of falcon::Error here: opaque stand-in
#[verifier::external_body] pub struct ProgramLocation { _p: () }
//@ mode contracts-only C15
//@ include units/C15/il_core.rs
use super::graph::{Vertex as GraphVertexTrait, Edge as GraphEdgeTrait};
//@ include units/C15/block_edit.rs
//@ mode contracts-only C04
//@ include units/C04/builders.rs
//@ mode full
//@ include units/C01/bits.rs
//@ include units/C01/il_glue.rs
//@ include units/C01/il_glue2.rs
//@ include units/C01/cfg_glue.rs
proof fn vf_canary_il() ensures false {}
} // mod il

pub mod translator {
pub mod x86 {
use crate::*;
use crate::il::*;
use crate::il::Expression as Expr;
use crate::strmap::*;
use crate::capstone_x86i::capstone;
use crate::capstone_x86::capstone_sys::x86_reg;
use crate::capstone_x86i::capstone_sys::{x86_insn, x86_op_type, cs_x86_op, x86_op_mem};
use vstd::std_specs::iter::IteratorSpec;
//@ include units/C01/regs.rs
//@ include units/C01/flags.rs
//@ include units/C01/cond.rs
//@ include units/C01/addr.rs
//@ include units/C01/stack.rs
//@ include units/C01/operand.rs
//@ include units/C01/rep.rs
proof fn vf_canary_x86() ensures false {}
} // mod x86
} // mod translator

proof fn vf_canary_root() ensures false {}

} // verus!

fn main() {}
