// ---- units/C01/stack.rs: Mode::push_value / Mode::pop_value (the text of the tree with units/C01/proposed_fix_4.diff)
// ORACLE: Intel SDM vol. 2 "PUSH" / "POP": PUSH decrements the stack pointer by the OPERAND size and then stores the
// operand at the new top of stack - the operand is evaluated BEFORE the stack pointer changes (push esp pushes the old
// value); POP loads the operand-size value at the top of stack and then increments the stack pointer by the operand size.

/// the scalar that holds the stack pointer of a mode
pub open spec fn sp_scalar(mode: Mode) -> Scalar { match mode { Mode::X86 => named_scalar("esp"@, 32), Mode::Amd64 => named_scalar("rsp"@, 64) } }
pub open spec fn mode_bits(mode: Mode) -> usize { match mode { Mode::X86 => 32, Mode::Amd64 => 64 } }

/// sp - n / sp + n with a constant of the mode's width
pub open spec fn sp_moved(e: Expression, mode: Mode, down: bool, n: nat) -> bool {
    &&& (if down { e matches Expression::Sub(l, r) && *l == Expression::Scalar(sp_scalar(mode)) && (*r matches Expression::Constant(c) && c.wf() && c.bits == mode_bits(mode) && c.value@ == n) }
         else { e matches Expression::Add(l, r) && *l == Expression::Scalar(sp_scalar(mode)) && (*r matches Expression::Constant(c) && c.wf() && c.bits == mode_bits(mode) && c.value@ == n) })
}

/// push: exactly two instructions are appended: [sp - size] := value ; sp := sp - size (the store comes first: its address
/// and its value are evaluated in the state before the stack pointer changes)
pub open spec fn pushed(b0: Block, b1: Block, mode: Mode, value: Expression) -> bool {
    &&& b1.index == b0.index && b1.phi_nodes == b0.phi_nodes && b1.next_instruction_index == b0.next_instruction_index + 2
    &&& b1.instructions@.len() == b0.instructions@.len() + 2
    &&& b1.instructions@.subrange(0, b0.instructions@.len() as int) =~= b0.instructions@
    &&& b1.instructions@[b0.instructions@.len() as int].operation matches Operation::Store { index, src }
    &&& src == value && sp_moved(index, mode, true, expr_bits(value) / 8)
    &&& b1.instructions@[b0.instructions@.len() as int + 1].operation matches Operation::Assign { dst, src: src2 }
    &&& dst == sp_scalar(mode) && src2 == index
}

/// pop: exactly two instructions are appended: temp := [sp] (a load of `bits` bits) ; sp := sp + bits / 8
pub open spec fn popped(b0: Block, b1: Block, mode: Mode, bits: usize, r: Expression) -> bool {
    &&& b1.index == b0.index && b1.phi_nodes == b0.phi_nodes && b1.next_instruction_index == b0.next_instruction_index + 2
    &&& b1.instructions@.len() == b0.instructions@.len() + 2
    &&& b1.instructions@.subrange(0, b0.instructions@.len() as int) =~= b0.instructions@
    &&& b1.instructions@[b0.instructions@.len() as int].operation matches Operation::Load { dst, index }
    &&& r == Expression::Scalar(dst) && dst.bits == bits && dst.ssa is None && index == Expression::Scalar(sp_scalar(mode))
    &&& b1.instructions@[b0.instructions@.len() as int + 1].operation matches Operation::Assign { dst: dst2, src }
    &&& dst2 == sp_scalar(mode) && sp_moved(src, mode, false, (bits / 8) as nat)
}

//@ source lib/translator/x86/mode.rs
impl Mode {

//@ fn impl Mode :: fn push_value
//@ spec
    requires
        expr_wf(value), expr_bits(value) / 8 < pow2(32),
        old(block).block_wf(), old(block).next_instruction_index < usize::MAX - 1,
    ensures
        /*@wf*/ final(block).block_wf(),
        /*@ok*/ r is Ok,
        /*@pushed*/ pushed(*old(block), *final(block), *self, value),
//@ enter
    proof {
        lemma_expr_wf_bits(value);
        lemma2_to64();
        lemma_pow2_strictly_increases(32, 64);
        lemma_small_mod(expr_bits(value) / 8, pow2(32));
        lemma_small_mod(expr_bits(value) / 8, pow2(64));
    }
//@ before 0 `Ok(`
    proof {
        let b0 = *old(block);
        let n = b0.instructions@.len() as int;
        assert(block.instructions@.subrange(0, n) =~= b0.instructions@);
    }
//@ end

//@ fn impl Mode :: fn pop_value
//@ spec
    requires
        1 <= bits, bits as nat <= MAX_BITS(),
        old(block).block_wf(), old(block).next_instruction_index < usize::MAX - 1,
    ensures
        /*@wf*/ final(block).block_wf(),
        /*@ok*/ r is Ok,
        /*@popped*/ r matches Ok(e) ==> popped(*old(block), *final(block), *self, bits, e),
//@ enter
    proof {
        lemma2_to64();
        lemma_pow2_strictly_increases(32, 64);
        lemma_small_mod((bits / 8) as nat, pow2(32));
        lemma_small_mod((bits / 8) as nat, pow2(64));
    }
//@ before 0 `Ok(`
    proof {
        let b0 = *old(block);
        let n = b0.instructions@.len() as int;
        assert(block.instructions@.subrange(0, n) =~= b0.instructions@);
    }
//@ end

} // impl Mode (stack.rs)
