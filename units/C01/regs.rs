// ---- units/C01/regs.rs: translator::x86::{mode::Mode, x86register::*}
//@ source lib/translator/x86/mode.rs
//@ item enum Mode

// derive(Clone) of Mode (a field-less enum): structural copy
impl Clone for Mode {
    #[verifier::external_body]
    fn clone(&self) -> (r: Mode) ensures r == *self { unimplemented!() }
}

//@ source lib/translator/x86/x86register.rs
//@ item struct X86Register

// ---- the two register tables. Each is extracted TWICE from the same source text:
//  (1) as the executable constant (Verus needs `exec const NAME: &'static [T] ensures .. { .. }` instead of
//      `const NAME: &[T] = &[..];`), with the postcondition that its value IS the sequence (2);
//  (2) as a spec function returning the same literal as a mathematical sequence (`seq![..]`), which is what the
//      contracts talk about. Verus proves (1) == (2) element by element on every run.
//@ itemx const X86REGISTERS
//@ rewrite 1 `const X86REGISTERS: &[X86Register] = &[` => `const X86REGISTERS_TWIN: () = (); pub open spec fn x86_table_spec() -> Seq<X86Register> { seq![` ## R-table-twin: ghost twin of the table: the same literal read as a mathematical sequence (a dummy constant keeps the item a `const` for the extractor); spec-only, no executable token involved
//@ rewrite 1 `] ;` => `] }` ## R-table-twin: closes the spec function
//@ end
//@ itemx const AMD64REGISTERS
//@ rewrite 1 `const AMD64REGISTERS: &[X86Register] = &[` => `const AMD64REGISTERS_TWIN: () = (); pub open spec fn amd64_table_spec() -> Seq<X86Register> { seq![` ## R-table-twin: ghost twin of the table: the same literal read as a mathematical sequence (a dummy constant keeps the item a `const` for the extractor); spec-only, no executable token involved
//@ rewrite 1 `] ;` => `] }` ## R-table-twin: closes the spec function
//@ end

//@ itemx const X86REGISTERS exec_const
//@ rewrite 1 `const X86REGISTERS: &[X86Register] = &[` => `const X86REGISTERS: &'static [X86Register] ensures X86REGISTERS@ =~= x86_table_spec() { let vf_table: &'static [X86Register] = &[` ## R-exec-const: Verus takes a slice constant only in the block form `exec const N: &'static [T] ensures .. { .. }` (a `const` is implicitly 'static); same literal, same value
//@ rewrite 1 `] ;` => `]; vf_table } pub const VF_X86REGISTERS_END: () = ();` ## R-exec-const: closes the block (the unit constant after it only gives tools/rsx.py the `;` it expects at the end of a `const` item)
//@ end
//@ itemx const AMD64REGISTERS exec_const
//@ rewrite 1 `const AMD64REGISTERS: &[X86Register] = &[` => `const AMD64REGISTERS: &'static [X86Register] ensures AMD64REGISTERS@ =~= amd64_table_spec() { let vf_table: &'static [X86Register] = &[` ## R-exec-const: Verus takes a slice constant only in the block form `exec const N: &'static [T] ensures .. { .. }` (a `const` is implicitly 'static); same literal, same value
//@ rewrite 1 `] ;` => `]; vf_table } pub const VF_AMD64REGISTERS_END: () = ();` ## R-exec-const: closes the block (the unit constant after it only gives tools/rsx.py the `;` it expects at the end of a `const` item)
//@ end

/// the register table of a mode, as a mathematical sequence
pub open spec fn table_of(mode: Mode) -> Seq<X86Register> {
    match mode { Mode::X86 => x86_table_spec(), Mode::Amd64 => amd64_table_spec() }
}

/// index of the first record at or after `k` whose capstone id is `id`
pub open spec fn lookup_from(t: Seq<X86Register>, id: x86_reg, k: int) -> Option<int>
    decreases t.len() - k,
{
    if k < 0 || k >= t.len() { None } else if t[k].capstone_reg == id { Some(k) } else { lookup_from(t, id, k + 1) }
}

pub open spec fn lookup(t: Seq<X86Register>, id: x86_reg) -> Option<int> { lookup_from(t, id, 0) }

//@ fn fn get_register
//@ rewrite 1 `registers.iter()` => `it: registers.iter()` ## R-iter-name: names the ghost iterator of the `for` loop (no executable change)
//@ spec
    ensures
        /*@found*/ lookup(table_of(*mode), capstone_id) matches Some(k) ==> (r matches Ok(x) && *x == table_of(*mode)[k]),
        /*@missing*/ lookup(table_of(*mode), capstone_id) is None ==> (r matches Err(e) && e is Custom),
        /*@inv*/ r matches Ok(x) ==> x.rec_ok() && x.mode == *mode && x.capstone_reg == capstone_id,
//@ loop 0
    invariant
        registers@ =~= table_of(*mode),
        it.seq().len() == registers@.len(),
        forall|j: int| 0 <= j < it.seq().len() ==> *#[trigger] it.seq()[j] == registers@[j],
        lookup(table_of(*mode), capstone_id) == lookup_from(table_of(*mode), capstone_id, it.index@ as int),
//@ before 0 `return Ok(register)`
    proof { lemma_table_rec_ok(*mode, it.index@ as int); }
//@ end

// ---- the REGISTER RECORD INVARIANT -----------------------------------------------------------------------------
impl X86Register {
    /// the record of the full register `get_full()` returns for a record satisfying `rec_ok`
    pub open spec fn full_rec(&self) -> X86Register {
        let t = table_of(self.mode);
        t[lookup(t, self.full_reg).unwrap()]
    }

    /// `self` names its full register `f` correctly: `f` is a full register of the same mode that starts at bit 0 and is
    /// 32 / 64 (general purpose, segment base) or 128 (XMM) bits wide, `self` is a bit range of an architectural width
    /// (8, 16, 32, 64, 128) inside it,
    /// a full register is its own full register, and a proper sub-register is strictly narrower than a (<= 64-bit) full one
    pub open spec fn rec_ok(&self) -> bool {
        let t = table_of(self.mode);
        &&& lookup(t, self.full_reg) is Some
        &&& ({ let f = self.full_rec();
            &&& f.capstone_reg == f.full_reg
            &&& f.mode == self.mode
            &&& f.offset == 0
            &&& (f.bits == 32 || f.bits == 64 || f.bits == 128)
            &&& (self.bits == 8 || self.bits == 16 || self.bits == 32 || self.bits == 64 || self.bits == 128)
            &&& self.offset + self.bits <= f.bits
            &&& (self.capstone_reg == self.full_reg ==> *self == f)
            &&& (self.capstone_reg != self.full_reg ==> f.bits <= 64 && self.bits < f.bits) })
    }
}

pub open spec fn recs_ok_from(t: Seq<X86Register>, mode: Mode, k: int) -> bool
    decreases t.len() - k,
{
    if k < 0 || k >= t.len() { true } else { t[k].rec_ok() && t[k].mode == mode && recs_ok_from(t, mode, k + 1) }
}

pub proof fn lemma_recs_ok(t: Seq<X86Register>, mode: Mode, k: int, i: int)
    requires recs_ok_from(t, mode, k), 0 <= k <= i < t.len(),
    ensures t[i].rec_ok(), t[i].mode == mode,
    decreases i - k,
{
    if k < i { lemma_recs_ok(t, mode, k + 1, i); }
}

pub proof fn lemma_x86_table_ok()
    ensures recs_ok_from(x86_table_spec(), Mode::X86, 0),
{
    assert(recs_ok_from(x86_table_spec(), Mode::X86, 0)) by (compute);
}

pub proof fn lemma_amd64_table_ok()
    ensures recs_ok_from(amd64_table_spec(), Mode::Amd64, 0),
{
    assert(recs_ok_from(amd64_table_spec(), Mode::Amd64, 0)) by (compute);
}

// ---- meaning of a register read / write ----------------------------------------------------------------------------

/// the IL scalar that holds the full register `f`
pub open spec fn reg_scalar(f: X86Register) -> Scalar { named_scalar(f.name@, f.bits) }

/// reading register `x` in an IL state: the bit range [offset, offset + bits) of the scalar of its full register
pub open spec fn reg_read(x: X86Register, env: Env) -> EvalR {
    let f = x.full_rec();
    match env(reg_scalar(f)) {
        Some((w, full)) => EvalR::Val(x.bits as nat, extract(full, x.offset as nat, x.bits as nat)),
        None => EvalR::ErrScalar(reg_scalar(f).name@),
    }
}

/// x86 architecture: the new content of the full register after `v` (a value of x's width) is written to register `x`:
/// a write to the full register or to a 32-bit register in 64-bit mode (zero-extension) replaces everything;
/// a write to an 8- or 16-bit register replaces exactly its bit range and leaves every other bit unchanged
pub open spec fn write_val(x: X86Register, full: nat, v: nat) -> nat {
    let f = x.full_rec();
    if x.bits == f.bits { v }
    else if x.bits == 32 && f.bits == 64 && x.offset == 0 { v }
    else { replace_bits(full, x.offset as nat, x.bits as nat, v) }
}

/// `src` computes the new content of the full register from the written value and the old content
pub open spec fn write_ok(x: X86Register, value: Expression, src: Expression, env: Env) -> bool {
    let f = x.full_rec();
    match eval_spec(value, env) {
        EvalR::Val(w, v) => match env(reg_scalar(f)) {
            Some((fw, full)) => eval_spec(src, env) == EvalR::Val(f.bits as nat, write_val(x, full, v)),
            None => true,
        },
        _ => true,
    }
}

/// the effect of `x.set(block, value)`: exactly one instruction is appended, `full(x) = src`
pub open spec fn set_effect(x: X86Register, value: Expression, b0: Block, b1: Block) -> bool {
    let f = x.full_rec();
    &&& b1.instructions@.len() == b0.instructions@.len() + 1
    &&& b1.instructions@.last().operation matches Operation::Assign { dst, src }
    &&& b1.pushed_op(b0, Operation::Assign { dst, src })
    &&& dst == reg_scalar(f)
    &&& expr_wf(src) && expr_bits(src) == f.bits
    &&& (x.capstone_reg == x.full_reg ==> src == value)
    &&& forall|env: Env| env_sorted(env) ==> #[trigger] write_ok(x, value, src, env)
}

pub proof fn lemma_lookup_found(t: Seq<X86Register>, id: x86_reg, k: int)
    requires 0 <= k,
    ensures lookup_from(t, id, k) matches Some(j) ==> k <= j < t.len() && t[j].capstone_reg == id,
    decreases t.len() - k,
{
    if k < t.len() && t[k].capstone_reg != id { lemma_lookup_found(t, id, k + 1); }
}

/// the full register of a record satisfying the invariant satisfies it too, and is its own full register
pub proof fn lemma_full_rec_ok(x: X86Register)
    requires x.rec_ok(),
    ensures x.full_rec().rec_ok(), x.full_rec().full_rec() == x.full_rec(), x.full_rec().capstone_reg == x.full_reg,
            x.full_rec().capstone_reg == x.full_rec().full_reg, 1 <= x.full_rec().bits <= MAX_BITS(),
{
    lemma_lookup_found(table_of(x.mode), x.full_reg, 0);
}

/// every record of the real tables satisfies the register record invariant (checked by evaluation of the two
/// extracted tables: lemma_x86_table_ok / lemma_amd64_table_ok)
pub proof fn lemma_table_rec_ok(mode: Mode, k: int)
    requires 0 <= k < table_of(mode).len(),
    ensures table_of(mode)[k].rec_ok(), table_of(mode)[k].mode == mode,
{
    match mode {
        Mode::X86 => { lemma_x86_table_ok(); lemma_recs_ok(x86_table_spec(), Mode::X86, 0, k); }
        Mode::Amd64 => { lemma_amd64_table_ok(); lemma_recs_ok(amd64_table_spec(), Mode::Amd64, 0, k); }
    }
}

// ---- evaluation lemmas, one per shape of expression that get / set build ---------------------------------------------

pub proof fn lemma_read_full(f: X86Register, env: Env)
    requires f.rec_ok(), f.capstone_reg == f.full_reg, env_sorted(env),
    ensures eval_spec(Expression::Scalar(reg_scalar(f)), env) == reg_read(f, env),
{
    let s = reg_scalar(f);
    lemma_full_rec_ok(f);
    if let Some((w, full)) = env(s) {
        lemma_extract_low(full, f.bits as nat);
        lemma_small_mod(full, pow2(f.bits as nat));
    }
}

pub proof fn lemma_read_low(x: X86Register, ef: Expression, env: Env)
    requires
        x.rec_ok(), x.capstone_reg != x.full_reg, x.offset == 0, env_sorted(env),
        expr_wf(ef), expr_bits(ef) == x.full_rec().bits, eval_spec(ef, env) == reg_read(x.full_rec(), env),
    ensures eval_spec(Expression::Trun(x.bits, Box::new(ef)), env) == reg_read(x, env),
{
    let f = x.full_rec();
    lemma_full_rec_ok(x);
    reveal(bv_trun);
    if let Some((w, full)) = env(reg_scalar(f)) {
        lemma_extract_low(full, f.bits as nat);
        lemma_small_mod(full, pow2(f.bits as nat));
        lemma_extract_low(full, x.bits as nat);
    }
}

pub proof fn lemma_read_high(x: X86Register, ef: Expression, c: Constant, env: Env)
    requires
        x.rec_ok(), x.capstone_reg != x.full_reg, env_sorted(env),
        expr_wf(ef), expr_bits(ef) == x.full_rec().bits, eval_spec(ef, env) == reg_read(x.full_rec(), env),
        c.wf(), c.bits == x.full_rec().bits, c.value@ == x.offset,
    ensures eval_spec(Expression::Trun(x.bits, Box::new(Expression::Shr(Box::new(ef), Box::new(Expression::Constant(c))))), env) == reg_read(x, env),
{
    let f = x.full_rec();
    lemma_full_rec_ok(x);
    reveal(bv_trun); reveal(bv_shr);
    let sh = Expression::Shr(Box::new(ef), Box::new(Expression::Constant(c)));
    assert(eval_spec(Expression::Constant(c), env) == EvalR::Val(c.bits as nat, c.value@));
    assert(eval_spec(sh, env) == bin_spec(BinOp::Shr, eval_spec(ef, env), EvalR::Val(c.bits as nat, c.value@)));
    if let Some((w, full)) = env(reg_scalar(f)) {
        lemma_extract_low(full, f.bits as nat);
        lemma_small_mod(full, pow2(f.bits as nat));
    }
}

impl X86Register {

//@ fn impl X86Register :: fn bits
//@ spec
    ensures /*@field*/ r == self.bits,
//@ end

//@ fn impl X86Register :: fn is_full
//@ spec
    ensures /*@spec*/ r == (self.capstone_reg == self.full_reg),
//@ end

//@ fn impl X86Register :: fn get_full
//@ spec
    ensures
        /*@full*/ self.rec_ok() ==> (r matches Ok(f) && *f == self.full_rec() && f.rec_ok() && f.full_rec() == *f && f.capstone_reg == f.full_reg
            && f.capstone_reg == self.full_reg && f.mode == self.mode),
//@ enter
    proof { if self.rec_ok() { lemma_full_rec_ok(*self); } }
//@ end

//@ fn impl X86Register :: fn get
//@ spec
    requires self.rec_ok(),
    ensures
        /*@ok*/ r matches Ok(e) && expr_wf(e) && expr_bits(e) == self.bits,
        /*@value*/ r matches Ok(e) && (forall|env: Env| env_sorted(env) ==> #[trigger] eval_spec(e, env) == reg_read(*self, env)),
    decreases (if self.capstone_reg == self.full_reg { 0nat } else { 1nat }),
//@ enter
    proof {
        broadcast use crate::strmap::axiom_into_string_str;
        lemma_full_rec_ok(*self);
        let f = self.full_rec();
        lemma_lt_pow2(f.bits as nat);
        lemma_small_mod(self.offset as nat, pow2(f.bits as nat));
        if self.capstone_reg == self.full_reg {
            assert forall|env: Env| env_sorted(env) implies #[trigger] eval_spec(Expression::Scalar(reg_scalar(*self)), env) == reg_read(*self, env) by {
                lemma_read_full(*self, env);
            }
        } else if self.offset == 0 {
            assert forall|ef: Expression, env: Env| (env_sorted(env) && expr_wf(ef) && expr_bits(ef) == f.bits && eval_spec(ef, env) == reg_read(f, env))
                implies #[trigger] eval_spec(Expression::Trun(self.bits, Box::new(ef)), env) == reg_read(*self, env) by {
                lemma_read_low(*self, ef, env);
            }
        }
    }
//@ before 0 `Expr::trun(self.bits, expr)`
    proof {
        let ef = lhs_of(expr);
        let c = rhs_of(expr)->Constant_0;
        assert(expr_wf(Expression::Constant(c)));
        assert(expr_wf(expr) && expr_bits(expr) == self.full_rec().bits);
        assert(expr_wf(Expression::Trun(self.bits, Box::new(expr))));
        // (the premise on the shift constant keeps a wrong amount from failing HERE: it then fails the named postcondition `value`)
        assert forall|env: Env| (env_sorted(env) && c.value@ == self.offset) implies #[trigger] eval_spec(Expression::Trun(self.bits, Box::new(expr)), env) == reg_read(*self, env) by {
            lemma_read_high(*self, ef, c, env);
        }
    }
//@ end

} // impl X86Register

/// first / second operand of a binary expression, the operand of an extension / truncation (ghost destructuring)
pub open spec fn lhs_of(e: Expression) -> Expression {
    match e {
        Expression::Add(l, _) | Expression::Sub(l, _) | Expression::Mul(l, _) | Expression::Divu(l, _) | Expression::Modu(l, _)
        | Expression::Divs(l, _) | Expression::Mods(l, _) | Expression::And(l, _) | Expression::Or(l, _) | Expression::Xor(l, _)
        | Expression::Shl(l, _) | Expression::Shr(l, _) | Expression::AShr(l, _) | Expression::Cmpeq(l, _) | Expression::Cmpneq(l, _)
        | Expression::Cmplts(l, _) | Expression::Cmpltu(l, _) => *l,
        Expression::Zext(_, x) | Expression::Sext(_, x) | Expression::Trun(_, x) => *x,
        _ => e,
    }
}
pub open spec fn rhs_of(e: Expression) -> Expression {
    match e {
        Expression::Add(_, r) | Expression::Sub(_, r) | Expression::Mul(_, r) | Expression::Divu(_, r) | Expression::Modu(_, r)
        | Expression::Divs(_, r) | Expression::Mods(_, r) | Expression::And(_, r) | Expression::Or(_, r) | Expression::Xor(_, r)
        | Expression::Shl(_, r) | Expression::Shr(_, r) | Expression::AShr(_, r) | Expression::Cmpeq(_, r) | Expression::Cmpneq(_, r)
        | Expression::Cmplts(_, r) | Expression::Cmpltu(_, r) => *r,
        _ => e,
    }
}

// ---- set: the three expression shapes --------------------------------------------------------------------------

pub open spec fn low_src(ef: Expression, cm: Constant, fb: usize, value: Expression) -> Expression {
    Expression::Or(
        Box::new(Expression::And(Box::new(ef), Box::new(Expression::Constant(cm)))),
        Box::new(Expression::Zext(fb, Box::new(value))))
}

pub open spec fn high_src(ef: Expression, cm: Constant, fb: usize, value: Expression, co: Constant) -> Expression {
    Expression::Or(
        Box::new(Expression::And(Box::new(ef), Box::new(Expression::Constant(cm)))),
        Box::new(Expression::Shl(Box::new(Expression::Zext(fb, Box::new(value))), Box::new(Expression::Constant(co)))))
}

/// a write to the full register itself
pub proof fn lemma_write_full(x: X86Register, value: Expression, env: Env)
    requires x.rec_ok(), x.capstone_reg == x.full_reg, env_sorted(env), expr_wf(value), expr_bits(value) == x.bits,
    ensures write_ok(x, value, value, env),
{
    lemma_eval_wf_val(value, env);
}

/// 8- / 16-bit register at offset 0:  full' = (full & (2^Fb - 2^b)) | zext(v)
pub proof fn lemma_write_low(x: X86Register, ef: Expression, cm: Constant, value: Expression, env: Env)
    requires
        x.rec_ok(), x.capstone_reg != x.full_reg, x.offset == 0, x.bits < 32, env_sorted(env),
        expr_wf(value), expr_bits(value) == x.bits,
        expr_wf(ef), expr_bits(ef) == x.full_rec().bits, eval_spec(ef, env) == reg_read(x.full_rec(), env),
        cm.wf(), cm.bits == x.full_rec().bits, cm.value@ == pow2(x.full_rec().bits as nat) - pow2(x.bits as nat),
    ensures write_ok(x, value, low_src(ef, cm, x.full_rec().bits, value), env),
{
    let f = x.full_rec();
    let fb = f.bits as nat;
    let b = x.bits as nat;
    lemma_full_rec_ok(x);
    lemma_eval_wf_val(value, env);
    let anded = Expression::And(Box::new(ef), Box::new(Expression::Constant(cm)));
    let zx = Expression::Zext(f.bits, Box::new(value));
    let src = low_src(ef, cm, f.bits, value);
    assert(eval_spec(Expression::Constant(cm), env) == EvalR::Val(fb, cm.value@));
    assert(eval_spec(anded, env) == bin_spec(BinOp::And, eval_spec(ef, env), EvalR::Val(fb, cm.value@)));
    assert(eval_spec(zx, env) == zext_spec(fb, eval_spec(value, env)));
    assert(eval_spec(src, env) == bin_spec(BinOp::Or, eval_spec(anded, env), eval_spec(zx, env)));
    if let EvalR::Val(w, v) = eval_spec(value, env) {
        if let Some((fw, full)) = env(reg_scalar(f)) {
            reveal(bv_and); reveal(bv_or); reveal(bv_zext);
            lemma_extract_low(full, fb);
            lemma_small_mod(full, pow2(fb));
            lemma_and_himask(full, b, fb);
            lemma_pow2_pos(b);
            lemma_fundamental_div_mod(full as int, pow2(b) as int);
            let q = full / pow2(b);
            assert((full - full % pow2(b)) as nat == q * pow2(b)) by (nonlinear_arith)
                requires full as int == pow2(b) as int * (full as int / pow2(b) as int) + (full % pow2(b)) as int, q as int == full as int / pow2(b) as int, full % pow2(b) <= full;
            lemma_mod_bound(full as int, pow2(b) as int);
            lemma_or_disjoint(q, b, v);
            lemma_extract_low(full, b);
            lemma2_to64();
            assert(pow2(0) == 1);
            assert(extract(full, 0, b) * 1 == extract(full, 0, b));
            assert(v * 1 == v);
        }
    }
}

/// 32-bit register in 64-bit mode:  full' = zext(v)
pub proof fn lemma_write_zext(x: X86Register, value: Expression, env: Env)
    requires
        x.rec_ok(), x.capstone_reg != x.full_reg, x.offset == 0, x.bits == 32, x.full_rec().bits == 64, env_sorted(env),
        expr_wf(value), expr_bits(value) == x.bits,
    ensures write_ok(x, value, Expression::Zext(x.full_rec().bits, Box::new(value)), env),
{
    lemma_eval_wf_val(value, env);
    reveal(bv_zext);
}

/// 8-bit register at offset o > 0 (ah, bh, ch, dh):  full' = (full & ~(((2^b)-1) << o)) | (zext(v) << o)
pub proof fn lemma_write_high(x: X86Register, ef: Expression, cm: Constant, value: Expression, co: Constant, env: Env)
    requires
        x.rec_ok(), x.capstone_reg != x.full_reg, x.offset != 0, env_sorted(env),
        expr_wf(value), expr_bits(value) == x.bits,
        expr_wf(ef), expr_bits(ef) == x.full_rec().bits, eval_spec(ef, env) == reg_read(x.full_rec(), env),
        cm.wf(), cm.bits == x.full_rec().bits,
        cm.value@ == pow2(x.full_rec().bits as nat) - 1 - (pow2(x.bits as nat) - 1) * pow2(x.offset as nat),
        co.wf(), co.bits == x.full_rec().bits, co.value@ == x.offset,
    ensures write_ok(x, value, high_src(ef, cm, x.full_rec().bits, value, co), env),
{
    let f = x.full_rec();
    let fb = f.bits as nat;
    let b = x.bits as nat;
    let o = x.offset as nat;
    lemma_full_rec_ok(x);
    lemma_eval_wf_val(value, env);
    let anded = Expression::And(Box::new(ef), Box::new(Expression::Constant(cm)));
    let zx = Expression::Zext(f.bits, Box::new(value));
    let sh = Expression::Shl(Box::new(zx), Box::new(Expression::Constant(co)));
    let src = high_src(ef, cm, f.bits, value, co);
    assert(eval_spec(Expression::Constant(cm), env) == EvalR::Val(fb, cm.value@));
    assert(eval_spec(Expression::Constant(co), env) == EvalR::Val(fb, co.value@));
    assert(eval_spec(anded, env) == bin_spec(BinOp::And, eval_spec(ef, env), EvalR::Val(fb, cm.value@)));
    assert(eval_spec(zx, env) == zext_spec(fb, eval_spec(value, env)));
    assert(eval_spec(sh, env) == bin_spec(BinOp::Shl, eval_spec(zx, env), EvalR::Val(fb, co.value@)));
    assert(eval_spec(src, env) == bin_spec(BinOp::Or, eval_spec(anded, env), eval_spec(sh, env)));
    if let EvalR::Val(w, v) = eval_spec(value, env) {
        if let Some((fw, full)) = env(reg_scalar(f)) {
            reveal(bv_and); reveal(bv_or); reveal(bv_zext); reveal(bv_shl);
            lemma_extract_low(full, fb);
            lemma_small_mod(full, pow2(fb));
            lemma_and_holemask(full, o, b, fb);
            let e = extract(full, o, b);
            let a = (full - e * pow2(o)) as nat;
            lemma_clear_extract(full, o, b);
            lemma_or_hole(a, o, b, v);
            // v << o does not overflow the width
            lemma_hole_bound(o, b, fb);
            assert(v * pow2(o) < pow2(fb)) by (nonlinear_arith)
                requires v < pow2(b), (pow2(b) - 1) * pow2(o) <= pow2(fb) - 1, pow2(o) >= 1;
            lemma_small_mod(v * pow2(o), pow2(fb));
        }
    }
}

impl X86Register {

//@ fn impl X86Register :: fn set
//@ spec
    requires
        self.rec_ok(), expr_wf(value),
        old(block).block_wf(), old(block).next_instruction_index < usize::MAX,
    ensures
        /*@wf*/ final(block).block_wf(),
        /*@no_sort_error*/ expr_bits(value) == self.bits ==> r is Ok,
        /*@effect_full*/ (expr_bits(value) == self.bits && r is Ok && self.capstone_reg == self.full_reg) ==> set_effect(*self, value, *old(block), *final(block)),
        /*@effect_low*/ (expr_bits(value) == self.bits && r is Ok && self.capstone_reg != self.full_reg && self.offset == 0 && self.bits < 32) ==> set_effect(*self, value, *old(block), *final(block)),
        /*@effect_zext32*/ (expr_bits(value) == self.bits && r is Ok && self.capstone_reg != self.full_reg && self.offset == 0 && self.bits >= 32) ==> set_effect(*self, value, *old(block), *final(block)),
        /*@effect_high*/ (expr_bits(value) == self.bits && r is Ok && self.capstone_reg != self.full_reg && self.offset != 0) ==> set_effect(*self, value, *old(block), *final(block)),
        /*@err_frame*/ r is Err ==> *final(block) == *old(block),
    decreases (if self.capstone_reg == self.full_reg { 0nat } else { 1nat }),
//@ enter
    let ghost value0 = value;
    proof {
        broadcast use crate::strmap::axiom_into_string_str;
        lemma_full_rec_ok(*self);
        lemma_expr_wf_bits(value);
        let f = self.full_rec();
        lemma_lt_pow2(f.bits as nat);
        lemma_small_mod(self.offset as nat, pow2(f.bits as nat));
        if expr_bits(value) == self.bits {
            if self.capstone_reg == self.full_reg {
                assert forall|env: Env| env_sorted(env) implies #[trigger] write_ok(*self, value, value, env) by {
                    lemma_write_full(*self, value, env);
                }
            } else if self.offset == 0 && self.bits == 32 && f.bits == 64 {
                assert forall|env: Env| env_sorted(env) implies #[trigger] write_ok(*self, value, Expression::Zext(f.bits, Box::new(value)), env) by {
                    lemma_write_zext(*self, value, env);
                }
            }
        }
    }
//@ before 0 `let mask`
    proof { lemma_ones_shl(self.bits as u64); }
//@ before 0 `full_reg.set(block, expr)`
    proof {
        let f = self.full_rec();
        let ef = lhs_of(lhs_of(expr));
        let cm = rhs_of(lhs_of(expr))->Constant_0;
        lemma_pow2_mono(self.bits as nat, f.bits as nat);
        lemma_pow2_pos(self.bits as nat);
        lemma_trim_top(pow2(self.bits as nat), f.bits as nat);
        assert(expr_wf(Expression::Constant(cm)));
        assert(expr_wf(lhs_of(expr)));
        assert(expr_wf(rhs_of(expr)));
        assert(expr_wf(expr) && expr_bits(expr) == f.bits);
        if expr_bits(value0) == self.bits {
            assert(expr == low_src(ef, cm, f.bits, value0));
            // (the premises on the width and on the mask constant keep a wrong branch condition / mask from failing HERE: they then fail the named postconditions effect_low / effect_zext32)
            assert forall|env: Env| (env_sorted(env) && self.bits < 32 && cm.value@ == pow2(f.bits as nat) - pow2(self.bits as nat)) implies #[trigger] write_ok(*self, value0, expr, env) by {
                lemma_write_low(*self, ef, cm, value0, env);
            }
        }
    }
//@ before 0 `full_reg.set(block, Expr::zext(`
    proof {
        let f = self.full_rec();
        assert(expr_bits(value0) == self.bits ==> expr_wf(Expression::Zext(f.bits, Box::new(value0))));
    }
//@ before 1 `let mask`
    proof { lemma_range_mask(self.bits as u64, self.offset as u64); }
//@ before 1 `full_reg.set(block, expr)`
    proof {
        let f = self.full_rec();
        let ef = lhs_of(lhs_of(expr));
        let cm = rhs_of(lhs_of(expr))->Constant_0;
        let co = rhs_of(rhs_of(expr))->Constant_0;
        lemma_hole_bound(self.offset as nat, self.bits as nat, f.bits as nat);
        lemma_trim_top((1 + (pow2(self.bits as nat) - 1) * pow2(self.offset as nat)) as nat, f.bits as nat);
        assert(expr_wf(Expression::Constant(cm)));
        assert(expr_wf(Expression::Constant(co)));
        assert(expr_wf(lhs_of(expr)));
        assert(expr_wf(lhs_of(rhs_of(expr))));
        assert(expr_wf(rhs_of(expr)));
        assert(expr_wf(expr) && expr_bits(expr) == f.bits);
        if expr_bits(value0) == self.bits {
            assert(expr == high_src(ef, cm, f.bits, value0, co));
            // (the premise on the mask constant keeps a wrong mask from failing HERE: it then fails the named postcondition effect_high)
            assert forall|env: Env| (env_sorted(env) && co.value@ == self.offset && cm.value@ == pow2(f.bits as nat) - 1 - (pow2(self.bits as nat) - 1) * pow2(self.offset as nat))
                implies #[trigger] write_ok(*self, value0, expr, env) by {
                lemma_write_high(*self, ef, cm, value0, co, env);
            }
        }
    }
//@ end

} // impl X86Register

// ---- translator::x86::mode::Mode: the accessors that do not look at capstone operands ---------------------------------
impl Mode {
//@ source lib/translator/x86/mode.rs
//@ fn impl Mode :: fn get_register
//@ spec
    ensures
        /*@found*/ lookup(table_of(*self), capstone_id) matches Some(k) ==> (r matches Ok(x) && *x == table_of(*self)[k]),
        /*@missing*/ lookup(table_of(*self), capstone_id) is None ==> (r matches Err(e) && e is Custom),
        /*@inv*/ r matches Ok(x) ==> x.rec_ok() && x.mode == *self && x.capstone_reg == capstone_id,
//@ end

//@ fn impl Mode :: fn bits
//@ spec
    ensures /*@width*/ r == (match *self { Mode::X86 => 32usize, Mode::Amd64 => 64usize }),
//@ end

//@ fn impl Mode :: fn sp
//@ spec
    ensures /*@sp*/ r == (match *self { Mode::X86 => named_scalar("esp"@, 32), Mode::Amd64 => named_scalar("rsp"@, 64) }),
//@ enter
    proof { broadcast use crate::strmap::axiom_into_string_str; }
//@ end
}
