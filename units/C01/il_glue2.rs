// ---- units/C01/il_glue2.rs: two more IL helpers the stack helpers call: Expression::from(Scalar) (`.into()`) and
// Scalar::temp. Included inside `pub mod il`.
impl vstd::std_specs::convert::FromSpecImpl<Scalar> for Expression {
    open spec fn obeys_from_spec() -> bool { true }
    open spec fn from_spec(s: Scalar) -> Expression { Expression::Scalar(s) }
}
//@ source lib/il/expression.rs
impl From<Scalar> for Expression {
//@ fn impl From<Scalar> for Expression :: fn from nopub
//@ spec
    ensures r == Expression::Scalar(scalar),
//@ end
}

//@ source lib/il/scalar.rs
impl Scalar {
//@ fn impl Scalar :: fn temp
//@ spec
    ensures /*@fields*/ r.bits == bits && r.ssa is None,
//@ end
}
