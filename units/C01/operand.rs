// ---- units/C01/operand.rs: operand decoding of the x86 / x86-64 lifter: Mode::get_register_expression, operand_offset,
// operand_value, operand_load, operand_store (lib/translator/x86/mode.rs) and the two wrappers Semantics::operand_load /
// operand_store. The REAL text is extracted without any rewrite.
//
// ORACLE (Intel SDM vol. 1 3.7.5 "Specifying an Offset", vol. 2 2.1.5 / 2.2.1.6 "RIP-relative addressing"):
//   offset            = (base + index * scale + displacement) mod 2^address-size     (absent base / index count as 0)
//   linear address    = segment base + zero-extended offset                           (modulo the width of the mode)
//   rip               = address of the NEXT instruction = instruction address + instruction length
// ASSUMED DECODER CONTRACT (capstone is C code behind FFI; predicate `mem_decoded`): the operand struct is filled as the
// encoding prescribes: `type_` selects the member of the C union {reg, imm, mem} that is meaningful (the union is RESTATED as
// three plain fields reg_ / imm_ / mem_ with the accessors reg() / imm() / mem() of falcon_capstone/src/capstone_sys.rs;
// DROPPED: the aliasing of the three members - reading a member `type_` does not select yields bytes of another member in
// C, an unrelated field here; the lifter never does that after matching on `type_` - and the fields access / avx_bcast /
// avx_zero_opmask, which no function under contract reads); base and index are X86_REG_INVALID or registers OF THE ADDRESS
// SIZE (bx / ebx / rbx ..; rip only as a 64-bit base), the address size is 16 / 32 / 64 bits and not above the width of the
// mode, scale >= 0 (1, 2, 4, 8), segment is X86_REG_INVALID (no override) or one of cs ds es fs gs ss, `size` is the operand
// size in bytes, an immediate has at most 8 bytes.
// WHAT THE CODE MODELS (stated exactly, see `addr_env_ok`): EVERY segment override - fs / gs and also the flat segments
// cs / ds / es / ss - adds the mode-width scalar `<seg>_base`; without an override (capstone leaves `segment` invalid for
// the default ds / ss) nothing is added, i.e. the default segment is taken to be flat.

/// the caller's guarantee (translate_block refuses a block that reaches the end of the address space, ce11290)
pub open spec fn instr_ok(i: capstone::Instr) -> bool { i.address + i.size <= u64::MAX }
/// rip as an instruction sees it: the address of the next instruction
pub open spec fn rip_of(i: capstone::Instr) -> nat { (i.address + i.size) as nat }

/// the record a register id selects in the table of the mode
pub open spec fn comp_rec(mode: Mode, id: x86_reg) -> Option<X86Register> {
    match lookup(table_of(mode), id) { Some(k) => Some(table_of(mode)[k]), None => None }
}
/// width of `get_register_expression(id)`: rip is a 64-bit constant, every other id is looked up in the table of the mode
pub open spec fn rx_bits(mode: Mode, id: x86_reg) -> Option<usize> {
    if id == x86_reg::X86_REG_RIP { Some(64usize) } else { match comp_rec(mode, id) { Some(x) => Some(x.bits), None => None } }
}
/// value of `get_register_expression(id)` in an IL state
pub open spec fn rx_read(mode: Mode, id: x86_reg, instr: capstone::Instr, env: Env) -> EvalR {
    if id == x86_reg::X86_REG_RIP { EvalR::Val(64, rip_of(instr)) } else { match comp_rec(mode, id) { Some(x) => reg_read(x, env), None => EvalR::ErrSort } }
}
/// value of a base / index / segment field: an absent register counts as 0, an unbound one has no value
pub open spec fn comp_val(mode: Mode, id: x86_reg, instr: capstone::Instr, env: Env) -> Option<nat> {
    if id == x86_reg::X86_REG_INVALID { Some(0nat) } else { match rx_read(mode, id, instr, env) { EvalR::Val(w, v) => Some(v), _ => None } }
}

/// z mod 2^w as a natural number (the same as `enc(w, z)` of spec/bv.rs); hidden from the solver like the bv_ operators,
/// `reveal(red)` shows the definition
#[verifier::opaque]
pub open spec fn red(w: nat, z: int) -> nat { (z % (pow2(w) as int)) as nat }

/// SDM: the offset of a memory operand inside its segment
pub open spec fn ea_spec(ab: nat, b: nat, i: nat, scale: int, disp: int) -> nat { red(ab, b as int + (i as int) * scale + disp) }

/// ASSUMED decoder contract for a memory operand (see the header)
pub open spec fn mem_decoded(mode: Mode, mem: x86_op_mem, ab: usize) -> bool {
    &&& (ab == 16 || ab == 32 || ab == 64) && ab <= mode_bits(mode)
    &&& (mem.base != x86_reg::X86_REG_INVALID ==> rx_bits(mode, mem.base) == Some(ab))
    &&& (mem.index != x86_reg::X86_REG_INVALID ==> rx_bits(mode, mem.index) == Some(ab))
    &&& 0 <= mem.scale
}
pub open spec fn is_seg(id: x86_reg) -> bool {
    id == x86_reg::X86_REG_CS || id == x86_reg::X86_REG_DS || id == x86_reg::X86_REG_ES || id == x86_reg::X86_REG_FS || id == x86_reg::X86_REG_GS || id == x86_reg::X86_REG_SS
}
/// a base / index field names a register the table of the mode does not have (riz, eiz, eip, ..): the operand is REJECTED
pub open spec fn mem_rejected(mode: Mode, mem: x86_op_mem) -> bool {
    (mem.base != x86_reg::X86_REG_INVALID && rx_bits(mode, mem.base) is None) || (mem.index != x86_reg::X86_REG_INVALID && rx_bits(mode, mem.index) is None)
}

/// `e` is the offset: in every state that binds the registers involved it evaluates, AT THE WIDTH OF THE MODE, to
/// zext((base + index * scale + disp) mod 2^address-size)
pub open spec fn offset_env_ok(e: Expression, mode: Mode, mem: x86_op_mem, instr: capstone::Instr, ab: usize, env: Env) -> bool {
    let bo = comp_val(mode, mem.base, instr, env);
    let io = comp_val(mode, mem.index, instr, env);
    (bo is Some && io is Some) ==>
        eval_spec(e, env) == EvalR::Val(mode_bits(mode) as nat, ea_spec(ab as nat, bo->Some_0, io->Some_0, mem.scale as int, mem.disp as int))
}
/// `e` is the linear address: the offset, plus the segment base scalar (modulo the width of the mode) if there is an override
pub open spec fn addr_env_ok(e: Expression, mode: Mode, mem: x86_op_mem, instr: capstone::Instr, ab: usize, env: Env) -> bool {
    let bo = comp_val(mode, mem.base, instr, env);
    let io = comp_val(mode, mem.index, instr, env);
    let so = comp_val(mode, mem.segment, instr, env);
    let ea = ea_spec(ab as nat, bo->Some_0, io->Some_0, mem.scale as int, mem.disp as int);
    (bo is Some && io is Some) ==>
        (if mem.segment == x86_reg::X86_REG_INVALID { eval_spec(e, env) == EvalR::Val(mode_bits(mode) as nat, ea) }
         else { so is Some ==> eval_spec(e, env) == EvalR::Val(mode_bits(mode) as nat, (so->Some_0 + ea) % pow2(mode_bits(mode) as nat)) })
}
/// `e` is a well-sorted expression of the width of the mode that computes the linear address of the memory operand
pub open spec fn mem_addr_ok(e: Expression, mode: Mode, mem: x86_op_mem, instr: capstone::Instr) -> bool {
    &&& expr_wf(e) && expr_bits(e) == mode_bits(mode)
    &&& forall|env: Env| env_sorted(env) ==> #[trigger] addr_env_ok(e, mode, mem, instr, addr_bits_spec(mode, instr), env)
}
/// the premise under which a memory operand has an address: decoded as assumed, nothing rejected, a valid segment field
pub open spec fn mem_ok(mode: Mode, mem: x86_op_mem, instr: capstone::Instr) -> bool {
    mem_decoded(mode, mem, addr_bits_spec(mode, instr)) && !mem_rejected(mode, mem) && (mem.segment == x86_reg::X86_REG_INVALID || is_seg(mem.segment))
}

/// width of an immediate operand (capstone issue 1586: size 0 stands for one byte)
pub open spec fn imm_bits(operand: cs_x86_op) -> usize { if operand.size == 0 { 8usize } else { (operand.size as usize * 8) as usize } }

/// register operand: the value of the table record (X86Register::get), Err(Custom) if the table has no such register
pub open spec fn reg_value_ok(mode: Mode, id: x86_reg, r: Result<Expression, Error>) -> bool {
    match comp_rec(mode, id) {
        Some(x) => r matches Ok(e) && expr_wf(e) && expr_bits(e) == x.bits && (forall|env: Env| env_sorted(env) ==> #[trigger] eval_spec(e, env) == reg_read(x, env)),
        None => r matches Err(e) && e is Custom,
    }
}
/// immediate operand: the constant of the operand size that holds the immediate (two's complement)
pub open spec fn imm_value_ok(operand: cs_x86_op, r: Result<Expression, Error>) -> bool {
    r matches Ok(e) && (e matches Expression::Constant(c) && c.wf() && c.bits == imm_bits(operand) && (operand.size <= 8 ==> c.value@ == red(imm_bits(operand) as nat, operand.imm_ as int)))
}

/// operand_load of a memory operand: exactly ONE instruction is appended, a Load of the operand size from the linear address
/// of the operand into a temporary, and the temporary is returned
pub open spec fn loaded(b0: Block, b1: Block, mode: Mode, operand: cs_x86_op, instr: capstone::Instr, r: Result<Expression, Error>) -> bool {
    &&& r matches Ok(t)
    &&& b1.instructions@.len() == b0.instructions@.len() + 1
    &&& b1.instructions@.last().operation matches Operation::Load { dst, index }
    &&& b1.pushed_op(b0, Operation::Load { dst, index })
    &&& t == Expression::Scalar(dst) && dst.bits == operand.size as usize * 8 && dst.ssa is None
    &&& mem_addr_ok(index, mode, operand.mem_, instr)
}
/// operand_store to a memory operand: exactly ONE instruction is appended, a Store of the value at the linear address of the operand
pub open spec fn stored(b0: Block, b1: Block, mode: Mode, operand: cs_x86_op, instr: capstone::Instr, value: Expression, r: Result<(), Error>) -> bool {
    &&& r is Ok
    &&& b1.instructions@.len() == b0.instructions@.len() + 1
    &&& b1.instructions@.last().operation matches Operation::Store { index, src }
    &&& b1.pushed_op(b0, Operation::Store { index, src })
    &&& src == value
    &&& mem_addr_ok(index, mode, operand.mem_, instr)
}

// ---- arithmetic: the three bit-vector operators on residues, and the constants the code builds ---------------------------
pub proof fn lemma_red_small(w: nat, v: nat)
    requires v < pow2(w),
    ensures red(w, v as int) == v,
{
    reveal(red);
    lemma_small_mod(v, pow2(w));
}
pub proof fn lemma_red_bound(w: nat, z: int)
    ensures red(w, z) < pow2(w),
{
    reveal(red);
    lemma_pow2_pos(w);
    lemma_mod_bound(z, pow2(w) as int);
}
pub proof fn lemma_red_nat(w: nat, v: nat)
    ensures red(w, v as int) == v % pow2(w),
{
    reveal(red);
    lemma_pow2_pos(w);
}
pub proof fn lemma_red_add(w: nat, a: int, b: int)
    ensures bv_add(w, red(w, a), red(w, b)) == red(w, a + b),
{
    reveal(red); reveal(bv_add);
    lemma_pow2_pos(w);
    lemma_add_mod_noop(a, b, pow2(w) as int);
    lemma_mod_bound(a, pow2(w) as int);
    lemma_mod_bound(b, pow2(w) as int);
}
pub proof fn lemma_red_sub(w: nat, a: int, b: int)
    ensures bv_sub(w, red(w, a), red(w, b)) == red(w, a - b),
{
    reveal(red); reveal(bv_sub);
    lemma_pow2_pos(w);
    lemma_sub_mod_noop(a, b, pow2(w) as int);
    lemma_mod_bound(a, pow2(w) as int);
    lemma_mod_bound(b, pow2(w) as int);
}
pub proof fn lemma_red_mul(w: nat, a: int, b: int)
    ensures bv_mul(w, red(w, a), red(w, b)) == red(w, a * b),
{
    reveal(red); reveal(bv_mul);
    lemma_pow2_pos(w);
    let m = pow2(w) as int;
    lemma_mul_mod_noop(a, b, m);
    lemma_mod_bound(a, m);
    lemma_mod_bound(b, m);
    let x = a % m;
    let y = b % m;
    assert(((x as nat) * (y as nat)) as int == x * y) by (nonlinear_arith) requires x >= 0, y >= 0;
}
/// Rust `as` from i64 to u64 reinterprets the two's-complement bits (Rust reference; Verus: bit_vector mode)
pub proof fn lemma_i64_as_u64(x: i64)
    ensures (x as u64) as int == (if x >= 0 { x as int } else { x as int + 0x1_0000_0000_0000_0000 }),
{
    let r = x as u64;
    assert(x >= 0 ==> r == x) by (bit_vector) requires r == x as u64;
    assert(x < 0 ==> r >= 0x8000_0000_0000_0000u64) by (bit_vector) requires r == x as u64;
    assert(x < 0 ==> (r - 0x8000_0000_0000_0000u64) as i64 == (x + 0x4000_0000_0000_0000i64) + 0x4000_0000_0000_0000i64) by (bit_vector) requires r == x as u64;
}
/// the constant `expr_const(x as u64, w)` holds for an i64 x and w <= 64 is x mod 2^w
pub proof fn lemma_i64_red(x: i64, w: nat)
    requires w <= 64,
    ensures ((x as u64) as nat) % pow2(w) == red(w, x as int),
{
    reveal(red);
    lemma_i64_as_u64(x);
    lemma2_to64();
    lemma_pow2_pos(w);
    if x < 0 {
        let k = (64 - w) as nat;
        lemma_pow2_adds(w, k);
        lemma_pow2_pos(k);
        assert(pow2(64) == pow2(w) * pow2(k));
        assert(x as int + 0x1_0000_0000_0000_0000 == pow2(w) as int * pow2(k) as int + x as int) by (nonlinear_arith)
            requires pow2(64) == pow2(w) * pow2(k), pow2(64) == 0x1_0000_0000_0000_0000;
        lemma_mod_multiples_vanish(pow2(k) as int, x as int, pow2(w) as int);
    }
}
/// the value of a register expression is a residue of its own width
pub proof fn lemma_rx_red(mode: Mode, id: x86_reg, instr: capstone::Instr, env: Env)
    requires instr_ok(instr),
    ensures rx_read(mode, id, instr, env) matches EvalR::Val(w, v) ==> v == red(w, v as int),
{
    lemma2_to64();
    if let EvalR::Val(w, v) = rx_read(mode, id, instr, env) {
        if id == x86_reg::X86_REG_RIP {
            lemma_red_small(64, v);
        } else {
            let x = comp_rec(mode, id)->Some_0;
            let f = x.full_rec();
            let full = env(reg_scalar(f))->Some_0.1;
            lemma_extract_bound(full, x.offset as nat, x.bits as nat);
            lemma_red_small(w, v);
        }
    }
}

// ---- the steps of the address computation, one lemma per step ------------------------------------------------------------
/// what get_register_expression returns for a register id the mode knows: a well-sorted expression that reads it
pub open spec fn rx_ok(e: Expression, mode: Mode, id: x86_reg, instr: capstone::Instr) -> bool {
    &&& rx_bits(mode, id) matches Some(w) && expr_wf(e) && expr_bits(e) == w
    &&& forall|env: Env| env_sorted(env) ==> #[trigger] eval_spec(e, env) == rx_read(mode, id, instr, env)
}
/// the constant of width w and value k
pub open spec fn is_konst(e: Expression, w: usize, k: nat) -> bool { e matches Expression::Constant(c) && c.wf() && c.bits == w && c.value@ == k }

/// the integer a `sem` expression computes the residue of, in one state
pub open spec fn sem_int(mode: Mode, mem: x86_op_mem, instr: capstone::Instr, hb: bool, hi: bool, delta: int, env: Env) -> int {
    (if hb { comp_val(mode, mem.base, instr, env)->Some_0 as int } else { 0int }) + (if hi { (comp_val(mode, mem.index, instr, env)->Some_0 as int) * (mem.scale as int) } else { 0int }) + delta
}
/// `e` computes, at the address size, the residue of  [base] + [index * scale] + delta  (hb / hi: the term is present)
pub open spec fn sem_env_ok(e: Expression, mode: Mode, mem: x86_op_mem, instr: capstone::Instr, ab: usize, hb: bool, hi: bool, delta: int, env: Env) -> bool {
    (comp_val(mode, mem.base, instr, env) is Some && comp_val(mode, mem.index, instr, env) is Some) ==>
        eval_spec(e, env) == EvalR::Val(ab as nat, red(ab as nat, sem_int(mode, mem, instr, hb, hi, delta, env)))
}
#[verifier::opaque]
pub open spec fn sem(e: Expression, mode: Mode, mem: x86_op_mem, instr: capstone::Instr, ab: usize, hb: bool, hi: bool, delta: int) -> bool {
    forall|env: Env| env_sorted(env) ==> #[trigger] sem_env_ok(e, mode, mem, instr, ab, hb, hi, delta, env)
}
/// `e` is what operand_offset has to return (postcondition `value`)
#[verifier::opaque]
pub open spec fn res_ok(e: Expression, mode: Mode, mem: x86_op_mem, instr: capstone::Instr, ab: usize) -> bool {
    forall|env: Env| env_sorted(env) ==> #[trigger] offset_env_ok(e, mode, mem, instr, ab, env)
}

/// one level of expr_wf / expr_bits for the five constructors of an address expression
pub proof fn lemma_wf_step(l: Expression, r: Expression, b: usize)
    ensures
        expr_bits(Expression::Add(Box::new(l), Box::new(r))) == expr_bits(l), expr_wf(Expression::Add(Box::new(l), Box::new(r))) == (expr_wf(l) && expr_wf(r) && expr_bits(l) == expr_bits(r)),
        expr_bits(Expression::Sub(Box::new(l), Box::new(r))) == expr_bits(l), expr_wf(Expression::Sub(Box::new(l), Box::new(r))) == (expr_wf(l) && expr_wf(r) && expr_bits(l) == expr_bits(r)),
        expr_bits(Expression::Mul(Box::new(l), Box::new(r))) == expr_bits(l), expr_wf(Expression::Mul(Box::new(l), Box::new(r))) == (expr_wf(l) && expr_wf(r) && expr_bits(l) == expr_bits(r)),
        expr_bits(Expression::Zext(b, Box::new(l))) == b, expr_wf(Expression::Zext(b, Box::new(l))) == (expr_wf(l) && expr_bits(l) < b && b as nat <= MAX_BITS()),
        l matches Expression::Constant(c) ==> (expr_bits(l) == c.bits && expr_wf(l) == c.wf()),
{
}

pub proof fn lemma_sem_base(e: Expression, mode: Mode, mem: x86_op_mem, instr: capstone::Instr, ab: usize)
    requires instr_ok(instr), mem.base != x86_reg::X86_REG_INVALID, rx_bits(mode, mem.base) == Some(ab), rx_ok(e, mode, mem.base, instr),
    ensures sem(e, mode, mem, instr, ab, true, false, 0),
{
    reveal(sem);
    assert forall|env: Env| env_sorted(env) implies #[trigger] sem_env_ok(e, mode, mem, instr, ab, true, false, 0, env) by {
        lemma_rx_red(mode, mem.base, instr, env);
    }
}
pub proof fn lemma_sem_mul(ei: Expression, es: Expression, mode: Mode, mem: x86_op_mem, instr: capstone::Instr, ab: usize, sc: nat)
    requires
        instr_ok(instr), mem.index != x86_reg::X86_REG_INVALID, rx_bits(mode, mem.index) == Some(ab), rx_ok(ei, mode, mem.index, instr),
        is_konst(es, ab, sc), sc == red(ab as nat, mem.scale as int),
    ensures sem(Expression::Mul(Box::new(ei), Box::new(es)), mode, mem, instr, ab, false, true, 0),
{
    reveal(sem);
    reveal_with_fuel(expr_wf, 2); reveal_with_fuel(expr_bits, 2);
    let e = Expression::Mul(Box::new(ei), Box::new(es));
    assert forall|env: Env| env_sorted(env) implies #[trigger] sem_env_ok(e, mode, mem, instr, ab, false, true, 0, env) by {
        lemma_rx_red(mode, mem.index, instr, env);
        assert(eval_spec(es, env) == EvalR::Val(ab as nat, sc));
        assert(eval_spec(e, env) == bin_spec(BinOp::Mul, eval_spec(ei, env), eval_spec(es, env)));
        if let EvalR::Val(w, v) = rx_read(mode, mem.index, instr, env) {
            lemma_red_mul(ab as nat, v as int, mem.scale as int);
        }
    }
}
pub proof fn lemma_sem_add(l: Expression, r: Expression, mode: Mode, mem: x86_op_mem, instr: capstone::Instr, ab: usize, hb1: bool, hi1: bool, d1: int, hb2: bool, hi2: bool, d2: int)
    requires sem(l, mode, mem, instr, ab, hb1, hi1, d1), sem(r, mode, mem, instr, ab, hb2, hi2, d2), !(hb1 && hb2), !(hi1 && hi2),
    ensures sem(Expression::Add(Box::new(l), Box::new(r)), mode, mem, instr, ab, hb1 || hb2, hi1 || hi2, d1 + d2),
{
    reveal(sem);
    let e = Expression::Add(Box::new(l), Box::new(r));
    let hb = hb1 || hb2;
    let hi = hi1 || hi2;
    let d = d1 + d2;
    assert forall|env: Env| env_sorted(env) implies #[trigger] sem_env_ok(e, mode, mem, instr, ab, hb, hi, d, env) by {
        assert(sem_env_ok(l, mode, mem, instr, ab, hb1, hi1, d1, env));
        assert(sem_env_ok(r, mode, mem, instr, ab, hb2, hi2, d2, env));
        assert(eval_spec(e, env) == bin_spec(BinOp::Add, eval_spec(l, env), eval_spec(r, env)));
        let bo = comp_val(mode, mem.base, instr, env);
        let io = comp_val(mode, mem.index, instr, env);
        if bo is Some && io is Some {
            let x = (if hb1 { bo->Some_0 as int } else { 0int }) + (if hi1 { (io->Some_0 as int) * (mem.scale as int) } else { 0int }) + d1;
            let y = (if hb2 { bo->Some_0 as int } else { 0int }) + (if hi2 { (io->Some_0 as int) * (mem.scale as int) } else { 0int }) + d2;
            lemma_red_add(ab as nat, x, y);
        }
    }
}
/// the value of `l op r` when `l` computes the residue of z and `r` is a constant holding the residue of k, in one state
pub proof fn lemma_sem_k_env(l: Expression, r: Expression, ab: nat, z: int, kv: nat, k: int, env: Env)
    requires eval_spec(l, env) == EvalR::Val(ab, red(ab, z)), r matches Expression::Constant(c) && c.bits == ab && c.value@ == kv, kv == red(ab, k),
    ensures
        eval_spec(Expression::Add(Box::new(l), Box::new(r)), env) == EvalR::Val(ab, red(ab, z + k)),
        eval_spec(Expression::Sub(Box::new(l), Box::new(r)), env) == EvalR::Val(ab, red(ab, z - k)),
{
    let ea = Expression::Add(Box::new(l), Box::new(r));
    let es = Expression::Sub(Box::new(l), Box::new(r));
    assert(eval_spec(r, env) == EvalR::Val(ab, kv));
    assert(eval_spec(ea, env) == bin_spec(BinOp::Add, eval_spec(l, env), eval_spec(r, env)));
    assert(eval_spec(es, env) == bin_spec(BinOp::Sub, eval_spec(l, env), eval_spec(r, env)));
    lemma_red_add(ab, z, k);
    lemma_red_sub(ab, z, k);
}
pub proof fn lemma_sem_int_shift(mode: Mode, mem: x86_op_mem, instr: capstone::Instr, hb: bool, hi: bool, d: int, k: int, env: Env)
    ensures sem_int(mode, mem, instr, hb, hi, d + k, env) == sem_int(mode, mem, instr, hb, hi, d, env) + k,
            sem_int(mode, mem, instr, hb, hi, d - k, env) == sem_int(mode, mem, instr, hb, hi, d, env) - k,
{
}
/// adding a constant that holds k modulo 2^ab
pub proof fn lemma_sem_addk(l: Expression, r: Expression, mode: Mode, mem: x86_op_mem, instr: capstone::Instr, ab: usize, hb: bool, hi: bool, d: int, kv: nat, k: int)
    requires sem(l, mode, mem, instr, ab, hb, hi, d), is_konst(r, ab, kv), kv == red(ab as nat, k),
    ensures sem(Expression::Add(Box::new(l), Box::new(r)), mode, mem, instr, ab, hb, hi, d + k),
{
    reveal(sem);
    let ea = Expression::Add(Box::new(l), Box::new(r));
    let dp = d + k;
    assert forall|env: Env| env_sorted(env) implies #[trigger] sem_env_ok(ea, mode, mem, instr, ab, hb, hi, dp, env) by {
        assert(sem_env_ok(l, mode, mem, instr, ab, hb, hi, d, env));
        if comp_val(mode, mem.base, instr, env) is Some && comp_val(mode, mem.index, instr, env) is Some {
            lemma_sem_int_shift(mode, mem, instr, hb, hi, d, k, env);
            lemma_sem_k_env(l, r, ab as nat, sem_int(mode, mem, instr, hb, hi, d, env), kv, k, env);
        }
    }
}
/// subtracting a constant that holds k modulo 2^ab
pub proof fn lemma_sem_subk(l: Expression, r: Expression, mode: Mode, mem: x86_op_mem, instr: capstone::Instr, ab: usize, hb: bool, hi: bool, d: int, kv: nat, k: int)
    requires sem(l, mode, mem, instr, ab, hb, hi, d), is_konst(r, ab, kv), kv == red(ab as nat, k),
    ensures sem(Expression::Sub(Box::new(l), Box::new(r)), mode, mem, instr, ab, hb, hi, d - k),
{
    reveal(sem);
    let es = Expression::Sub(Box::new(l), Box::new(r));
    let dm = d - k;
    assert forall|env: Env| env_sorted(env) implies #[trigger] sem_env_ok(es, mode, mem, instr, ab, hb, hi, dm, env) by {
        assert(sem_env_ok(l, mode, mem, instr, ab, hb, hi, d, env));
        if comp_val(mode, mem.base, instr, env) is Some && comp_val(mode, mem.index, instr, env) is Some {
            lemma_sem_int_shift(mode, mem, instr, hb, hi, d, k, env);
            lemma_sem_k_env(l, r, ab as nat, sem_int(mode, mem, instr, hb, hi, d, env), kv, k, env);
        }
    }
}
pub proof fn lemma_sem_konst(e: Expression, mode: Mode, mem: x86_op_mem, instr: capstone::Instr, ab: usize, kv: nat, k: int)
    requires is_konst(e, ab, kv), kv == red(ab as nat, k),
    ensures sem(e, mode, mem, instr, ab, false, false, k),
{
    reveal(sem);
    assert forall|env: Env| env_sorted(env) implies #[trigger] sem_env_ok(e, mode, mem, instr, ab, false, false, k, env) by {
        assert(eval_spec(e, env) == EvalR::Val(ab as nat, kv));
    }
}
/// the last step in one state: zero-extension to the width of the mode (or nothing when the address size is that width)
pub proof fn lemma_res_env(x: Expression, mode: Mode, mem: x86_op_mem, instr: capstone::Instr, ab: usize, hb: bool, hi: bool, env: Env)
    requires
        sem_env_ok(x, mode, mem, instr, ab, hb, hi, mem.disp as int, env), hb == (mem.base != x86_reg::X86_REG_INVALID), hi == (mem.index != x86_reg::X86_REG_INVALID),
        ab <= mode_bits(mode),
    ensures
        ab < mode_bits(mode) ==> offset_env_ok(Expression::Zext(mode_bits(mode), Box::new(x)), mode, mem, instr, ab, env),
        ab == mode_bits(mode) ==> offset_env_ok(x, mode, mem, instr, ab, env),
{
    reveal(bv_zext);
    let z = Expression::Zext(mode_bits(mode), Box::new(x));
    assert(eval_spec(z, env) == zext_spec(mode_bits(mode) as nat, eval_spec(x, env)));
    let bo = comp_val(mode, mem.base, instr, env);
    let io = comp_val(mode, mem.index, instr, env);
    if bo is Some && io is Some {
        if !hi { assert((io->Some_0 as int) * (mem.scale as int) == 0) by (nonlinear_arith) requires io->Some_0 == 0; }
        assert(ea_spec(ab as nat, bo->Some_0, io->Some_0, mem.scale as int, mem.disp as int)
            == red(ab as nat, (if hb { bo->Some_0 as int } else { 0int }) + (if hi { (io->Some_0 as int) * (mem.scale as int) } else { 0int }) + mem.disp as int));
    }
}
pub proof fn lemma_res(x: Expression, mode: Mode, mem: x86_op_mem, instr: capstone::Instr, ab: usize, hb: bool, hi: bool)
    requires
        sem(x, mode, mem, instr, ab, hb, hi, mem.disp as int), hb == (mem.base != x86_reg::X86_REG_INVALID), hi == (mem.index != x86_reg::X86_REG_INVALID),
        ab <= mode_bits(mode),
    ensures
        ab < mode_bits(mode) ==> res_ok(Expression::Zext(mode_bits(mode), Box::new(x)), mode, mem, instr, ab),
        ab == mode_bits(mode) ==> res_ok(x, mode, mem, instr, ab),
{
    reveal(sem); reveal(res_ok);
    reveal_with_fuel(expr_wf, 2); reveal_with_fuel(expr_bits, 2);
    let z = Expression::Zext(mode_bits(mode), Box::new(x));
    if ab < mode_bits(mode) {
        assert forall|env: Env| env_sorted(env) implies #[trigger] offset_env_ok(z, mode, mem, instr, ab, env) by {
            assert(sem_env_ok(x, mode, mem, instr, ab, hb, hi, mem.disp as int, env));
            lemma_res_env(x, mode, mem, instr, ab, hb, hi, env);
        }
    } else {
        assert forall|env: Env| env_sorted(env) implies #[trigger] offset_env_ok(x, mode, mem, instr, ab, env) by {
            assert(sem_env_ok(x, mode, mem, instr, ab, hb, hi, mem.disp as int, env));
            lemma_res_env(x, mode, mem, instr, ab, hb, hi, env);
        }
    }
}

/// segment base + offset in one state
pub proof fn lemma_seg_add_env(l: Expression, r: Expression, mode: Mode, mem: x86_op_mem, instr: capstone::Instr, ab: usize, env: Env)
    requires
        is_seg(mem.segment), rx_bits(mode, mem.segment) == Some(mode_bits(mode)), offset_env_ok(r, mode, mem, instr, ab, env),
        eval_spec(l, env) == rx_read(mode, mem.segment, instr, env),
    ensures addr_env_ok(Expression::Add(Box::new(l), Box::new(r)), mode, mem, instr, ab, env),
{
    reveal(bv_add);
    let e = Expression::Add(Box::new(l), Box::new(r));
    assert(eval_spec(e, env) == bin_spec(BinOp::Add, eval_spec(l, env), eval_spec(r, env)));
}

/// the six segment registers of both real tables are full registers of the width of the mode (`<seg>_base`)
pub open spec fn seg_rec_ok(t: Seq<X86Register>, id: x86_reg, bits: usize) -> bool {
    lookup(t, id) matches Some(k) && t[k].bits == bits
}
pub proof fn lemma_segment_records()
    ensures
        forall|id: x86_reg| is_seg(id) ==> #[trigger] seg_rec_ok(x86_table_spec(), id, 32),
        forall|id: x86_reg| is_seg(id) ==> #[trigger] seg_rec_ok(amd64_table_spec(), id, 64),
{
    assert(seg_rec_ok(x86_table_spec(), x86_reg::X86_REG_CS, 32)) by (compute);
    assert(seg_rec_ok(x86_table_spec(), x86_reg::X86_REG_DS, 32)) by (compute);
    assert(seg_rec_ok(x86_table_spec(), x86_reg::X86_REG_ES, 32)) by (compute);
    assert(seg_rec_ok(x86_table_spec(), x86_reg::X86_REG_FS, 32)) by (compute);
    assert(seg_rec_ok(x86_table_spec(), x86_reg::X86_REG_GS, 32)) by (compute);
    assert(seg_rec_ok(x86_table_spec(), x86_reg::X86_REG_SS, 32)) by (compute);
    assert(seg_rec_ok(amd64_table_spec(), x86_reg::X86_REG_CS, 64)) by (compute);
    assert(seg_rec_ok(amd64_table_spec(), x86_reg::X86_REG_DS, 64)) by (compute);
    assert(seg_rec_ok(amd64_table_spec(), x86_reg::X86_REG_ES, 64)) by (compute);
    assert(seg_rec_ok(amd64_table_spec(), x86_reg::X86_REG_FS, 64)) by (compute);
    assert(seg_rec_ok(amd64_table_spec(), x86_reg::X86_REG_GS, 64)) by (compute);
    assert(seg_rec_ok(amd64_table_spec(), x86_reg::X86_REG_SS, 64)) by (compute);
}

//@ source lib/translator/x86/mode.rs
impl Mode {

//@ fn impl Mode :: fn get_register_expression
//@ spec
    requires instr_ok(*instruction),
    ensures
        /*@rip*/ register == x86_reg::X86_REG_RIP ==> (r matches Ok(e) && (e matches Expression::Constant(c) && c.wf() && c.bits == 64 && c.value@ == rip_of(*instruction))),
        /*@ok*/ rx_bits(*self, register) matches Some(w) ==> (r matches Ok(e) && expr_wf(e) && expr_bits(e) == w),
        /*@value*/ rx_bits(*self, register) is Some ==> (r matches Ok(e) && (forall|env: Env| env_sorted(env) ==> #[trigger] eval_spec(e, env) == rx_read(*self, register, *instruction, env))),
        /*@rx*/ rx_bits(*self, register) is Some ==> (r matches Ok(e) && rx_ok(e, *self, register, *instruction)),
        /*@missing*/ rx_bits(*self, register) is None ==> (r matches Err(e) && e is Custom),
//@ enter
    proof {
        lemma2_to64();
        lemma_small_mod(rip_of(*instruction), pow2(64));
    }
//@ end

//@ fn impl Mode :: fn operand_offset
//@ spec
    requires instr_ok(*instruction),
    ensures
        /*@rejected*/ mem_rejected(*self, operand.mem_) ==> (r matches Err(e) && e is Custom),
        /*@sorted*/ (mem_decoded(*self, operand.mem_, addr_bits_spec(*self, *instruction)) && !mem_rejected(*self, operand.mem_)) ==> (r matches Ok(e) && expr_wf(e) && expr_bits(e) == mode_bits(*self)),
        /*@value*/ (mem_decoded(*self, operand.mem_, addr_bits_spec(*self, *instruction)) && !mem_rejected(*self, operand.mem_)) ==> (r matches Ok(e) &&
            (forall|env: Env| env_sorted(env) ==> #[trigger] offset_env_ok(e, *self, operand.mem_, *instruction, addr_bits_spec(*self, *instruction), env))),
//@ enter
    proof {
        let mode = *self;
        let instr = *instruction;
        let ab = addr_bits_spec(mode, instr);
        let mem = operand.mem_;
        let mb = mode_bits(mode);
        lemma2_to64();
        // the result predicate, unfolded for the two postconditions
        assert forall|e: Expression| #[trigger] res_ok(e, mode, mem, instr, ab) implies
            (forall|env: Env| env_sorted(env) ==> #[trigger] offset_env_ok(e, mode, mem, instr, ab, env)) by { reveal(res_ok); }
        // well-sortedness, level by level (fired by the width queries of the constructors)
        assert forall|l: Expression, r: Expression| #![trigger expr_bits(Expression::Add(Box::new(l), Box::new(r)))]
            expr_bits(Expression::Add(Box::new(l), Box::new(r))) == expr_bits(l) && expr_wf(Expression::Add(Box::new(l), Box::new(r))) == (expr_wf(l) && expr_wf(r) && expr_bits(l) == expr_bits(r)) by { lemma_wf_step(l, r, 1); }
        assert forall|l: Expression, r: Expression| #![trigger expr_bits(Expression::Sub(Box::new(l), Box::new(r)))]
            expr_bits(Expression::Sub(Box::new(l), Box::new(r))) == expr_bits(l) && expr_wf(Expression::Sub(Box::new(l), Box::new(r))) == (expr_wf(l) && expr_wf(r) && expr_bits(l) == expr_bits(r)) by { lemma_wf_step(l, r, 1); }
        assert forall|l: Expression, r: Expression| #![trigger expr_bits(Expression::Mul(Box::new(l), Box::new(r)))]
            expr_bits(Expression::Mul(Box::new(l), Box::new(r))) == expr_bits(l) && expr_wf(Expression::Mul(Box::new(l), Box::new(r))) == (expr_wf(l) && expr_wf(r) && expr_bits(l) == expr_bits(r)) by { lemma_wf_step(l, r, 1); }
        assert forall|l: Expression, b: usize| #![trigger expr_bits(Expression::Zext(b, Box::new(l)))]
            expr_bits(Expression::Zext(b, Box::new(l))) == b && expr_wf(Expression::Zext(b, Box::new(l))) == (expr_wf(l) && expr_bits(l) < b && b as nat <= MAX_BITS()) by { lemma_wf_step(l, l, b); }
        assert forall|l: Expression| (#[trigger] expr_bits(l)) >= 0 && (l matches Expression::Constant(c) ==> (expr_bits(l) == c.bits && expr_wf(l) == c.wf())) by { lemma_wf_step(l, l, 1); }
        if mem_decoded(mode, mem, ab) && !mem_rejected(mode, mem) {
            // the constants the code may build, as residues (facts about the INPUTS only)
            let sc = ((mem.scale as i64 as u64) as nat) % pow2(ab as nat);
            let dp = ((mem.disp as u64) as nat) % pow2(ab as nat);
            let dn = ((-(mem.disp as int)) as nat) % pow2(ab as nat);
            lemma_i64_red(mem.disp, ab as nat);
            lemma_red_nat(ab as nat, mem.scale as nat);
            if mem.disp < 0 { lemma_red_nat(ab as nat, (-(mem.disp as int)) as nat); }
            // one rule per step of the computation, each fired by the term the step constructs
            assert forall|e: Expression| (mem.base != x86_reg::X86_REG_INVALID && #[trigger] rx_ok(e, mode, mem.base, instr))
                implies sem(e, mode, mem, instr, ab, true, false, 0) by { lemma_sem_base(e, mode, mem, instr, ab); }
            assert forall|ei: Expression, es: Expression| (mem.index != x86_reg::X86_REG_INVALID && rx_ok(ei, mode, mem.index, instr) && is_konst(es, ab, sc))
                implies (#[trigger] expr_bits(Expression::Mul(Box::new(ei), Box::new(es)))) == ab && sem(Expression::Mul(Box::new(ei), Box::new(es)), mode, mem, instr, ab, false, true, 0) by { lemma_sem_mul(ei, es, mode, mem, instr, ab, sc); }
            assert forall|l: Expression, r: Expression, hb1: bool, hi1: bool, d1: int, hb2: bool, hi2: bool, d2: int|
                #![trigger expr_bits(Expression::Add(Box::new(l), Box::new(r))), sem(l, mode, mem, instr, ab, hb1, hi1, d1), sem(r, mode, mem, instr, ab, hb2, hi2, d2)]
                (sem(l, mode, mem, instr, ab, hb1, hi1, d1) && sem(r, mode, mem, instr, ab, hb2, hi2, d2) && !(hb1 && hb2) && !(hi1 && hi2))
                implies sem(Expression::Add(Box::new(l), Box::new(r)), mode, mem, instr, ab, hb1 || hb2, hi1 || hi2, d1 + d2) by {
                lemma_sem_add(l, r, mode, mem, instr, ab, hb1, hi1, d1, hb2, hi2, d2);
            }
            assert forall|l: Expression, r: Expression, hb: bool, hi: bool, d: int|
                #![trigger expr_bits(Expression::Add(Box::new(l), Box::new(r))), sem(l, mode, mem, instr, ab, hb, hi, d)]
                (sem(l, mode, mem, instr, ab, hb, hi, d) && is_konst(r, ab, dp))
                implies sem(Expression::Add(Box::new(l), Box::new(r)), mode, mem, instr, ab, hb, hi, d + mem.disp as int) by {
                lemma_sem_addk(l, r, mode, mem, instr, ab, hb, hi, d, dp, mem.disp as int);
            }
            assert forall|l: Expression, r: Expression, hb: bool, hi: bool, d: int|
                #![trigger expr_bits(Expression::Sub(Box::new(l), Box::new(r))), sem(l, mode, mem, instr, ab, hb, hi, d)]
                (mem.disp < 0 && sem(l, mode, mem, instr, ab, hb, hi, d) && is_konst(r, ab, dn))
                implies sem(Expression::Sub(Box::new(l), Box::new(r)), mode, mem, instr, ab, hb, hi, d + mem.disp as int) by {
                lemma_sem_subk(l, r, mode, mem, instr, ab, hb, hi, d, dn, -(mem.disp as int));
            }
            assert forall|e: Expression| (mem.base == x86_reg::X86_REG_INVALID && mem.index == x86_reg::X86_REG_INVALID && is_konst(e, ab, dp) && #[trigger] expr_bits(e) == ab)
                implies sem(e, mode, mem, instr, ab, false, false, mem.disp as int) by { lemma_sem_konst(e, mode, mem, instr, ab, dp, mem.disp as int); }
            assert forall|x: Expression, hb: bool, hi: bool| (#[trigger] sem(x, mode, mem, instr, ab, hb, hi, mem.disp as int)
                    && hb == (mem.base != x86_reg::X86_REG_INVALID) && hi == (mem.index != x86_reg::X86_REG_INVALID))
                implies ((ab < mb ==> res_ok(Expression::Zext(mb, Box::new(x)), mode, mem, instr, ab)) && (ab == mb ==> res_ok(x, mode, mem, instr, ab))) by {
                lemma_res(x, mode, mem, instr, ab, hb, hi);
            }
        }
    }
//@ end

//@ fn impl Mode :: fn operand_value
//@ spec
    requires instr_ok(*instruction),
    ensures
        /*@invalid*/ operand.type_ == x86_op_type::X86_OP_INVALID ==> r is Err,
        /*@reg*/ operand.type_ == x86_op_type::X86_OP_REG ==> reg_value_ok(*self, operand.reg_, r),
        /*@imm*/ operand.type_ == x86_op_type::X86_OP_IMM ==> imm_value_ok(*operand, r),
        /*@mem_rejected*/ (operand.type_ == x86_op_type::X86_OP_MEM && mem_rejected(*self, operand.mem_)) ==> (r matches Err(e) && e is Custom),
        /*@mem_bad_segment*/ (operand.type_ == x86_op_type::X86_OP_MEM && mem_decoded(*self, operand.mem_, addr_bits_spec(*self, *instruction)) && !mem_rejected(*self, operand.mem_)
            && operand.mem_.segment != x86_reg::X86_REG_INVALID && !is_seg(operand.mem_.segment)) ==> (r matches Err(e) && e is Custom),
        /*@mem_sorted*/ (operand.type_ == x86_op_type::X86_OP_MEM && mem_ok(*self, operand.mem_, *instruction)) ==> (r matches Ok(e) && expr_wf(e) && expr_bits(e) == mode_bits(*self)),
        /*@mem_value*/ (operand.type_ == x86_op_type::X86_OP_MEM && mem_ok(*self, operand.mem_, *instruction)) ==> (r matches Ok(e) &&
            (forall|env: Env| env_sorted(env) ==> #[trigger] addr_env_ok(e, *self, operand.mem_, *instruction, addr_bits_spec(*self, *instruction), env))),
//@ enter
    proof {
        lemma2_to64();
        lemma_segment_records();
        reveal(bv_add);
        if operand.size <= 8 { lemma_i64_red(operand.imm_, imm_bits(*operand) as nat); }
        if is_seg(operand.mem_.segment) {
            assert(seg_rec_ok(x86_table_spec(), operand.mem_.segment, 32));
            assert(seg_rec_ok(amd64_table_spec(), operand.mem_.segment, 64));
        }
        // the offset, as operand_offset states it, seen through the predicate of this function
        let mode = *self;
        let mem = operand.mem_;
        let instr = *instruction;
        let ab = addr_bits_spec(mode, instr);
        assert forall|e: Expression, env: Env| (mem.segment == x86_reg::X86_REG_INVALID && offset_env_ok(e, mode, mem, instr, ab, env))
            implies #[trigger] addr_env_ok(e, mode, mem, instr, ab, env) by { }
        assert forall|l: Expression, r: Expression, env: Env| #![trigger addr_env_ok(Expression::Add(Box::new(l), Box::new(r)), mode, mem, instr, ab, env)]
            (env_sorted(env) && is_seg(mem.segment) && rx_bits(mode, mem.segment) == Some(mode_bits(mode)) && offset_env_ok(r, mode, mem, instr, ab, env)
                && eval_spec(l, env) == rx_read(mode, mem.segment, instr, env))
            implies addr_env_ok(Expression::Add(Box::new(l), Box::new(r)), mode, mem, instr, ab, env) by { lemma_seg_add_env(l, r, mode, mem, instr, ab, env); }
    }
//@ end

//@ fn impl Mode :: fn operand_load
//@ spec
    requires instr_ok(*instruction), old(block).block_wf(), old(block).next_instruction_index < usize::MAX,
    ensures
        /*@wf*/ final(block).block_wf(),
        /*@invalid*/ operand.type_ == x86_op_type::X86_OP_INVALID ==> r is Err,
        /*@reg*/ operand.type_ == x86_op_type::X86_OP_REG ==> reg_value_ok(*self, operand.reg_, r),
        /*@imm*/ operand.type_ == x86_op_type::X86_OP_IMM ==> imm_value_ok(*operand, r),
        /*@no_load*/ operand.type_ != x86_op_type::X86_OP_MEM ==> *final(block) == *old(block),
        /*@err_frame*/ r is Err ==> *final(block) == *old(block),
        /*@mem_rejected*/ (operand.type_ == x86_op_type::X86_OP_MEM && mem_rejected(*self, operand.mem_)) ==> (r matches Err(e) && e is Custom),
        /*@mem_load*/ (operand.type_ == x86_op_type::X86_OP_MEM && mem_ok(*self, operand.mem_, *instruction)) ==> loaded(*old(block), *final(block), *self, *operand, *instruction, r),
//@ end

//@ fn impl Mode :: fn operand_store
//@ spec
    requires instr_ok(*instruction), old(block).block_wf(), old(block).next_instruction_index < usize::MAX, expr_wf(value),
    ensures
        /*@wf*/ final(block).block_wf(),
        /*@invalid_imm*/ (operand.type_ == x86_op_type::X86_OP_INVALID || operand.type_ == x86_op_type::X86_OP_IMM) ==> r is Err,
        /*@reg_missing*/ (operand.type_ == x86_op_type::X86_OP_REG && comp_rec(*self, operand.reg_) is None) ==> (r matches Err(e) && e is Custom),
        /*@reg_width*/ operand.type_ == x86_op_type::X86_OP_REG ==> (comp_rec(*self, operand.reg_) matches Some(x) ==>
            ((x.capstone_reg == x.full_reg && expr_bits(value) != x.bits) ==> (r matches Err(e) && e is Custom))),
        /*@reg_set*/ operand.type_ == x86_op_type::X86_OP_REG ==> (comp_rec(*self, operand.reg_) matches Some(x) ==>
            (expr_bits(value) == x.bits ==> (r is Ok && set_effect(x, value, *old(block), *final(block))))),
        /*@err_frame*/ r is Err ==> *final(block) == *old(block),
        /*@mem_rejected*/ (operand.type_ == x86_op_type::X86_OP_MEM && mem_rejected(*self, operand.mem_)) ==> (r matches Err(e) && e is Custom),
        /*@mem_store*/ (operand.type_ == x86_op_type::X86_OP_MEM && mem_ok(*self, operand.mem_, *instruction)) ==> stored(*old(block), *final(block), *self, *operand, *instruction, value, r),
//@ end

} // impl Mode (operand.rs)

//@ source lib/translator/x86/semantics.rs
impl<'s> Semantics<'s> {

//@ fn impl<'s> Semantics<'s> :: fn operand_load
//@ spec
    requires instr_ok(*self.instruction), old(block).block_wf(), old(block).next_instruction_index < usize::MAX,
    ensures
        /*@wf*/ final(block).block_wf(),
        /*@invalid*/ operand.type_ == x86_op_type::X86_OP_INVALID ==> r is Err,
        /*@reg*/ operand.type_ == x86_op_type::X86_OP_REG ==> reg_value_ok(*self.mode, operand.reg_, r),
        /*@imm*/ operand.type_ == x86_op_type::X86_OP_IMM ==> imm_value_ok(*operand, r),
        /*@no_load*/ operand.type_ != x86_op_type::X86_OP_MEM ==> *final(block) == *old(block),
        /*@err_frame*/ r is Err ==> *final(block) == *old(block),
        /*@mem_rejected*/ (operand.type_ == x86_op_type::X86_OP_MEM && mem_rejected(*self.mode, operand.mem_)) ==> (r matches Err(e) && e is Custom),
        /*@mem_load*/ (operand.type_ == x86_op_type::X86_OP_MEM && mem_ok(*self.mode, operand.mem_, *self.instruction)) ==> loaded(*old(block), *final(block), *self.mode, *operand, *self.instruction, r),
//@ end

//@ fn impl<'s> Semantics<'s> :: fn operand_store
//@ spec
    requires instr_ok(*self.instruction), old(block).block_wf(), old(block).next_instruction_index < usize::MAX, expr_wf(value),
    ensures
        /*@wf*/ final(block).block_wf(),
        /*@invalid_imm*/ (operand.type_ == x86_op_type::X86_OP_INVALID || operand.type_ == x86_op_type::X86_OP_IMM) ==> r is Err,
        /*@reg_missing*/ (operand.type_ == x86_op_type::X86_OP_REG && comp_rec(*self.mode, operand.reg_) is None) ==> (r matches Err(e) && e is Custom),
        /*@reg_width*/ operand.type_ == x86_op_type::X86_OP_REG ==> (comp_rec(*self.mode, operand.reg_) matches Some(x) ==>
            ((x.capstone_reg == x.full_reg && expr_bits(value) != x.bits) ==> (r matches Err(e) && e is Custom))),
        /*@reg_set*/ operand.type_ == x86_op_type::X86_OP_REG ==> (comp_rec(*self.mode, operand.reg_) matches Some(x) ==>
            (expr_bits(value) == x.bits ==> (r is Ok && set_effect(x, value, *old(block), *final(block))))),
        /*@err_frame*/ r is Err ==> *final(block) == *old(block),
        /*@mem_rejected*/ (operand.type_ == x86_op_type::X86_OP_MEM && mem_rejected(*self.mode, operand.mem_)) ==> (r matches Err(e) && e is Custom),
        /*@mem_store*/ (operand.type_ == x86_op_type::X86_OP_MEM && mem_ok(*self.mode, operand.mem_, *self.instruction)) ==> stored(*old(block), *final(block), *self.mode, *operand, *self.instruction, value, r),
//@ end

} // impl Semantics (operand.rs)
