#!/usr/bin/env python3
"""units/C01/check_cfg_glue.py: the contract text units/C01/cfg_glue.rs imports must be identical to units/C15/cfg_edit.rs."""
import os, sys
root = os.path.dirname(os.path.dirname(os.path.dirname(os.path.abspath(__file__))))
src = open(os.path.join(root, "units/C15/cfg_edit.rs")).read()
cp = open(os.path.join(root, "units/C01/cfg_glue.rs")).read()
bad = 0
def hole(text, name):
    a = text.index("//@ fn impl ControlFlowGraph :: fn %s\n" % name)
    return text[a:text.index("//@ end\n", a)]
for n in ["set_entry", "set_exit", "new_block", "unconditional_edge", "conditional_edge"]:
    if hole(src, n) != hole(cp, n):
        print("DIFFERS: hole", n); bad = 1
e1 = src[src.index("//@ fn lib/il/edge.rs :: impl Edge :: fn new"):]
e1 = e1[:e1.index("//@ end\n")]
if e1 not in cp:
    print("DIFFERS: hole Edge::new"); bad = 1
a = src.index("impl ControlFlowGraph {\n    /// everything but the inner graph is unchanged")
voc = src[a:src.index("//@ source lib/il/control_flow_graph.rs")]
if voc not in cp:
    print("DIFFERS: spec vocabulary"); bad = 1
print("cfg_glue.rs: %s" % ("MISMATCH" if bad else "identical to units/C15/cfg_edit.rs"))
sys.exit(bad)
