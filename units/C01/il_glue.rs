// ---- units/C01/il_glue.rs: the IL helper constructors the x86 register code calls and no other unit has under a
// NAME-precise contract: Scalar::new, il::scalar, il::expr_scalar (C15 has Scalar::new with `bits` / `ssa` only).
// Included inside `pub mod il`.

/// the String that holds exactly these characters (unique: prelude/strmap.rs axiom_string_ext)
pub open spec fn string_of(c: Seq<char>) -> String { choose|s: String| s@ == c }

pub proof fn lemma_string_of(s: String)
    ensures string_of(s@) == s,
{
    broadcast use crate::strmap::axiom_string_ext;
    let t = string_of(s@);
    assert(t@ == s@);
}

/// the scalar called `name` of width `bits` (not in SSA form), as `il::scalar(name, bits)` builds it
pub open spec fn named_scalar(name: Seq<char>, bits: usize) -> Scalar {
    Scalar { name: string_of(name), bits, ssa: None }
}

impl Scalar {
//@ fn lib/il/scalar.rs :: impl Scalar :: fn new
//@ rewrite 1 `name.into()` => `into_string(name)` ## R-into: the same conversion through the stand-in of prelude/strmap.rs carrying the assumed contract of Into<String> (keeps the characters)
//@ spec
    ensures /*@fields*/ r == named_scalar(into_string_chars(name), bits), /*@name*/ r.name@ == into_string_chars(name),
//@ enter
    proof { assert forall|s: String| #[trigger] string_of(s@) == s by { lemma_string_of(s); } }
//@ end
}

//@ source lib/il/mod.rs
//@ fn fn scalar
//@ spec
    ensures /*@fields*/ r == named_scalar(into_string_chars(name), bits), /*@name*/ r.name@ == into_string_chars(name),
//@ end

//@ fn fn expr_scalar
//@ spec
    ensures /*@fields*/ r == Expression::Scalar(named_scalar(into_string_chars(name), bits)), /*@name*/ named_scalar(into_string_chars(name), bits).name@ == into_string_chars(name),
//@ end
