// ======================================================================================
// units/C11/graph_dom.rs — dominators, dominance frontiers, natural loops, reducibility (phase 3).
// SAFETY + STRUCTURAL contracts only: no panic and termination for every graph and root, result
// shape (keys are exactly the reachable vertices, values are reachable vertices, the parent
// relation is ranked by a pre-order, sets only mention vertices of the graph ...).
// NOT claimed: that the computed immediate dominators / dominator sets / frontiers / loops equal
// their textbook definitions (Semi-NCA correctness) — see meta.json undecided_subclaims.
// ======================================================================================
//@ source lib/graph/mod.rs

// ---- natural loops: the REAL struct Loop and its methods ---------------------------------------
//@ item struct Loop

// derive(Clone) re-supplied explicitly (structural copy; the node set is cloned element-wise)
impl Clone for Loop {
    fn clone(&self) -> (r: Loop)
        ensures r.header == self.header, r.nodes@ == self.nodes@,
    {
        Loop { header: self.header, nodes: self.nodes.clone() }
    }
}

impl Loop {
//@ fn impl Loop :: fn new
//@ spec
    ensures /*@fields*/ r.header == header && r.nodes == nodes,
//@ end

//@ fn impl Loop :: fn nodes
//@ spec
    ensures /*@field*/ *r == self.nodes,
//@ end

//@ fn impl Loop :: fn header
//@ spec
    ensures /*@field*/ r == self.header,
//@ end

//@ fn impl Loop :: fn tail
//@ spec
    ensures /*@set*/ r@ == self.nodes@.remove(self.header),
//@ end

//@ fn impl Loop :: fn is_nesting
//@ spec
    ensures /*@iff*/ r == (self.header != other.header && self.nodes@.contains(other.header)),
//@ end

//@ fn impl Loop :: fn is_disjoint
//@ spec
    ensures /*@iff*/ r == (self.header != other.header && !self.nodes@.contains(other.header) && !other.nodes@.contains(self.header)),
//@ end
}

impl Vertex for Loop {
    open spec fn index_spec(&self) -> usize { self.header }
    proof fn lemma_clone_index(a: &Self, b: &Self) {}
//@ fn impl Vertex for Loop :: fn index nopub
//@ end
//@ fn impl Vertex for Loop :: fn dot_label nopub
//@ rewrite 1 `format!("{}", self)` => `self.to_string()` ## R-format-display: `format!("{}", x)` and `x.to_string()` are both defined as formatting x with its Display impl into a new String
//@ end
}

impl fmt::Display for Loop {
//@ fn impl fmt::Display for Loop :: fn fmt nopub
//@ end
}

//@ item type LoopTree

/// dn numbers exactly the elements of o by their position
pub open spec fn dfn_ok(o: Seq<usize>, dn: Map<usize, usize>) -> bool {
    &&& forall|v: usize| #![trigger dn.contains_key(v)] dn.contains_key(v) <==> o.contains(v)
    &&& forall|i: int| 0 <= i < o.len() ==> dn.contains_key(#[trigger] o[i]) && dn[o[i]] == i
}

/// every non-first element of the pre-order o has exactly one tree predecessor, which occurs earlier
pub open spec fn tree_parent_ok(tp: Map<usize, BTreeSet<usize>>, o: Seq<usize>) -> bool {
    &&& forall|i: int| 0 <= i < o.len() ==> tp.contains_key(#[trigger] o[i])
    &&& forall|i: int| 1 <= i < o.len() ==> tp[#[trigger] o[i]]@.len() == 1 && exists|j: int| 0 <= j < i && tp[o[i]]@.contains(#[trigger] o[j])
}

/// the ancestor links of the link-eval forest point to keys and strictly decrease the rank
pub open spec fn anc_ok(anc: Map<usize, Option<usize>>, rank: Map<usize, nat>) -> bool {
    forall|v: usize| #![trigger anc[v]] anc.contains_key(v) && anc[v] is Some ==>
        anc.contains_key(anc[v]->Some_0) && rank.contains_key(v) && rank.contains_key(anc[v]->Some_0) && rank[anc[v]->Some_0] < rank[v]
}

/// structural shape of an immediate-dominator map for (es, root): the keys are the reachable
/// vertices other than root, the values are reachable, and the parent relation strictly decreases
/// the position in some duplicate-free enumeration o of the reachable vertices that starts with root
/// (so following the map from any key ends at root: it is a tree rooted at root)
pub open spec fn idoms_shape(es: Set<(usize, usize)>, root: usize, m: Map<usize, usize>, o: Seq<usize>) -> bool {
    &&& o.no_duplicates() && o.len() > 0 && o[0] == root
    &&& forall|v: usize| #![trigger o.contains(v)] o.contains(v) <==> path(es, root, v)
    &&& forall|v: usize| #![trigger m.contains_key(v)] m.contains_key(v) <==> (path(es, root, v) && v != root)
    &&& forall|v: usize| #![trigger m[v]] m.contains_key(v) ==> path(es, root, m[v]) && pos_of(o, m[v]) < pos_of(o, v)
}

pub open spec fn has_idoms_shape(es: Set<(usize, usize)>, root: usize, m: Map<usize, usize>) -> bool {
    exists|o: Seq<usize>| #[trigger] idoms_shape(es, root, m, o)
}

/// t is the tree whose edges are exactly (m[v], v) over the vertex set vs
pub open spec fn domtree_of(t: &Graph<NullVertex, NullEdge>, vs: Set<usize>, m: Map<usize, usize>) -> bool {
    &&& t.graph_wf()
    &&& t.vertices@.dom() == vs
    &&& forall|e: (usize, usize)| #![trigger t.edges@.contains_key(e)] t.edges@.contains_key(e) <==> (m.contains_key(e.1) && m[e.1] == e.0)
}

/// structural shape of a dominator tree for (vs, es, root)
pub open spec fn has_domtree_shape(t: &Graph<NullVertex, NullEdge>, vs: Set<usize>, es: Set<(usize, usize)>, root: usize) -> bool {
    exists|m: Map<usize, usize>, o: Seq<usize>| #![trigger idoms_shape(es, root, m, o)] idoms_shape(es, root, m, o) && domtree_of(t, vs, m)
}

/// in such a tree every vertex reachable from root (in es) is reachable from root in the tree
pub proof fn lemma_domtree_reach(t: &Graph<NullVertex, NullEdge>, vs: Set<usize>, es: Set<(usize, usize)>, root: usize, m: Map<usize, usize>, o: Seq<usize>, v: usize)
    requires idoms_shape(es, root, m, o), domtree_of(t, vs, m), path(es, root, v),
    ensures path(t.edges@.dom(), root, v),
    decreases pos_of(o, v),
{
    let te = t.edges@.dom();
    if v == root {
        lemma_path_refl(te, root);
    } else {
        assert(m.contains_key(v));
        assert(o.contains(v));
        assert(o.contains(m[v]));
        assert(0 <= pos_of(o, m[v]));
        lemma_domtree_reach(t, vs, es, root, m, o, m[v]);
        assert(t.edges@.contains_key((m[v], v)));
        lemma_path_step(te, root, m[v], v);
    }
}

/// and conversely
pub proof fn lemma_domtree_reach_rev(t: &Graph<NullVertex, NullEdge>, vs: Set<usize>, es: Set<(usize, usize)>, root: usize, m: Map<usize, usize>, o: Seq<usize>, v: usize)
    requires idoms_shape(es, root, m, o), domtree_of(t, vs, m), path(t.edges@.dom(), root, v),
    ensures path(es, root, v),
{
    let te = t.edges@.dom();
    let f = |x: usize| path(es, root, x);
    lemma_path_refl(es, root);
    assert forall|a: usize, b: usize| #![trigger te.contains((a, b))] f(a) && te.contains((a, b)) implies f(b) by {
        assert(t.edges@.contains_key((a, b)));
        assert(m.contains_key(b));
    }
    lemma_path_closed(te, f, root, v);
}

/// every recorded loop contains its header and only mentions vertices reachable from head
pub open spec fn loops_ok(es: Set<(usize, usize)>, head: usize, lm: Map<usize, BTreeSet<usize>>) -> bool {
    forall|h: usize| #![trigger lm[h]] lm.contains_key(h) ==> lm[h]@.contains(h)
        && (forall|x: usize| #![trigger lm[h]@.contains(x)] lm[h]@.contains(x) ==> path(es, head, x))
}

/// structural shape of a list of natural loops of the flow graph rooted at head: headers pairwise
/// distinct, each loop contains its header, and every loop node is reachable from head
/// (vertices outside the flow graph are excluded)
pub open spec fn loops_shape(es: Set<(usize, usize)>, head: usize, ls: Seq<Loop>) -> bool {
    &&& forall|i: int| 0 <= i < ls.len() ==> (#[trigger] ls[i]).nodes@.contains(ls[i].header)
    &&& forall|i: int, x: usize| #![trigger ls[i].nodes@.contains(x)] 0 <= i < ls.len() && ls[i].nodes@.contains(x) ==> path(es, head, x)
    &&& forall|i: int, j: int| 0 <= i < j < ls.len() ==> (#[trigger] ls[i]).header != (#[trigger] ls[j]).header
}

pub proof fn lemma_pos_of(o: Seq<usize>, i: int)
    requires o.no_duplicates(), 0 <= i < o.len(),
    ensures pos_of(o, o[i]) == i,
{
    let j = pos_of(o, o[i]);
    assert(0 <= j < o.len() && o[j] == o[i]);
}

impl<V, E> Graph<V, E>
where
    V: Vertex,
    E: Edge,
{

//@ fn impl<V, E> Graph<V, E> :: fn compute_immediate_dominators loops=7
//@ rewrite 1 `dfs_pre_order .iter() .enumerate() .map(|(number, vertex)| (*vertex, number)) .collect();` => `{ let mut m__: FxHashMap<usize, usize> = FxHashMap::default(); for number in 0..dfs_pre_order.len() { m__.insert(dfs_pre_order[number], number); } m__ };` ## R-enumerate-collect: `v.iter().enumerate().map(|(i, x)| (*x, i)).collect::<HashMap<_, _>>()` is by definition the map obtained by inserting (v[i], i) for i = 0, 1, .. in order (Verus has no model of Enumerate)
//@ rewrite 3 `for &vertex in` => `for vertex__r in it:` ## R-ref-pattern: `for &x in ITER { BODY }` is `for x__r in ITER { let x = *x__r; BODY }` for Copy items (part 1 of 2; the iterator expressions stay the original tokens)
//@ rewrite 1 `{ ancestor.insert(vertex, None);` => `{ let vertex = *vertex__r; ancestor.insert(vertex, None);` ## R-ref-pattern: part 2 of 2 (loop over all vertices)
//@ rewrite 1 `{ let mut min_semi` => `{ let vertex = *vertex__r; let mut min_semi` ## R-ref-pattern: part 2 of 2 (semidominator loop)
//@ rewrite 1 `{ let mut idom =` => `{ let vertex = *vertex__r; let mut idom =` ## R-ref-pattern: part 2 of 2 (idom loop)
//@ rewrite 1 `for &pred in` => `for pred__r in it2:` ## R-ref-pattern: part 1 of 2 (predecessor loop)
//@ rewrite 1 `{ if ancestor[&pred].is_some()` => `{ let pred = *pred__r; if ancestor[&pred].is_some()` ## R-ref-pattern: part 2 of 2 (predecessor loop)
//@ rewrite 1 `let mut semi = FxHashMap::default();` => `let mut semi: FxHashMap<usize, usize> = FxHashMap::default();` ## R-type-annotation: spells out the inferred type of the local
//@ rewrite 1 `let mut idoms = FxHashMap::default();` => `let mut idoms: FxHashMap<usize, usize> = FxHashMap::default();` ## R-type-annotation: spells out the inferred type of the local
//@ rewrite 1 `let mut graph_idoms = FxHashMap::default();` => `let mut graph_idoms: FxHashMap<usize, usize> = FxHashMap::default();` ## R-type-annotation: spells out the inferred type of the local
//@ rewrite 1 `for (vertex, idom) in idoms {` => `for kv__ in it: idoms.iter() { let (vertex, idom) = (*kv__.0, *kv__.1);` ## R-iter-copy: by-value iteration over a HashMap of Copy pairs that is not used afterwards = by-reference iteration copying each entry (Verus has no model of hash_map::IntoIter)
//@ rewrite 1 `v: usize, ) {` => `v: usize, ) requires old(ancestor)@.contains_key(v), old(ancestor)@[v] is Some, old(label)@.dom() == old(ancestor)@.dom(), exists|rank: Map<usize, nat>| anc_ok(old(ancestor)@, rank), ensures /*@doms*/ final(ancestor)@.dom() == old(ancestor)@.dom() && final(label)@.dom() == old(label)@.dom(), /*@ranked*/ forall|rank: Map<usize, nat>| anc_ok(old(ancestor)@, rank) ==> anc_ok(final(ancestor)@, rank), decreases (choose|rank: Map<usize, nat>| anc_ok(old(ancestor)@, rank))[v], {` ## R-nested-contract: attaches requires / ensures / decreases to the signature of the nested fn `compress`; executable tokens unchanged
//@ spec
    requires self.graph_wf(),
    ensures
        /*@missing*/ !self.vertices@.contains_key(root) ==> (r matches Err(e) && e == Error::GraphVertexNotFound(root)),
        /*@ok*/ self.vertices@.contains_key(root) ==> r is Ok,
        /*@shape*/ r matches Ok(m) ==> has_idoms_shape(self.edges@.dom(), root, m@),
//@ closure 0 |vertex: usize| -> (res: Option<usize>)
    requires dfs.predecessors@.contains_key(vertex),
    ensures
        dfs.predecessors@[vertex]@.len() == 0 ==> res is None,
        forall|p: usize| dfs.predecessors@[vertex]@.len() == 1 && dfs.predecessors@[vertex]@.contains(p) ==> res == Some(p),
//@ before 0 `let dfs_pre_order =`
    proof {
        lemma_path_refl(self.edges@.dom(), root);
        assert(dfs.vertices@.contains_key(root));
    }
//@ before 0 `let dfs_parent =`
    let ghost o = dfs_pre_order@;
    let ghost es = self.edges@.dom();
    proof {
        let de = dfs.edges@.dom();
        assert(dfs.vertices@.contains_key(root)) by { lemma_path_refl(es, root); }
        // o enumerates exactly the vertices reachable from root in self
        assert forall|v: usize| #![trigger o.contains(v)] o.contains(v) <==> path(es, root, v) by {
            if o.contains(v) { dfs.lemma_reach_is_vertex(root, v); }
            if path(es, root, v) { assert(dfs.vertices@.contains_key(v)); }
        }
        // every non-first element has exactly one tree predecessor, and it occurs earlier
        assert(tree_parent_ok(dfs.predecessors@, o)) by {
            assert forall|i: int| 0 <= i < o.len() implies dfs.predecessors@.contains_key(#[trigger] o[i]) by {
                assert(o.contains(o[i]));
                assert(dfs.vertices@.contains_key(o[i]));
            }
            assert forall|i: int| 1 <= i < o.len() implies dfs.predecessors@[#[trigger] o[i]]@.len() == 1 && exists|j: int| 0 <= j < i && dfs.predecessors@[o[i]]@.contains(#[trigger] o[j]) by {
                assert(o.contains(o[i]));
                assert(o[i] != o[0]);
                assert(has_earlier_pred(de, o, i, o[i]));
                let j = choose|j: int| 0 <= j < i && j < o.len() && de.contains((#[trigger] o[j], o[i]));
                assert(dfs.edges@.contains_key((o[j], o[i])));
            }
        }
    }
//@ loop 0
    invariant
        number <= dfs_pre_order@.len(), o == dfs_pre_order@, o.no_duplicates(),
        forall|v: usize| #![trigger m__@.contains_key(v)] m__@.contains_key(v) <==> (exists|i: int| 0 <= i < number && #[trigger] o[i] == v),
        forall|i: int| 0 <= i < number ==> m__@.contains_key(#[trigger] o[i]) && m__@[o[i]] == i,
//@ after 0 `let graph_number = &dfs_pre_order;`
    let ghost rank: Map<usize, nat> = dfs_number@.map_values(|x: usize| x as nat);
    proof {
        assert(dfn_ok(o, dfs_number@)) by {
            assert forall|v: usize| #![trigger dfs_number@.contains_key(v)] dfs_number@.contains_key(v) <==> o.contains(v) by {
                if dfs_number@.contains_key(v) { let i = choose|i: int| 0 <= i < o.len() && #[trigger] o[i] == v; }
                if o.contains(v) { let i = choose|i: int| 0 <= i < o.len() && o[i] == v; assert(dfs_number@.contains_key(o[i])); }
            }
        }
    }
//@ loop 1
    invariant
        self.graph_wf(),
        seq_lists_set_ref(it.seq(), self.vertices@.dom()),
        forall|k: usize| #![trigger ancestor@.contains_key(k)] #![trigger label@.contains_key(k)] ancestor@.contains_key(k) <==> label@.contains_key(k),
        forall|k: usize| #![trigger ancestor@.contains_key(k)] ancestor@.contains_key(k) ==> self.vertices@.contains_key(k) && ancestor@[k] is None,
        forall|j: int| 0 <= j < it.index@ ==> ancestor@.contains_key(*#[trigger] it.seq()[j]),
//@ before 0 `ancestor.insert(vertex, None);`
    proof { lemma_seq_lists_set_ref(it.seq(), self.vertices@.dom()); }
//@ before 0 `let mut semi: FxHashMap<usize, usize>`
    proof {
        assert forall|k: usize| self.vertices@.contains_key(k) implies #[trigger] ancestor@.contains_key(k) by {
            assert(self.vertices@.dom().contains(k));
        }
        assert(ancestor@.dom() =~= self.vertices@.dom());
        assert(label@.dom() =~= self.vertices@.dom());
        assert(anc_ok(ancestor@, rank));
    }
//@ loop 2
    invariant
        self.graph_wf(), o == dfs_pre_order@, o.no_duplicates(), o.len() > 0,
        forall|v: usize| #![trigger o.contains(v)] o.contains(v) ==> self.vertices@.contains_key(v),
        dfn_ok(o, dfs_number@), rank == dfs_number@.map_values(|x: usize| x as nat),
        tree_parent_ok(dfs.predecessors@, o),
        forall|v: usize| #![trigger dfs_parent.requires((v,))] dfs.predecessors@.contains_key(v) ==> dfs_parent.requires((v,)),
        forall|v: usize, res: Option<usize>| #![trigger dfs_parent.ensures((v,), res)] dfs_parent.ensures((v,), res) && dfs.predecessors@.contains_key(v) ==>
            (dfs.predecessors@[v]@.len() == 0 ==> res is None)
            && (forall|p: usize| dfs.predecessors@[v]@.len() == 1 && dfs.predecessors@[v]@.contains(p) ==> res == Some(p)),
        it.seq().len() == o.len() - 1,
        forall|k: int| 0 <= k < it.seq().len() ==> *#[trigger] it.seq()[k] == o[o.len() - 1 - k],
        ancestor@.dom() == self.vertices@.dom(), label@.dom() == self.vertices@.dom(),
        anc_ok(ancestor@, rank),
        forall|i: int| o.len() - it.index@ <= i < o.len() ==> semi@.contains_key(#[trigger] o[i]),
//@ loop 3
    invariant
        self.graph_wf(), self.vertices@.contains_key(vertex),
        seq_lists_set_ref(it2.seq(), self.predecessors@[vertex]@),
        ancestor@.dom() == self.vertices@.dom(), label@.dom() == self.vertices@.dom(),
        anc_ok(ancestor@, rank),
//@ before 0 `if ancestor[&pred].is_some()`
    proof {
        lemma_seq_lists_set_ref(it2.seq(), self.predecessors@[vertex]@);
        assert(self.predecessors@[vertex]@.contains(pred));
        assert(self.edges@.contains_key((pred, vertex)));
        assert(self.vertices@.contains_key(pred));
    }
//@ before 0 `semi.insert(vertex, min_semi);`
    let ghost anc1 = ancestor@;
    let ghost semi1 = semi@;
    let ghost i_v = o.len() - 1 - it.index@;
    proof {
        assert(vertex == o[i_v]);
        assert(1 <= i_v < o.len());
        assert(o.contains(o[i_v]));
    }
//@ after 0 `ancestor.insert(vertex, dfs_parent(vertex));`
    proof {
        // the new ancestor link goes to the tree parent, which has a smaller pre-order number
        let j = choose|j: int| 0 <= j < i_v && dfs.predecessors@[o[i_v]]@.contains(#[trigger] o[j]);
        assert(ancestor@[vertex] == Some(o[j]));
        assert(o.contains(o[j]));
        assert(rank[o[j]] == j as nat && rank[vertex] == i_v as nat);
        assert(anc_ok(ancestor@, rank)) by {
            assert forall|v: usize| #![trigger ancestor@[v]] ancestor@.contains_key(v) && ancestor@[v] is Some implies
                ancestor@.contains_key(ancestor@[v]->Some_0) && rank.contains_key(v) && rank.contains_key(ancestor@[v]->Some_0) && rank[ancestor@[v]->Some_0] < rank[v] by {
                if v != vertex { assert(ancestor@[v] == anc1[v]); }
            }
        }
        assert forall|i: int| o.len() - (it.index@ + 1) <= i < o.len() implies semi@.contains_key(#[trigger] o[i]) by {
            if i != i_v { assert(semi1.contains_key(o[i])); }
        }
    }
//@ before 0 `let mut idoms: FxHashMap<usize, usize>`
    proof {
        assert forall|i: int| 1 <= i < o.len() implies semi@.contains_key(#[trigger] o[i]) by { }
    }
//@ loop 4
    invariant
        o == dfs_pre_order@, o.no_duplicates(), o.len() > 0,
        dfn_ok(o, dfs_number@),
        tree_parent_ok(dfs.predecessors@, o),
        forall|v: usize| #![trigger dfs_parent.requires((v,))] dfs.predecessors@.contains_key(v) ==> dfs_parent.requires((v,)),
        forall|v: usize, res: Option<usize>| #![trigger dfs_parent.ensures((v,), res)] dfs_parent.ensures((v,), res) && dfs.predecessors@.contains_key(v) ==>
            (dfs.predecessors@[v]@.len() == 0 ==> res is None)
            && (forall|p: usize| dfs.predecessors@[v]@.len() == 1 && dfs.predecessors@[v]@.contains(p) ==> res == Some(p)),
        it.seq().len() == o.len() - 1,
        forall|k: int| 0 <= k < it.seq().len() ==> *#[trigger] it.seq()[k] == o[k + 1],
        forall|i: int| 1 <= i < o.len() ==> semi@.contains_key(#[trigger] o[i]),
        forall|m: usize| #![trigger idoms@.contains_key(m)] idoms@.contains_key(m) <==> 1 <= m <= it.index@,
        forall|m: usize| #![trigger idoms@[m]] idoms@.contains_key(m) ==> idoms@[m] < m,
//@ before 0 `let mut idom =`
    let ghost i_v = it.index@ + 1;
    let ghost jp = choose|j: int| 0 <= j < i_v && dfs.predecessors@[o[i_v]]@.contains(#[trigger] o[j]);
    proof {
        assert(vertex == o[i_v]);
        assert(o.contains(o[jp]));
    }
//@ loop 5
    invariant
        idom <= jp, jp < i_v, i_v == it.index@ + 1,
        semi@.contains_key(vertex),
        forall|m: usize| #![trigger idoms@.contains_key(m)] idoms@.contains_key(m) <==> 1 <= m <= it.index@,
        forall|m: usize| #![trigger idoms@[m]] idoms@.contains_key(m) ==> idoms@[m] < m,
    decreases idom,
//@ before 0 `idoms.insert(dfs_number[&vertex], idom);`
    proof {
        assert(o.contains(o[i_v]));
        assert(dfs_number@[vertex] == i_v);
    }
//@ before 0 `let mut graph_idoms: FxHashMap<usize, usize>`
    proof {
        assert forall|m: usize| #![trigger idoms@.contains_key(m)] idoms@.contains_key(m) <==> 1 <= m < o.len() by { }
        if o.len() > 1 {
            assert(idoms@.dom().contains(1usize));
            assert(idoms@.dom().len() > 0);
        }
        assert(idoms@.len() == idoms@.dom().len());
    }
//@ loop 6
    invariant
        o == dfs_pre_order@, o == graph_number@, o.no_duplicates(), o.len() > 0,
        seq_lists_map(it.seq(), idoms@),
        forall|m: usize| #![trigger idoms@.contains_key(m)] idoms@.contains_key(m) <==> 1 <= m < o.len(),
        forall|m: usize| #![trigger idoms@[m]] idoms@.contains_key(m) ==> idoms@[m] < m,
        forall|v: usize| #![trigger graph_idoms@.contains_key(v)] graph_idoms@.contains_key(v) ==>
            exists|m: int| 1 <= m < o.len() && #[trigger] o[m] == v && graph_idoms@[v] == o[idoms@[#[verifier::truncate] (m as usize)] as int],
        forall|j: int| 0 <= j < it.index@ ==> graph_idoms@.contains_key(o[*(#[trigger] it.seq()[j]).0 as int]),
        forall|m: int| #![trigger o[m]] it.index@ == it.seq().len() && 1 <= m < o.len() ==> graph_idoms@.contains_key(o[m]),
//@ before 0 `graph_idoms.insert(graph_number[vertex], graph_number[idom]);`
    let ghost gi0 = graph_idoms@;
    proof {
        lemma_seq_lists_map(it.seq(), idoms@);
        assert(idoms@.contains_pair(*kv__.0, *kv__.1));
        assert(1 <= vertex < o.len() && idom < vertex);
    }
//@ after 0 `graph_idoms.insert(graph_number[vertex], graph_number[idom]);`
    proof {
        assert forall|v: usize| #![trigger graph_idoms@.contains_key(v)] graph_idoms@.contains_key(v) implies
            exists|m: int| 1 <= m < o.len() && #[trigger] o[m] == v && graph_idoms@[v] == o[idoms@[#[verifier::truncate] (m as usize)] as int] by {
            if v == o[vertex as int] {
                assert(o[vertex as int] == v && graph_idoms@[v] == o[idoms@[vertex] as int]);
            } else {
                assert(gi0.contains_key(v));
                let m = choose|m: int| 1 <= m < o.len() && #[trigger] o[m] == v && gi0[v] == o[idoms@[#[verifier::truncate] (m as usize)] as int];
                assert(o[m] == v && graph_idoms@[v] == o[idoms@[#[verifier::truncate] (m as usize)] as int]);
            }
        }
        assert forall|m: int| #![trigger o[m]] it.index@ + 1 == it.seq().len() && 1 <= m < o.len() implies graph_idoms@.contains_key(o[m]) by {
            assert(idoms@.contains_key(m as usize));
            let j = choose|j: int| 0 <= j < it.seq().len() && *(#[trigger] it.seq()[j]).0 == m as usize;
            if j < it.index@ { assert(gi0.contains_key(o[*it.seq()[j].0 as int])); }
        }
    }
//@ before 0 `Ok(graph_idoms)`
    proof {
        let m = graph_idoms@;
        assert(idoms_shape(es, root, m, o)) by {
            assert forall|v: usize| #![trigger m.contains_key(v)] m.contains_key(v) <==> (path(es, root, v) && v != root) by {
                if m.contains_key(v) {
                    let k = choose|k: int| 1 <= k < o.len() && #[trigger] o[k] == v && m[v] == o[idoms@[#[verifier::truncate] (k as usize)] as int];
                    assert(o.contains(o[k]));
                    assert(o[k] != o[0]);
                }
                if path(es, root, v) && v != root {
                    assert(o.contains(v));
                    let k = choose|k: int| 0 <= k < o.len() && o[k] == v;
                    assert(m.contains_key(o[k]));
                }
            }
            assert forall|v: usize| #![trigger m[v]] m.contains_key(v) implies path(es, root, m[v]) && pos_of(o, m[v]) < pos_of(o, v) by {
                let k = choose|k: int| 1 <= k < o.len() && #[trigger] o[k] == v && m[v] == o[idoms@[#[verifier::truncate] (k as usize)] as int];
                let d = idoms@[k as usize] as int;
                assert(idoms@.contains_key(k as usize));
                assert(0 <= d < k);
                assert(o.contains(o[d]));
                lemma_pos_of(o, k);
                lemma_pos_of(o, d);
            }
        }
        assert(idoms_shape(self.edges@.dom(), root, graph_idoms@, o));
        assert(has_idoms_shape(self.edges@.dom(), root, graph_idoms@));
    }
//@ end


//@ fn impl<V, E> Graph<V, E> :: fn compute_dominator_tree loops=2
//@ rewrite 1 `let mut graph = Graph::new();` => `let mut graph: Graph<NullVertex, NullEdge> = Graph::new();` ## R-type-annotation: spells out the inferred type of the local
//@ rewrite 1 `for vertex in &self.vertices {` => `for vertex in it: &self.vertices {` ## R-ghost-iter-name: names the ghost iterator of the for loop; no executable change
//@ rewrite 1 `for (vertex, idom) in idoms {` => `for kv__ in it: idoms.iter() { let (vertex, idom) = (*kv__.0, *kv__.1);` ## R-iter-copy: by-value iteration over a HashMap of Copy pairs that is not used afterwards = by-reference iteration copying each entry (Verus has no model of hash_map::IntoIter)
//@ spec
    requires self.graph_wf(),
    ensures
        /*@missing*/ !self.vertices@.contains_key(start_index) ==> (r matches Err(e) && e == Error::GraphVertexNotFound(start_index)),
        /*@ok*/ self.vertices@.contains_key(start_index) ==> r is Ok,
        /*@shape*/ r matches Ok(t) ==> has_domtree_shape(&t, self.vertices@.dom(), self.edges@.dom(), start_index),
//@ loop 0
    invariant
        self.graph_wf(),
        seq_lists_map(it.seq(), self.vertices@),
        graph.graph_wf(), graph.edges@.dom() =~= Set::<(usize, usize)>::empty(),
        forall|k: usize| #![trigger graph.vertices@.contains_key(k)] graph.vertices@.contains_key(k) ==> self.vertices@.contains_key(k),
        forall|k: usize| #![trigger graph.vertices@.contains_key(k)] graph.vertices@.contains_key(k) ==> exists|j: int| 0 <= j < it.index@ && *(#[trigger] it.seq()[j]).0 == k,
        forall|j: int| 0 <= j < it.index@ ==> graph.vertices@.contains_key(*(#[trigger] it.seq()[j]).0),
        forall|k: usize| #![trigger self.vertices@.contains_key(k)] it.index@ == it.seq().len() && self.vertices@.contains_key(k) ==> graph.vertices@.contains_key(k),
//@ before 0 `graph.insert_vertex(NullVertex::new(*vertex.0))?;`
    let ghost gv0 = graph.vertices@.dom();
    proof {
        lemma_seq_lists_map(it.seq(), self.vertices@);
        assert(self.vertices@.contains_pair(*vertex.0, *vertex.1));
        if graph.vertices@.contains_key(*vertex.0) {
            let j = choose|j: int| 0 <= j < it.index@ && *(#[trigger] it.seq()[j]).0 == *vertex.0;
            assert(*it.seq()[j].0 != *it.seq()[it.index@].0);
        }
    }
//@ after 0 `graph.insert_vertex(NullVertex::new(*vertex.0))?;`
    proof {
        assert forall|k: usize| #![trigger graph.vertices@.contains_key(k)] graph.vertices@.contains_key(k) implies exists|j: int| 0 <= j < it.index@ + 1 && *(#[trigger] it.seq()[j]).0 == k by {
            if k != *vertex.0 {
                assert(gv0.contains(k));
                let j = choose|j: int| 0 <= j < it.index@ && *(#[trigger] it.seq()[j]).0 == k;
            }
        }
        assert forall|k: usize| #![trigger self.vertices@.contains_key(k)] it.index@ + 1 == it.seq().len() && self.vertices@.contains_key(k) implies graph.vertices@.contains_key(k) by {
            let j = choose|j: int| 0 <= j < it.seq().len() && *(#[trigger] it.seq()[j]).0 == k;
            if j < it.index@ { assert(gv0.contains(*it.seq()[j].0)); }
        }
    }
//@ before 0 `for kv__ in it: idoms.iter()`
    let ghost m = idoms@;
    let ghost o = choose|o: Seq<usize>| #[trigger] idoms_shape(self.edges@.dom(), start_index, idoms@, o);
    proof {
        assert(graph.vertices@.dom() =~= self.vertices@.dom());
        assert(has_idoms_shape(self.edges@.dom(), start_index, idoms@));
        assert(idoms_shape(self.edges@.dom(), start_index, m, o));
        if m.dom().len() == 0 { assert(forall|k: usize| !m.dom().contains(k)); }
        assert(m.len() == m.dom().len());
    }
//@ loop 1
    invariant
        self.graph_wf(), self.vertices@.contains_key(start_index), m == idoms@,
        idoms_shape(self.edges@.dom(), start_index, m, o),
        seq_lists_map(it.seq(), m),
        graph.graph_wf(), graph.vertices@.dom() == self.vertices@.dom(),
        forall|e: (usize, usize)| #![trigger graph.edges@.contains_key(e)] graph.edges@.contains_key(e) ==> m.contains_key(e.1) && m[e.1] == e.0
            && exists|j: int| 0 <= j < it.index@ && *(#[trigger] it.seq()[j]).0 == e.1,
        forall|j: int| 0 <= j < it.index@ ==> graph.edges@.contains_key((m[*(#[trigger] it.seq()[j]).0], *it.seq()[j].0)),
        forall|e: (usize, usize)| #![trigger graph.edges@.contains_key(e)] it.index@ == it.seq().len() && m.contains_key(e.1) && m[e.1] == e.0 ==> graph.edges@.contains_key(e),
//@ before 0 `graph.insert_edge(NullEdge::new(idom, vertex))?;`
    let ghost ge0 = graph.edges@.dom();
    proof {
        lemma_seq_lists_map(it.seq(), m);
        assert(m.contains_pair(*kv__.0, *kv__.1));
        self.lemma_reach_is_vertex(start_index, vertex);
        self.lemma_reach_is_vertex(start_index, idom);
        if graph.edges@.contains_key((idom, vertex)) {
            let j = choose|j: int| 0 <= j < it.index@ && *(#[trigger] it.seq()[j]).0 == vertex;
            assert(*it.seq()[j].0 != *it.seq()[it.index@].0);
        }
    }
//@ after 0 `graph.insert_edge(NullEdge::new(idom, vertex))?;`
    proof {
        assert(graph.edges@.dom() =~= ge0.insert((idom, vertex)));
        assert forall|e: (usize, usize)| #![trigger graph.edges@.contains_key(e)] graph.edges@.contains_key(e) implies m.contains_key(e.1) && m[e.1] == e.0
            && exists|j: int| 0 <= j < it.index@ + 1 && *(#[trigger] it.seq()[j]).0 == e.1 by {
            if e != (idom, vertex) {
                assert(ge0.contains(e));
                let j = choose|j: int| 0 <= j < it.index@ && *(#[trigger] it.seq()[j]).0 == e.1;
            } else {
                assert(*it.seq()[it.index@].0 == e.1);
            }
        }
        assert forall|j: int| 0 <= j < it.index@ + 1 implies graph.edges@.contains_key((m[*(#[trigger] it.seq()[j]).0], *it.seq()[j].0)) by {
            if j < it.index@ { assert(ge0.contains((m[*it.seq()[j].0], *it.seq()[j].0))); }
        }
        assert forall|e: (usize, usize)| #![trigger graph.edges@.contains_key(e)] it.index@ + 1 == it.seq().len() && m.contains_key(e.1) && m[e.1] == e.0 implies graph.edges@.contains_key(e) by {
            let j = choose|j: int| 0 <= j < it.seq().len() && *(#[trigger] it.seq()[j]).0 == e.1;
            assert(e == (m[*it.seq()[j].0], *it.seq()[j].0));
        }
    }
//@ before 0 `Ok(graph)`
    proof {
        assert(domtree_of(&graph, self.vertices@.dom(), m));
        assert(has_domtree_shape(&graph, self.vertices@.dom(), self.edges@.dom(), start_index));
    }
//@ end


//@ fn impl<V, E> Graph<V, E> :: fn compute_dominators loops=3
//@ rewrite 1 `for vertex in dom_tree_pre_oder {` => `for vertex in it: dom_tree_pre_oder {` ## R-ghost-iter-name: names the ghost iterator of the for loop; no executable change
//@ rewrite 1 `let mut doms = FxHashSet::default();` => `let mut doms: FxHashSet<usize> = FxHashSet::default();` ## R-type-annotation: spells out the inferred type of the local
//@ rewrite 1 `for pred in &dom_tree` => `for pred in it2: &dom_tree` ## R-ghost-iter-name: names the ghost iterator of the for loop; no executable change
//@ rewrite 1 `doms.extend(&dominators[pred])` => `for x__ in it3: dominators[pred].iter() { doms.insert(*x__); }` ## R-extend: `set.extend(&other)` (Extend<&T> for HashSet<T>, T: Copy) is by definition inserting a copy of every element of `other`
//@ spec
    requires self.graph_wf(),
    ensures
        /*@missing*/ !self.vertices@.contains_key(start_index) ==> (r matches Err(e) && e == Error::GraphVertexNotFound(start_index)),
        /*@ok*/ self.vertices@.contains_key(start_index) ==> r is Ok,
        /*@keys*/ r matches Ok(d) ==> forall|v: usize| #![trigger d@.contains_key(v)] d@.contains_key(v) <==> self.reaches(start_index, v),
        /*@self*/ r matches Ok(d) ==> forall|v: usize| #![trigger d@[v]] d@.contains_key(v) ==> d@[v]@.contains(v),
        /*@members*/ r matches Ok(d) ==> forall|v: usize, x: usize| #![trigger d@[v]@.contains(x)] d@.contains_key(v) && d@[v]@.contains(x) ==> self.reaches(start_index, x),
//@ before 0 `let dom_tree_pre_oder =`
    let ghost es = self.edges@.dom();
    let ghost te = dom_tree.edges@.dom();
    let ghost (m, o) = choose|m: Map<usize, usize>, o: Seq<usize>| #![trigger idoms_shape(es, start_index, m, o)] idoms_shape(es, start_index, m, o) && domtree_of(&dom_tree, self.vertices@.dom(), m);
    proof {
        assert(has_domtree_shape(&dom_tree, self.vertices@.dom(), es, start_index));
        assert(idoms_shape(es, start_index, m, o) && domtree_of(&dom_tree, self.vertices@.dom(), m));
    }
//@ before 0 `let mut dominators:`
    let ghost po = dom_tree_pre_oder@;
    proof {
        assert forall|v: usize| #![trigger po.contains(v)] po.contains(v) <==> path(es, start_index, v) by {
            if po.contains(v) { lemma_domtree_reach_rev(&dom_tree, self.vertices@.dom(), es, start_index, m, o, v); }
            if path(es, start_index, v) { lemma_domtree_reach(&dom_tree, self.vertices@.dom(), es, start_index, m, o, v); }
        }
    }
//@ loop 0
    invariant
        self.graph_wf(), self.vertices@.contains_key(start_index), es == self.edges@.dom(), te == dom_tree.edges@.dom(),
        idoms_shape(es, start_index, m, o), domtree_of(&dom_tree, self.vertices@.dom(), m),
        it.seq() == po, po.no_duplicates(), po.len() > 0, po[0] == start_index,
        forall|v: usize| #![trigger po.contains(v)] po.contains(v) <==> path(es, start_index, v),
        forall|i: int| 1 <= i < po.len() ==> has_earlier_pred(te, po, i, #[trigger] po[i]),
        forall|v: usize| #![trigger dominators@.contains_key(v)] dominators@.contains_key(v) <==> index_before(po, v, it.index@),
        forall|v: usize| #![trigger dominators@[v]] dominators@.contains_key(v) ==> dominators@[v]@.contains(v),
        forall|v: usize, x: usize| #![trigger dominators@[v]@.contains(x)] dominators@.contains_key(v) && dominators@[v]@.contains(x) ==> path(es, start_index, x),
//@ before 0 `for pred in it2: &dom_tree`
    let ghost i_v = it.index@;
    proof {
        assert(vertex == po[i_v]);
        assert(po.contains(po[i_v]));
        self.lemma_reach_is_vertex(start_index, vertex);
        // every tree predecessor of vertex already has its dominator set
        assert forall|p: usize| dom_tree.predecessors@[vertex]@.contains(p) implies #[trigger] dominators@.contains_key(p) by {
            assert(dom_tree.edges@.contains_key((p, vertex)));
            assert(m.contains_key(vertex) && m[vertex] == p);
            assert(po[i_v] != po[0]);
            assert(has_earlier_pred(te, po, i_v, po[i_v]));
            let j = choose|j: int| 0 <= j < i_v && j < po.len() && te.contains((#[trigger] po[j], po[i_v]));
            assert(dom_tree.edges@.contains_key((po[j], vertex)));
            assert(po[j] == p);
            assert(index_before(po, p, i_v));
        }
    }
//@ loop 1
    invariant
        dom_tree.predecessors@.contains_key(vertex),
        seq_lists_set_ref(it2.seq(), dom_tree.predecessors@[vertex]@),
        forall|p: usize| dom_tree.predecessors@[vertex]@.contains(p) ==> #[trigger] dominators@.contains_key(p),
        forall|v: usize, x: usize| #![trigger dominators@[v]@.contains(x)] dominators@.contains_key(v) && dominators@[v]@.contains(x) ==> path(es, start_index, x),
        doms@.contains(vertex),
        forall|x: usize| #![trigger doms@.contains(x)] doms@.contains(x) ==> path(es, start_index, x),
//@ before 0 `for x__ in it3: dominators[pred].iter()`
    proof {
        lemma_seq_lists_set_ref(it2.seq(), dom_tree.predecessors@[vertex]@);
        assert(dom_tree.predecessors@[vertex]@.contains(*pred));
    }
//@ loop 2
    invariant
        dominators@.contains_key(*pred),
        seq_lists_set_ref(it3.seq(), dominators@[*pred]@),
        forall|v: usize, x: usize| #![trigger dominators@[v]@.contains(x)] dominators@.contains_key(v) && dominators@[v]@.contains(x) ==> path(es, start_index, x),
        doms@.contains(vertex),
        forall|x: usize| #![trigger doms@.contains(x)] doms@.contains(x) ==> path(es, start_index, x),
//@ before 0 `doms.insert(*x__);`
    proof {
        lemma_seq_lists_set_ref(it3.seq(), dominators@[*pred]@);
        assert(dominators@[*pred]@.contains(*x__));
    }
//@ before 0 `dominators.insert(vertex, doms);`
    let ghost d0 = dominators@;
//@ after 0 `dominators.insert(vertex, doms);`
    proof {
        assert forall|v: usize| #![trigger dominators@.contains_key(v)] dominators@.contains_key(v) <==> index_before(po, v, i_v + 1) by {
            if dominators@.contains_key(v) {
                if v == vertex { assert(po[i_v] == v); }
                else {
                    assert(d0.contains_key(v));
                    let j = choose|j: int| 0 <= j < i_v && j < po.len() && #[trigger] po[j] == v;
                    assert(po[j] == v);
                }
            }
            if index_before(po, v, i_v + 1) {
                let j = choose|j: int| 0 <= j < i_v + 1 && j < po.len() && #[trigger] po[j] == v;
                if j < i_v { assert(index_before(po, v, i_v)); }
            }
        }
        assert forall|v: usize, x: usize| #![trigger dominators@[v]@.contains(x)] dominators@.contains_key(v) && dominators@[v]@.contains(x) implies path(es, start_index, x) by {
            if v != vertex { assert(d0[v]@.contains(x)); }
        }
        assert forall|v: usize| #![trigger dominators@[v]] dominators@.contains_key(v) implies dominators@[v]@.contains(v) by {
            if v != vertex { assert(d0.contains_key(v)); }
        }
    }
//@ before 0 `Ok(dominators)`
    proof {
        assert forall|v: usize| #![trigger dominators@.contains_key(v)] dominators@.contains_key(v) <==> self.reaches(start_index, v) by {
            if dominators@.contains_key(v) {
                let j = choose|j: int| 0 <= j < po.len() && j < po.len() && #[trigger] po[j] == v;
                assert(po.contains(po[j]));
            }
            if self.reaches(start_index, v) {
                assert(po.contains(v));
                let j = choose|j: int| 0 <= j < po.len() && po[j] == v;
                assert(index_before(po, v, po.len() as int));
            }
        }
    }
//@ end


//@ fn impl<V, E> Graph<V, E> :: fn compute_back_edges loops=2
//@ rewrite 1 `for (node, dominators) in self.compute_dominators(head)? {` => `let doms__ = self.compute_dominators(head)?; for kv__ in it: doms__.iter() { let (node, dominators) = (*kv__.0, kv__.1);` ## R-iter-copy: by-value iteration over a temporary HashMap whose values are only read = binding it to a local and iterating by reference (Verus has no model of hash_map::IntoIter); the key is copied, the value set is used through `contains` only
//@ rewrite 1 `for successor in &self` => `for successor in it2: &self` ## R-ghost-iter-name: names the ghost iterator of the for loop; no executable change
//@ spec
    requires self.graph_wf(),
    ensures
        /*@missing*/ !self.vertices@.contains_key(head) ==> (r matches Err(e) && e == Error::GraphVertexNotFound(head)),
        /*@ok*/ self.vertices@.contains_key(head) ==> r is Ok,
        /*@edges*/ r matches Ok(b) ==> forall|e: (usize, usize)| #![trigger b@.contains(e)] b@.contains(e) ==> self.edges@.contains_key(e) && self.reaches(head, e.0) && self.reaches(head, e.1),
//@ loop 0
    invariant
        self.graph_wf(), self.vertices@.contains_key(head),
        seq_lists_map(it.seq(), doms__@),
        forall|v: usize| #![trigger doms__@.contains_key(v)] doms__@.contains_key(v) <==> self.reaches(head, v),
        forall|v: usize, x: usize| #![trigger doms__@[v]@.contains(x)] doms__@.contains_key(v) && doms__@[v]@.contains(x) ==> self.reaches(head, x),
        forall|e: (usize, usize)| #![trigger back_edges@.contains(e)] back_edges@.contains(e) ==> self.edges@.contains_key(e) && self.reaches(head, e.0) && self.reaches(head, e.1),
//@ before 0 `for successor in it2: &self`
    proof {
        lemma_seq_lists_map(it.seq(), doms__@);
        assert(doms__@.contains_pair(*kv__.0, *kv__.1));
        self.lemma_reach_is_vertex(head, node);
    }
//@ loop 1
    invariant
        self.graph_wf(), self.vertices@.contains_key(node), self.reaches(head, node),
        doms__@.contains_key(node), *dominators == doms__@[node],
        seq_lists_set_ref(it2.seq(), self.successors@[node]@),
        forall|v: usize, x: usize| #![trigger doms__@[v]@.contains(x)] doms__@.contains_key(v) && doms__@[v]@.contains(x) ==> self.reaches(head, x),
        forall|e: (usize, usize)| #![trigger back_edges@.contains(e)] back_edges@.contains(e) ==> self.edges@.contains_key(e) && self.reaches(head, e.0) && self.reaches(head, e.1),
//@ before 0 `if dominators.contains(successor)`
    proof {
        lemma_seq_lists_set_ref(it2.seq(), self.successors@[node]@);
        assert(self.successors@[node]@.contains(*successor));
        assert(self.edges@.contains_key((node, *successor)));
    }
//@ end

//@ fn impl<V, E> Graph<V, E> :: fn is_reducible loops=2
//@ rewrite 1 `let mut fe_graph = Graph::new();` => `let mut fe_graph: Graph<NullVertex, NullEdge> = Graph::new();` ## R-type-annotation: spells out the inferred type of the local
//@ rewrite 1 `for index in self.vertices.keys() {` => `for index in it: self.vertices.keys() {` ## R-ghost-iter-name: names the ghost iterator of the for loop; no executable change
//@ rewrite 1 `for edge in self.edges.keys() {` => `for edge in it: self.edges.keys() {` ## R-ghost-iter-name: names the ghost iterator of the for loop; no executable change
//@ spec
    requires self.graph_wf(),
    ensures
        /*@missing*/ !self.vertices@.contains_key(head) ==> (r matches Err(e) && e == Error::GraphVertexNotFound(head)),
        /*@ok*/ self.vertices@.contains_key(head) ==> r is Ok,
//@ loop 0
    invariant
        self.graph_wf(),
        seq_lists_set_ref(it.seq(), self.vertices@.dom()),
        fe_graph.graph_wf(), fe_graph.edges@.dom() =~= Set::<(usize, usize)>::empty(),
        forall|k: usize| #![trigger fe_graph.vertices@.contains_key(k)] fe_graph.vertices@.contains_key(k) ==> self.vertices@.contains_key(k),
        forall|k: usize| #![trigger fe_graph.vertices@.contains_key(k)] fe_graph.vertices@.contains_key(k) ==> exists|j: int| 0 <= j < it.index@ && *#[trigger] it.seq()[j] == k,
        forall|j: int| 0 <= j < it.index@ ==> fe_graph.vertices@.contains_key(*#[trigger] it.seq()[j]),
        forall|k: usize| #![trigger self.vertices@.contains_key(k)] it.index@ == it.seq().len() && self.vertices@.contains_key(k) ==> fe_graph.vertices@.contains_key(k),
//@ before 0 `fe_graph.insert_vertex(NullVertex::new(*index))?;`
    let ghost gv0 = fe_graph.vertices@.dom();
    proof {
        lemma_seq_lists_set_ref(it.seq(), self.vertices@.dom());
        if fe_graph.vertices@.contains_key(*index) {
            let j = choose|j: int| 0 <= j < it.index@ && *#[trigger] it.seq()[j] == *index;
            assert(it.seq()[j] != it.seq()[it.index@]);
        }
    }
//@ after 0 `fe_graph.insert_vertex(NullVertex::new(*index))?;`
    proof {
        assert forall|k: usize| #![trigger fe_graph.vertices@.contains_key(k)] fe_graph.vertices@.contains_key(k) implies exists|j: int| 0 <= j < it.index@ + 1 && *#[trigger] it.seq()[j] == k by {
            if k != *index {
                assert(gv0.contains(k));
                let j = choose|j: int| 0 <= j < it.index@ && *#[trigger] it.seq()[j] == k;
            }
        }
        assert forall|k: usize| #![trigger self.vertices@.contains_key(k)] it.index@ + 1 == it.seq().len() && self.vertices@.contains_key(k) implies fe_graph.vertices@.contains_key(k) by {
            assert(self.vertices@.dom().contains(k));
            let j = choose|j: int| 0 <= j < it.seq().len() && *#[trigger] it.seq()[j] == k;
            if j < it.index@ { assert(gv0.contains(*it.seq()[j])); }
        }
    }
//@ before 0 `for edge in it: self.edges.keys()`
    proof {
        assert(fe_graph.vertices@.dom() =~= self.vertices@.dom());
    }
//@ loop 1
    invariant
        self.graph_wf(), self.vertices@.contains_key(head),
        seq_lists_set_ref(it.seq(), self.edges@.dom()),
        fe_graph.graph_wf(), fe_graph.vertices@.dom() == self.vertices@.dom(),
        forall|e: (usize, usize)| #![trigger fe_graph.edges@.contains_key(e)] fe_graph.edges@.contains_key(e) ==> exists|j: int| 0 <= j < it.index@ && *#[trigger] it.seq()[j] == e,
//@ before 0 `if !back_edges.contains(edge)`
    let ghost ge0 = fe_graph.edges@.dom();
    proof {
        lemma_seq_lists_set_ref(it.seq(), self.edges@.dom());
        assert(self.edges@.dom().contains(*edge));
        assert(*edge == (edge.0, edge.1));
        assert(self.edges@.contains_key((edge.0, edge.1)));
        if fe_graph.edges@.contains_key(*edge) {
            let j = choose|j: int| 0 <= j < it.index@ && *#[trigger] it.seq()[j] == *edge;
            assert(it.seq()[j] != it.seq()[it.index@]);
        }
    }
//@ after 0 `if !back_edges.contains(edge) { fe_graph.insert_edge(NullEdge::new(edge.0, edge.1))?; }`
    proof {
        assert forall|e: (usize, usize)| #![trigger fe_graph.edges@.contains_key(e)] fe_graph.edges@.contains_key(e) implies exists|j: int| 0 <= j < it.index@ + 1 && *#[trigger] it.seq()[j] == e by {
            if ge0.contains(e) {
                let j = choose|j: int| 0 <= j < it.index@ && *#[trigger] it.seq()[j] == e;
            } else {
                assert(e == *edge);
                assert(*it.seq()[it.index@] == e);
            }
        }
    }
//@ end


//@ fn impl<V, E> Graph<V, E> :: fn compute_dominance_frontiers loops=6
//@ rewrite 2 `for vertex in &self.vertices {` => `for vertex in it: &self.vertices {` ## R-ghost-iter-name: names the ghost iterator of the for loop; no executable change
//@ rewrite 1 `for predecessor in &self.predecessors[&vertex_index] {` => `for predecessor in it2: &self.predecessors[&vertex_index] {` ## R-ghost-iter-name: names the ghost iterator of the for loop; no executable change
//@ rewrite 1 `for predecessor in &self.predecessors[&start_index] {` => `for predecessor in it2: &self.predecessors[&start_index] {` ## R-ghost-iter-name: names the ghost iterator of the for loop; no executable change
//@ rewrite 1 `{ continue; }` => `{ } else {` ## R-continue: `if C { continue; } REST` at the end of a loop body is `if C { } else { REST }` (part 1 of 2; Verus for-loops have no `continue`)
//@ rewrite 1 `runner = idoms[&runner]; } } }` => `runner = idoms[&runner]; } } } }` ## R-continue: part 2 of 2, closes the else block (REST ends with the `for predecessor` loop)
//@ spec
    requires self.graph_wf(),
    ensures
        /*@missing*/ !self.vertices@.contains_key(start_index) ==> (r matches Err(e) && e == Error::GraphVertexNotFound(start_index)),
        /*@ok*/ self.vertices@.contains_key(start_index) ==> r is Ok,
        /*@keys*/ r matches Ok(d) ==> d@.dom() == self.vertices@.dom(),
        /*@members*/ r matches Ok(d) ==> forall|v: usize, x: usize| #![trigger d@[v]@.contains(x)] d@.contains_key(v) && d@[v]@.contains(x) ==> self.vertices@.contains_key(x),
        /*@values_reachable*/ r matches Ok(d) ==> forall|v: usize, x: usize| #![trigger d@[v]@.contains(x)] d@.contains_key(v) && d@[v]@.contains(x) ==> self.reaches(start_index, x),
        /*@keys_reachable*/ r matches Ok(d) ==> forall|v: usize, x: usize| #![trigger d@[v]@.contains(x)] d@.contains_key(v) && d@[v]@.contains(x) ==> self.reaches(start_index, v),
//@ loop 0
    invariant
        self.graph_wf(),
        seq_lists_map(it.seq(), self.vertices@),
        forall|k: usize| #![trigger df@.contains_key(k)] df@.contains_key(k) ==> self.vertices@.contains_key(k) && df@[k]@ =~= Set::<usize>::empty(),
        forall|j: int| 0 <= j < it.index@ ==> df@.contains_key(*(#[trigger] it.seq()[j]).0),
        forall|k: usize| #![trigger self.vertices@.contains_key(k)] it.index@ == it.seq().len() && self.vertices@.contains_key(k) ==> df@.contains_key(k),
//@ before 0 `df.insert(*vertex.0, FxHashSet::default());`
    let ghost df0 = df@;
    proof {
        lemma_seq_lists_map(it.seq(), self.vertices@);
        assert(self.vertices@.contains_pair(*vertex.0, *vertex.1));
    }
//@ after 0 `df.insert(*vertex.0, FxHashSet::default());`
    proof {
        assert forall|k: usize| #![trigger self.vertices@.contains_key(k)] it.index@ + 1 == it.seq().len() && self.vertices@.contains_key(k) implies df@.contains_key(k) by {
            let j = choose|j: int| 0 <= j < it.seq().len() && *(#[trigger] it.seq()[j]).0 == k;
            if j < it.index@ { assert(df0.contains_key(*it.seq()[j].0)); }
        }
    }
//@ after 0 `let idoms = self.compute_immediate_dominators(start_index)?;`
    let ghost es = self.edges@.dom();
    let ghost m = idoms@;
    let ghost o = choose|o: Seq<usize>| #[trigger] idoms_shape(es, start_index, idoms@, o);
    proof {
        assert(df@.dom() =~= self.vertices@.dom());
        assert(has_idoms_shape(es, start_index, idoms@));
        assert(idoms_shape(es, start_index, m, o));
        assert(self.vertices@.contains_key(start_index));
    }
//@ loop 1
    invariant
        self.graph_wf(), self.vertices@.contains_key(start_index), es == self.edges@.dom(), m == idoms@,
        idoms_shape(es, start_index, m, o),
        seq_lists_map(it.seq(), self.vertices@),
        df@.dom() == self.vertices@.dom(),
        forall|v: usize, x: usize| #![trigger df@[v]@.contains(x)] df@.contains_key(v) && df@[v]@.contains(x) ==> self.vertices@.contains_key(x),
        /*@frontier_in_flow_graph*/ forall|v: usize, x: usize| #![trigger df@[v]@.contains(x)] df@.contains_key(v) && df@[v]@.contains(x) ==> self.reaches(start_index, v) && self.reaches(start_index, x),
//@ before 0 `let vertex_index: usize = *vertex.0;`
    proof {
        lemma_seq_lists_map(it.seq(), self.vertices@);
        assert(self.vertices@.contains_pair(*vertex.0, *vertex.1));
    }
//@ loop 2
    invariant
        self.graph_wf(), self.vertices@.contains_key(start_index), self.vertices@.contains_key(vertex_index), es == self.edges@.dom(), m == idoms@,
        m.contains_key(vertex_index),
        idoms_shape(es, start_index, m, o),
        seq_lists_set_ref(it2.seq(), self.predecessors@[vertex_index]@),
        df@.dom() == self.vertices@.dom(),
        forall|v: usize, x: usize| #![trigger df@[v]@.contains(x)] df@.contains_key(v) && df@[v]@.contains(x) ==> self.vertices@.contains_key(x),
        /*@frontier_in_flow_graph*/ forall|v: usize, x: usize| #![trigger df@[v]@.contains(x)] df@.contains_key(v) && df@[v]@.contains(x) ==> self.reaches(start_index, v) && self.reaches(start_index, x),
//@ after 0 `let mut runner = *predecessor;`
    proof {
        lemma_seq_lists_set_ref(it2.seq(), self.predecessors@[vertex_index]@);
        assert(self.predecessors@[vertex_index]@.contains(*predecessor));
        assert(self.edges@.contains_key((*predecessor, vertex_index)));
    }
//@ loop 3
    invariant
        self.graph_wf(), self.vertices@.contains_key(start_index), self.vertices@.contains_key(vertex_index), es == self.edges@.dom(), m == idoms@,
        m.contains_key(vertex_index),
        idoms_shape(es, start_index, m, o),
        self.vertices@.contains_key(runner),
        df@.dom() == self.vertices@.dom(),
        forall|v: usize, x: usize| #![trigger df@[v]@.contains(x)] df@.contains_key(v) && df@[v]@.contains(x) ==> self.vertices@.contains_key(x),
        /*@frontier_in_flow_graph*/ forall|v: usize, x: usize| #![trigger df@[v]@.contains(x)] df@.contains_key(v) && df@[v]@.contains(x) ==> self.reaches(start_index, v) && self.reaches(start_index, x),
    decreases pos_of(o, runner),
//@ before 0 `df.get_mut(&runner).unwrap().insert(vertex_index);`
    let ghost dfa = df@;
    let ghost r0 = runner;
//@ after 0 `df.get_mut(&runner).unwrap().insert(vertex_index);`
    proof {
        // frame of the update (true whatever r0 is): only the set of r0 changed, and only by adding vertex_index
        assert forall|v: usize| #![trigger df@[v]] df@.contains_key(v) && v != r0 implies df@[v] == dfa[v] by {
            assert(!vstd::std_specs::hash::contains_borrowed_key(Map::<usize, ()>::empty().insert(v, ()), &r0)) by {
                assert(!Map::<usize, ()>::empty().insert(v, ()).contains_key(r0));
            }
        }
        assert forall|x: usize| #![trigger df@[r0]@.contains(x)] df@[r0]@.contains(x) implies x == vertex_index || dfa[r0]@.contains(x) by { }
        lemma_path_refl(es, start_index);
        assert(m.contains_key(r0) ==> self.reaches(start_index, r0));
        assert(self.reaches(start_index, vertex_index));
    }
//@ before 0 `runner = idoms[&runner]; } } } }`
    proof {
        assert(m.contains_key(runner));
        self.lemma_reach_is_vertex(start_index, m[runner]);
        assert(o.contains(m[runner]));
        assert(0 <= pos_of(o, m[runner]) < pos_of(o, runner));
    }
//@ loop 4
    invariant
        self.graph_wf(), self.vertices@.contains_key(start_index), es == self.edges@.dom(), m == idoms@,
        idoms_shape(es, start_index, m, o),
        seq_lists_set_ref(it2.seq(), self.predecessors@[start_index]@),
        df@.dom() == self.vertices@.dom(),
        forall|v: usize, x: usize| #![trigger df@[v]@.contains(x)] df@.contains_key(v) && df@[v]@.contains(x) ==> self.vertices@.contains_key(x),
        /*@frontier_in_flow_graph*/ forall|v: usize, x: usize| #![trigger df@[v]@.contains(x)] df@.contains_key(v) && df@[v]@.contains(x) ==> self.reaches(start_index, v) && self.reaches(start_index, x),
//@ after 1 `let mut runner = *predecessor;`
    proof {
        lemma_seq_lists_set_ref(it2.seq(), self.predecessors@[start_index]@);
        assert(self.predecessors@[start_index]@.contains(*predecessor));
        assert(self.edges@.contains_key((*predecessor, start_index)));
    }
//@ loop 5
    invariant
        self.graph_wf(), self.vertices@.contains_key(start_index), es == self.edges@.dom(), m == idoms@,
        idoms_shape(es, start_index, m, o),
        self.vertices@.contains_key(runner),
        df@.dom() == self.vertices@.dom(),
        forall|v: usize, x: usize| #![trigger df@[v]@.contains(x)] df@.contains_key(v) && df@[v]@.contains(x) ==> self.vertices@.contains_key(x),
        /*@frontier_in_flow_graph*/ forall|v: usize, x: usize| #![trigger df@[v]@.contains(x)] df@.contains_key(v) && df@[v]@.contains(x) ==> self.reaches(start_index, v) && self.reaches(start_index, x),
    decreases pos_of(o, runner),
//@ before 0 `df.get_mut(&runner).unwrap().insert(start_index);`
    let ghost dfa = df@;
    let ghost r0 = runner;
//@ after 0 `df.get_mut(&runner).unwrap().insert(start_index);`
    proof {
        // frame of the update (true whatever r0 is): only the set of r0 changed, and only by adding start_index
        assert forall|v: usize| #![trigger df@[v]] df@.contains_key(v) && v != r0 implies df@[v] == dfa[v] by {
            assert(!vstd::std_specs::hash::contains_borrowed_key(Map::<usize, ()>::empty().insert(v, ()), &r0)) by {
                assert(!Map::<usize, ()>::empty().insert(v, ()).contains_key(r0));
            }
        }
        assert forall|x: usize| #![trigger df@[r0]@.contains(x)] df@[r0]@.contains(x) implies x == start_index || dfa[r0]@.contains(x) by { }
        lemma_path_refl(es, start_index);
        assert(m.contains_key(r0) ==> self.reaches(start_index, r0));
        assert(self.reaches(start_index, start_index));
    }
//@ before 1 `runner = idoms[&runner];`
    proof {
        assert(m.contains_key(runner));
        self.lemma_reach_is_vertex(start_index, m[runner]);
        assert(o.contains(m[runner]));
        assert(0 <= pos_of(o, m[runner]) < pos_of(o, runner));
    }
//@ end


//@ fn impl<V, E> Graph<V, E> :: fn compute_loops loops=4
//@ rewrite 1 `for (tail, header) in self.compute_back_edges(head)? {` => `let back__ = self.compute_back_edges(head)?; for e__ in it: back__.iter() { let (tail, header) = *e__;` ## R-iter-copy: by-value iteration over a temporary HashSet of Copy pairs = binding it to a local and iterating by reference, copying each pair (Verus has no model of hash_set::IntoIter)
//@ rewrite 1 `let nodes = loops.entry(header).or_default();` => `if !loops.contains_key(&header) { loops.insert(header, BTreeSet::new()); } let nodes = loops.get_mut(&header).unwrap();` ## R-entry-or-default: `map.entry(k).or_default()` is by definition: insert `Default::default()` (= `BTreeSet::new()`) if k is absent, then return a mutable reference to the value at k
//@ rewrite 1 `for &predecessor in &self.predecessors[&node] {` => `for predecessor__r in it2: &self.predecessors[&node] { let predecessor = *predecessor__r;` ## R-ref-pattern: `for &x in ITER { BODY }` is `for x__r in ITER { let x = *x__r; BODY }` for Copy items
//@ rewrite 1 `Ok(loops .iter() .map(|(&header, nodes)|` => `Ok({ let mut out__: Vec<Loop> = Vec::new(); for kv__ in it: loops.iter() { let (header, nodes) = (*kv__.0, kv__.1); out__.push(` ## R-map-collect: `ITER.map(|(&k, v)| F).collect::<Vec<_>>()` is by definition the loop pushing F for every entry (part 1 of 2; F stays the original tokens)
//@ rewrite 1 `) .collect())` => `); } out__ })` ## R-map-collect: part 2 of 2
//@ spec
    requires self.graph_wf(),
    ensures
        /*@missing*/ !self.vertices@.contains_key(head) ==> (r matches Err(e) && e == Error::GraphVertexNotFound(head)),
        /*@ok*/ self.vertices@.contains_key(head) ==> r is Ok,
        /*@shape*/ r matches Ok(ls) ==> loops_shape(self.edges@.dom(), head, ls@),
//@ loop 0
    invariant
        self.graph_wf(), self.vertices@.contains_key(head),
        forall|v: usize| #![trigger reachable@.contains(v)] reachable@.contains(v) ==> self.reaches(head, v),
        seq_lists_set_ref(it.seq(), back__@),
        forall|e: (usize, usize)| #![trigger back__@.contains(e)] back__@.contains(e) ==> self.edges@.contains_key(e) && self.reaches(head, e.0) && self.reaches(head, e.1),
        /*@loops_in_flow_graph*/ loops_ok(self.edges@.dom(), head, loops@),
//@ before 0 `if !loops.contains_key(&header)`
    proof {
        lemma_seq_lists_set_ref(it.seq(), back__@);
        assert(back__@.contains(*e__));
        assert(*e__ == (tail, header));
        assert(self.edges@.contains_key((tail, header)));
        assert(self.vertices@.contains_key(tail) && self.vertices@.contains_key(header));
    }
//@ before 0 `let nodes = loops.get_mut(&header).unwrap();`
    let ghost lma = loops@;
    proof {
        assert forall|h: usize| #![trigger lma[h]] lma.contains_key(h) && h != header implies lma[h]@.contains(h)
            && (forall|x: usize| #![trigger lma[h]@.contains(x)] lma[h]@.contains(x) ==> path(self.edges@.dom(), head, x)) by { }
        assert(lma.contains_key(header));
        assert forall|x: usize| #![trigger lma[header]@.contains(x)] lma[header]@.contains(x) implies path(self.edges@.dom(), head, x) by { }
    }
//@ before 0 `while let Some(node) = queue.pop()`
    proof {
        assert forall|x: usize| nodes@.contains(x) implies #[trigger] self.vertices@.dom().contains(x) by {
            self.lemma_reach_is_vertex(head, x);
        }
        vstd::set_lib::lemma_len_subset(nodes@, self.vertices@.dom());
    }
//@ loop 1
    invariant
        self.graph_wf(), self.vertices@.contains_key(head),
        forall|v: usize| #![trigger reachable@.contains(v)] reachable@.contains(v) ==> self.reaches(head, v),
        nodes@.contains(header), nodes@.subset_of(self.vertices@.dom()),
        /*@nodes_reachable*/ forall|x: usize| #![trigger nodes@.contains(x)] nodes@.contains(x) ==> path(self.edges@.dom(), head, x),
        forall|i: int| 0 <= i < queue@.len() ==> self.vertices@.contains_key(#[trigger] queue@[i]),
        nodes@.len() <= self.vertices@.dom().len(),
    decreases self.vertices@.dom().len() - nodes@.len() + queue@.len(),
//@ before 0 `for predecessor__r in it2:`
    let ghost q0 = queue@;
    let ghost n0 = nodes@;
    proof {
        assert(self.vertices@.contains_key(node));
    }
//@ loop 2
    invariant
        self.graph_wf(), self.vertices@.contains_key(head), self.vertices@.contains_key(node),
        forall|v: usize| #![trigger reachable@.contains(v)] reachable@.contains(v) ==> self.reaches(head, v),
        seq_lists_set_ref(it2.seq(), self.predecessors@[node]@),
        nodes@.contains(header), nodes@.subset_of(self.vertices@.dom()),
        /*@nodes_reachable*/ forall|x: usize| #![trigger nodes@.contains(x)] nodes@.contains(x) ==> path(self.edges@.dom(), head, x),
        forall|i: int| 0 <= i < queue@.len() ==> self.vertices@.contains_key(#[trigger] queue@[i]),
        nodes@.len() <= self.vertices@.dom().len(),
        self.vertices@.dom().len() - nodes@.len() + queue@.len() == self.vertices@.dom().len() - n0.len() + q0.len(),
//@ after 0 `let predecessor = *predecessor__r;`
    let ghost qb = queue@;
    proof {
        lemma_seq_lists_set_ref(it2.seq(), self.predecessors@[node]@);
        assert(self.predecessors@[node]@.contains(predecessor));
        assert(self.edges@.contains_key((predecessor, node)));
        assert(self.vertices@.contains_key(predecessor));
        vstd::set_lib::lemma_len_subset(nodes@.insert(predecessor), self.vertices@.dom());
    }
//@ after 0 `queue.push(predecessor); }`
    proof {
        assert forall|i: int| 0 <= i < queue@.len() implies self.vertices@.contains_key(#[trigger] queue@[i]) by {
            if i < qb.len() { assert(queue@[i] == qb[i]); }
        }
    }
//@ after 0 `queue.push(predecessor); } } }`
    proof {
        // the borrow of the loop's node set has ended
        assert(loops_ok(self.edges@.dom(), head, loops@)) by {
            assert forall|h: usize| #![trigger loops@[h]] loops@.contains_key(h) implies loops@[h]@.contains(h)
                && (forall|x: usize| #![trigger loops@[h]@.contains(x)] loops@[h]@.contains(x) ==> path(self.edges@.dom(), head, x)) by {
                if h != header { assert(loops@[h] == lma[h]); }
            }
        }
    }
//@ loop 3
    invariant
        seq_lists_map(it.seq(), loops@),
        loops_ok(self.edges@.dom(), head, loops@),
        out__@.len() == it.index@,
        forall|i: int| 0 <= i < it.index@ ==> (#[trigger] out__@[i]).header == *it.seq()[i].0 && out__@[i].nodes@ == it.seq()[i].1@,
        it.index@ == it.seq().len() ==> loops_shape(self.edges@.dom(), head, out__@),
//@ before 0 `out__.push(Loop::new(header, nodes.clone()));`
    proof {
        lemma_seq_lists_map(it.seq(), loops@);
        assert(loops@.contains_pair(*kv__.0, *kv__.1));
    }
//@ after 0 `out__.push(Loop::new(header, nodes.clone()));`
    proof {
        assert forall|i: int| 0 <= i < out__@.len() implies (#[trigger] out__@[i]).nodes@.contains(out__@[i].header) by {
            assert(loops@.contains_pair(*it.seq()[i].0, *it.seq()[i].1));
        }
        assert forall|i: int, x: usize| #![trigger out__@[i].nodes@.contains(x)] 0 <= i < out__@.len() && out__@[i].nodes@.contains(x) implies path(self.edges@.dom(), head, x) by {
            assert(loops@.contains_pair(*it.seq()[i].0, *it.seq()[i].1));
            assert(loops@[*it.seq()[i].0]@.contains(x));
        }
        assert forall|i: int, j: int| 0 <= i < j < out__@.len() implies (#[trigger] out__@[i]).header != (#[trigger] out__@[j]).header by {
            assert(*it.seq()[i].0 != *it.seq()[j].0);
        }
    }
//@ end

//@ fn impl<V, E> Graph<V, E> :: fn compute_loop_tree loops=3
//@ rewrite 1 `for l in &loops {` => `for l in it: &loops {` ## R-ghost-iter-name: names the ghost iterator of the for loop; no executable change
//@ rewrite 1 `for l1 in &loops {` => `for l1 in it: &loops {` ## R-ghost-iter-name: names the ghost iterator of the for loop; no executable change
//@ rewrite 1 `for l2 in &loops {` => `for l2 in it2: &loops {` ## R-ghost-iter-name: names the ghost iterator of the for loop; no executable change
//@ spec
    requires self.graph_wf(),
    ensures
        /*@missing*/ !self.vertices@.contains_key(head) ==> (r matches Err(e) && e == Error::GraphVertexNotFound(head)),
        /*@ok*/ self.vertices@.contains_key(head) ==> r is Ok,
        /*@wf*/ r matches Ok(t) ==> t.graph_wf(),
        /*@nesting*/ r matches Ok(t) ==> forall|e: (usize, usize)| #![trigger t.edges@.contains_key(e)] t.edges@.contains_key(e) ==> e.0 != e.1
            && t.vertices@[e.0].nodes@.contains(e.1),
//@ loop 0
    invariant
        loops_shape(self.edges@.dom(), head, loops@),
        it.seq().len() == loops@.len(), forall|i: int| 0 <= i < it.seq().len() ==> *#[trigger] it.seq()[i] == loops@[i],
        tree.graph_wf(), tree.edges@.dom() =~= Set::<(usize, usize)>::empty(),
        forall|k: usize| #![trigger tree.vertices@.contains_key(k)] tree.vertices@.contains_key(k) <==> (exists|j: int| 0 <= j < it.index@ && (#[trigger] loops@[j]).header == k),
        forall|j: int| 0 <= j < it.index@ ==> tree.vertices@[(#[trigger] loops@[j]).header].nodes@ == loops@[j].nodes@,
//@ before 0 `tree.insert_vertex(l.clone())?;`
    let ghost tv0 = tree.vertices@;
    proof {
        assert(*l == loops@[it.index@]);
        if tv0.contains_key(l.header) {
            let j = choose|j: int| 0 <= j < it.index@ && (#[trigger] loops@[j]).header == l.header;
            assert(loops@[j].header != loops@[it.index@].header);
        }
    }
//@ after 0 `tree.insert_vertex(l.clone())?;`
    proof {
        assert forall|k: usize| #![trigger tree.vertices@.contains_key(k)] tree.vertices@.contains_key(k) <==> (exists|j: int| 0 <= j < it.index@ + 1 && (#[trigger] loops@[j]).header == k) by {
            if tree.vertices@.contains_key(k) {
                if k == l.header { assert(loops@[it.index@].header == k); }
                else {
                    assert(tv0.contains_key(k));
                    let j = choose|j: int| 0 <= j < it.index@ && (#[trigger] loops@[j]).header == k;
                    assert(loops@[j].header == k);
                }
            }
            if exists|j: int| 0 <= j < it.index@ + 1 && (#[trigger] loops@[j]).header == k {
                let j = choose|j: int| 0 <= j < it.index@ + 1 && (#[trigger] loops@[j]).header == k;
                if j < it.index@ { assert(tv0.contains_key(k)); }
            }
        }
        assert forall|j: int| 0 <= j < it.index@ + 1 implies tree.vertices@[(#[trigger] loops@[j]).header].nodes@ == loops@[j].nodes@ by {
            if j < it.index@ {
                assert(loops@[j].header != loops@[it.index@].header);
                assert(tv0.contains_key(loops@[j].header));
                assert(tree.vertices@[loops@[j].header] == tv0[loops@[j].header]);
            }
        }
    }
//@ loop 1
    invariant
        loops_shape(self.edges@.dom(), head, loops@),
        it.seq().len() == loops@.len(), forall|i: int| 0 <= i < it.seq().len() ==> *#[trigger] it.seq()[i] == loops@[i],
        tree.graph_wf(),
        forall|k: usize| #![trigger tree.vertices@.contains_key(k)] tree.vertices@.contains_key(k) <==> (exists|j: int| 0 <= j < loops@.len() && (#[trigger] loops@[j]).header == k),
        forall|j: int| 0 <= j < loops@.len() ==> tree.vertices@[(#[trigger] loops@[j]).header].nodes@ == loops@[j].nodes@,
        forall|e: (usize, usize)| #![trigger tree.edges@.contains_key(e)] tree.edges@.contains_key(e) ==> e.0 != e.1 && tree.vertices@[e.0].nodes@.contains(e.1)
            && exists|a: int| 0 <= a < it.index@ && (#[trigger] loops@[a]).header == e.0,
//@ loop 2
    invariant
        loops_shape(self.edges@.dom(), head, loops@), 0 <= it.index@ < loops@.len(), *l1 == loops@[it.index@],
        it2.seq().len() == loops@.len(), forall|i: int| 0 <= i < it2.seq().len() ==> *#[trigger] it2.seq()[i] == loops@[i],
        tree.graph_wf(),
        forall|k: usize| #![trigger tree.vertices@.contains_key(k)] tree.vertices@.contains_key(k) <==> (exists|j: int| 0 <= j < loops@.len() && (#[trigger] loops@[j]).header == k),
        forall|j: int| 0 <= j < loops@.len() ==> tree.vertices@[(#[trigger] loops@[j]).header].nodes@ == loops@[j].nodes@,
        forall|e: (usize, usize)| #![trigger tree.edges@.contains_key(e)] tree.edges@.contains_key(e) ==> e.0 != e.1 && tree.vertices@[e.0].nodes@.contains(e.1)
            && ((exists|a: int| 0 <= a < it.index@ && (#[trigger] loops@[a]).header == e.0)
                || (e.0 == l1.header && exists|b: int| 0 <= b < it2.index@ && (#[trigger] loops@[b]).header == e.1)),
//@ before 0 `if l1.is_nesting(l2)`
    let ghost te0 = tree.edges@.dom();
//@ before 0 `tree.insert_edge(NullEdge::new(l1.header(), l2.header()))?;`
    proof {
        assert(*l2 == loops@[it2.index@]);
        assert(loops@[it.index@].header == l1.header && loops@[it2.index@].header == l2.header);
        assert(tree.vertices@.contains_key(l1.header) && tree.vertices@.contains_key(l2.header));
        if tree.edges@.contains_key((l1.header, l2.header)) {
            if exists|a: int| 0 <= a < it.index@ && (#[trigger] loops@[a]).header == l1.header {
                let a = choose|a: int| 0 <= a < it.index@ && (#[trigger] loops@[a]).header == l1.header;
                assert(loops@[a].header != loops@[it.index@].header);
            } else {
                let b = choose|b: int| 0 <= b < it2.index@ && (#[trigger] loops@[b]).header == l2.header;
                assert(loops@[b].header != loops@[it2.index@].header);
            }
        }
    }
//@ after 0 `if l1.is_nesting(l2) { tree.insert_edge(NullEdge::new(l1.header(), l2.header()))?; }`
    proof {
        assert forall|e: (usize, usize)| #![trigger tree.edges@.contains_key(e)] tree.edges@.contains_key(e) implies e.0 != e.1 && tree.vertices@[e.0].nodes@.contains(e.1)
            && ((exists|a: int| 0 <= a < it.index@ && (#[trigger] loops@[a]).header == e.0)
                || (e.0 == l1.header && exists|b: int| 0 <= b < it2.index@ + 1 && (#[trigger] loops@[b]).header == e.1)) by {
            if te0.contains(e) {
                if !(exists|a: int| 0 <= a < it.index@ && (#[trigger] loops@[a]).header == e.0) {
                    let b = choose|b: int| 0 <= b < it2.index@ && (#[trigger] loops@[b]).header == e.1;
                    assert(loops@[b].header == e.1);
                }
            } else {
                assert(e == (l1.header, l2.header));
                assert(loops@[it2.index@].header == e.1);
                assert(tree.vertices@[loops@[it.index@].header].nodes@ == loops@[it.index@].nodes@);
            }
        }
    }
//@ after 0 `if l1.is_nesting(l2) { tree.insert_edge(NullEdge::new(l1.header(), l2.header()))?; } }`
    proof {
        assert forall|e: (usize, usize)| #![trigger tree.edges@.contains_key(e)] tree.edges@.contains_key(e) implies
            exists|a: int| 0 <= a < it.index@ + 1 && (#[trigger] loops@[a]).header == e.0 by {
            if !(exists|a: int| 0 <= a < it.index@ && (#[trigger] loops@[a]).header == e.0) {
                assert(loops@[it.index@].header == e.0);
            } else {
                let a = choose|a: int| 0 <= a < it.index@ && (#[trigger] loops@[a]).header == e.0;
                assert(loops@[a].header == e.0);
            }
        }
    }
//@ end

} // impl Graph (dominators)
