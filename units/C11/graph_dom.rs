// ======================================================================================
// units/C11/graph_dom.rs — dominators, dominance frontiers, natural loops, reducibility (phase 3).
// SAFETY + STRUCTURAL contracts only: no panic and termination for every graph and root, result
// shape (keys are exactly the reachable vertices, values are reachable vertices, the parent
// relation is ranked by a pre-order, sets only mention vertices of the graph ...).
// NOT claimed: that the computed immediate dominators / dominator sets / frontiers / loops equal
// their textbook definitions (Semi-NCA correctness) — see meta.json undecided_subclaims.
// ======================================================================================
//@ source lib/graph/mod.rs

/// dn numbers exactly the elements of o by their position
pub open spec fn dfn_ok(o: Seq<usize>, dn: Map<usize, usize>) -> bool {
    &&& forall|v: usize| #![trigger dn.contains_key(v)] dn.contains_key(v) <==> o.contains(v)
    &&& forall|i: int| 0 <= i < o.len() ==> dn.contains_key(#[trigger] o[i]) && dn[o[i]] == i
}

/// every non-first element of the pre-order o has exactly one tree predecessor, which occurs earlier
pub open spec fn tree_parent_ok(tp: Map<usize, BTreeSet<usize>>, o: Seq<usize>) -> bool {
    &&& forall|i: int| 0 <= i < o.len() ==> tp.contains_key(#[trigger] o[i])
    &&& forall|i: int| 1 <= i < o.len() ==> tp[#[trigger] o[i]]@.len() == 1 && exists|j: int| 0 <= j < i && tp[o[i]]@.contains(#[trigger] o[j])
}

/// the ancestor links of the link-eval forest point to keys and strictly decrease the rank
pub open spec fn anc_ok(anc: Map<usize, Option<usize>>, rank: Map<usize, nat>) -> bool {
    forall|v: usize| #![trigger anc[v]] anc.contains_key(v) && anc[v] is Some ==>
        anc.contains_key(anc[v]->Some_0) && rank.contains_key(v) && rank.contains_key(anc[v]->Some_0) && rank[anc[v]->Some_0] < rank[v]
}

/// structural shape of an immediate-dominator map for (es, root): the keys are the reachable
/// vertices other than root, the values are reachable, and the parent relation strictly decreases
/// the position in some duplicate-free enumeration o of the reachable vertices that starts with root
/// (so following the map from any key ends at root: it is a tree rooted at root)
pub open spec fn idoms_shape(es: Set<(usize, usize)>, root: usize, m: Map<usize, usize>, o: Seq<usize>) -> bool {
    &&& o.no_duplicates() && o.len() > 0 && o[0] == root
    &&& forall|v: usize| #![trigger o.contains(v)] o.contains(v) <==> path(es, root, v)
    &&& forall|v: usize| #![trigger m.contains_key(v)] m.contains_key(v) <==> (path(es, root, v) && v != root)
    &&& forall|v: usize| #![trigger m[v]] m.contains_key(v) ==> path(es, root, m[v]) && pos_of(o, m[v]) < pos_of(o, v)
}

pub open spec fn has_idoms_shape(es: Set<(usize, usize)>, root: usize, m: Map<usize, usize>) -> bool {
    exists|o: Seq<usize>| #[trigger] idoms_shape(es, root, m, o)
}

pub proof fn lemma_pos_of(o: Seq<usize>, i: int)
    requires o.no_duplicates(), 0 <= i < o.len(),
    ensures pos_of(o, o[i]) == i,
{
    let j = pos_of(o, o[i]);
    assert(0 <= j < o.len() && o[j] == o[i]);
}

impl<V, E> Graph<V, E>
where
    V: Vertex,
    E: Edge,
{

//@ fn impl<V, E> Graph<V, E> :: fn compute_immediate_dominators loops=7
//@ rewrite 1 `dfs_pre_order .iter() .enumerate() .map(|(number, vertex)| (*vertex, number)) .collect();` => `{ let mut m__: FxHashMap<usize, usize> = FxHashMap::default(); for number in 0..dfs_pre_order.len() { m__.insert(dfs_pre_order[number], number); } m__ };` ## R-enumerate-collect: `v.iter().enumerate().map(|(i, x)| (*x, i)).collect::<HashMap<_, _>>()` is by definition the map obtained by inserting (v[i], i) for i = 0, 1, .. in order (Verus has no model of Enumerate)
//@ rewrite 3 `for &vertex in` => `for vertex__r in it:` ## R-ref-pattern: `for &x in ITER { BODY }` is `for x__r in ITER { let x = *x__r; BODY }` for Copy items (part 1 of 2; the iterator expressions stay the original tokens)
//@ rewrite 1 `{ ancestor.insert(vertex, None);` => `{ let vertex = *vertex__r; ancestor.insert(vertex, None);` ## R-ref-pattern: part 2 of 2 (loop over all vertices)
//@ rewrite 1 `{ let mut min_semi` => `{ let vertex = *vertex__r; let mut min_semi` ## R-ref-pattern: part 2 of 2 (semidominator loop)
//@ rewrite 1 `{ let mut idom =` => `{ let vertex = *vertex__r; let mut idom =` ## R-ref-pattern: part 2 of 2 (idom loop)
//@ rewrite 1 `for &pred in` => `for pred__r in it2:` ## R-ref-pattern: part 1 of 2 (predecessor loop)
//@ rewrite 1 `{ if ancestor[&pred].is_some()` => `{ let pred = *pred__r; if ancestor[&pred].is_some()` ## R-ref-pattern: part 2 of 2 (predecessor loop)
//@ rewrite 1 `let mut semi = FxHashMap::default();` => `let mut semi: FxHashMap<usize, usize> = FxHashMap::default();` ## R-type-annotation: spells out the inferred type of the local
//@ rewrite 1 `let mut idoms = FxHashMap::default();` => `let mut idoms: FxHashMap<usize, usize> = FxHashMap::default();` ## R-type-annotation: spells out the inferred type of the local
//@ rewrite 1 `let mut graph_idoms = FxHashMap::default();` => `let mut graph_idoms: FxHashMap<usize, usize> = FxHashMap::default();` ## R-type-annotation: spells out the inferred type of the local
//@ rewrite 1 `for (vertex, idom) in idoms {` => `for kv__ in it: idoms.iter() { let (vertex, idom) = (*kv__.0, *kv__.1);` ## R-iter-copy: by-value iteration over a HashMap of Copy pairs that is not used afterwards = by-reference iteration copying each entry (Verus has no model of hash_map::IntoIter)
//@ rewrite 1 `v: usize, ) {` => `v: usize, ) requires old(ancestor)@.contains_key(v), old(ancestor)@[v] is Some, old(label)@.dom() == old(ancestor)@.dom(), exists|rank: Map<usize, nat>| anc_ok(old(ancestor)@, rank), ensures /*@doms*/ final(ancestor)@.dom() == old(ancestor)@.dom() && final(label)@.dom() == old(label)@.dom(), /*@ranked*/ forall|rank: Map<usize, nat>| anc_ok(old(ancestor)@, rank) ==> anc_ok(final(ancestor)@, rank), decreases (choose|rank: Map<usize, nat>| anc_ok(old(ancestor)@, rank))[v], {` ## R-nested-contract: attaches requires / ensures / decreases to the signature of the nested fn `compress`; executable tokens unchanged
//@ spec
    requires self.graph_wf(),
    ensures
        /*@missing*/ !self.vertices@.contains_key(root) ==> (r matches Err(e) && e == Error::GraphVertexNotFound(root)),
        /*@ok*/ self.vertices@.contains_key(root) ==> r is Ok,
        /*@shape*/ r matches Ok(m) ==> has_idoms_shape(self.edges@.dom(), root, m@),
//@ closure 0 |vertex: usize| -> (res: Option<usize>)
    requires dfs.predecessors@.contains_key(vertex),
    ensures
        dfs.predecessors@[vertex]@.len() == 0 ==> res is None,
        forall|p: usize| dfs.predecessors@[vertex]@.len() == 1 && dfs.predecessors@[vertex]@.contains(p) ==> res == Some(p),
//@ before 0 `let dfs_pre_order =`
    proof {
        lemma_path_refl(self.edges@.dom(), root);
        assert(dfs.vertices@.contains_key(root));
    }
//@ before 0 `let dfs_parent =`
    let ghost o = dfs_pre_order@;
    let ghost es = self.edges@.dom();
    proof {
        let de = dfs.edges@.dom();
        assert(dfs.vertices@.contains_key(root)) by { lemma_path_refl(es, root); }
        // o enumerates exactly the vertices reachable from root in self
        assert forall|v: usize| #![trigger o.contains(v)] o.contains(v) <==> path(es, root, v) by {
            if o.contains(v) { dfs.lemma_reach_is_vertex(root, v); }
            if path(es, root, v) { assert(dfs.vertices@.contains_key(v)); }
        }
        // every non-first element has exactly one tree predecessor, and it occurs earlier
        assert(tree_parent_ok(dfs.predecessors@, o)) by {
            assert forall|i: int| 0 <= i < o.len() implies dfs.predecessors@.contains_key(#[trigger] o[i]) by {
                assert(o.contains(o[i]));
                assert(dfs.vertices@.contains_key(o[i]));
            }
            assert forall|i: int| 1 <= i < o.len() implies dfs.predecessors@[#[trigger] o[i]]@.len() == 1 && exists|j: int| 0 <= j < i && dfs.predecessors@[o[i]]@.contains(#[trigger] o[j]) by {
                assert(o.contains(o[i]));
                assert(o[i] != o[0]);
                assert(has_earlier_pred(de, o, i, o[i]));
                let j = choose|j: int| 0 <= j < i && j < o.len() && de.contains((#[trigger] o[j], o[i]));
                assert(dfs.edges@.contains_key((o[j], o[i])));
            }
        }
    }
//@ loop 0
    invariant
        number <= dfs_pre_order@.len(), o == dfs_pre_order@, o.no_duplicates(),
        forall|v: usize| #![trigger m__@.contains_key(v)] m__@.contains_key(v) <==> (exists|i: int| 0 <= i < number && #[trigger] o[i] == v),
        forall|i: int| 0 <= i < number ==> m__@.contains_key(#[trigger] o[i]) && m__@[o[i]] == i,
//@ after 0 `let graph_number = &dfs_pre_order;`
    let ghost rank: Map<usize, nat> = dfs_number@.map_values(|x: usize| x as nat);
    proof {
        assert(dfn_ok(o, dfs_number@)) by {
            assert forall|v: usize| #![trigger dfs_number@.contains_key(v)] dfs_number@.contains_key(v) <==> o.contains(v) by {
                if dfs_number@.contains_key(v) { let i = choose|i: int| 0 <= i < o.len() && #[trigger] o[i] == v; }
                if o.contains(v) { let i = choose|i: int| 0 <= i < o.len() && o[i] == v; assert(dfs_number@.contains_key(o[i])); }
            }
        }
    }
//@ loop 1
    invariant
        self.graph_wf(),
        seq_lists_set_ref(it.seq(), self.vertices@.dom()),
        ancestor@.dom() == label@.dom(),
        forall|k: usize| #![trigger ancestor@.contains_key(k)] ancestor@.contains_key(k) ==> self.vertices@.contains_key(k) && ancestor@[k] is None,
        forall|j: int| 0 <= j < it.index@ ==> ancestor@.contains_key(*#[trigger] it.seq()[j]),
        forall|k: usize| #![trigger self.vertices@.contains_key(k)] it.index@ == it.seq().len() && self.vertices@.contains_key(k) ==> ancestor@.contains_key(k),
//@ before 0 `ancestor.insert(vertex, None);`
    let ghost anc0 = ancestor@;
    proof { lemma_seq_lists_set_ref(it.seq(), self.vertices@.dom()); }
//@ after 0 `label.insert(vertex, dfs_number.get(&vertex).cloned().unwrap_or(usize::MAX));`
    proof {
        assert(ancestor@.dom() =~= label@.dom());
        assert forall|k: usize| #![trigger self.vertices@.contains_key(k)] it.index@ + 1 == it.seq().len() && self.vertices@.contains_key(k) implies ancestor@.contains_key(k) by {
            assert(self.vertices@.dom().contains(k));
            let j = choose|j: int| 0 <= j < it.seq().len() && *#[trigger] it.seq()[j] == k;
            if j < it.index@ { assert(anc0.contains_key(*it.seq()[j])); }
        }
    }
//@ before 0 `let mut semi: FxHashMap<usize, usize>`
    proof {
        assert(ancestor@.dom() =~= self.vertices@.dom());
        assert(anc_ok(ancestor@, rank));
    }
//@ loop 2
    invariant
        self.graph_wf(), o == dfs_pre_order@, o.no_duplicates(), o.len() > 0,
        forall|v: usize| #![trigger o.contains(v)] o.contains(v) ==> self.vertices@.contains_key(v),
        dfn_ok(o, dfs_number@), rank == dfs_number@.map_values(|x: usize| x as nat),
        tree_parent_ok(dfs.predecessors@, o),
        forall|v: usize| #![trigger dfs_parent.requires((v,))] dfs.predecessors@.contains_key(v) ==> dfs_parent.requires((v,)),
        forall|v: usize, res: Option<usize>| #![trigger dfs_parent.ensures((v,), res)] dfs_parent.ensures((v,), res) && dfs.predecessors@.contains_key(v) ==>
            (dfs.predecessors@[v]@.len() == 0 ==> res is None)
            && (forall|p: usize| dfs.predecessors@[v]@.len() == 1 && dfs.predecessors@[v]@.contains(p) ==> res == Some(p)),
        it.seq().len() == o.len() - 1,
        forall|k: int| 0 <= k < it.seq().len() ==> *#[trigger] it.seq()[k] == o[o.len() - 1 - k],
        ancestor@.dom() == self.vertices@.dom(), label@.dom() == self.vertices@.dom(),
        anc_ok(ancestor@, rank),
        forall|i: int| o.len() - it.index@ <= i < o.len() ==> semi@.contains_key(#[trigger] o[i]),
//@ loop 3
    invariant
        self.graph_wf(), self.vertices@.contains_key(vertex),
        seq_lists_set_ref(it2.seq(), self.predecessors@[vertex]@),
        ancestor@.dom() == self.vertices@.dom(), label@.dom() == self.vertices@.dom(),
        anc_ok(ancestor@, rank),
//@ before 0 `if ancestor[&pred].is_some()`
    proof {
        lemma_seq_lists_set_ref(it2.seq(), self.predecessors@[vertex]@);
        assert(self.predecessors@[vertex]@.contains(pred));
        assert(self.edges@.contains_key((pred, vertex)));
        assert(self.vertices@.contains_key(pred));
    }
//@ before 0 `semi.insert(vertex, min_semi);`
    let ghost anc1 = ancestor@;
    let ghost semi1 = semi@;
    let ghost i_v = o.len() - 1 - it.index@;
    proof {
        assert(vertex == o[i_v]);
        assert(1 <= i_v < o.len());
        assert(o.contains(o[i_v]));
    }
//@ after 0 `ancestor.insert(vertex, dfs_parent(vertex));`
    proof {
        // the new ancestor link goes to the tree parent, which has a smaller pre-order number
        let j = choose|j: int| 0 <= j < i_v && dfs.predecessors@[o[i_v]]@.contains(#[trigger] o[j]);
        assert(ancestor@[vertex] == Some(o[j]));
        assert(o.contains(o[j]));
        assert(rank[o[j]] == j as nat && rank[vertex] == i_v as nat);
        assert(anc_ok(ancestor@, rank)) by {
            assert forall|v: usize| #![trigger ancestor@[v]] ancestor@.contains_key(v) && ancestor@[v] is Some implies
                ancestor@.contains_key(ancestor@[v]->Some_0) && rank.contains_key(v) && rank.contains_key(ancestor@[v]->Some_0) && rank[ancestor@[v]->Some_0] < rank[v] by {
                if v != vertex { assert(ancestor@[v] == anc1[v]); }
            }
        }
        assert forall|i: int| o.len() - (it.index@ + 1) <= i < o.len() implies semi@.contains_key(#[trigger] o[i]) by {
            if i != i_v { assert(semi1.contains_key(o[i])); }
        }
    }
//@ before 0 `let mut idoms: FxHashMap<usize, usize>`
    proof {
        assert forall|i: int| 1 <= i < o.len() implies semi@.contains_key(#[trigger] o[i]) by { }
    }
//@ loop 4
    invariant
        o == dfs_pre_order@, o.no_duplicates(), o.len() > 0,
        dfn_ok(o, dfs_number@),
        tree_parent_ok(dfs.predecessors@, o),
        forall|v: usize| #![trigger dfs_parent.requires((v,))] dfs.predecessors@.contains_key(v) ==> dfs_parent.requires((v,)),
        forall|v: usize, res: Option<usize>| #![trigger dfs_parent.ensures((v,), res)] dfs_parent.ensures((v,), res) && dfs.predecessors@.contains_key(v) ==>
            (dfs.predecessors@[v]@.len() == 0 ==> res is None)
            && (forall|p: usize| dfs.predecessors@[v]@.len() == 1 && dfs.predecessors@[v]@.contains(p) ==> res == Some(p)),
        it.seq().len() == o.len() - 1,
        forall|k: int| 0 <= k < it.seq().len() ==> *#[trigger] it.seq()[k] == o[k + 1],
        forall|i: int| 1 <= i < o.len() ==> semi@.contains_key(#[trigger] o[i]),
        forall|m: usize| #![trigger idoms@.contains_key(m)] idoms@.contains_key(m) <==> 1 <= m <= it.index@,
        forall|m: usize| #![trigger idoms@[m]] idoms@.contains_key(m) ==> idoms@[m] < m,
//@ before 0 `let mut idom =`
    let ghost i_v = it.index@ + 1;
    let ghost jp = choose|j: int| 0 <= j < i_v && dfs.predecessors@[o[i_v]]@.contains(#[trigger] o[j]);
    proof {
        assert(vertex == o[i_v]);
        assert(o.contains(o[jp]));
    }
//@ loop 5
    invariant
        idom <= jp, jp < i_v, i_v == it.index@ + 1,
        semi@.contains_key(vertex),
        forall|m: usize| #![trigger idoms@.contains_key(m)] idoms@.contains_key(m) <==> 1 <= m <= it.index@,
        forall|m: usize| #![trigger idoms@[m]] idoms@.contains_key(m) ==> idoms@[m] < m,
    decreases idom,
//@ before 0 `idoms.insert(dfs_number[&vertex], idom);`
    proof {
        assert(o.contains(o[i_v]));
        assert(dfs_number@[vertex] == i_v);
    }
//@ before 0 `let mut graph_idoms: FxHashMap<usize, usize>`
    proof {
        assert forall|m: usize| #![trigger idoms@.contains_key(m)] idoms@.contains_key(m) <==> 1 <= m < o.len() by { }
        if o.len() > 1 {
            assert(idoms@.dom().contains(1usize));
            assert(idoms@.dom().len() > 0);
        }
        assert(idoms@.len() == idoms@.dom().len());
    }
//@ loop 6
    invariant
        o == dfs_pre_order@, o == graph_number@, o.no_duplicates(), o.len() > 0,
        seq_lists_map(it.seq(), idoms@),
        forall|m: usize| #![trigger idoms@.contains_key(m)] idoms@.contains_key(m) <==> 1 <= m < o.len(),
        forall|m: usize| #![trigger idoms@[m]] idoms@.contains_key(m) ==> idoms@[m] < m,
        forall|v: usize| #![trigger graph_idoms@.contains_key(v)] graph_idoms@.contains_key(v) ==>
            exists|m: int| 1 <= m < o.len() && #[trigger] o[m] == v && graph_idoms@[v] == o[idoms@[#[verifier::truncate] (m as usize)] as int],
        forall|j: int| 0 <= j < it.index@ ==> graph_idoms@.contains_key(o[*(#[trigger] it.seq()[j]).0 as int]),
        forall|m: int| #![trigger o[m]] it.index@ == it.seq().len() && 1 <= m < o.len() ==> graph_idoms@.contains_key(o[m]),
//@ before 0 `graph_idoms.insert(graph_number[vertex], graph_number[idom]);`
    let ghost gi0 = graph_idoms@;
    proof {
        lemma_seq_lists_map(it.seq(), idoms@);
        assert(idoms@.contains_pair(*kv__.0, *kv__.1));
        assert(1 <= vertex < o.len() && idom < vertex);
    }
//@ after 0 `graph_idoms.insert(graph_number[vertex], graph_number[idom]);`
    proof {
        assert forall|v: usize| #![trigger graph_idoms@.contains_key(v)] graph_idoms@.contains_key(v) implies
            exists|m: int| 1 <= m < o.len() && #[trigger] o[m] == v && graph_idoms@[v] == o[idoms@[#[verifier::truncate] (m as usize)] as int] by {
            if v == o[vertex as int] {
                assert(o[vertex as int] == v && graph_idoms@[v] == o[idoms@[vertex] as int]);
            } else {
                assert(gi0.contains_key(v));
                let m = choose|m: int| 1 <= m < o.len() && #[trigger] o[m] == v && gi0[v] == o[idoms@[#[verifier::truncate] (m as usize)] as int];
                assert(o[m] == v && graph_idoms@[v] == o[idoms@[#[verifier::truncate] (m as usize)] as int]);
            }
        }
        assert forall|m: int| #![trigger o[m]] it.index@ + 1 == it.seq().len() && 1 <= m < o.len() implies graph_idoms@.contains_key(o[m]) by {
            assert(idoms@.contains_key(m as usize));
            let j = choose|j: int| 0 <= j < it.seq().len() && *(#[trigger] it.seq()[j]).0 == m as usize;
            if j < it.index@ { assert(gi0.contains_key(o[*it.seq()[j].0 as int])); }
        }
    }
//@ before 0 `Ok(graph_idoms)`
    proof {
        let m = graph_idoms@;
        assert(idoms_shape(es, root, m, o)) by {
            assert forall|v: usize| #![trigger m.contains_key(v)] m.contains_key(v) <==> (path(es, root, v) && v != root) by {
                if m.contains_key(v) {
                    let k = choose|k: int| 1 <= k < o.len() && #[trigger] o[k] == v && m[v] == o[idoms@[#[verifier::truncate] (k as usize)] as int];
                    assert(o.contains(o[k]));
                    assert(o[k] != o[0]);
                }
                if path(es, root, v) && v != root {
                    assert(o.contains(v));
                    let k = choose|k: int| 0 <= k < o.len() && o[k] == v;
                    assert(m.contains_key(o[k]));
                }
            }
            assert forall|v: usize| #![trigger m[v]] m.contains_key(v) implies path(es, root, m[v]) && pos_of(o, m[v]) < pos_of(o, v) by {
                let k = choose|k: int| 1 <= k < o.len() && #[trigger] o[k] == v && m[v] == o[idoms@[#[verifier::truncate] (k as usize)] as int];
                let d = idoms@[k as usize] as int;
                assert(idoms@.contains_key(k as usize));
                assert(0 <= d < k);
                assert(o.contains(o[d]));
                lemma_pos_of(o, k);
                lemma_pos_of(o, d);
            }
        }
        assert(idoms_shape(self.edges@.dom(), root, graph_idoms@, o));
        assert(has_idoms_shape(self.edges@.dom(), root, graph_idoms@));
    }
//@ end

} // impl Graph (dominators)
