// ---- falcon::Error conversions used by the graph code (`"...".into()`), extracted from lib/lib.rs.
// `From<&str>` wraps the text into Error::Custom; the contract only says which variant comes out
// (the text itself is never inspected by verified code).
impl vstd::std_specs::convert::FromSpecImpl<&str> for Error {
    open spec fn obeys_from_spec() -> bool { false }
    open spec fn from_spec(v: &str) -> Error { arbitrary() }
}
impl From<&str> for Error {
//@ fn lib/lib.rs :: impl From<&str> for Error :: fn from nopub
//@ spec
    ensures /*@custom*/ r is Custom,
//@ end
}

// derive(Debug) of falcon::Error re-supplied (needed by `Result::unwrap`'s trait bound only; the
// formatter output is never inspected by verified code): opaque, no contract.
impl std::fmt::Debug for Error {
    #[verifier::external_body]
    fn fmt(&self, f: &mut std::fmt::Formatter<'_>) -> std::fmt::Result { unimplemented!() }
}
