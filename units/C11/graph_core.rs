// ======================================================================================
// units/C11/graph_core.rs — falcon::graph core: traits, struct Graph, the data invariant
// `graph_wf`, the path / reachability vocabulary, and the contracts of every constructor,
// accessor and edit of `impl<V, E> Graph<V, E>`.   Included by other units (control-flow graph,
// program locations); see units/C11/PHASE1_DONE for the vocabulary to use.
// Needs (in the including unit, before this file): prelude/error.rs, prelude/fxhash.rs,
// prelude/stdcoll.rs, units/C11/error_from.rs, `use rustc_hash::{FxHashMap, FxHashSet}`,
// `use vstd::std_specs::iter::IteratorSpec`, and the broadcast-use line of units/C11/unit.rs.
// ======================================================================================
//@ source lib/graph/mod.rs

// ---- the traits are the REAL ones (extracted); one logged rewrite each attaches the contract
// that `graph_wf` relies on: index()/head()/tail() are pure observers (spec fn twins) and
// clone() preserves them (trait-level proof obligation every implementor must discharge).
//@ itemx trait Vertex
//@ rewrite 1 `fn index(&self) -> usize;` => `spec fn index_spec(&self) -> usize; fn index(&self) -> (r: usize) ensures r == self.index_spec(); proof fn lemma_clone_index(a: &Self, b: &Self) requires cloned(*a, *b) ensures a.index_spec() == b.index_spec();` ## R-trait-contract: adds a spec twin and a contract to the trait method; the executable signature `fn index(&self) -> usize` is unchanged
//@ end

//@ itemx trait Edge
//@ rewrite 1 `fn head(&self) -> usize;` => `spec fn head_spec(&self) -> usize; fn head(&self) -> (r: usize) ensures r == self.head_spec();` ## R-trait-contract: adds a spec twin and a contract to the trait method; the executable signature is unchanged
//@ rewrite 1 `fn tail(&self) -> usize;` => `spec fn tail_spec(&self) -> usize; fn tail(&self) -> (r: usize) ensures r == self.tail_spec(); proof fn lemma_clone_ends(a: &Self, b: &Self) requires cloned(*a, *b) ensures a.head_spec() == b.head_spec(), a.tail_spec() == b.tail_spec();` ## R-trait-contract: adds a spec twin and a contract to the trait method; the executable signature is unchanged
//@ end

//@ item struct Graph

// ---- the data-free vertex / edge types of the library (used by every derived graph) --------
//@ item struct NullVertex

// derive(Clone) re-supplied explicitly (structural copy)
impl Clone for NullVertex {
    fn clone(&self) -> (r: NullVertex)
        ensures r == *self,
    {
        NullVertex { index: self.index }
    }
}

impl NullVertex {
//@ fn impl NullVertex :: fn new
//@ spec
    ensures /*@field*/ r.index == index,
//@ end
}

impl Vertex for NullVertex {
    open spec fn index_spec(&self) -> usize { self.index }
    proof fn lemma_clone_index(a: &Self, b: &Self) {}
//@ fn impl Vertex for NullVertex :: fn index nopub
//@ end
//@ fn impl Vertex for NullVertex :: fn dot_label nopub
//@ end
}

//@ item struct NullEdge

// derive(Clone) re-supplied explicitly (structural copy)
impl Clone for NullEdge {
    fn clone(&self) -> (r: NullEdge)
        ensures r == *self,
    {
        NullEdge { head: self.head, tail: self.tail }
    }
}

impl NullEdge {
//@ fn impl NullEdge :: fn new
//@ spec
    ensures /*@fields*/ r.head == head && r.tail == tail,
//@ end
}

impl Edge for NullEdge {
    open spec fn head_spec(&self) -> usize { self.head }
    open spec fn tail_spec(&self) -> usize { self.tail }
    proof fn lemma_clone_ends(a: &Self, b: &Self) {}
//@ fn impl Edge for NullEdge :: fn head nopub
//@ end
//@ fn impl Edge for NullEdge :: fn tail nopub
//@ end
//@ fn impl Edge for NullEdge :: fn dot_label nopub
//@ end
}

// ---------------------------------------------------------------------------------------------
// walks and paths over an edge relation (textbook definitions)

/// p is a walk: a non-empty vertex sequence whose consecutive elements are joined by edges
pub open spec fn walk_edge(es: Set<(usize, usize)>, p: Seq<usize>, i: int) -> bool {
    es.contains((p[i], p[i + 1]))
}

pub open spec fn is_walk(es: Set<(usize, usize)>, p: Seq<usize>) -> bool {
    p.len() >= 1 && forall|i: int| 0 <= i < p.len() - 1 ==> #[trigger] walk_edge(es, p, i)
}

/// there is a walk with >= 0 edges from u to v
pub open spec fn path(es: Set<(usize, usize)>, u: usize, v: usize) -> bool {
    exists|p: Seq<usize>| #![trigger is_walk(es, p)] is_walk(es, p) && p[0] == u && p.last() == v
}

/// there is a walk with >= 1 edges from u to v
pub open spec fn path_plus(es: Set<(usize, usize)>, u: usize, v: usize) -> bool {
    exists|p: Seq<usize>| #![trigger is_walk(es, p)] is_walk(es, p) && p.len() >= 2 && p[0] == u && p.last() == v
}

/// the edge relation has no cycle through a vertex reachable from root
pub open spec fn acyclic_from(es: Set<(usize, usize)>, root: usize) -> bool {
    forall|v: usize| path(es, root, v) ==> !path_plus(es, v, v)
}

/// the edge relation has no cycle at all
pub open spec fn acyclic(es: Set<(usize, usize)>) -> bool {
    forall|v: usize| !path_plus(es, v, v)
}

pub proof fn lemma_path_refl(es: Set<(usize, usize)>, u: usize)
    ensures path(es, u, u),
{
    let p = seq![u];
    assert(is_walk(es, p) && p[0] == u && p.last() == u);
}

pub proof fn lemma_path_edge(es: Set<(usize, usize)>, u: usize, v: usize)
    requires es.contains((u, v)),
    ensures path(es, u, v), path_plus(es, u, v),
{
    let p = seq![u, v];
    assert(is_walk(es, p) && p.len() >= 2 && p[0] == u && p.last() == v);
}

pub proof fn lemma_path_plus_is_path(es: Set<(usize, usize)>, u: usize, v: usize)
    requires path_plus(es, u, v),
    ensures path(es, u, v),
{
    let p = choose|p: Seq<usize>| #![trigger is_walk(es, p)] is_walk(es, p) && p.len() >= 2 && p[0] == u && p.last() == v;
    assert(is_walk(es, p) && p[0] == u && p.last() == v);
}

/// extend a path by one edge at the end
pub proof fn lemma_path_step(es: Set<(usize, usize)>, u: usize, w: usize, v: usize)
    requires path(es, u, w), es.contains((w, v)),
    ensures path(es, u, v), path_plus(es, u, v),
{
    let p = choose|p: Seq<usize>| #![trigger is_walk(es, p)] is_walk(es, p) && p[0] == u && p.last() == w;
    let q = p.push(v);
    assert forall|i: int| 0 <= i < q.len() - 1 implies #[trigger] walk_edge(es, q, i) by {
        if i < p.len() - 1 {
            assert(walk_edge(es, p, i));
            assert(q[i] == p[i] && q[i + 1] == p[i + 1]);
        } else {
            assert(q[i] == w && q[i + 1] == v);
        }
    }
    assert(is_walk(es, q) && q.len() >= 2 && q[0] == u && q.last() == v);
}

/// concatenation of walks
pub proof fn lemma_walk_concat(es: Set<(usize, usize)>, p: Seq<usize>, q: Seq<usize>)
    requires is_walk(es, p), is_walk(es, q), p.last() == q[0],
    ensures is_walk(es, p + q.subrange(1, q.len() as int)),
        (p + q.subrange(1, q.len() as int))[0] == p[0],
        (p + q.subrange(1, q.len() as int)).last() == q.last(),
        (p + q.subrange(1, q.len() as int)).len() == p.len() + q.len() - 1,
{
    let t = q.subrange(1, q.len() as int);
    let r = p + t;
    assert forall|i: int| 0 <= i < r.len() - 1 implies #[trigger] walk_edge(es, r, i) by {
        if i < p.len() - 1 {
            assert(walk_edge(es, p, i));
            assert(r[i] == p[i] && r[i + 1] == p[i + 1]);
        } else if i == p.len() - 1 {
            assert(walk_edge(es, q, 0));
            assert(r[i] == p[i] && r[i + 1] == t[0] && t[0] == q[1]);
            assert(p[i] == q[0]);
        } else {
            let j = i - p.len() + 1;
            assert(walk_edge(es, q, j));
            assert(r[i] == t[j - 1] && r[i + 1] == t[j] && t[j - 1] == q[j] && t[j] == q[j + 1]);
        }
    }
    if t.len() == 0 {
        assert(r.last() == p.last());
    } else {
        assert(r.last() == q.last());
    }
}

pub proof fn lemma_path_trans(es: Set<(usize, usize)>, u: usize, w: usize, v: usize)
    requires path(es, u, w), path(es, w, v),
    ensures path(es, u, v),
{
    let p = choose|p: Seq<usize>| #![trigger is_walk(es, p)] is_walk(es, p) && p[0] == u && p.last() == w;
    let q = choose|q: Seq<usize>| #![trigger is_walk(es, q)] is_walk(es, q) && q[0] == w && q.last() == v;
    lemma_walk_concat(es, p, q);
    let r = p + q.subrange(1, q.len() as int);
    assert(is_walk(es, r) && r[0] == u && r.last() == v);
}

pub proof fn lemma_path_plus_trans_l(es: Set<(usize, usize)>, u: usize, w: usize, v: usize)
    requires path_plus(es, u, w), path(es, w, v),
    ensures path_plus(es, u, v),
{
    let p = choose|p: Seq<usize>| #![trigger is_walk(es, p)] is_walk(es, p) && p.len() >= 2 && p[0] == u && p.last() == w;
    let q = choose|q: Seq<usize>| #![trigger is_walk(es, q)] is_walk(es, q) && q[0] == w && q.last() == v;
    lemma_walk_concat(es, p, q);
    let r = p + q.subrange(1, q.len() as int);
    assert(is_walk(es, r) && r.len() >= 2 && r[0] == u && r.last() == v);
}

pub proof fn lemma_path_plus_trans_r(es: Set<(usize, usize)>, u: usize, w: usize, v: usize)
    requires path(es, u, w), path_plus(es, w, v),
    ensures path_plus(es, u, v),
{
    let p = choose|p: Seq<usize>| #![trigger is_walk(es, p)] is_walk(es, p) && p[0] == u && p.last() == w;
    let q = choose|q: Seq<usize>| #![trigger is_walk(es, q)] is_walk(es, q) && q.len() >= 2 && q[0] == w && q.last() == v;
    lemma_walk_concat(es, p, q);
    let r = p + q.subrange(1, q.len() as int);
    assert(is_walk(es, r) && r.len() >= 2 && r[0] == u && r.last() == v);
}

/// a path is either empty or an edge followed by a path
pub proof fn lemma_path_first(es: Set<(usize, usize)>, u: usize, v: usize)
    requires path(es, u, v),
    ensures u == v || exists|w: usize| es.contains((u, w)) && path(es, w, v),
{
    let p = choose|p: Seq<usize>| #![trigger is_walk(es, p)] is_walk(es, p) && p[0] == u && p.last() == v;
    if p.len() >= 2 {
        let q = p.subrange(1, p.len() as int);
        assert forall|i: int| 0 <= i < q.len() - 1 implies #[trigger] walk_edge(es, q, i) by {
            assert(walk_edge(es, p, i + 1));
            assert(q[i] == p[i + 1] && q[i + 1] == p[i + 2]);
        }
        assert(walk_edge(es, p, 0));
        assert(is_walk(es, q) && q[0] == p[1] && q.last() == v);
        assert(es.contains((u, p[1])) && path(es, p[1], v));
    }
}

pub proof fn lemma_path_plus_first(es: Set<(usize, usize)>, u: usize, v: usize)
    requires path_plus(es, u, v),
    ensures exists|w: usize| es.contains((u, w)) && path(es, w, v),
{
    let p = choose|p: Seq<usize>| #![trigger is_walk(es, p)] is_walk(es, p) && p.len() >= 2 && p[0] == u && p.last() == v;
    let q = p.subrange(1, p.len() as int);
    assert forall|i: int| 0 <= i < q.len() - 1 implies #[trigger] walk_edge(es, q, i) by {
        assert(walk_edge(es, p, i + 1));
        assert(q[i] == p[i + 1] && q[i + 1] == p[i + 2]);
    }
    assert(walk_edge(es, p, 0));
    assert(is_walk(es, q) && q[0] == p[1] && q.last() == v);
    assert(es.contains((u, p[1])) && path(es, p[1], v));
}

/// a path with >= 1 edges is a path followed by an edge
pub proof fn lemma_path_plus_last(es: Set<(usize, usize)>, u: usize, v: usize)
    requires path_plus(es, u, v),
    ensures exists|w: usize| path(es, u, w) && es.contains((w, v)),
{
    let p = choose|p: Seq<usize>| #![trigger is_walk(es, p)] is_walk(es, p) && p.len() >= 2 && p[0] == u && p.last() == v;
    let q = p.drop_last();
    assert forall|i: int| 0 <= i < q.len() - 1 implies #[trigger] walk_edge(es, q, i) by {
        assert(walk_edge(es, p, i));
        assert(q[i] == p[i] && q[i + 1] == p[i + 1]);
    }
    let w = q.last();
    assert(p[p.len() - 2] == w);
    assert(walk_edge(es, p, p.len() - 2));
    assert(is_walk(es, q) && q[0] == u && q.last() == w);
    assert(path(es, u, w) && es.contains((w, v)));
}

/// induction principle: a predicate that holds at u and is closed under edges holds on everything
/// reachable from u
pub proof fn lemma_walk_closed(es: Set<(usize, usize)>, s: spec_fn(usize) -> bool, p: Seq<usize>, i: int)
    requires
        is_walk(es, p), s(p[0]), 0 <= i < p.len(),
        forall|a: usize, b: usize| #![trigger es.contains((a, b))] s(a) && es.contains((a, b)) ==> s(b),
    ensures s(p[i]),
    decreases i,
{
    if i > 0 {
        lemma_walk_closed(es, s, p, i - 1);
        assert(walk_edge(es, p, i - 1));
    }
}

pub proof fn lemma_path_closed(es: Set<(usize, usize)>, s: spec_fn(usize) -> bool, u: usize, v: usize)
    requires
        s(u), path(es, u, v),
        forall|a: usize, b: usize| #![trigger es.contains((a, b))] s(a) && es.contains((a, b)) ==> s(b),
    ensures s(v),
{
    let p = choose|p: Seq<usize>| #![trigger is_walk(es, p)] is_walk(es, p) && p[0] == u && p.last() == v;
    lemma_walk_closed(es, s, p, p.len() - 1);
}

/// paths are monotone in the edge relation
pub proof fn lemma_path_mono(es1: Set<(usize, usize)>, es2: Set<(usize, usize)>, u: usize, v: usize)
    requires path(es1, u, v), es1.subset_of(es2),
    ensures path(es2, u, v),
{
    let p = choose|p: Seq<usize>| #![trigger is_walk(es1, p)] is_walk(es1, p) && p[0] == u && p.last() == v;
    assert forall|i: int| 0 <= i < p.len() - 1 implies #[trigger] walk_edge(es2, p, i) by {
        assert(walk_edge(es1, p, i));
    }
    assert(is_walk(es2, p) && p[0] == u && p.last() == v);
}

pub proof fn lemma_path_plus_mono(es1: Set<(usize, usize)>, es2: Set<(usize, usize)>, u: usize, v: usize)
    requires path_plus(es1, u, v), es1.subset_of(es2),
    ensures path_plus(es2, u, v),
{
    let p = choose|p: Seq<usize>| #![trigger is_walk(es1, p)] is_walk(es1, p) && p.len() >= 2 && p[0] == u && p.last() == v;
    assert forall|i: int| 0 <= i < p.len() - 1 implies #[trigger] walk_edge(es2, p, i) by {
        assert(walk_edge(es1, p, i));
    }
    assert(is_walk(es2, p) && p.len() >= 2 && p[0] == u && p.last() == v);
}

// ---------------------------------------------------------------------------------------------
// membership in stacks / queues (Seq::contains unfolds to an existential; these give the pointwise form)

pub proof fn lemma_push_contains<T>(s: Seq<T>, x: T)
    ensures forall|a: T| #![trigger s.push(x).contains(a)] s.push(x).contains(a) <==> (a == x || s.contains(a)),
{
    assert forall|a: T| #![trigger s.push(x).contains(a)] s.push(x).contains(a) <==> (a == x || s.contains(a)) by {
        if s.push(x).contains(a) {
            let i = choose|i: int| 0 <= i < s.push(x).len() && s.push(x)[i] == a;
            if i < s.len() { assert(s[i] == a); }
        }
        if s.contains(a) {
            let i = choose|i: int| 0 <= i < s.len() && s[i] == a;
            assert(s.push(x)[i] == a);
        }
        if a == x { assert(s.push(x)[s.len() as int] == a); }
    }
}

pub proof fn lemma_drop_last_contains<T>(s: Seq<T>)
    requires s.len() > 0,
    ensures forall|a: T| #![trigger s.contains(a)] s.contains(a) <==> (a == s.last() || s.drop_last().contains(a)),
{
    assert(s =~= s.drop_last().push(s.last()));
    lemma_push_contains(s.drop_last(), s.last());
}

pub proof fn lemma_drop_first_contains<T>(s: Seq<T>)
    requires s.len() > 0,
    ensures forall|a: T| #![trigger s.contains(a)] s.contains(a) <==> (a == s[0] || s.subrange(1, s.len() as int).contains(a)),
{
    let t = s.subrange(1, s.len() as int);
    assert forall|a: T| #![trigger s.contains(a)] s.contains(a) <==> (a == s[0] || t.contains(a)) by {
        if s.contains(a) {
            let i = choose|i: int| 0 <= i < s.len() && s[i] == a;
            if i > 0 { assert(t[i - 1] == a); }
        }
        if t.contains(a) {
            let i = choose|i: int| 0 <= i < t.len() && t[i] == a;
            assert(s[i + 1] == a);
        }
    }
}

// ---------------------------------------------------------------------------------------------
// iteration helper: a duplicate-free enumeration of a finite set that contains every element and
// has the set's length lists exactly the set (vstd's `iter()` contracts are stated this way)

pub open spec fn seq_lists_set<T>(s: Seq<T>, m: Set<T>) -> bool {
    &&& s.no_duplicates()
    &&& s.len() == m.len()
    &&& forall|k: T| #![trigger s.contains(k)] m.contains(k) ==> s.contains(k)
}

pub proof fn lemma_seq_lists_set<T>(s: Seq<T>, m: Set<T>)
    requires seq_lists_set(s, m),
    ensures s.to_set() =~= m, forall|i: int| 0 <= i < s.len() ==> m.contains(#[trigger] s[i]),
{
    s.unique_seq_to_set();
    let t = s.to_set();
    assert(m.subset_of(t)) by {
        assert forall|k: T| m.contains(k) implies t.contains(k) by {
            assert(s.contains(k));
        }
    }
    vstd::set_lib::lemma_subset_equality(m, t);
    assert forall|i: int| 0 <= i < s.len() implies m.contains(#[trigger] s[i]) by {
        assert(t.contains(s[i]));
    }
}

/// the same for an enumeration by reference (`iter()` yields `&T`)
pub open spec fn seq_lists_set_ref<T>(s: Seq<&T>, m: Set<T>) -> bool {
    &&& s.no_duplicates()
    &&& s.len() == m.len()
    &&& forall|k: T| #![trigger s.contains(&k)] #![trigger m.contains(k)] m.contains(k) ==> s.contains(&k)
}

pub proof fn lemma_seq_lists_set_ref<T>(s: Seq<&T>, m: Set<T>)
    requires seq_lists_set_ref(s, m),
    ensures
        forall|i: int| 0 <= i < s.len() ==> m.contains(*#[trigger] s[i]),
        forall|k: T| m.contains(k) ==> exists|i: int| 0 <= i < s.len() && *#[trigger] s[i] == k,
{
    let d = s.map_values(|x: &T| *x);
    assert(d.no_duplicates()) by {
        assert forall|i: int, j: int| 0 <= i < d.len() && 0 <= j < d.len() && i != j implies d[i] != d[j] by {
            assert(s[i] != s[j]);
        }
    }
    assert forall|k: T| m.contains(k) implies #[trigger] d.contains(k) by {
        assert(s.contains(&k));
        let i = choose|i: int| 0 <= i < s.len() && s[i] == &k;
        assert(d[i] == k);
    }
    lemma_seq_lists_set(d, m);
    assert forall|i: int| 0 <= i < s.len() implies m.contains(*#[trigger] s[i]) by {
        assert(d[i] == *s[i]);
    }
    assert forall|k: T| m.contains(k) implies exists|i: int| 0 <= i < s.len() && *#[trigger] s[i] == k by {
        assert(s.contains(&k));
        let i = choose|i: int| 0 <= i < s.len() && s[i] == &k;
        assert(*s[i] == k);
    }
}

/// a pointwise copy of an exact by-reference enumeration is an exact enumeration
pub proof fn lemma_copy_lists_set<T>(out: Seq<T>, s: Seq<&T>, m: Set<T>)
    requires seq_lists_set_ref(s, m), out.len() <= s.len(), forall|i: int| 0 <= i < out.len() ==> out[i] == *#[trigger] s[i],
    ensures out.len() == s.len() ==> seq_lists_set(out, m) && out.to_set() == m && forall|i: int| 0 <= i < out.len() ==> m.contains(#[trigger] out[i]),
{
    if out.len() != s.len() { return; }
    lemma_seq_lists_set_ref(s, m);
    assert(out.no_duplicates()) by {
        assert forall|i: int, j: int| 0 <= i < out.len() && 0 <= j < out.len() && i != j implies out[i] != out[j] by {
            assert(s[i] != s[j]);
        }
    }
    assert forall|k: T| m.contains(k) implies #[trigger] out.contains(k) by {
        let i = choose|i: int| 0 <= i < s.len() && *#[trigger] s[i] == k;
        assert(out[i] == k);
    }
    lemma_seq_lists_set(out, m);
}

/// what vstd's `BTreeMap::iter()` / `HashMap::iter()` promise about the (prophetic) item sequence
pub open spec fn seq_lists_map<K, T>(s: Seq<(&K, &T)>, m: Map<K, T>) -> bool {
    &&& s.no_duplicates()
    &&& s.len() == m.len()
    &&& forall|k: K, v: T| #![trigger s.contains((&k, &v))] #![trigger m.contains_pair(k, v)] m.contains_pair(k, v) ==> s.contains((&k, &v))
    &&& forall|i: int| 0 <= i < s.len() ==> m.contains_pair(*(#[trigger] s[i]).0, *s[i].1)
}

/// the keys of such an enumeration are pairwise distinct and cover the domain
pub proof fn lemma_seq_lists_map<K, T>(s: Seq<(&K, &T)>, m: Map<K, T>)
    requires seq_lists_map(s, m),
    ensures
        forall|i: int, j: int| 0 <= i < s.len() && 0 <= j < s.len() && i != j ==> *(#[trigger] s[i]).0 != *(#[trigger] s[j]).0,
        forall|k: K| m.contains_key(k) ==> exists|i: int| 0 <= i < s.len() && *(#[trigger] s[i]).0 == k,
{
    assert forall|i: int, j: int| 0 <= i < s.len() && 0 <= j < s.len() && i != j implies *(#[trigger] s[i]).0 != *(#[trigger] s[j]).0 by {
        if *s[i].0 == *s[j].0 {
            assert(m.contains_pair(*s[i].0, *s[i].1) && m.contains_pair(*s[j].0, *s[j].1));
            assert(s[i] == s[j]);
        }
    }
    assert forall|k: K| m.contains_key(k) implies exists|i: int| 0 <= i < s.len() && *(#[trigger] s[i]).0 == k by {
        assert(m.contains_pair(k, m[k]));
        assert(s.contains((&k, &m[k])));
        let i = choose|i: int| 0 <= i < s.len() && s[i] == (&k, &m[k]);
        assert(*s[i].0 == k);
    }
}

// ---------------------------------------------------------------------------------------------
// views and the data invariant

impl<V, E> Graph<V, E>
where
    V: Vertex,
    E: Edge,
{
    /// the set of vertex ids
    pub open spec fn vertex_ids(&self) -> Set<usize> { self.vertices@.dom() }

    /// the set of edges (head, tail)
    pub open spec fn edge_ids(&self) -> Set<(usize, usize)> { self.edges@.dom() }

    /// successor set of a vertex id (meaningful for vertex ids)
    pub open spec fn succ(&self, h: usize) -> Set<usize> { self.successors@[h]@ }

    /// predecessor set of a vertex id (meaningful for vertex ids)
    pub open spec fn pred(&self, t: usize) -> Set<usize> { self.predecessors@[t]@ }

    /// consistency of the three adjacency views (edges / successors / predecessors)
    pub open spec fn adj_wf(&self) -> bool {
        &&& self.successors@.dom() =~= self.predecessors@.dom()
        &&& forall|h: usize, t: usize|
                #![trigger self.edges@.contains_key((h, t))]
                #![trigger self.successors@[h]@.contains(t)]
                self.edges@.contains_key((h, t)) <==> (self.successors@.contains_key(h) && self.successors@[h]@.contains(t))
        &&& forall|h: usize, t: usize|
                #![trigger self.edges@.contains_key((h, t))]
                #![trigger self.predecessors@[t]@.contains(h)]
                self.edges@.contains_key((h, t)) <==> (self.predecessors@.contains_key(t) && self.predecessors@[t]@.contains(h))
        &&& forall|h: usize, t: usize|
                #![trigger self.edges@.contains_key((h, t))]
                self.edges@.contains_key((h, t)) ==> self.successors@.contains_key(h) && self.successors@.contains_key(t)
        &&& forall|h: usize, t: usize|
                #![trigger self.edges@[(h, t)]]
                self.edges@.contains_key((h, t)) ==> self.edges@[(h, t)].head_spec() == h && self.edges@[(h, t)].tail_spec() == t
    }

    /// the vertex view agrees with the adjacency views
    pub open spec fn vertex_wf(&self) -> bool {
        &&& self.vertices@.dom() =~= self.successors@.dom()
        &&& forall|k: usize| #![trigger self.vertices@[k]] self.vertices@.contains_key(k) ==> self.vertices@[k].index_spec() == k
    }

    /// data invariant of falcon::graph::Graph
    pub open spec fn graph_wf(&self) -> bool {
        self.adj_wf() && self.vertex_wf()
    }

    /// v is reachable from root along edges of this graph (zero or more edges)
    pub open spec fn reaches(&self, root: usize, v: usize) -> bool {
        path(self.edges@.dom(), root, v)
    }

    /// `vs` lists, without repetition, exactly the stored vertices whose id satisfies `ids`
    pub open spec fn lists_vertices(&self, vs: Seq<&V>, ids: spec_fn(usize) -> bool) -> bool {
        &&& forall|i: int| 0 <= i < vs.len() ==> ids((#[trigger] vs[i]).index_spec()) && self.vertices@.contains_key(vs[i].index_spec())
                && *vs[i] == self.vertices@[vs[i].index_spec()]
        &&& forall|i: int, j: int| 0 <= i < j < vs.len() ==> (#[trigger] vs[i]).index_spec() != (#[trigger] vs[j]).index_spec()
        &&& forall|k: usize| #[trigger] ids(k) && self.vertices@.contains_key(k) ==> exists|i: int| 0 <= i < vs.len() && (#[trigger] vs[i]).index_spec() == k
    }

    /// `es` lists, without repetition, exactly the stored edges whose (head, tail) satisfies `sel`
    pub open spec fn lists_edges(&self, es: Seq<&E>, sel: spec_fn((usize, usize)) -> bool) -> bool {
        &&& forall|i: int| 0 <= i < es.len() ==> sel(((#[trigger] es[i]).head_spec(), es[i].tail_spec()))
                && self.edges@.contains_key((es[i].head_spec(), es[i].tail_spec()))
                && *es[i] == self.edges@[(es[i].head_spec(), es[i].tail_spec())]
        &&& forall|i: int, j: int| 0 <= i < j < es.len() ==>
                ((#[trigger] es[i]).head_spec(), es[i].tail_spec()) != ((#[trigger] es[j]).head_spec(), es[j].tail_spec())
        &&& forall|k: (usize, usize)| #[trigger] sel(k) && self.edges@.contains_key(k) ==>
                exists|i: int| 0 <= i < es.len() && ((#[trigger] es[i]).head_spec(), es[i].tail_spec()) == k
    }

    /// looking up every id of an exact enumeration of `m` lists exactly the vertices with id in `m`
    pub proof fn lemma_lists_vertices_of_ids(&self, vs: Seq<&V>, s: Seq<&usize>, m: Set<usize>)
        requires
            self.graph_wf(), seq_lists_set_ref(s, m), vs.len() <= s.len(),
            forall|i: int| 0 <= i < vs.len() ==> self.vertices@.contains_key(*#[trigger] s[i]) && *vs[i] == self.vertices@[*s[i]],
        ensures vs.len() == s.len() ==> vs.len() == m.len() && self.lists_vertices(vs, |k: usize| m.contains(k)),
    {
        if vs.len() != s.len() { return; }
        lemma_seq_lists_set_ref(s, m);
        let ids = |k: usize| m.contains(k);
        assert forall|i: int| 0 <= i < vs.len() implies ids((#[trigger] vs[i]).index_spec()) && self.vertices@.contains_key(vs[i].index_spec())
            && *vs[i] == self.vertices@[vs[i].index_spec()] by {
            assert(self.vertices@.contains_key(*s[i]));
            assert(vs[i].index_spec() == *s[i]);
        }
        assert forall|i: int, j: int| 0 <= i < j < vs.len() implies (#[trigger] vs[i]).index_spec() != (#[trigger] vs[j]).index_spec() by {
            assert(self.vertices@.contains_key(*s[i]) && self.vertices@.contains_key(*s[j]));
            assert(s[i] != s[j]);
        }
        assert forall|k: usize| #[trigger] ids(k) && self.vertices@.contains_key(k) implies exists|i: int| 0 <= i < vs.len() && (#[trigger] vs[i]).index_spec() == k by {
            let i = choose|i: int| 0 <= i < s.len() && *#[trigger] s[i] == k;
            assert(self.vertices@.contains_key(*s[i]));
            assert(vs[i].index_spec() == k);
        }
    }

    /// looking up the out-edges (in-edges) of `index` along an exact enumeration of its successor
    /// (predecessor) set lists exactly the edges leaving (entering) `index`
    pub proof fn lemma_lists_edges_out(&self, es: Seq<&E>, s: Seq<&usize>, index: usize)
        requires
            self.graph_wf(), self.successors@.contains_key(index), seq_lists_set_ref(s, self.successors@[index]@), es.len() <= s.len(),
            forall|i: int| 0 <= i < es.len() ==> self.edges@.contains_key((index, *#[trigger] s[i])) && *es[i] == self.edges@[(index, *s[i])],
        ensures es.len() == s.len() ==> es.len() == self.successors@[index]@.len() && self.lists_edges(es, |k: (usize, usize)| k.0 == index),
    {
        if es.len() != s.len() { return; }
        let m = self.successors@[index]@;
        lemma_seq_lists_set_ref(s, m);
        let sel = |k: (usize, usize)| k.0 == index;
        assert forall|i: int| 0 <= i < es.len() implies sel(((#[trigger] es[i]).head_spec(), es[i].tail_spec()))
            && self.edges@.contains_key((es[i].head_spec(), es[i].tail_spec()))
            && *es[i] == self.edges@[(es[i].head_spec(), es[i].tail_spec())] by {
            assert(self.edges@.contains_key((index, *s[i])));
            assert(self.edges@[(index, *s[i])].head_spec() == index && self.edges@[(index, *s[i])].tail_spec() == *s[i]);
        }
        assert forall|i: int, j: int| 0 <= i < j < es.len() implies
            ((#[trigger] es[i]).head_spec(), es[i].tail_spec()) != ((#[trigger] es[j]).head_spec(), es[j].tail_spec()) by {
            assert(self.edges@.contains_key((index, *s[i])) && self.edges@.contains_key((index, *s[j])));
            assert(self.edges@[(index, *s[i])].tail_spec() == *s[i] && self.edges@[(index, *s[j])].tail_spec() == *s[j]);
            assert(s[i] != s[j]);
        }
        assert forall|k: (usize, usize)| #[trigger] sel(k) && self.edges@.contains_key(k) implies
            exists|i: int| 0 <= i < es.len() && ((#[trigger] es[i]).head_spec(), es[i].tail_spec()) == k by {
            assert(k == (index, k.1));
            assert(self.edges@.contains_key((index, k.1)));
            assert(m.contains(k.1));
            let i = choose|i: int| 0 <= i < s.len() && *#[trigger] s[i] == k.1;
            assert(self.edges@.contains_key((index, *s[i])));
            assert(self.edges@[(index, *s[i])].head_spec() == index && self.edges@[(index, *s[i])].tail_spec() == *s[i]);
            assert((es[i].head_spec(), es[i].tail_spec()) == k);
        }
    }

    pub proof fn lemma_lists_edges_in(&self, es: Seq<&E>, s: Seq<&usize>, index: usize)
        requires
            self.graph_wf(), self.predecessors@.contains_key(index), seq_lists_set_ref(s, self.predecessors@[index]@), es.len() <= s.len(),
            forall|i: int| 0 <= i < es.len() ==> self.edges@.contains_key((*#[trigger] s[i], index)) && *es[i] == self.edges@[(*s[i], index)],
        ensures es.len() == s.len() ==> es.len() == self.predecessors@[index]@.len() && self.lists_edges(es, |k: (usize, usize)| k.1 == index),
    {
        if es.len() != s.len() { return; }
        let m = self.predecessors@[index]@;
        lemma_seq_lists_set_ref(s, m);
        let sel = |k: (usize, usize)| k.1 == index;
        assert forall|i: int| 0 <= i < es.len() implies sel(((#[trigger] es[i]).head_spec(), es[i].tail_spec()))
            && self.edges@.contains_key((es[i].head_spec(), es[i].tail_spec()))
            && *es[i] == self.edges@[(es[i].head_spec(), es[i].tail_spec())] by {
            assert(self.edges@.contains_key((*s[i], index)));
            assert(self.edges@[(*s[i], index)].head_spec() == *s[i] && self.edges@[(*s[i], index)].tail_spec() == index);
        }
        assert forall|i: int, j: int| 0 <= i < j < es.len() implies
            ((#[trigger] es[i]).head_spec(), es[i].tail_spec()) != ((#[trigger] es[j]).head_spec(), es[j].tail_spec()) by {
            assert(self.edges@.contains_key((*s[i], index)) && self.edges@.contains_key((*s[j], index)));
            assert(self.edges@[(*s[i], index)].head_spec() == *s[i] && self.edges@[(*s[j], index)].head_spec() == *s[j]);
            assert(s[i] != s[j]);
        }
        assert forall|k: (usize, usize)| #[trigger] sel(k) && self.edges@.contains_key(k) implies
            exists|i: int| 0 <= i < es.len() && ((#[trigger] es[i]).head_spec(), es[i].tail_spec()) == k by {
            assert(k == (k.0, index));
            assert(self.edges@.contains_key((k.0, index)));
            assert(m.contains(k.0));
            let i = choose|i: int| 0 <= i < s.len() && *#[trigger] s[i] == k.0;
            assert(self.edges@.contains_key((*s[i], index)));
            assert(self.edges@[(*s[i], index)].head_spec() == *s[i] && self.edges@[(*s[i], index)].tail_spec() == index);
            assert((es[i].head_spec(), es[i].tail_spec()) == k);
        }
    }

    /// the values of an exact enumeration of the vertex map list exactly the stored vertices
    pub proof fn lemma_lists_all_vertices(&self, vs: Seq<&V>, s: Seq<(&usize, &V)>)
        requires
            self.graph_wf(), seq_lists_map(s, self.vertices@), vs.len() <= s.len(),
            forall|i: int| 0 <= i < vs.len() ==> *#[trigger] vs[i] == *s[i].1,
        ensures vs.len() == s.len() ==> vs.len() == self.vertices@.dom().len() && self.lists_vertices(vs, |k: usize| true),
    {
        if vs.len() != s.len() { return; }
        lemma_seq_lists_map(s, self.vertices@);
        let ids = |k: usize| true;
        assert forall|i: int| 0 <= i < vs.len() implies (#[trigger] vs[i]).index_spec() == *s[i].0 && self.vertices@.contains_key(*s[i].0)
            && *vs[i] == self.vertices@[*s[i].0] by {
            assert(self.vertices@.contains_pair(*s[i].0, *s[i].1));
        }
        assert forall|i: int, j: int| 0 <= i < j < vs.len() implies (#[trigger] vs[i]).index_spec() != (#[trigger] vs[j]).index_spec() by {
            assert(*s[i].0 != *s[j].0);
        }
        assert forall|k: usize| #[trigger] ids(k) && self.vertices@.contains_key(k) implies exists|i: int| 0 <= i < vs.len() && (#[trigger] vs[i]).index_spec() == k by {
            let i = choose|i: int| 0 <= i < s.len() && *(#[trigger] s[i]).0 == k;
            assert(vs[i].index_spec() == k);
        }
    }

    /// the values of an exact enumeration of the edge map list exactly the stored edges
    pub proof fn lemma_lists_all_edges(&self, es: Seq<&E>, s: Seq<(&(usize, usize), &E)>)
        requires
            self.graph_wf(), seq_lists_map(s, self.edges@), es.len() <= s.len(),
            forall|i: int| 0 <= i < es.len() ==> *#[trigger] es[i] == *s[i].1,
        ensures es.len() == s.len() ==> es.len() == self.edges@.dom().len() && self.lists_edges(es, |k: (usize, usize)| true),
    {
        if es.len() != s.len() { return; }
        lemma_seq_lists_map(s, self.edges@);
        let sel = |k: (usize, usize)| true;
        assert forall|i: int| 0 <= i < es.len() implies ((#[trigger] es[i]).head_spec(), es[i].tail_spec()) == *s[i].0 && self.edges@.contains_key(*s[i].0)
            && *es[i] == self.edges@[*s[i].0] by {
            assert(self.edges@.contains_pair(*s[i].0, *s[i].1));
            let k = *s[i].0;
            assert(k == (k.0, k.1));
            assert(self.edges@.contains_key((k.0, k.1)));
            assert(self.edges@[(k.0, k.1)].head_spec() == k.0 && self.edges@[(k.0, k.1)].tail_spec() == k.1);
        }
        assert forall|i: int, j: int| 0 <= i < j < es.len() implies
            ((#[trigger] es[i]).head_spec(), es[i].tail_spec()) != ((#[trigger] es[j]).head_spec(), es[j].tail_spec()) by {
            assert(*s[i].0 != *s[j].0);
        }
        assert forall|k: (usize, usize)| #[trigger] sel(k) && self.edges@.contains_key(k) implies
            exists|i: int| 0 <= i < es.len() && ((#[trigger] es[i]).head_spec(), es[i].tail_spec()) == k by {
            let i = choose|i: int| 0 <= i < s.len() && *(#[trigger] s[i]).0 == k;
            assert((es[i].head_spec(), es[i].tail_spec()) == k);
        }
    }

    /// filtering an exact enumeration of the vertex map by a predicate on ids lists exactly the
    /// stored vertices whose id satisfies the predicate.  `src[j]` is the position in `s` of the
    /// entry pushed as `vs[j]`, `pos` is its inverse on the selected positions below `n`.
    pub proof fn lemma_lists_filtered_vertices(&self, vs: Seq<&V>, s: Seq<(&usize, &V)>, n: int, ids: spec_fn(usize) -> bool, src: Seq<int>, pos: Map<int, int>)
        requires
            self.graph_wf(), seq_lists_map(s, self.vertices@), 0 <= n <= s.len(),
            src.len() == vs.len(),
            forall|j: int| 0 <= j < src.len() ==> 0 <= #[trigger] src[j] < n && vs[j] == s[src[j]].1 && ids(*s[src[j]].0),
            forall|j: int, k: int| 0 <= j < k < src.len() ==> #[trigger] src[j] < #[trigger] src[k],
            forall|i: int| 0 <= i < n && ids(*(#[trigger] s[i]).0) ==> pos.contains_key(i) && 0 <= pos[i] < src.len() && src[pos[i]] == i,
        ensures n == s.len() ==> self.lists_vertices(vs, ids),
    {
        if n != s.len() { return; }
        lemma_seq_lists_map(s, self.vertices@);
        assert forall|j: int| 0 <= j < vs.len() implies (#[trigger] vs[j]).index_spec() == *s[src[j]].0 && ids(vs[j].index_spec())
            && self.vertices@.contains_key(vs[j].index_spec()) && *vs[j] == self.vertices@[vs[j].index_spec()] by {
            let i = src[j];
            assert(self.vertices@.contains_pair(*s[i].0, *s[i].1));
        }
        assert forall|j: int, k: int| 0 <= j < k < vs.len() implies (#[trigger] vs[j]).index_spec() != (#[trigger] vs[k]).index_spec() by {
            assert(src[j] < src[k]);
            assert(*s[src[j]].0 != *s[src[k]].0);
        }
        assert forall|k: usize| #[trigger] ids(k) && self.vertices@.contains_key(k) implies exists|j: int| 0 <= j < vs.len() && (#[trigger] vs[j]).index_spec() == k by {
            let i = choose|i: int| 0 <= i < s.len() && *(#[trigger] s[i]).0 == k;
            let j = pos[i];
            assert(src[j] == i);
            assert(vs[j].index_spec() == k);
        }
    }

    /// the vertices that are not reachable from root
    pub open spec fn unreachable_set(&self, root: usize) -> Set<usize> {
        self.vertices@.dom().filter(|v: usize| !self.reaches(root, v))
    }

    /// every vertex on a path that starts at a vertex is a vertex
    pub proof fn lemma_reach_is_vertex(&self, root: usize, v: usize)
        requires self.graph_wf(), self.vertices@.contains_key(root), self.reaches(root, v),
        ensures self.vertices@.contains_key(v),
    {
        let s = |k: usize| self.vertices@.contains_key(k);
        assert forall|a: usize, b: usize| #![trigger self.edges@.dom().contains((a, b))] s(a) && self.edges@.dom().contains((a, b)) implies s(b) by {
            assert(self.edges@.contains_key((a, b)));
        }
        lemma_path_closed(self.edges@.dom(), s, root, v);
    }

//@ fn impl<V, E> Graph<V, E> :: fn new
//@ spec
    ensures
        /*@wf*/ r.graph_wf(),
        /*@empty*/ r.vertices@ == Map::<usize, V>::empty() && r.edges@ == Map::<(usize, usize), E>::empty()
            && r.successors@ == Map::<usize, BTreeSet<usize>>::empty() && r.predecessors@ == Map::<usize, BTreeSet<usize>>::empty(),
//@ end

//@ fn impl<V, E> Graph<V, E> :: fn num_vertices
//@ spec
    ensures /*@count*/ r == self.vertices@.len(),
//@ end

//@ fn impl<V, E> Graph<V, E> :: fn has_vertex
//@ spec
    ensures /*@iff*/ r == self.vertices@.contains_key(index),
//@ end

//@ fn impl<V, E> Graph<V, E> :: fn has_edge
//@ spec
    ensures /*@iff*/ r == self.edges@.contains_key((head, tail)),
//@ end

//@ fn impl<V, E> Graph<V, E> :: fn remove_edge
//@ spec
    requires old(self).adj_wf(),
    ensures
        /*@wf*/ final(self).adj_wf() && (old(self).graph_wf() ==> final(self).graph_wf()),
        /*@missing*/ !old(self).edges@.contains_key((head, tail)) ==> r == Err::<(), Error>(Error::GraphEdgeNotFound(head, tail)) && *final(self) == *old(self),
        /*@ok*/ old(self).edges@.contains_key((head, tail)) ==> r is Ok,
        /*@vertices*/ final(self).vertices == old(self).vertices,
        /*@edges*/ old(self).edges@.contains_key((head, tail)) ==> final(self).edges@ == old(self).edges@.remove((head, tail)),
        /*@successors*/ old(self).edges@.contains_key((head, tail)) ==>
            final(self).successors@.dom() == old(self).successors@.dom()
            && final(self).successors@[head]@ == old(self).successors@[head]@.remove(tail)
            && (forall|k: usize| k != head && old(self).successors@.contains_key(k) ==> final(self).successors@[k] == old(self).successors@[k]),
        /*@predecessors*/ old(self).edges@.contains_key((head, tail)) ==>
            final(self).predecessors@.dom() == old(self).predecessors@.dom()
            && final(self).predecessors@[tail]@ == old(self).predecessors@[tail]@.remove(head)
            && (forall|k: usize| k != tail && old(self).predecessors@.contains_key(k) ==> final(self).predecessors@[k] == old(self).predecessors@[k]),
//@ end

//@ fn impl<V, E> Graph<V, E> :: fn insert_vertex
//@ spec
    requires old(self).graph_wf(),
    ensures
        /*@wf*/ final(self).graph_wf(),
        /*@duplicate*/ old(self).vertices@.contains_key(v.index_spec()) ==> (r matches Err(e) && e is Custom) && *final(self) == *old(self),
        /*@ok*/ !old(self).vertices@.contains_key(v.index_spec()) ==> r is Ok,
        /*@vertices*/ !old(self).vertices@.contains_key(v.index_spec()) ==>
            final(self).vertices@.dom() == old(self).vertices@.dom().insert(v.index_spec())
            && cloned(v, final(self).vertices@[v.index_spec()])
            && (forall|k: usize| k != v.index_spec() && old(self).vertices@.contains_key(k) ==> final(self).vertices@[k] == old(self).vertices@[k]),
        /*@edges*/ final(self).edges == old(self).edges,
        /*@successors*/ !old(self).vertices@.contains_key(v.index_spec()) ==>
            final(self).successors@.dom() == old(self).successors@.dom().insert(v.index_spec())
            && final(self).successors@[v.index_spec()]@ == Set::<usize>::empty()
            && (forall|k: usize| k != v.index_spec() && old(self).successors@.contains_key(k) ==> final(self).successors@[k] == old(self).successors@[k]),
        /*@predecessors*/ !old(self).vertices@.contains_key(v.index_spec()) ==>
            final(self).predecessors@.dom() == old(self).predecessors@.dom().insert(v.index_spec())
            && final(self).predecessors@[v.index_spec()]@ == Set::<usize>::empty()
            && (forall|k: usize| k != v.index_spec() && old(self).predecessors@.contains_key(k) ==> final(self).predecessors@[k] == old(self).predecessors@[k]),
//@ before 0 `self.successors.insert(v.index(), BTreeSet::new())`
    proof {
        V::lemma_clone_index(&v, &self.vertices@[v.index_spec()]);
    }
//@ end

//@ fn impl<V, E> Graph<V, E> :: fn insert_edge
//@ spec
    requires old(self).graph_wf(),
    ensures
        /*@wf*/ final(self).graph_wf(),
        /*@duplicate*/ old(self).edges@.contains_key((edge.head_spec(), edge.tail_spec())) ==> (r matches Err(e) && e is Custom) && *final(self) == *old(self),
        /*@nohead*/ !old(self).edges@.contains_key((edge.head_spec(), edge.tail_spec())) && !old(self).vertices@.contains_key(edge.head_spec())
            ==> r == Err::<(), Error>(Error::GraphVertexNotFound(edge.head_spec())) && *final(self) == *old(self),
        /*@notail*/ !old(self).edges@.contains_key((edge.head_spec(), edge.tail_spec())) && old(self).vertices@.contains_key(edge.head_spec())
            && !old(self).vertices@.contains_key(edge.tail_spec())
            ==> r == Err::<(), Error>(Error::GraphVertexNotFound(edge.tail_spec())) && *final(self) == *old(self),
        /*@ok*/ (r is Ok) == (!old(self).edges@.contains_key((edge.head_spec(), edge.tail_spec()))
            && old(self).vertices@.contains_key(edge.head_spec()) && old(self).vertices@.contains_key(edge.tail_spec())),
        /*@vertices*/ final(self).vertices == old(self).vertices,
        /*@edges*/ r is Ok ==>
            final(self).edges@.dom() == old(self).edges@.dom().insert((edge.head_spec(), edge.tail_spec()))
            && cloned(edge, final(self).edges@[(edge.head_spec(), edge.tail_spec())])
            && (forall|k: (usize, usize)| k != (edge.head_spec(), edge.tail_spec()) && old(self).edges@.contains_key(k) ==> final(self).edges@[k] == old(self).edges@[k]),
        /*@successors*/ r is Ok ==>
            final(self).successors@.dom() == old(self).successors@.dom()
            && final(self).successors@[edge.head_spec()]@ == old(self).successors@[edge.head_spec()]@.insert(edge.tail_spec())
            && (forall|k: usize| k != edge.head_spec() && old(self).successors@.contains_key(k) ==> final(self).successors@[k] == old(self).successors@[k]),
        /*@predecessors*/ r is Ok ==>
            final(self).predecessors@.dom() == old(self).predecessors@.dom()
            && final(self).predecessors@[edge.tail_spec()]@ == old(self).predecessors@[edge.tail_spec()]@.insert(edge.head_spec())
            && (forall|k: usize| k != edge.tail_spec() && old(self).predecessors@.contains_key(k) ==> final(self).predecessors@[k] == old(self).predecessors@[k]),
//@ before 0 `self.successors .get_mut(&edge.head())`
    proof {
        E::lemma_clone_ends(&edge, &self.edges@[(edge.head_spec(), edge.tail_spec())]);
    }
//@ end


//@ fn impl<V, E> Graph<V, E> :: fn remove_vertex loops=3
//@ rewrite 1 `for successor in successors {` => `for successor in it0: successors {` ## R-ghost-iter-name: names the ghost iterator of the for loop so that invariants can mention it; no executable change
//@ rewrite 1 `for predecessor in predecessors {` => `for predecessor in it1: predecessors {` ## R-ghost-iter-name: names the ghost iterator of the for loop; no executable change
//@ rewrite 1 `for edge in edges {` => `for edge__r in it2: edges.iter() { let edge = *edge__r;` ## R-iter-copy: by-value iteration over a HashSet of Copy pairs that is not used afterwards = by-reference iteration copying each item (Verus has no model of hash_set::IntoIter)
//@ spec
    requires old(self).graph_wf(),
    ensures
        /*@wf*/ final(self).graph_wf(),
        /*@missing*/ !old(self).vertices@.contains_key(index) ==> r == Err::<(), Error>(Error::GraphVertexNotFound(index)) && *final(self) == *old(self),
        /*@ok*/ old(self).vertices@.contains_key(index) ==> r is Ok,
        /*@vertices*/ old(self).vertices@.contains_key(index) ==> final(self).vertices@ == old(self).vertices@.remove(index),
        /*@edges*/ old(self).vertices@.contains_key(index) ==>
            (forall|e: (usize, usize)| #![trigger final(self).edges@.contains_key(e)] #![trigger old(self).edges@.contains_key(e)]
                final(self).edges@.contains_key(e) <==> (old(self).edges@.contains_key(e) && e.0 != index && e.1 != index))
            && (forall|e: (usize, usize)| #![trigger final(self).edges@[e]] final(self).edges@.contains_key(e) ==> final(self).edges@[e] == old(self).edges@[e]),
        /*@successors*/ old(self).vertices@.contains_key(index) ==>
            final(self).successors@.dom() == old(self).successors@.dom().remove(index)
            && (forall|k: usize| #![trigger final(self).successors@[k]] final(self).successors@.contains_key(k) ==> final(self).successors@[k]@ == old(self).successors@[k]@.remove(index)),
        /*@predecessors*/ old(self).vertices@.contains_key(index) ==>
            final(self).predecessors@.dom() == old(self).predecessors@.dom().remove(index)
            && (forall|k: usize| #![trigger final(self).predecessors@[k]] final(self).predecessors@.contains_key(k) ==> final(self).predecessors@[k]@ == old(self).predecessors@[k]@.remove(index)),
//@ loop 0
    invariant
        old(self).successors@.contains_key(index),
        seq_lists_set_ref(it0.seq(), old(self).successors@[index]@),
        forall|e: (usize, usize)| #![trigger edges@.contains(e)] edges@.contains(e) ==> e.0 == index && old(self).successors@[index]@.contains(e.1),
        forall|j: int| 0 <= j < it0.index@ ==> edges@.contains((index, *#[trigger] it0.seq()[j])),
//@ before 0 `edges.insert((index, *successor))`
    proof { lemma_seq_lists_set_ref(it0.seq(), old(self).successors@[index]@); }
//@ loop 1
    invariant
        old(self).successors@.contains_key(index), old(self).predecessors@.contains_key(index),
        seq_lists_set_ref(it1.seq(), old(self).predecessors@[index]@),
        forall|e: (usize, usize)| #![trigger edges@.contains(e)] edges@.contains(e) ==>
            (e.0 == index && old(self).successors@[index]@.contains(e.1)) || (e.1 == index && old(self).predecessors@[index]@.contains(e.0)),
        forall|t: usize| old(self).successors@[index]@.contains(t) ==> #[trigger] edges@.contains((index, t)),
        forall|j: int| 0 <= j < it1.index@ ==> edges@.contains((*#[trigger] it1.seq()[j], index)),
//@ before 0 `edges.insert((*predecessor, index))`
    proof { lemma_seq_lists_set_ref(it1.seq(), old(self).predecessors@[index]@); }
//@ before 0 `for edge__r in it2`
    proof {
        // `edges` is exactly the set of edges incident to `index`
        assert forall|e: (usize, usize)| old(self).edges@.contains_key(e) && (e.0 == index || e.1 == index) implies #[trigger] edges@.contains(e) by {
            if e.0 == index {
                assert(old(self).edges@.contains_key((index, e.1)));
                assert(e == (index, e.1));
            } else {
                assert(old(self).edges@.contains_key((e.0, index)));
                assert(e == (e.0, index));
            }
        }
        assert forall|e: (usize, usize)| #[trigger] edges@.contains(e) implies old(self).edges@.contains_key(e) by {
            if e.0 == index && old(self).successors@[index]@.contains(e.1) {
                assert(old(self).edges@.contains_key((index, e.1)));
                assert(e == (index, e.1));
            } else {
                assert(old(self).edges@.contains_key((e.0, index)));
                assert(e == (e.0, index));
            }
        }
    }
//@ loop 2
    invariant
        old(self).graph_wf(), old(self).vertices@.contains_key(index),
        seq_lists_set_ref(it2.seq(), edges@),
        forall|e: (usize, usize)| #![trigger edges@.contains(e)] edges@.contains(e) ==> old(self).edges@.contains_key(e) && (e.0 == index || e.1 == index),
        forall|e: (usize, usize)| #![trigger edges@.contains(e)] old(self).edges@.contains_key(e) && (e.0 == index || e.1 == index) ==> edges@.contains(e),
        self.adj_wf(),
        self.vertices@ == old(self).vertices@.remove(index),
        self.successors@.dom() == old(self).successors@.dom(),
        self.predecessors@.dom() == old(self).predecessors@.dom(),
        forall|e: (usize, usize)| #![trigger self.edges@.contains_key(e)] self.edges@.contains_key(e) ==> old(self).edges@.contains_key(e) && self.edges@[e] == old(self).edges@[e],
        forall|e: (usize, usize)| #![trigger self.edges@.contains_key(e)] old(self).edges@.contains_key(e) && !edges@.contains(e) ==> self.edges@.contains_key(e),
        forall|e: (usize, usize)| #![trigger edges@.contains(e)] edges@.contains(e) && !self.edges@.contains_key(e) ==> exists|j: int| 0 <= j < it2.index@ && *#[trigger] it2.seq()[j] == e,
        forall|j: int| 0 <= j < it2.index@ ==> !self.edges@.contains_key(*#[trigger] it2.seq()[j]),
//@ before 0 `self.remove_edge(edge.0, edge.1)?`
    proof {
        assert(edge == (edge.0, edge.1));
        lemma_seq_lists_set_ref(it2.seq(), edges@);
        assert(edges@.contains(*it2.seq()[it2.index@]));
        assert(self.edges@.contains_key(edge));
    }
//@ before 0 `self.predecessors.remove(&index)`
    proof {
        assert forall|e: (usize, usize)| #[trigger] self.edges@.contains_key(e) implies e.0 != index && e.1 != index by {
            if e.0 == index || e.1 == index {
                assert(old(self).edges@.contains_key(e));
                assert(edges@.contains(e));
            }
        }
    }
//@ end


//@ fn impl<V, E> Graph<V, E> :: fn reachable_vertices loops=2
//@ rewrite 1 `while let Some(vertex) = queue.pop() {` => `while let Some(vertex) = queue.pop() { for succ__r in it:` ## R-for-each: `ITER.for_each(|&succ| BODY)` is by definition `for succ__r in ITER { let succ = *succ__r; BODY }` (part 1 of 3: loop header placed in front of the unchanged iterator expression)
//@ rewrite 1 `.for_each(|&succ| {` => `{ let succ = *succ__r;` ## R-for-each: part 2 of 3, closure header becomes the loop body opening; the `&succ` pattern becomes an explicit copy
//@ rewrite 1 `} });` => `} }` ## R-for-each: part 3 of 3, closes the loop body instead of the closure and the call
//@ spec
    requires self.graph_wf(),
    ensures
        /*@missing*/ !self.vertices@.contains_key(index) ==> r == Err::<FxHashSet<usize>, Error>(Error::GraphVertexNotFound(index)),
        /*@ok*/ self.vertices@.contains_key(index) ==> r is Ok,
        /*@sound*/ r matches Ok(s) ==> forall|v: usize| #![trigger s@.contains(v)] s@.contains(v) ==> self.reaches(index, v),
        /*@complete*/ r matches Ok(s) ==> forall|v: usize| #![trigger s@.contains(v)] self.reaches(index, v) ==> s@.contains(v),
        /*@vertices*/ r matches Ok(s) ==> s@.subset_of(self.vertices@.dom()),
//@ before 0 `while let Some(vertex)`
    proof {
        lemma_path_refl(self.edges@.dom(), index);
        assert(reachable_vertices@ =~= set![index]);
        assert(queue@ =~= seq![index]);
        vstd::set_lib::lemma_len_subset(reachable_vertices@, self.vertices@.dom());
    }
    let ghost mut gq: Seq<usize> = queue@;
//@ loop 0
    invariant
        gq == queue@,
        self.graph_wf(), self.vertices@.contains_key(index),
        reachable_vertices@.contains(index),
        reachable_vertices@.subset_of(self.vertices@.dom()),
        forall|v: usize| #![trigger reachable_vertices@.contains(v)] reachable_vertices@.contains(v) ==> self.reaches(index, v),
        forall|i: int| 0 <= i < queue@.len() ==> reachable_vertices@.contains(#[trigger] queue@[i]),
        forall|a: usize, b: usize| #![trigger self.edges@.contains_key((a, b))]
            reachable_vertices@.contains(a) && self.edges@.contains_key((a, b)) ==> reachable_vertices@.contains(b) || queue@.contains(a),
    ensures queue@.len() == 0,
    decreases self.vertices@.dom().len() - reachable_vertices@.len() + queue@.len(),
//@ before 0 `for succ__r in it`
    let ghost queue0 = queue@;
    let ghost reach0 = reachable_vertices@;
    proof {
        assert(reachable_vertices@.contains(vertex));
        vstd::set_lib::lemma_len_subset(reachable_vertices@, self.vertices@.dom());
        assert(gq =~= queue0.push(vertex));
        assert forall|a: usize| #[trigger] gq.contains(a) implies a == vertex || queue0.contains(a) by {
            let i = choose|i: int| 0 <= i < gq.len() && gq[i] == a;
            if i < queue0.len() { assert(queue0[i] == a); }
        }
    }
//@ loop 1
    invariant
        self.graph_wf(), self.vertices@.contains_key(index), self.vertices@.contains_key(vertex),
        reachable_vertices@.contains(index), reachable_vertices@.contains(vertex),
        reachable_vertices@.subset_of(self.vertices@.dom()),
        /*@iterates_successors*/ seq_lists_set_ref(it.seq(), self.successors@[vertex]@),
        forall|v: usize| #![trigger reachable_vertices@.contains(v)] reachable_vertices@.contains(v) ==> self.reaches(index, v),
        forall|i: int| 0 <= i < queue@.len() ==> reachable_vertices@.contains(#[trigger] queue@[i]),
        forall|a: usize, b: usize| #![trigger self.edges@.contains_key((a, b))]
            reachable_vertices@.contains(a) && self.edges@.contains_key((a, b)) && a != vertex ==> reachable_vertices@.contains(b) || queue@.contains(a),
        forall|j: int| 0 <= j < it.index@ ==> reachable_vertices@.contains(*#[trigger] it.seq()[j]),
        self.vertices@.dom().len() - reachable_vertices@.len() + queue@.len() == self.vertices@.dom().len() - reach0.len() + queue0.len(),
        reachable_vertices@.len() <= self.vertices@.dom().len(),
//@ before 0 `if reachable_vertices.insert(succ)`
    let ghost qb = queue@;
    proof {
        lemma_seq_lists_set_ref(it.seq(), self.successors@[vertex]@);
        assert(self.successors@[vertex]@.contains(succ));
        assert(self.edges@.contains_key((vertex, succ)));
        lemma_path_step(self.edges@.dom(), index, vertex, succ);
        assert(self.vertices@.contains_key(succ));
        vstd::set_lib::lemma_len_subset(reachable_vertices@.insert(succ), self.vertices@.dom());
    }
//@ after 0 `queue.push(succ) }`
    proof {
        assert forall|a: usize| qb.contains(a) implies #[trigger] queue@.contains(a) by {
            let i = choose|i: int| 0 <= i < qb.len() && qb[i] == a;
            if queue@.len() > qb.len() { assert(queue@[i] == a); }
        }
        if queue@.len() > qb.len() { assert(queue@[queue@.len() - 1] == succ); }
    }
//@ after 0 `queue.push(succ) } }`
    proof {
        // every successor of `vertex` is now marked
        assert forall|b: usize| #[trigger] self.edges@.contains_key((vertex, b)) implies reachable_vertices@.contains(b) by {
            assert(self.successors@[vertex]@.contains(b));
        }
        gq = queue@;
    }
//@ before 0 `Ok(reachable_vertices)`
    proof {
        let s = |v: usize| reachable_vertices@.contains(v);
        assert forall|a: usize, b: usize| #![trigger self.edges@.dom().contains((a, b))] s(a) && self.edges@.dom().contains((a, b)) implies s(b) by {
            assert(self.edges@.contains_key((a, b)));
            assert(queue@.len() == 0);
            assert(!queue@.contains(a));
        }
        assert forall|v: usize| self.reaches(index, v) implies #[trigger] reachable_vertices@.contains(v) by {
            lemma_path_closed(self.edges@.dom(), s, index, v);
        }
    }
//@ end


//@ fn impl<V, E> Graph<V, E> :: fn unreachable_vertices loops=1
//@ rewrite 1 `Ok(self` => `Ok({ let mut out__ = FxHashSet::default(); for index in it: self` ## R-filter-collect: `ITER.filter(|x| P).cloned().collect::<HashSet>()` is by definition the loop that inserts a copy of every item satisfying P into an initially empty set (part 1 of 3; the iterator expression and the predicate stay the original tokens)
//@ rewrite 1 `.filter(|index|` => `{ if` ## R-filter-collect: part 2 of 3, the closure header becomes `if`
//@ rewrite 1 `) .cloned() .collect())` => `{ out__.insert(*index); } } out__ })` ## R-filter-collect: part 3 of 3
//@ spec
    requires self.graph_wf(),
    ensures
        /*@missing*/ !self.vertices@.contains_key(index) ==> r == Err::<FxHashSet<usize>, Error>(Error::GraphVertexNotFound(index)),
        /*@ok*/ self.vertices@.contains_key(index) ==> r is Ok,
        /*@exact*/ r matches Ok(s) ==> forall|v: usize| #![trigger s@.contains(v)] s@.contains(v) <==> (self.vertices@.contains_key(v) && !self.reaches(index, v)),
        /*@set*/ r matches Ok(s) ==> s@ == self.unreachable_set(index),
//@ before 0 `Ok({`
    let ghost root = index;
//@ loop 0
    invariant
        seq_lists_set_ref(it.seq(), self.vertices@.dom()),
        forall|v: usize| #![trigger reachable_vertices@.contains(v)] reachable_vertices@.contains(v) <==> self.reaches(root, v),
        forall|v: usize| #![trigger out__@.contains(v)] out__@.contains(v) ==> self.vertices@.contains_key(v) && !reachable_vertices@.contains(v),
        forall|j: int| 0 <= j < it.index@ && !reachable_vertices@.contains(*#[trigger] it.seq()[j]) ==> out__@.contains(*it.seq()[j]),
//@ before 0 `if !reachable_vertices.contains(index)`
    proof { lemma_seq_lists_set_ref(it.seq(), self.vertices@.dom()); }
//@ before 0 `out__ })`
    proof {
        assert forall|v: usize| self.vertices@.contains_key(v) && !self.reaches(root, v) implies #[trigger] out__@.contains(v) by {
            assert(self.vertices@.dom().contains(v));
        }
        assert(out__@ =~= self.unreachable_set(root));
    }
//@ end

//@ fn impl<V, E> Graph<V, E> :: fn remove_unreachable_vertices loops=1
//@ rewrite 1 `Result<(), Error> {` => `Result<(), Error> { let unreachable__ =` ## R-for-each: `TEMP.iter().for_each(|vertex| BODY)` is by definition `let t = TEMP; for vertex in t.iter() { BODY; }` (part 1 of 3: the temporary set gets a name; only the drop point of an owned set moves, which is unobservable)
//@ rewrite 1 `.iter() .for_each(|vertex|` => `; for vertex in it: unreachable__.iter() {` ## R-for-each: part 2 of 3
//@ rewrite 1 `.unwrap());` => `.unwrap(); }` ## R-for-each: part 3 of 3
//@ spec
    requires old(self).graph_wf(),
    ensures
        /*@wf*/ final(self).graph_wf(),
        /*@missing*/ !old(self).vertices@.contains_key(head) ==> r == Err::<(), Error>(Error::GraphVertexNotFound(head)) && *final(self) == *old(self),
        /*@ok*/ old(self).vertices@.contains_key(head) ==> r is Ok,
        /*@vertices*/ r is Ok ==>
            (forall|k: usize| #![trigger final(self).vertices@.contains_key(k)] final(self).vertices@.contains_key(k) <==> (old(self).vertices@.contains_key(k) && old(self).reaches(head, k)))
            && (forall|k: usize| #![trigger final(self).vertices@[k]] final(self).vertices@.contains_key(k) ==> final(self).vertices@[k] == old(self).vertices@[k]),
        /*@edges*/ r is Ok ==>
            (forall|e: (usize, usize)| #![trigger final(self).edges@.contains_key(e)] final(self).edges@.contains_key(e) <==> (old(self).edges@.contains_key(e) && old(self).reaches(head, e.0)))
            && (forall|e: (usize, usize)| #![trigger final(self).edges@[e]] final(self).edges@.contains_key(e) ==> final(self).edges@[e] == old(self).edges@[e]),
        /*@successors*/ r is Ok ==>
            (forall|k: usize| #![trigger final(self).successors@[k]] final(self).successors@.contains_key(k) ==> final(self).successors@[k]@ == old(self).successors@[k]@),
        /*@predecessors*/ r is Ok ==>
            (forall|k: usize, p: usize| #![trigger final(self).predecessors@[k]@.contains(p)] final(self).predecessors@.contains_key(k) ==>
                (final(self).predecessors@[k]@.contains(p) <==> (old(self).predecessors@[k]@.contains(p) && old(self).reaches(head, p)))),
//@ loop 0
    invariant
        old(self).graph_wf(), old(self).vertices@.contains_key(head),
        seq_lists_set_ref(it.seq(), old(self).unreachable_set(head)),
        self.graph_wf(),
        forall|k: usize| #![trigger self.vertices@.contains_key(k)] self.vertices@.contains_key(k) ==> old(self).vertices@.contains_key(k) && self.vertices@[k] == old(self).vertices@[k],
        forall|k: usize| #![trigger self.vertices@.contains_key(k)] old(self).vertices@.contains_key(k) && !old(self).unreachable_set(head).contains(k) ==> self.vertices@.contains_key(k),
        forall|j: int| 0 <= j < it.index@ ==> !self.vertices@.contains_key(*#[trigger] it.seq()[j]),
        forall|k: usize| #![trigger old(self).unreachable_set(head).contains(k)] old(self).unreachable_set(head).contains(k) && !self.vertices@.contains_key(k) ==> exists|j: int| 0 <= j < it.index@ && *#[trigger] it.seq()[j] == k,
        forall|e: (usize, usize)| #![trigger self.edges@.contains_key(e)] self.edges@.contains_key(e) <==> (old(self).edges@.contains_key(e) && self.vertices@.contains_key(e.0) && self.vertices@.contains_key(e.1)),
        forall|e: (usize, usize)| #![trigger self.edges@[e]] self.edges@.contains_key(e) ==> self.edges@[e] == old(self).edges@[e],
//@ before 0 `for vertex in it`
    proof {
        assert forall|e: (usize, usize)| #[trigger] self.edges@.contains_key(e) implies self.vertices@.contains_key(e.0) && self.vertices@.contains_key(e.1) by {
            assert(e == (e.0, e.1));
            assert(self.edges@.contains_key((e.0, e.1)));
        }
    }
//@ before 0 `self.remove_vertex(*vertex)`
    proof {
        lemma_seq_lists_set_ref(it.seq(), old(self).unreachable_set(head));
        assert(old(self).unreachable_set(head).contains(*vertex));
        assert(self.vertices@.contains_key(*vertex));
    }
//@ before 0 `Ok(())`
    proof {
        assert forall|k: usize| #[trigger] self.vertices@.contains_key(k) implies old(self).reaches(head, k) by {
            if !old(self).reaches(head, k) {
                assert(old(self).unreachable_set(head).contains(k));
            }
        }
        assert forall|e: (usize, usize)| old(self).edges@.contains_key(e) && old(self).reaches(head, e.0) implies #[trigger] self.edges@.contains_key(e) by {
            assert(old(self).edges@.contains_key((e.0, e.1)));
            lemma_path_step(old(self).edges@.dom(), head, e.0, e.1);
        }
        assert forall|k: usize| #![trigger self.successors@[k]] self.successors@.contains_key(k) implies self.successors@[k]@ =~= old(self).successors@[k]@ by {
            assert forall|t: usize| self.successors@[k]@.contains(t) <==> old(self).successors@[k]@.contains(t) by {
                assert(self.edges@.contains_key((k, t)) <==> old(self).edges@.contains_key((k, t)));
            }
        }
        assert forall|k: usize, p: usize| #![trigger self.predecessors@[k]@.contains(p)] self.predecessors@.contains_key(k) implies
            (self.predecessors@[k]@.contains(p) <==> (old(self).predecessors@[k]@.contains(p) && old(self).reaches(head, p))) by {
            assert(self.edges@.contains_key((p, k)) <==> (old(self).edges@.contains_key((p, k)) && old(self).reaches(head, p)));
        }
    }
//@ end


//@ fn impl<V, E> Graph<V, E> :: fn successors loops=1
//@ rewrite 1 `vertices.iter().fold(Vec::new(), |mut v, index| {` => `{ let mut v: Vec<&V> = Vec::new(); for index in it: vertices.iter() {` ## R-fold: `ITER.fold(INIT, |mut v, x| { BODY; v })` is by definition `{ let mut v = INIT; for x in ITER { BODY; } v }` (part 1 of 2)
//@ rewrite 1 `; v }))` => `; } v })` ## R-fold: part 2 of 2, the accumulator is returned after the loop instead of after every step
//@ spec
    requires self.graph_wf(),
    ensures
        /*@missing*/ !self.vertices@.contains_key(index) ==> r == Err::<Vec<&V>, Error>(Error::GraphVertexNotFound(index)),
        /*@ok*/ self.vertices@.contains_key(index) ==> r is Ok,
        /*@list*/ r matches Ok(vs) ==> vs@.len() == self.successors@[index]@.len()
            && self.lists_vertices(vs@, |k: usize| self.successors@[index]@.contains(k)),
//@ before 0 `Ok({`
    let ghost root = index;
//@ loop 0
    invariant
        self.graph_wf(), self.successors@.contains_key(root),
        seq_lists_set_ref(it.seq(), self.successors@[root]@),
        v@.len() == it.index@,
        forall|i: int| 0 <= i < it.index@ ==> self.vertices@.contains_key(*#[trigger] it.seq()[i]) && *v@[i] == self.vertices@[*it.seq()[i]],
        it.index@ == it.seq().len() ==> v@.len() == self.successors@[root]@.len() && self.lists_vertices(v@, |k: usize| self.successors@[root]@.contains(k)),
//@ before 0 `v.push(self.vertices.get(index).unwrap())`
    proof {
        lemma_seq_lists_set_ref(it.seq(), self.successors@[root]@);
        assert(self.edges@.contains_key((root, *index)));
    }
//@ after 0 `v.push(self.vertices.get(index).unwrap());`
    proof {
        self.lemma_lists_vertices_of_ids(v@, it.seq(), self.successors@[root]@);
    }
//@ end

//@ fn impl<V, E> Graph<V, E> :: fn predecessors loops=1
//@ rewrite 1 `vertices.iter().fold(Vec::new(), |mut v, index| {` => `{ let mut v: Vec<&V> = Vec::new(); for index in it: vertices.iter() {` ## R-fold: `ITER.fold(INIT, |mut v, x| { BODY; v })` is by definition `{ let mut v = INIT; for x in ITER { BODY; } v }` (part 1 of 2)
//@ rewrite 1 `; v }))` => `; } v })` ## R-fold: part 2 of 2
//@ spec
    requires self.graph_wf(),
    ensures
        /*@missing*/ !self.vertices@.contains_key(index) ==> r == Err::<Vec<&V>, Error>(Error::GraphVertexNotFound(index)),
        /*@ok*/ self.vertices@.contains_key(index) ==> r is Ok,
        /*@list*/ r matches Ok(vs) ==> vs@.len() == self.predecessors@[index]@.len()
            && self.lists_vertices(vs@, |k: usize| self.predecessors@[index]@.contains(k)),
//@ before 0 `Ok({`
    let ghost root = index;
//@ loop 0
    invariant
        self.graph_wf(), self.predecessors@.contains_key(root),
        seq_lists_set_ref(it.seq(), self.predecessors@[root]@),
        v@.len() == it.index@,
        forall|i: int| 0 <= i < it.index@ ==> self.vertices@.contains_key(*#[trigger] it.seq()[i]) && *v@[i] == self.vertices@[*it.seq()[i]],
        it.index@ == it.seq().len() ==> v@.len() == self.predecessors@[root]@.len() && self.lists_vertices(v@, |k: usize| self.predecessors@[root]@.contains(k)),
//@ before 0 `v.push(self.vertices.get(index).unwrap())`
    proof {
        lemma_seq_lists_set_ref(it.seq(), self.predecessors@[root]@);
        assert(self.edges@.contains_key((*index, root)));
    }
//@ after 0 `v.push(self.vertices.get(index).unwrap());`
    proof {
        self.lemma_lists_vertices_of_ids(v@, it.seq(), self.predecessors@[root]@);
    }
//@ end

//@ fn impl<V, E> Graph<V, E> :: fn successor_indices loops=1
//@ rewrite 1 `Ok(self` => `Ok({ let mut out__ = Vec::new(); for x__ in it: self` ## R-cloned-collect: `ITER.cloned().collect::<Vec<_>>()` is by definition the loop pushing a copy of every item (part 1 of 2; the iterator expression stays the original tokens)
//@ rewrite 1 `.cloned() .collect())` => `{ out__.push(*x__); } out__ })` ## R-cloned-collect: part 2 of 2
//@ spec
    requires self.graph_wf(),
    ensures
        /*@missing*/ !self.vertices@.contains_key(index) ==> r == Err::<Vec<usize>, Error>(Error::GraphVertexNotFound(index)),
        /*@ok*/ self.vertices@.contains_key(index) ==> r is Ok,
        /*@list*/ r matches Ok(v) ==> seq_lists_set(v@, self.successors@[index]@) && v@.to_set() == self.successors@[index]@,
//@ loop 0
    invariant
        self.successors@.contains_key(index),
        seq_lists_set_ref(it.seq(), self.successors@[index]@),
        out__@.len() == it.index@,
        forall|i: int| 0 <= i < it.index@ ==> out__@[i] == *#[trigger] it.seq()[i],
        it.index@ == it.seq().len() ==> seq_lists_set(out__@, self.successors@[index]@) && out__@.to_set() == self.successors@[index]@,
//@ after 0 `out__.push(*x__);`
    proof {
        lemma_copy_lists_set(out__@, it.seq(), self.successors@[index]@);
    }
//@ end

//@ fn impl<V, E> Graph<V, E> :: fn predecessor_indices loops=1
//@ rewrite 1 `Ok(self` => `Ok({ let mut out__ = Vec::new(); for x__ in it: self` ## R-cloned-collect: `ITER.cloned().collect::<Vec<_>>()` is by definition the loop pushing a copy of every item (part 1 of 2)
//@ rewrite 1 `.cloned() .collect())` => `{ out__.push(*x__); } out__ })` ## R-cloned-collect: part 2 of 2
//@ spec
    requires self.graph_wf(),
    ensures
        /*@missing*/ !self.vertices@.contains_key(index) ==> r == Err::<Vec<usize>, Error>(Error::GraphVertexNotFound(index)),
        /*@ok*/ self.vertices@.contains_key(index) ==> r is Ok,
        /*@list*/ r matches Ok(v) ==> seq_lists_set(v@, self.predecessors@[index]@) && v@.to_set() == self.predecessors@[index]@,
//@ loop 0
    invariant
        self.predecessors@.contains_key(index),
        seq_lists_set_ref(it.seq(), self.predecessors@[index]@),
        out__@.len() == it.index@,
        forall|i: int| 0 <= i < it.index@ ==> out__@[i] == *#[trigger] it.seq()[i],
        it.index@ == it.seq().len() ==> seq_lists_set(out__@, self.predecessors@[index]@) && out__@.to_set() == self.predecessors@[index]@,
//@ after 0 `out__.push(*x__);`
    proof {
        lemma_copy_lists_set(out__@, it.seq(), self.predecessors@[index]@);
    }
//@ end

//@ fn impl<V, E> Graph<V, E> :: fn vertex
//@ spec
    ensures
        /*@found*/ self.vertices@.contains_key(index) ==> r == Ok::<&V, Error>(&self.vertices@[index]),
        /*@missing*/ !self.vertices@.contains_key(index) ==> r == Err::<&V, Error>(Error::GraphVertexNotFound(index)),
//@ end

//@ fn impl<V, E> Graph<V, E> :: fn edge
//@ spec
    ensures
        /*@found*/ self.edges@.contains_key((head, tail)) ==> r == Ok::<&E, Error>(&self.edges@[(head, tail)]),
        /*@missing*/ !self.edges@.contains_key((head, tail)) ==> r == Err::<&E, Error>(Error::GraphEdgeNotFound(head, tail)),
//@ end


//@ fn impl<V, E> Graph<V, E> :: fn edges_out loops=1
//@ rewrite 1 `succs .iter() .map(|succ|` => `let mut out__: Vec<&E> = Vec::new(); for succ in it: succs.iter() { out__.push(` ## R-map-collect: `ITER.map(|x| F).collect::<Vec<_>>()` is by definition the loop pushing F for every item (part 1 of 2; F stays the original tokens)
//@ rewrite 1 `) .collect()` => `); } out__` ## R-map-collect: part 2 of 2
//@ spec
    requires self.graph_wf(),
    ensures
        /*@missing*/ !self.vertices@.contains_key(index) ==> r == Err::<Vec<&E>, Error>(Error::GraphVertexNotFound(index)),
        /*@ok*/ self.vertices@.contains_key(index) ==> r is Ok,
        /*@list*/ r matches Ok(es) ==> es@.len() == self.successors@[index]@.len()
            && self.lists_edges(es@, |k: (usize, usize)| k.0 == index),
//@ closure 0 |succs: &BTreeSet<usize>| -> (res: Vec<&E>)
    requires self.graph_wf(), self.successors@.contains_key(index), *succs == self.successors@[index],
    ensures res@.len() == self.successors@[index]@.len() && self.lists_edges(res@, |k: (usize, usize)| k.0 == index),
//@ loop 0
    invariant
        self.graph_wf(), self.successors@.contains_key(index),
        seq_lists_set_ref(it.seq(), self.successors@[index]@),
        out__@.len() == it.index@,
        forall|i: int| 0 <= i < it.index@ ==> self.edges@.contains_key((index, *#[trigger] it.seq()[i])) && *out__@[i] == self.edges@[(index, *it.seq()[i])],
        it.index@ == it.seq().len() ==> out__@.len() == self.successors@[index]@.len() && self.lists_edges(out__@, |k: (usize, usize)| k.0 == index),
//@ before 0 `let mut out__`
    proof {
        assert forall|k: (usize, usize)| k.0 == index && #[trigger] self.edges@.contains_key(k) implies self.successors@[index]@.len() != 0 by {
            assert(k == (index, k.1));
            assert(self.successors@[index]@.contains(k.1));
        }
    }
//@ before 0 `out__.push(&self.edges[&(index, *succ)]);`
    proof {
        lemma_seq_lists_set_ref(it.seq(), self.successors@[index]@);
        assert(self.edges@.contains_key((index, *succ)));
    }
//@ after 0 `out__.push(&self.edges[&(index, *succ)]);`
    proof {
        self.lemma_lists_edges_out(out__@, it.seq(), index);
    }
//@ end

//@ fn impl<V, E> Graph<V, E> :: fn edges_in loops=1
//@ rewrite 1 `preds .iter() .map(|pred|` => `let mut out__: Vec<&E> = Vec::new(); for pred in it: preds.iter() { out__.push(` ## R-map-collect: `ITER.map(|x| F).collect::<Vec<_>>()` is by definition the loop pushing F for every item (part 1 of 2; F stays the original tokens)
//@ rewrite 1 `) .collect()` => `); } out__` ## R-map-collect: part 2 of 2
//@ spec
    requires self.graph_wf(),
    ensures
        /*@missing*/ !self.vertices@.contains_key(index) ==> r == Err::<Vec<&E>, Error>(Error::GraphVertexNotFound(index)),
        /*@ok*/ self.vertices@.contains_key(index) ==> r is Ok,
        /*@list*/ r matches Ok(es) ==> es@.len() == self.predecessors@[index]@.len()
            && self.lists_edges(es@, |k: (usize, usize)| k.1 == index),
//@ closure 0 |preds: &BTreeSet<usize>| -> (res: Vec<&E>)
    requires self.graph_wf(), self.predecessors@.contains_key(index), *preds == self.predecessors@[index],
    ensures res@.len() == self.predecessors@[index]@.len() && self.lists_edges(res@, |k: (usize, usize)| k.1 == index),
//@ loop 0
    invariant
        self.graph_wf(), self.predecessors@.contains_key(index),
        seq_lists_set_ref(it.seq(), self.predecessors@[index]@),
        out__@.len() == it.index@,
        forall|i: int| 0 <= i < it.index@ ==> self.edges@.contains_key((*#[trigger] it.seq()[i], index)) && *out__@[i] == self.edges@[(*it.seq()[i], index)],
        it.index@ == it.seq().len() ==> out__@.len() == self.predecessors@[index]@.len() && self.lists_edges(out__@, |k: (usize, usize)| k.1 == index),
//@ before 0 `let mut out__`
    proof {
        assert forall|k: (usize, usize)| k.1 == index && #[trigger] self.edges@.contains_key(k) implies self.predecessors@[index]@.len() != 0 by {
            assert(k == (k.0, index));
            assert(self.predecessors@[index]@.contains(k.0));
        }
    }
//@ before 0 `out__.push(&self.edges[&(*pred, index)]);`
    proof {
        lemma_seq_lists_set_ref(it.seq(), self.predecessors@[index]@);
        assert(self.edges@.contains_key((*pred, index)));
    }
//@ after 0 `out__.push(&self.edges[&(*pred, index)]);`
    proof {
        self.lemma_lists_edges_in(out__@, it.seq(), index);
    }
//@ end


//@ fn impl<V, E> Graph<V, E> :: fn vertices loops=1
//@ rewrite 1 `Vec<&V> {` => `Vec<&V> { let mut out__: Vec<&V> = Vec::new(); for kv__ in it:` ## R-values-collect: `MAP.values().collect::<Vec<_>>()` is by definition the loop over `MAP.iter()` pushing the value of every entry (`Values::next` is `inner.next().map(|(_, v)| v)`) (part 1 of 2)
//@ rewrite 1 `.values() .collect()` => `.iter() { out__.push(kv__.1); } out__` ## R-values-collect: part 2 of 2
//@ spec
    requires self.graph_wf(),
    ensures /*@list*/ r@.len() == self.vertices@.dom().len() && self.lists_vertices(r@, |k: usize| true),
//@ loop 0
    invariant
        self.graph_wf(),
        seq_lists_map(it.seq(), self.vertices@),
        out__@.len() == it.index@,
        forall|i: int| 0 <= i < it.index@ ==> *#[trigger] out__@[i] == *it.seq()[i].1,
        it.index@ == it.seq().len() ==> out__@.len() == self.vertices@.dom().len() && self.lists_vertices(out__@, |k: usize| true),
//@ after 0 `out__.push(kv__.1);`
    proof { self.lemma_lists_all_vertices(out__@, it.seq()); }
//@ end

//@ fn impl<V, E> Graph<V, E> :: fn edges loops=1
//@ rewrite 1 `Vec<&E> {` => `Vec<&E> { let mut out__: Vec<&E> = Vec::new(); for kv__ in it:` ## R-values-collect: `MAP.values().collect::<Vec<_>>()` is by definition the loop over `MAP.iter()` pushing the value of every entry (part 1 of 2)
//@ rewrite 1 `.values() .collect()` => `.iter() { out__.push(kv__.1); } out__` ## R-values-collect: part 2 of 2
//@ spec
    requires self.graph_wf(),
    ensures /*@list*/ r@.len() == self.edges@.dom().len() && self.lists_edges(r@, |k: (usize, usize)| true),
//@ loop 0
    invariant
        self.graph_wf(),
        seq_lists_map(it.seq(), self.edges@),
        out__@.len() == it.index@,
        forall|i: int| 0 <= i < it.index@ ==> *#[trigger] out__@[i] == *it.seq()[i].1,
        it.index@ == it.seq().len() ==> out__@.len() == self.edges@.dom().len() && self.lists_edges(out__@, |k: (usize, usize)| true),
//@ after 0 `out__.push(kv__.1);`
    proof { self.lemma_lists_all_edges(out__@, it.seq()); }
//@ end

//@ fn impl<V, E> Graph<V, E> :: fn vertex_mut
//@ spec
    ensures
        /*@found*/ old(self).vertices@.contains_key(index) ==> (r matches Ok(v) && *v == old(self).vertices@[index]
            && final(self).vertices@ == old(self).vertices@.insert(index, *final(v))),
        /*@missing*/ !old(self).vertices@.contains_key(index) ==> (r matches Err(e) && e == Error::GraphVertexNotFound(index)) && final(self).vertices@ == old(self).vertices@,
        /*@frame*/ final(self).edges == old(self).edges && final(self).successors == old(self).successors && final(self).predecessors == old(self).predecessors,
//@ end

//@ fn impl<V, E> Graph<V, E> :: fn edge_mut
//@ spec
    ensures
        /*@found*/ old(self).edges@.contains_key((head, tail)) ==> (r matches Ok(e) && *e == old(self).edges@[(head, tail)]
            && final(self).edges@ == old(self).edges@.insert((head, tail), *final(e))),
        /*@missing*/ !old(self).edges@.contains_key((head, tail)) ==> (r matches Err(e) && e == Error::GraphEdgeNotFound(head, tail)) && final(self).edges@ == old(self).edges@,
        /*@frame*/ final(self).vertices == old(self).vertices && final(self).successors == old(self).successors && final(self).predecessors == old(self).predecessors,
//@ end


//@ fn impl<V, E> Graph<V, E> :: fn vertices_without_predecessors loops=1
//@ rewrite 1 `Vec<&V> {` => `Vec<&V> { let mut out__: Vec<&V> = Vec::new(); for kv__ in it:` ## R-filter-collect: `predecessors.values().filter(|v| P).collect::<Vec<_>>()` is by definition the loop over `predecessors.iter()` that pushes the value of every entry satisfying P (part 1 of 3; P stays the original tokens, `v` keeps its type `&&V`)
//@ rewrite 1 `.values() .filter(|v|` => `.iter() { let v = &kv__.1; if` ## R-filter-collect: part 2 of 3
//@ rewrite 1 `) .collect()` => `{ out__.push(*v); } } out__` ## R-filter-collect: part 3 of 3
//@ spec
    requires self.graph_wf(),
    ensures /*@list*/ self.lists_vertices(r@, |k: usize| self.predecessors@[k]@.len() == 0),
//@ before 0 `let mut out__`
    let ghost mut src: Seq<int> = Seq::empty();
    let ghost mut pos: Map<int, int> = Map::empty();
//@ loop 0
    invariant
        self.graph_wf(),
        seq_lists_map(it.seq(), self.vertices@),
        src.len() == out__@.len(),
        forall|j: int| 0 <= j < src.len() ==> 0 <= #[trigger] src[j] < it.index@ && out__@[j] == it.seq()[src[j]].1 && self.predecessors@[*it.seq()[src[j]].0]@.len() == 0,
        forall|j: int, k: int| 0 <= j < k < src.len() ==> #[trigger] src[j] < #[trigger] src[k],
        forall|i: int| 0 <= i < it.index@ && self.predecessors@[*(#[trigger] it.seq()[i]).0]@.len() == 0 ==> pos.contains_key(i) && 0 <= pos[i] < src.len() && src[pos[i]] == i,
        it.index@ == it.seq().len() ==> self.lists_vertices(out__@, |k: usize| self.predecessors@[k]@.len() == 0),
//@ before 0 `if self.predecessors.get(&v.index()).unwrap().is_empty()`
    proof {
        assert(self.vertices@.contains_pair(*kv__.0, *kv__.1));
        assert(v.index_spec() == *kv__.0);
    }
//@ after 0 `out__.push(*v);`
    proof {
        pos = pos.insert(it.index@, src.len() as int);
        src = src.push(it.index@);
    }
//@ after 0 `{ out__.push(*v); }`
    proof {
        self.lemma_lists_filtered_vertices(out__@, it.seq(), it.index@ + 1, |k: usize| self.predecessors@[k]@.len() == 0, src, pos);
    }
//@ end

//@ fn impl<V, E> Graph<V, E> :: fn vertices_without_successors loops=1
//@ rewrite 1 `Vec<&V> {` => `Vec<&V> { let mut out__: Vec<&V> = Vec::new(); for kv__ in it:` ## R-filter-collect: `successors.values().filter(|v| P).collect::<Vec<_>>()` is by definition the loop over `successors.iter()` that pushes the value of every entry satisfying P (part 1 of 3; P stays the original tokens, `v` keeps its type `&&V`)
//@ rewrite 1 `.values() .filter(|v|` => `.iter() { let v = &kv__.1; if` ## R-filter-collect: part 2 of 3
//@ rewrite 1 `) .collect()` => `{ out__.push(*v); } } out__` ## R-filter-collect: part 3 of 3
//@ spec
    requires self.graph_wf(),
    ensures /*@list*/ self.lists_vertices(r@, |k: usize| self.successors@[k]@.len() == 0),
//@ before 0 `let mut out__`
    let ghost mut src: Seq<int> = Seq::empty();
    let ghost mut pos: Map<int, int> = Map::empty();
//@ loop 0
    invariant
        self.graph_wf(),
        seq_lists_map(it.seq(), self.vertices@),
        src.len() == out__@.len(),
        forall|j: int| 0 <= j < src.len() ==> 0 <= #[trigger] src[j] < it.index@ && out__@[j] == it.seq()[src[j]].1 && self.successors@[*it.seq()[src[j]].0]@.len() == 0,
        forall|j: int, k: int| 0 <= j < k < src.len() ==> #[trigger] src[j] < #[trigger] src[k],
        forall|i: int| 0 <= i < it.index@ && self.successors@[*(#[trigger] it.seq()[i]).0]@.len() == 0 ==> pos.contains_key(i) && 0 <= pos[i] < src.len() && src[pos[i]] == i,
        it.index@ == it.seq().len() ==> self.lists_vertices(out__@, |k: usize| self.successors@[k]@.len() == 0),
//@ before 0 `if self.successors.get(&v.index()).unwrap().is_empty()`
    proof {
        assert(self.vertices@.contains_pair(*kv__.0, *kv__.1));
        assert(v.index_spec() == *kv__.0);
    }
//@ after 0 `out__.push(*v);`
    proof {
        pos = pos.insert(it.index@, src.len() as int);
        src = src.push(it.index@);
    }
//@ after 0 `{ out__.push(*v); }`
    proof {
        self.lemma_lists_filtered_vertices(out__@, it.seq(), it.index@ + 1, |k: usize| self.successors@[k]@.len() == 0, src, pos);
    }
//@ end

} // impl Graph (core)
