// Unit C11 — the graph library (lib/graph/mod.rs) equals its textbook definitions.
// Generated file = this template + the real text of the functions named in the `//@` holes.
#![feature(allocator_api)]
#![allow(unused_imports, unused_variables, dead_code, unused_mut, non_snake_case, unused_parens, unused_braces, deprecated)]
use vstd::prelude::*;
use std::cmp;
use std::collections::{BTreeMap, BTreeSet, VecDeque};
use std::fmt;

verus! {

//@ include prelude/error.rs
//@ include prelude/fxhash.rs
//@ include prelude/stdcoll.rs

pub mod il {
use super::*;
#[verifier::external_body] pub struct ProgramLocation { _p: () }
} // mod il

//@ include units/C11/error_from.rs

pub mod graph {
use super::*;
use vstd::std_specs::iter::IteratorSpec;
use rustc_hash::{FxHashMap, FxHashSet};
broadcast use {rustc_hash::axiom_fx_builds_valid_hashers, stdcoll::axiom_btreemap_index_req, stdcoll::axiom_hashmap_index_req, stdcoll::axiom_usize_pair_obeys_key_model};

//@ include units/C11/graph_core.rs
//@ include units/C11/graph_client.rs
//@ include units/C11/graph_trav.rs
//@ include units/C11/graph_dom.rs

proof fn vf_canary_graph() ensures false {}
} // mod graph
proof fn vf_canary_root() ensures false {}

} // verus!

fn main() {}
