// ---- units/C11/graph_client.rs: a client of the contracts (template code, nothing extracted).
// Purpose: vacuity / usability guard — the contracts of graph_core.rs must be strong enough to
// predict, symbolically, what a concrete sequence of edits and queries returns.
pub fn client_smoke_edits()
{
    let mut g: Graph<NullVertex, NullEdge> = Graph::new();
    let r = g.insert_vertex(NullVertex::new(1));
    assert(r is Ok);
    let r = g.insert_vertex(NullVertex::new(2));
    assert(r is Ok);
    let r = g.insert_vertex(NullVertex::new(1));
    assert(r is Err);
    assert(g.vertices@.dom() =~= set![1usize, 2usize]);
    let r = g.insert_edge(NullEdge::new(1, 2));
    assert(r is Ok);
    let r = g.insert_edge(NullEdge::new(1, 3));
    assert(r == Err::<(), Error>(Error::GraphVertexNotFound(3)));
    let r = g.insert_edge(NullEdge::new(1, 2));
    assert(r is Err);
    assert(g.edges@.dom() =~= set![(1usize, 2usize)]);
    assert(g.successors@[1]@ =~= set![2usize]);
    assert(g.predecessors@[2]@ =~= set![1usize]);
    assert(g.successors@[2]@ =~= Set::<usize>::empty());
    let b = g.has_edge(1, 2);
    assert(b);
    let n = g.num_vertices();
    assert(n == 2);
    let r = g.remove_edge(2, 1);
    assert(r == Err::<(), Error>(Error::GraphEdgeNotFound(2, 1)));
    let r = g.remove_vertex(2);
    assert(r is Ok);
    assert(g.graph_wf());
    assert(!g.edges@.contains_key((1usize, 2usize)));
    assert(g.successors@[1]@ =~= Set::<usize>::empty());
    let r = g.remove_vertex(2);
    assert(r == Err::<(), Error>(Error::GraphVertexNotFound(2)));
}

pub fn client_smoke_reach()
{
    let mut g: Graph<NullVertex, NullEdge> = Graph::new();
    let r = g.insert_vertex(NullVertex::new(1));
    let r = g.insert_vertex(NullVertex::new(2));
    let r = g.insert_vertex(NullVertex::new(3));
    let r = g.insert_edge(NullEdge::new(1, 2));
    let r = g.insert_edge(NullEdge::new(3, 1));
    assert(g.edges@.dom() =~= set![(1usize, 2usize), (3usize, 1usize)]);
    let r = g.reachable_vertices(1);
    assert(r is Ok);
    let s = r.unwrap();
    proof {
        lemma_path_refl(g.edges@.dom(), 1);
        lemma_path_edge(g.edges@.dom(), 1, 2);
        // 3 is not reachable from 1: {1, 2} is closed under the edges
        let cl = |v: usize| v == 1 || v == 2;
        assert forall|a: usize, b: usize| #![trigger g.edges@.dom().contains((a, b))] cl(a) && g.edges@.dom().contains((a, b)) implies cl(b) by {}
        if path(g.edges@.dom(), 1, 3) {
            lemma_path_closed(g.edges@.dom(), cl, 1, 3);
        }
    }
    assert(s@.contains(1) && s@.contains(2) && !s@.contains(3));
    let r = g.remove_unreachable_vertices(1);
    assert(r is Ok);
    assert(g.vertices@.contains_key(1) && g.vertices@.contains_key(2) && !g.vertices@.contains_key(3));
    assert(g.edges@.contains_key((1usize, 2usize)) && !g.edges@.contains_key((3usize, 1usize)));
    let r = g.remove_unreachable_vertices(7);
    assert(r == Err::<(), Error>(Error::GraphVertexNotFound(7)));
}

pub fn client_smoke_mut()
{
    let mut g: Graph<NullVertex, NullEdge> = Graph::new();
    let r = g.insert_vertex(NullVertex::new(1));
    let r = g.insert_vertex(NullVertex::new(2));
    let r = g.insert_edge(NullEdge::new(1, 2));
    match g.vertex_mut(2) {
        Ok(v) => { *v = NullVertex::new(2); }
        Err(_) => { assert(false); }
    }
    assert(g.vertices@[2].index == 2);
    assert(g.vertices@.dom() =~= set![1usize, 2usize]);
    assert(g.graph_wf());
    match g.edge_mut(2, 1) {
        Ok(e) => { assert(false); }
        Err(e) => { assert(e == Error::GraphEdgeNotFound(2, 1)); }
    }
    let r = g.vertex(1);
    assert(r is Ok && r->Ok_0.index == 1);
    let r = g.edge(1, 2);
    assert(r is Ok && r->Ok_0.head == 1);
    let vs = g.vertices();
    assert(vs@.len() == 2);
    let es = g.edges_out(1);
    assert(es is Ok);
    assert(es->Ok_0@.len() == 1);
    assert(es->Ok_0@[0].tail == 2);
    let si = g.successor_indices(1);
    assert(si is Ok);
    assert(si->Ok_0@.len() == 1 && si->Ok_0@[0] == 2);
}
