// ======================================================================================
// units/C11/graph_trav.rs — traversals of falcon::graph::Graph under contract (phase 2):
// pre-order, post-order, topological order, acyclicity, transitive predecessors, DFS tree,
// acyclic sub-graph.   Uses the vocabulary of graph_core.rs.
// ======================================================================================
//@ source lib/graph/mod.rs

/// x has a predecessor among the first n elements of o
pub open spec fn has_earlier_pred(es: Set<(usize, usize)>, o: Seq<usize>, n: int, x: usize) -> bool {
    exists|j: int| 0 <= j < n && j < o.len() && es.contains((#[trigger] o[j], x))
}

/// position of an element in a duplicate-free sequence that contains it
pub open spec fn pos_of(o: Seq<usize>, x: usize) -> int {
    choose|i: int| 0 <= i < o.len() && o[i] == x
}

/// w occurs in o strictly before position i
pub open spec fn index_before(o: Seq<usize>, w: usize, i: int) -> bool {
    exists|j: int| 0 <= j < i && j < o.len() && #[trigger] o[j] == w
}

/// gray = discovered but not yet finished
pub open spec fn is_gray(visited: Set<usize>, order: Seq<usize>, x: usize) -> bool {
    visited.contains(x) && !order.contains(x)
}

/// bookkeeping invariant of the recursive post-order DFS: `order` lists the finished vertices in
/// finishing order; every successor of a finished vertex is discovered, and it either finished
/// earlier or it is an ancestor (there is a path back from it: the edge closes a cycle)
pub open spec fn post_inv(vs: Set<usize>, es: Set<(usize, usize)>, visited: Set<usize>, order: Seq<usize>) -> bool {
    &&& order.no_duplicates()
    &&& forall|i: int| 0 <= i < order.len() ==> visited.contains(#[trigger] order[i])
    &&& visited.subset_of(vs)
    &&& forall|i: int, w: usize| #![trigger es.contains((order[i], w))] 0 <= i < order.len() && es.contains((order[i], w))
            ==> visited.contains(w) && (index_before(order, w, i) || path(es, w, order[i]))
}

/// bookkeeping invariant of the marking DFS used for topological sorting: `order` lists the
/// permanently marked vertices; every successor of a permanently marked vertex was marked earlier
pub open spec fn topo_inv(vs: Set<usize>, es: Set<(usize, usize)>, perm: Set<usize>, temp: Set<usize>, order: Seq<usize>) -> bool {
    &&& order.no_duplicates()
    &&& forall|x: usize| #![trigger perm.contains(x)] #![trigger order.contains(x)] perm.contains(x) <==> order.contains(x)
    &&& perm.subset_of(vs) && temp.subset_of(vs) && perm.disjoint(temp)
    &&& forall|i: int, w: usize| #![trigger es.contains((order[i], w))] 0 <= i < order.len() && es.contains((order[i], w)) ==> index_before(order, w, i)
}

/// o is a topological order of es: every edge goes forward
pub open spec fn edges_forward(es: Set<(usize, usize)>, o: Seq<usize>) -> bool {
    forall|i: int, j: int| #![trigger es.contains((o[i], o[j]))] 0 <= i < o.len() && 0 <= j < o.len() && es.contains((o[i], o[j])) ==> i < j
}

pub proof fn lemma_disjoint_subsets_len(p: Set<usize>, t: Set<usize>, vs: Set<usize>)
    requires p.subset_of(vs), t.subset_of(vs), p.disjoint(t),
    ensures p.len() + t.len() <= vs.len(),
{
    vstd::set_lib::lemma_set_disjoint_lens(p, t);
    vstd::set_lib::lemma_len_subset(p + t, vs);
}

/// along a walk in a graph that has a topological order, positions strictly increase
pub proof fn lemma_walk_forward(es: Set<(usize, usize)>, o: Seq<usize>, p: Seq<usize>, k: int)
    requires
        is_walk(es, p), 1 <= k < p.len(), edges_forward(es, o),
        forall|a: usize, b: usize| #![trigger es.contains((a, b))] es.contains((a, b)) ==> o.contains(a) && o.contains(b),
    ensures exists|i: int, j: int| 0 <= i < j < o.len() && o[i] == p[0] && o[j] == p[k],
    decreases k,
{
    assert(walk_edge(es, p, k - 1));
    assert(es.contains((p[k - 1], p[k])));
    let a = choose|a: int| 0 <= a < o.len() && o[a] == p[k - 1];
    let b = choose|b: int| 0 <= b < o.len() && o[b] == p[k];
    assert(es.contains((o[a], o[b])));
    if k == 1 {
        assert(0 <= a < b < o.len() && o[a] == p[0] && o[b] == p[k]);
    } else {
        lemma_walk_forward(es, o, p, k - 1);
        let (i, j) = choose|i: int, j: int| 0 <= i < j < o.len() && o[i] == p[0] && o[j] == p[k - 1];
        // o[j] == o[a] == p[k-1]; positions of equal elements may differ only if o has duplicates,
        // but edges_forward applies to (j, b) directly
        assert(es.contains((o[j], o[b])));
        assert(0 <= i < b < o.len() && o[i] == p[0] && o[b] == p[k]);
    }
}

/// a graph that has a topological order (duplicate-free) has no cycle
pub proof fn lemma_forward_acyclic(es: Set<(usize, usize)>, o: Seq<usize>)
    requires
        o.no_duplicates(), edges_forward(es, o),
        forall|a: usize, b: usize| #![trigger es.contains((a, b))] es.contains((a, b)) ==> o.contains(a) && o.contains(b),
    ensures acyclic(es),
{
    assert forall|v: usize| !path_plus(es, v, v) by {
        if path_plus(es, v, v) {
            let p = choose|p: Seq<usize>| #![trigger is_walk(es, p)] is_walk(es, p) && p.len() >= 2 && p[0] == v && p.last() == v;
            lemma_walk_forward(es, o, p, p.len() - 1);
            let (i, j) = choose|i: int, j: int| 0 <= i < j < o.len() && o[i] == p[0] && o[j] == p[p.len() - 1];
            assert(o[i] == o[j]);
        }
    }
}

/// reversing a finishing order in which every successor finished earlier gives a topological order
pub proof fn lemma_reverse_is_forward(es: Set<(usize, usize)>, o: Seq<usize>, r: Seq<usize>)
    requires
        o.no_duplicates(),
        forall|i: int, w: usize| #![trigger es.contains((o[i], w))] 0 <= i < o.len() && es.contains((o[i], w)) ==> index_before(o, w, i),
    ensures
        // stated as an implication so that a caller whose `r` is NOT the reverse learns nothing
        (r.len() == o.len() && forall|i: int| 0 <= i < r.len() ==> r[i] == o[o.len() - 1 - i]) ==> {
            &&& r.no_duplicates()
            &&& edges_forward(es, r)
            &&& forall|v: usize| #![trigger r.contains(v)] r.contains(v) <==> o.contains(v)
        },
{
    if !(r.len() == o.len() && forall|i: int| 0 <= i < r.len() ==> r[i] == o[o.len() - 1 - i]) { return; }
    let n = o.len() as int;
    assert forall|i: int, j: int| 0 <= i < r.len() && 0 <= j < r.len() && i != j implies r[i] != r[j] by {
        assert(r[i] == o[n - 1 - i] && r[j] == o[n - 1 - j]);
    }
    assert forall|i: int, j: int| #![trigger es.contains((r[i], r[j]))] 0 <= i < r.len() && 0 <= j < r.len() && es.contains((r[i], r[j])) implies i < j by {
        assert(r[i] == o[n - 1 - i] && r[j] == o[n - 1 - j]);
        assert(es.contains((o[n - 1 - i], r[j])));
        assert(index_before(o, r[j], n - 1 - i));
        let k = choose|k: int| 0 <= k < n - 1 - i && k < o.len() && #[trigger] o[k] == r[j];
        assert(k == n - 1 - j);
    }
    assert forall|v: usize| #![trigger r.contains(v)] r.contains(v) <==> o.contains(v) by {
        if r.contains(v) {
            let i = choose|i: int| 0 <= i < r.len() && r[i] == v;
            assert(o[n - 1 - i] == v);
        }
        if o.contains(v) {
            let i = choose|i: int| 0 <= i < o.len() && o[i] == v;
            assert(r[n - 1 - i] == v);
        }
    }
}

/// a cycle is reachable from node
pub open spec fn cycle_reachable(es: Set<(usize, usize)>, node: usize) -> bool {
    exists|v: usize| path(es, node, v) && #[trigger] path_plus(es, v, v)
}

/// bookkeeping invariant of the marking DFS used by is_acyclic: permanently marked vertices are
/// closed under successors and lie on no cycle
pub open spec fn acy_inv(vs: Set<usize>, es: Set<(usize, usize)>, perm: Set<usize>, temp: Set<usize>) -> bool {
    &&& perm.subset_of(vs) && temp.subset_of(vs) && perm.disjoint(temp)
    &&& forall|a: usize, b: usize| #![trigger es.contains((a, b))] perm.contains(a) && es.contains((a, b)) ==> perm.contains(b)
    &&& forall|p: usize| #![trigger perm.contains(p)] perm.contains(p) ==> !path_plus(es, p, p)
}

/// a set closed under edges that does not contain x contains nothing that reaches x
pub proof fn lemma_closed_no_path_out(es: Set<(usize, usize)>, s: Set<usize>, a: usize, x: usize)
    requires
        s.contains(a), !s.contains(x), path(es, a, x),
        forall|u: usize, w: usize| #![trigger es.contains((u, w))] s.contains(u) && es.contains((u, w)) ==> s.contains(w),
    ensures false,
{
    let f = |v: usize| s.contains(v);
    lemma_path_closed(es, f, a, x);
}

impl<V, E> Graph<V, E>
where
    V: Vertex,
    E: Edge,
{
    /// precondition of `dfs_is_acyclic(graph, node, permanent_marks, temporary_marks)`
    pub open spec fn acy_dfs_pre(&self, node: usize, perm: Set<usize>, temp: Set<usize>) -> bool {
        &&& self.graph_wf()
        &&& self.vertices@.contains_key(node)
        &&& acy_inv(self.vertices@.dom(), self.edges@.dom(), perm, temp)
        &&& forall|t: usize| #![trigger temp.contains(t)] temp.contains(t) ==> path_plus(self.edges@.dom(), t, node)
    }

    /// postcondition of `dfs_is_acyclic`
    pub open spec fn acy_dfs_post(&self, node: usize, perm0: Set<usize>, temp0: Set<usize>, perm: Set<usize>, temp: Set<usize>, res: bool) -> bool {
        &&& res ==> {
            &&& acy_inv(self.vertices@.dom(), self.edges@.dom(), perm, temp)
            &&& temp == temp0
            &&& perm0.subset_of(perm) && perm.contains(node)
        }
        &&& !res ==> cycle_reachable(self.edges@.dom(), node)
    }

    /// precondition of topological `dfs_walk(graph, node, permanent_marks, temporary_marks, order)`
    pub open spec fn topo_dfs_pre(&self, node: usize, perm: Set<usize>, temp: Set<usize>, order: Seq<usize>) -> bool {
        &&& self.graph_wf()
        &&& self.vertices@.contains_key(node)
        &&& topo_inv(self.vertices@.dom(), self.edges@.dom(), perm, temp, order)
        &&& forall|t: usize| #![trigger temp.contains(t)] temp.contains(t) ==> path_plus(self.edges@.dom(), t, node)
    }

    /// postcondition of topological `dfs_walk`
    pub open spec fn topo_dfs_post(&self, node: usize, perm0: Set<usize>, temp0: Set<usize>, order0: Seq<usize>,
        perm: Set<usize>, temp: Set<usize>, order: Seq<usize>, res: Result<(), Error>) -> bool {
        &&& res is Ok ==> {
            &&& topo_inv(self.vertices@.dom(), self.edges@.dom(), perm, temp, order)
            &&& temp == temp0
            &&& order.len() >= order0.len() && order.subrange(0, order0.len() as int) =~= order0
            &&& perm0.subset_of(perm) && perm.contains(node)
        }
        &&& res matches Err(e) ==> e is Custom && !acyclic(self.edges@.dom())
    }

    /// precondition of post-order `dfs_walk(graph, node, visited, order)`
    pub open spec fn post_dfs_pre(&self, node: usize, visited: Set<usize>, order: Seq<usize>) -> bool {
        &&& self.graph_wf()
        &&& self.vertices@.contains_key(node)
        &&& !visited.contains(node)
        &&& post_inv(self.vertices@.dom(), self.edges@.dom(), visited, order)
        &&& forall|x: usize| #![trigger is_gray(visited, order, x)] is_gray(visited, order, x) ==> path(self.edges@.dom(), x, node)
    }

    /// postcondition of post-order `dfs_walk`
    pub open spec fn post_dfs_post(&self, node: usize, visited0: Set<usize>, order0: Seq<usize>, visited: Set<usize>, order: Seq<usize>, res: Result<(), Error>) -> bool {
        &&& res is Ok
        &&& post_inv(self.vertices@.dom(), self.edges@.dom(), visited, order)
        &&& order.len() > order0.len() && order.subrange(0, order0.len() as int) =~= order0
        &&& order.last() == node
        &&& visited0.subset_of(visited)
        &&& forall|x: usize| #![trigger is_gray(visited, order, x)] #![trigger is_gray(visited0, order0, x)] is_gray(visited, order, x) <==> is_gray(visited0, order0, x)
        &&& forall|x: usize| #![trigger visited.contains(x)] visited.contains(x) && !visited0.contains(x) ==> path(self.edges@.dom(), node, x)
    }

//@ fn impl<V, E> Graph<V, E> :: fn compute_pre_order loops=2
//@ rewrite 1 `for &successor in` => `for successor__r in it:` ## R-ref-pattern: `for &x in ITER { BODY }` is `for x__r in ITER { let x = *x__r; BODY }` for Copy items (part 1 of 2; Verus has no `&` patterns; the iterator expression stays the original tokens)
//@ rewrite 1 `{ stack.push(successor);` => `{ let successor = *successor__r; stack.push(successor);` ## R-ref-pattern: part 2 of 2
//@ spec
    requires self.graph_wf(),
    ensures
        /*@missing*/ !self.vertices@.contains_key(root) ==> r == Err::<Vec<usize>, Error>(Error::GraphVertexNotFound(root)),
        /*@ok*/ self.vertices@.contains_key(root) ==> r is Ok,
        /*@nodup*/ r matches Ok(o) ==> o@.no_duplicates(),
        /*@exact*/ r matches Ok(o) ==> forall|v: usize| #![trigger o@.contains(v)] o@.contains(v) <==> self.reaches(root, v),
        /*@root_first*/ r matches Ok(o) ==> o@.len() > 0 && o@[0] == root,
        /*@parent_first*/ r matches Ok(o) ==> forall|i: int| 1 <= i < o@.len() ==> has_earlier_pred(self.edges@.dom(), o@, i, #[trigger] o@[i]),
//@ before 0 `while let Some(node)`
    let ghost mut gs: Seq<usize> = stack@;
    proof {
        lemma_path_refl(self.edges@.dom(), root);
        assert(stack@ =~= seq![root]);
        vstd::set_lib::lemma_len_subset(visited@, self.vertices@.dom());
    }
//@ loop 0
    invariant
        gs == stack@,
        self.graph_wf(), self.vertices@.contains_key(root),
        order@.no_duplicates(),
        forall|v: usize| #![trigger visited@.contains(v)] #![trigger order@.contains(v)] visited@.contains(v) <==> order@.contains(v),
        visited@.subset_of(self.vertices@.dom()),
        forall|v: usize| #![trigger visited@.contains(v)] visited@.contains(v) ==> self.reaches(root, v),
        forall|k: int| 0 <= k < stack@.len() ==> self.reaches(root, #[trigger] stack@[k]),
        forall|a: usize, b: usize| #![trigger self.edges@.contains_key((a, b))]
            visited@.contains(a) && self.edges@.contains_key((a, b)) ==> visited@.contains(b) || stack@.contains(b),
        order@.len() == 0 ==> stack@ =~= seq![root],
        order@.len() > 0 ==> order@[0] == root,
        forall|i: int| 1 <= i < order@.len() ==> has_earlier_pred(self.edges@.dom(), order@, i, #[trigger] order@[i]),
        forall|k: int| 0 <= k < stack@.len() ==> (order@.len() == 0 && stack@[k] == root) || has_earlier_pred(self.edges@.dom(), order@, order@.len() as int, #[trigger] stack@[k]),
    ensures stack@.len() == 0,
    decreases self.vertices@.dom().len() - visited@.len(), stack@.len(),
//@ before 0 `if !visited.insert(node)`
    let ghost order0 = order@;
    let ghost visited0 = visited@;
    proof {
        assert(gs =~= stack@.push(node));
        lemma_push_contains(stack@, node);
        assert(gs[gs.len() - 1] == node);
        assert(self.reaches(root, node));
        self.lemma_reach_is_vertex(root, node);
        vstd::set_lib::lemma_len_subset(visited@, self.vertices@.dom());
        vstd::set_lib::lemma_len_subset(visited@.insert(node), self.vertices@.dom());
        assert forall|k: int| 0 <= k < stack@.len() implies (order@.len() == 0 && stack@[k] == root) || has_earlier_pred(self.edges@.dom(), order@, order@.len() as int, #[trigger] stack@[k]) by {
            assert(gs[k] == stack@[k]);
        }
        assert forall|k: int| 0 <= k < stack@.len() implies self.reaches(root, #[trigger] stack@[k]) by {
            assert(gs[k] == stack@[k]);
        }
    }
//@ before 0 `continue;`
    proof { gs = stack@; }
//@ after 0 `order.push(node);`
    proof {
        lemma_push_contains(order0, node);
        assert(!order0.contains(node));
        assert(order@ =~= order0.push(node));
        assert forall|i: int| 1 <= i < order@.len() implies has_earlier_pred(self.edges@.dom(), order@, i, #[trigger] order@[i]) by {
            if i < order0.len() {
                assert(has_earlier_pred(self.edges@.dom(), order0, i, order0[i]));
                let j = choose|j: int| 0 <= j < i && j < order0.len() && self.edges@.dom().contains((#[trigger] order0[j], order0[i]));
                assert(order@[j] == order0[j]);
            } else {
                assert(has_earlier_pred(self.edges@.dom(), order0, order0.len() as int, node));
                let j = choose|j: int| 0 <= j < order0.len() && self.edges@.dom().contains((#[trigger] order0[j], node));
                assert(order@[j] == order0[j]);
            }
        }
        assert forall|k: int| 0 <= k < stack@.len() implies has_earlier_pred(self.edges@.dom(), order@, order@.len() as int, #[trigger] stack@[k]) by {
            if order0.len() == 0 {
                assert(gs =~= seq![root]);
            } else {
                let j = choose|j: int| 0 <= j < order0.len() && self.edges@.dom().contains((#[trigger] order0[j], stack@[k]));
                assert(order@[j] == order0[j]);
            }
        }
    }
//@ loop 1
    invariant
        self.graph_wf(), self.vertices@.contains_key(root), self.vertices@.contains_key(node),
        seq_lists_set_ref(it.seq(), self.successors@[node]@),
        order@ == order0.push(node), visited@ == visited0.insert(node),
        !visited0.contains(node),
        order@.len() > 0, order@[order@.len() - 1] == node,
        self.reaches(root, node),
        forall|k: int| 0 <= k < stack@.len() ==> self.reaches(root, #[trigger] stack@[k]),
        forall|a: usize, b: usize| #![trigger self.edges@.contains_key((a, b))]
            visited@.contains(a) && a != node && self.edges@.contains_key((a, b)) ==> visited@.contains(b) || stack@.contains(b),
        forall|j: int| 0 <= j < it.index@ ==> stack@.contains(*#[trigger] it.seq()[j]),
        forall|k: int| 0 <= k < stack@.len() ==> has_earlier_pred(self.edges@.dom(), order@, order@.len() as int, #[trigger] stack@[k]),
        forall|b: usize| #![trigger self.edges@.contains_key((node, b))] it.index@ == it.seq().len() && self.edges@.contains_key((node, b)) ==> stack@.contains(b),
//@ before 0 `stack.push(successor);`
    let ghost st0 = stack@;
    proof {
        lemma_seq_lists_set_ref(it.seq(), self.successors@[node]@);
        assert(self.successors@[node]@.contains(successor));
        assert(self.edges@.contains_key((node, successor)));
        lemma_path_step(self.edges@.dom(), root, node, successor);
        lemma_push_contains(st0, successor);
    }
//@ after 0 `stack.push(successor);`
    proof {
        assert(stack@ =~= st0.push(successor));
        assert forall|k: int| 0 <= k < stack@.len() implies has_earlier_pred(self.edges@.dom(), order@, order@.len() as int, #[trigger] stack@[k]) by {
            if k < st0.len() {
                assert(stack@[k] == st0[k]);
            } else {
                assert(self.edges@.dom().contains((order@[order@.len() - 1], successor)));
            }
        }
        assert forall|k: int| 0 <= k < stack@.len() implies self.reaches(root, #[trigger] stack@[k]) by {
            if k < st0.len() { assert(stack@[k] == st0[k]); }
        }
        assert forall|b: usize| #![trigger self.edges@.contains_key((node, b))] it.index@ + 1 == it.seq().len() && self.edges@.contains_key((node, b)) implies stack@.contains(b) by {
            assert(self.successors@[node]@.contains(b));
            let j = choose|j: int| 0 <= j < it.seq().len() && *#[trigger] it.seq()[j] == b;
            if j < it.index@ { assert(st0.contains(*it.seq()[j])); }
        }
    }
//@ after 0 `stack.push(successor); }`
    proof { gs = stack@; }
//@ before 0 `Ok(order)`
    proof {
        assert(order@.len() > 0);
        assert(order@.contains(order@[0]));
        let s = |v: usize| visited@.contains(v);
        assert forall|a: usize, b: usize| #![trigger self.edges@.dom().contains((a, b))] s(a) && self.edges@.dom().contains((a, b)) implies s(b) by {
            assert(self.edges@.contains_key((a, b)));
            assert(!stack@.contains(b));
        }
        assert forall|v: usize| self.reaches(root, v) implies #[trigger] order@.contains(v) by {
            lemma_path_closed(self.edges@.dom(), s, root, v);
        }
    }
//@ end


//@ fn impl<V, E> Graph<V, E> :: fn compute_post_order loops=1
//@ rewrite 1 `order: &mut Vec<usize>, ) -> Result<(), Error> {` => `order: &mut Vec<usize>, ) -> (res: Result<(), Error>) requires graph.post_dfs_pre(node, old(visited)@, old(order)@), ensures /*@post*/ graph.post_dfs_post(node, old(visited)@, old(order)@, final(visited)@, final(order)@, res), decreases graph.vertices@.dom().len() - old(visited)@.len(), {` ## R-nested-contract: attaches requires / ensures / decreases (defined as spec fns in the template) to the signature of the nested fn; the assembler has no hole for nested items; executable tokens unchanged apart from naming the result
//@ rewrite 1 `for successor in &graph` => `for successor in it: &graph` ## R-ghost-iter-name: names the ghost iterator of the for loop; no executable change
//@ spec
    requires self.graph_wf(),
    ensures
        /*@missing*/ !self.vertices@.contains_key(root) ==> r == Err::<Vec<usize>, Error>(Error::GraphVertexNotFound(root)),
        /*@ok*/ self.vertices@.contains_key(root) ==> r is Ok,
        /*@nodup*/ r matches Ok(o) ==> o@.no_duplicates(),
        /*@exact*/ r matches Ok(o) ==> forall|v: usize| #![trigger o@.contains(v)] o@.contains(v) <==> self.reaches(root, v),
        /*@root_last*/ r matches Ok(o) ==> o@.len() > 0 && o@.last() == root,
        /*@edges*/ r matches Ok(o) ==> forall|i: int, w: usize| #![trigger self.edges@.contains_key((o@[i], w))]
            0 <= i < o@.len() && self.edges@.contains_key((o@[i], w)) ==> index_before(o@, w, i) || path(self.edges@.dom(), w, o@[i]),
        /*@acyclic_order*/ r matches Ok(o) ==> (acyclic_from(self.edges@.dom(), root) ==> forall|i: int, w: usize| #![trigger self.edges@.contains_key((o@[i], w))]
            0 <= i < o@.len() && self.edges@.contains_key((o@[i], w)) ==> index_before(o@, w, i)),
//@ after 0 `visited.insert(node);`
    proof {
        vstd::set_lib::lemma_len_subset(old(visited)@.insert(node), graph.vertices@.dom());
        lemma_path_refl(graph.edges@.dom(), node);
        assert forall|x: usize| #![trigger is_gray(visited@, order@, x)] is_gray(visited@, order@, x) <==> (x == node || is_gray(old(visited)@, old(order)@, x)) by {
            if x == node && order@.contains(node) {
                let i = choose|i: int| 0 <= i < order@.len() && order@[i] == node;
                assert(old(visited)@.contains(order@[i]));
            }
        }
    }
//@ loop 0
    invariant
        graph.graph_wf(), graph.vertices@.contains_key(node),
        seq_lists_set_ref(it.seq(), graph.successors@[node]@),
        post_inv(graph.vertices@.dom(), graph.edges@.dom(), visited@, order@),
        old(visited)@.insert(node).subset_of(visited@), !old(visited)@.contains(node),
        order@.len() >= old(order)@.len() && order@.subrange(0, old(order)@.len() as int) =~= old(order)@,
        forall|x: usize| #![trigger is_gray(visited@, order@, x)] is_gray(visited@, order@, x) <==> (x == node || is_gray(old(visited)@, old(order)@, x)),
        forall|x: usize| #![trigger is_gray(old(visited)@, old(order)@, x)] is_gray(old(visited)@, old(order)@, x) ==> path(graph.edges@.dom(), x, node),
        forall|j: int| 0 <= j < it.index@ ==> visited@.contains(*#[trigger] it.seq()[j]),
        forall|x: usize| #![trigger visited@.contains(x)] visited@.contains(x) && !old(visited)@.contains(x) ==> path(graph.edges@.dom(), node, x),
        forall|w: usize| #![trigger graph.edges@.contains_key((node, w))] it.index@ == it.seq().len() && graph.edges@.contains_key((node, w)) ==> visited@.contains(w),
//@ before 0 `if !visited.contains(successor)`
    let ghost vis1 = visited@;
    let ghost ord1 = order@;
    proof {
        lemma_seq_lists_set_ref(it.seq(), graph.successors@[node]@);
        assert(graph.successors@[node]@.contains(*successor));
        assert(graph.edges@.contains_key((node, *successor)));
        lemma_path_refl(graph.edges@.dom(), node);
        lemma_path_edge(graph.edges@.dom(), node, *successor);
    }
//@ before 0 `dfs_walk(graph, *successor, visited, order)?`
    proof {
        assert(is_gray(vis1, ord1, node));
        assert forall|x: usize| #![trigger is_gray(vis1, ord1, x)] is_gray(vis1, ord1, x) implies path(graph.edges@.dom(), x, *successor) by {
            if x != node {
                assert(is_gray(old(visited)@, old(order)@, x));
            }
            lemma_path_step(graph.edges@.dom(), x, node, *successor);
        }
        vstd::set_lib::lemma_len_subset(old(visited)@.insert(node), vis1);
        vstd::set_lib::lemma_len_subset(vis1, graph.vertices@.dom());
    }
//@ after 0 `dfs_walk(graph, *successor, visited, order)?;`
    proof {
        assert(order@.subrange(0, old(order)@.len() as int) =~= old(order)@) by {
            assert forall|k: int| 0 <= k < old(order)@.len() implies order@[k] == old(order)@[k] by {
                assert(order@.subrange(0, ord1.len() as int)[k] == ord1[k]);
                assert(ord1.subrange(0, old(order)@.len() as int)[k] == old(order)@[k]);
            }
        }
        assert forall|x: usize| #![trigger visited@.contains(x)] visited@.contains(x) && !old(visited)@.contains(x) implies path(graph.edges@.dom(), node, x) by {
            if !vis1.contains(x) {
                lemma_path_trans(graph.edges@.dom(), node, *successor, x);
            }
        }
        assert forall|x: usize| #![trigger is_gray(visited@, order@, x)] is_gray(visited@, order@, x) <==> (x == node || is_gray(old(visited)@, old(order)@, x)) by {
            assert(is_gray(visited@, order@, x) <==> is_gray(vis1, ord1, x));
        }
    }
//@ after 0 `if !visited.contains(successor) { dfs_walk(graph, *successor, visited, order)?; }`
    proof {
        assert forall|w: usize| #![trigger graph.edges@.contains_key((node, w))] it.index@ + 1 == it.seq().len() && graph.edges@.contains_key((node, w)) implies visited@.contains(w) by {
            assert(graph.successors@[node]@.contains(w));
            let j = choose|j: int| 0 <= j < it.seq().len() && *#[trigger] it.seq()[j] == w;
            if j < it.index@ { assert(vis1.contains(*it.seq()[j])); }
        }
    }
//@ before 0 `order.push(node);`
    let ghost ordl = order@;
    proof {
        assert(is_gray(visited@, ordl, node));
    }
//@ after 0 `order.push(node);`
    proof {
        let es = graph.edges@.dom();
        lemma_push_contains(ordl, node);
        assert(order@ =~= ordl.push(node));
        assert(order@.subrange(0, old(order)@.len() as int) =~= old(order)@);
        assert(order@.no_duplicates());
        assert forall|i: int, w: usize| #![trigger es.contains((order@[i], w))] 0 <= i < order@.len() && es.contains((order@[i], w))
            implies visited@.contains(w) && (index_before(order@, w, i) || path(es, w, order@[i])) by {
            if i < ordl.len() {
                assert(order@[i] == ordl[i]);
                assert(es.contains((ordl[i], w)));
                if index_before(ordl, w, i) {
                    let j = choose|j: int| 0 <= j < i && j < ordl.len() && #[trigger] ordl[j] == w;
                    assert(order@[j] == w);
                }
            } else {
                assert(order@[i] == node);
                assert(graph.edges@.contains_key((node, w)));
                assert(visited@.contains(w));
                if ordl.contains(w) {
                    let j = choose|j: int| 0 <= j < ordl.len() && ordl[j] == w;
                    assert(order@[j] == w);
                } else {
                    assert(is_gray(visited@, ordl, w));
                    if w == node {
                        lemma_path_refl(es, node);
                    } else {
                        assert(is_gray(old(visited)@, old(order)@, w));
                    }
                }
            }
        }
        assert forall|x: usize| #![trigger is_gray(visited@, order@, x)] #![trigger is_gray(old(visited)@, old(order)@, x)]
            is_gray(visited@, order@, x) <==> is_gray(old(visited)@, old(order)@, x) by {
            assert(is_gray(visited@, ordl, x) <==> (x == node || is_gray(old(visited)@, old(order)@, x)));
            if x == node {
                assert(!is_gray(old(visited)@, old(order)@, node));
            }
        }
        assert(order@.last() == node);
    }
//@ before 0 `Ok(order)`
    proof {
        let es = self.edges@.dom();
        assert(order@.contains(order@[order@.len() - 1]));
        // nothing is gray at the end: every discovered vertex is finished
        assert forall|x: usize| visited@.contains(x) implies #[trigger] order@.contains(x) by {
            assert(!is_gray(Set::<usize>::empty(), Seq::<usize>::empty(), x));
            assert(!is_gray(visited@, order@, x));
        }
        let s = |v: usize| order@.contains(v);
        assert forall|a: usize, b: usize| #![trigger es.contains((a, b))] s(a) && es.contains((a, b)) implies s(b) by {
            let i = choose|i: int| 0 <= i < order@.len() && order@[i] == a;
            assert(es.contains((order@[i], b)));
            assert(visited@.contains(b));
        }
        assert forall|v: usize| self.reaches(root, v) implies #[trigger] order@.contains(v) by {
            lemma_path_closed(es, s, root, v);
        }
        assert forall|v: usize| #[trigger] order@.contains(v) implies self.reaches(root, v) by {
            let i = choose|i: int| 0 <= i < order@.len() && order@[i] == v;
            assert(visited@.contains(order@[i]));
        }
        assert forall|i: int, w: usize| #![trigger self.edges@.contains_key((order@[i], w))]
            0 <= i < order@.len() && self.edges@.contains_key((order@[i], w)) implies index_before(order@, w, i) || path(es, w, order@[i]) by {
            assert(es.contains((order@[i], w)));
        }
        if acyclic_from(es, root) {
            assert forall|i: int, w: usize| #![trigger self.edges@.contains_key((order@[i], w))]
                0 <= i < order@.len() && self.edges@.contains_key((order@[i], w)) implies index_before(order@, w, i) by {
                assert(es.contains((order@[i], w)));
                if !index_before(order@, w, i) {
                    assert(order@.contains(order@[i]));
                    lemma_path_edge(es, order@[i], w);
                    lemma_path_plus_trans_l(es, order@[i], w, order@[i]);
                }
            }
        }
    }
//@ end


//@ fn impl<V, E> Graph<V, E> :: fn compute_topological_ordering loops=2
//@ rewrite 1 `order: &mut Vec<usize>, ) -> Result<(), Error> {` => `order: &mut Vec<usize>, ) -> (res: Result<(), Error>) requires graph.topo_dfs_pre(node, old(permanent_marks)@, old(temporary_marks)@, old(order)@), ensures /*@post*/ graph.topo_dfs_post(node, old(permanent_marks)@, old(temporary_marks)@, old(order)@, final(permanent_marks)@, final(temporary_marks)@, final(order)@, res), decreases graph.vertices@.dom().len() - old(permanent_marks)@.len() - old(temporary_marks)@.len(), {` ## R-nested-contract: attaches requires / ensures / decreases (defined as spec fns in the template) to the signature of the nested fn; executable tokens unchanged apart from naming the result
//@ rewrite 1 `for successor in &graph` => `for successor in it: &graph` ## R-ghost-iter-name: names the ghost iterator of the for loop; no executable change
//@ rewrite 1 `for node in self.vertices.keys()` => `for node in it: self.vertices.keys()` ## R-ghost-iter-name: names the ghost iterator of the for loop; no executable change
//@ rewrite 1 `Ok(order` => `let out__: Vec<usize> = order` ## R-let-result: binds the result expression to a local before wrapping it in Ok (part 1 of 2) so that a proof block can follow it; evaluation order unchanged
//@ rewrite 1 `.collect())` => `.collect(); Ok(out__)` ## R-let-result: part 2 of 2
//@ spec
    requires self.graph_wf(),
    ensures
        /*@acyclic_ok*/ acyclic(self.edges@.dom()) ==> r is Ok,
        /*@err*/ r matches Err(e) ==> e is Custom && !acyclic(self.edges@.dom()),
        /*@ok_acyclic*/ r is Ok ==> acyclic(self.edges@.dom()),
        /*@perm*/ r matches Ok(o) ==> o@.no_duplicates() && forall|v: usize| #![trigger o@.contains(v)] o@.contains(v) <==> self.vertices@.contains_key(v),
        /*@order*/ r matches Ok(o) ==> edges_forward(self.edges@.dom(), o@),
//@ before 0 `return Err("Graph contains a loop".into());`
    proof {
        assert(path_plus(graph.edges@.dom(), node, node));
    }
//@ after 0 `temporary_marks.insert(node);`
    proof {
        lemma_disjoint_subsets_len(permanent_marks@, temporary_marks@, graph.vertices@.dom());
    }
//@ loop 0
    invariant
        graph.graph_wf(), graph.vertices@.contains_key(node),
        seq_lists_set_ref(it.seq(), graph.successors@[node]@),
        topo_inv(graph.vertices@.dom(), graph.edges@.dom(), permanent_marks@, temporary_marks@, order@),
        temporary_marks@ == old(temporary_marks)@.insert(node), !old(temporary_marks)@.contains(node),
        old(permanent_marks)@.subset_of(permanent_marks@),
        order@.len() >= old(order)@.len() && order@.subrange(0, old(order)@.len() as int) =~= old(order)@,
        forall|t: usize| #![trigger old(temporary_marks)@.contains(t)] old(temporary_marks)@.contains(t) ==> path_plus(graph.edges@.dom(), t, node),
        forall|j: int| 0 <= j < it.index@ ==> permanent_marks@.contains(*#[trigger] it.seq()[j]),
        forall|w: usize| #![trigger graph.edges@.contains_key((node, w))] it.index@ == it.seq().len() && graph.edges@.contains_key((node, w)) ==> permanent_marks@.contains(w),
        old(permanent_marks)@.len() + old(temporary_marks)@.len() + 1 <= graph.vertices@.dom().len(),
//@ before 0 `dfs_walk(graph, *successor, permanent_marks, temporary_marks, order)?;`
    let ghost pm1 = permanent_marks@;
    let ghost ord1 = order@;
    proof {
        let es = graph.edges@.dom();
        lemma_seq_lists_set_ref(it.seq(), graph.successors@[node]@);
        assert(graph.successors@[node]@.contains(*successor));
        assert(graph.edges@.contains_key((node, *successor)));
        lemma_path_edge(es, node, *successor);
        assert forall|t: usize| #![trigger temporary_marks@.contains(t)] temporary_marks@.contains(t) implies path_plus(es, t, *successor) by {
            if t != node {
                lemma_path_plus_trans_l(es, t, node, *successor);
            }
        }
        vstd::set_lib::lemma_len_subset(old(permanent_marks)@, pm1);
        lemma_disjoint_subsets_len(pm1, temporary_marks@, graph.vertices@.dom());
    }
//@ after 0 `dfs_walk(graph, *successor, permanent_marks, temporary_marks, order)?;`
    proof {
        assert(order@.subrange(0, old(order)@.len() as int) =~= old(order)@) by {
            assert forall|k: int| 0 <= k < old(order)@.len() implies order@[k] == old(order)@[k] by {
                assert(order@.subrange(0, ord1.len() as int)[k] == ord1[k]);
                assert(ord1.subrange(0, old(order)@.len() as int)[k] == old(order)@[k]);
            }
        }
        assert forall|w: usize| #![trigger graph.edges@.contains_key((node, w))] it.index@ + 1 == it.seq().len() && graph.edges@.contains_key((node, w)) implies permanent_marks@.contains(w) by {
            assert(graph.successors@[node]@.contains(w));
            let j = choose|j: int| 0 <= j < it.seq().len() && *#[trigger] it.seq()[j] == w;
            if j < it.index@ { assert(pm1.contains(*it.seq()[j])); }
        }
    }
//@ before 0 `temporary_marks.remove(&node);`
    let ghost ordl = order@;
    let ghost pml = permanent_marks@;
//@ after 0 `order.push(node);`
    proof {
        let es = graph.edges@.dom();
        assert(temporary_marks@ =~= old(temporary_marks)@);
        lemma_push_contains(ordl, node);
        assert(order@ =~= ordl.push(node));
        assert(!pml.contains(node));
        assert(!ordl.contains(node));
        assert(order@.subrange(0, old(order)@.len() as int) =~= old(order)@);
        assert forall|i: int, w: usize| #![trigger es.contains((order@[i], w))] 0 <= i < order@.len() && es.contains((order@[i], w)) implies index_before(order@, w, i) by {
            if i < ordl.len() {
                assert(order@[i] == ordl[i]);
                assert(es.contains((ordl[i], w)));
                let j = choose|j: int| 0 <= j < i && j < ordl.len() && #[trigger] ordl[j] == w;
                assert(order@[j] == w);
            } else {
                assert(graph.edges@.contains_key((node, w)));
                assert(pml.contains(w));
                let j = choose|j: int| 0 <= j < ordl.len() && ordl[j] == w;
                assert(order@[j] == w);
            }
        }
    }
//@ loop 1
    invariant
        self.graph_wf(),
        seq_lists_set_ref(it.seq(), self.vertices@.dom()),
        topo_inv(self.vertices@.dom(), self.edges@.dom(), permanent_marks@, temporary_marks@, order@),
        temporary_marks@ == Set::<usize>::empty(),
        forall|j: int| 0 <= j < it.index@ ==> permanent_marks@.contains(*#[trigger] it.seq()[j]),
        forall|v: usize| #![trigger self.vertices@.contains_key(v)] it.index@ == it.seq().len() && self.vertices@.contains_key(v) ==> permanent_marks@.contains(v),
//@ before 0 `dfs_walk( self, *node,`
    let ghost pm1 = permanent_marks@;
    proof {
        lemma_seq_lists_set_ref(it.seq(), self.vertices@.dom());
    }
//@ after 0 `&mut order, )?;`
    proof {
        assert forall|v: usize| #![trigger self.vertices@.contains_key(v)] it.index@ + 1 == it.seq().len() && self.vertices@.contains_key(v) implies permanent_marks@.contains(v) by {
            assert(self.vertices@.dom().contains(v));
            let j = choose|j: int| 0 <= j < it.seq().len() && *#[trigger] it.seq()[j] == v;
            if j < it.index@ { assert(pm1.contains(*it.seq()[j])); }
        }
    }
//@ before 0 `let out__: Vec<usize> = order`
    let ghost ordf = order@;
//@ before 0 `Ok(out__)`
    proof {
        let es = self.edges@.dom();
        lemma_reverse_is_forward(es, ordf, out__@);
        if out__@.no_duplicates() && edges_forward(es, out__@) && (forall|v: usize| #![trigger out__@.contains(v)] out__@.contains(v) <==> ordf.contains(v)) {
            assert forall|a: usize, b: usize| #![trigger es.contains((a, b))] es.contains((a, b)) implies out__@.contains(a) && out__@.contains(b) by {
                assert(self.edges@.contains_key((a, b)));
                assert(self.vertices@.contains_key(a) && self.vertices@.contains_key(b));
            }
            lemma_forward_acyclic(es, out__@);
        }
    }
//@ end


//@ fn impl<V, E> Graph<V, E> :: fn is_acyclic loops=1
//@ rewrite 1 `temporary_marks: &mut FxHashSet<usize>, ) -> bool {` => `temporary_marks: &mut FxHashSet<usize>, ) -> (res: bool) requires graph.acy_dfs_pre(node, old(permanent_marks)@, old(temporary_marks)@), ensures /*@post*/ graph.acy_dfs_post(node, old(permanent_marks)@, old(temporary_marks)@, final(permanent_marks)@, final(temporary_marks)@, res), decreases graph.vertices@.dom().len() - old(permanent_marks)@.len() - old(temporary_marks)@.len(), {` ## R-nested-contract: attaches requires / ensures / decreases (defined as spec fns in the template) to the signature of the nested fn; executable tokens unchanged apart from naming the result
//@ rewrite 1 `let successors_are_acyclic = graph` => `let mut successors_are_acyclic = true; for successor in it: graph` ## R-all: `let b = ITER.all(|x| { P });` is by definition `let mut b = true; for x in ITER { if !{ P } { b = false; break; } }` (short-circuiting; part 1 of 3; ITER and P stay the original tokens; Verus has no model of a closure that captures `&mut` state and recurses)
//@ rewrite 1 `.all(|successor| {` => `{ if !{` ## R-all: part 2 of 3
//@ rewrite 1 `) });` => `) } { successors_are_acyclic = false; break; } }` ## R-all: part 3 of 3
//@ spec
    requires self.graph_wf(), self.vertices@.contains_key(root),
    ensures
        /*@iff*/ r == acyclic_from(self.edges@.dom(), root),
//@ before 0 `return false; } temporary_marks.insert(node);`
    proof {
        lemma_path_refl(graph.edges@.dom(), node);
        assert(path_plus(graph.edges@.dom(), node, node));
    }
//@ after 0 `temporary_marks.insert(node);`
    proof {
        lemma_disjoint_subsets_len(permanent_marks@, temporary_marks@, graph.vertices@.dom());
    }
//@ loop 0
    invariant
        graph.graph_wf(), graph.vertices@.contains_key(node),
        seq_lists_set_ref(it.seq(), graph.successors@[node]@),
        !old(temporary_marks)@.contains(node), !old(permanent_marks)@.contains(node),
        forall|t: usize| #![trigger old(temporary_marks)@.contains(t)] old(temporary_marks)@.contains(t) ==> path_plus(graph.edges@.dom(), t, node),
        old(permanent_marks)@.len() + old(temporary_marks)@.len() + 1 <= graph.vertices@.dom().len(),
    invariant_except_break
        successors_are_acyclic,
        acy_inv(graph.vertices@.dom(), graph.edges@.dom(), permanent_marks@, temporary_marks@),
        temporary_marks@ == old(temporary_marks)@.insert(node),
        old(permanent_marks)@.subset_of(permanent_marks@),
        forall|j: int| 0 <= j < it.index@ ==> permanent_marks@.contains(*#[trigger] it.seq()[j]),
        forall|w: usize| #![trigger graph.edges@.contains_key((node, w))] it.index@ == it.seq().len() && graph.edges@.contains_key((node, w)) ==> permanent_marks@.contains(w),
    ensures
        successors_are_acyclic ==> acy_inv(graph.vertices@.dom(), graph.edges@.dom(), permanent_marks@, temporary_marks@)
            && temporary_marks@ == old(temporary_marks)@.insert(node) && old(permanent_marks)@.subset_of(permanent_marks@)
            && (forall|w: usize| #![trigger graph.edges@.contains_key((node, w))] graph.edges@.contains_key((node, w)) ==> permanent_marks@.contains(w)),
        !successors_are_acyclic ==> cycle_reachable(graph.edges@.dom(), node),
//@ before 0 `if !{ dfs_is_acyclic(graph, *successor, permanent_marks, temporary_marks) }`
    let ghost pm1 = permanent_marks@;
    proof {
        let es = graph.edges@.dom();
        lemma_seq_lists_set_ref(it.seq(), graph.successors@[node]@);
        assert(graph.successors@[node]@.contains(*successor));
        assert(graph.edges@.contains_key((node, *successor)));
        lemma_path_edge(es, node, *successor);
        assert forall|t: usize| #![trigger temporary_marks@.contains(t)] temporary_marks@.contains(t) implies path_plus(es, t, *successor) by {
            if t != node {
                lemma_path_plus_trans_l(es, t, node, *successor);
            }
        }
        vstd::set_lib::lemma_len_subset(old(permanent_marks)@, pm1);
        lemma_disjoint_subsets_len(pm1, temporary_marks@, graph.vertices@.dom());
    }
//@ before 0 `successors_are_acyclic = false; break;`
    proof {
        let es = graph.edges@.dom();
        let v = choose|v: usize| path(es, *successor, v) && #[trigger] path_plus(es, v, v);
        lemma_path_trans(es, node, *successor, v);
        assert(path(es, node, v) && path_plus(es, v, v));
    }
//@ after 0 `{ successors_are_acyclic = false; break; }`
    proof {
        assert forall|w: usize| #![trigger graph.edges@.contains_key((node, w))] it.index@ + 1 == it.seq().len() && graph.edges@.contains_key((node, w)) implies permanent_marks@.contains(w) by {
            assert(graph.successors@[node]@.contains(w));
            let j = choose|j: int| 0 <= j < it.seq().len() && *#[trigger] it.seq()[j] == w;
            if j < it.index@ { assert(pm1.contains(*it.seq()[j])); }
        }
    }
//@ before 0 `temporary_marks.remove(&node);`
    let ghost pml = permanent_marks@;
//@ after 0 `permanent_marks.insert(node);`
    proof {
        let es = graph.edges@.dom();
        assert(temporary_marks@ =~= old(temporary_marks)@);
        assert(!pml.contains(node));
        // node lies on no cycle: a cycle would leave node through a permanently marked successor,
        // and the permanently marked set is closed and does not contain node
        if path_plus(es, node, node) {
            lemma_path_plus_first(es, node, node);
            let w = choose|w: usize| es.contains((node, w)) && path(es, w, node);
            assert(graph.edges@.contains_key((node, w)));
            lemma_closed_no_path_out(es, pml, w, node);
        }
    }
//@ before 0 `dfs_is_acyclic(self, root, &mut permanent_marks, &mut temporary_marks)`
    proof {
        assert(acy_inv(self.vertices@.dom(), self.edges@.dom(), permanent_marks@, temporary_marks@));
    }
//@ end

} // impl Graph (traversals)
