// ======================================================================================
// units/C11/graph_trav.rs — traversals of falcon::graph::Graph under contract (phase 2):
// pre-order, post-order, topological order, acyclicity, transitive predecessors, DFS tree,
// acyclic sub-graph.   Uses the vocabulary of graph_core.rs.
// ======================================================================================
//@ source lib/graph/mod.rs

/// x has a predecessor among the first n elements of o
pub open spec fn has_earlier_pred(es: Set<(usize, usize)>, o: Seq<usize>, n: int, x: usize) -> bool {
    exists|j: int| 0 <= j < n && j < o.len() && es.contains((#[trigger] o[j], x))
}

/// position of an element in a duplicate-free sequence that contains it
pub open spec fn pos_of(o: Seq<usize>, x: usize) -> int {
    choose|i: int| 0 <= i < o.len() && o[i] == x
}

/// w occurs in o strictly before position i
pub open spec fn index_before(o: Seq<usize>, w: usize, i: int) -> bool {
    exists|j: int| 0 <= j < i && j < o.len() && #[trigger] o[j] == w
}

/// gray = discovered but not yet finished
pub open spec fn is_gray(visited: Set<usize>, order: Seq<usize>, x: usize) -> bool {
    visited.contains(x) && !order.contains(x)
}

/// bookkeeping invariant of the recursive post-order DFS: `order` lists the finished vertices in
/// finishing order; every successor of a finished vertex is discovered, and it either finished
/// earlier or it is an ancestor (there is a path back from it: the edge closes a cycle)
pub open spec fn post_inv(vs: Set<usize>, es: Set<(usize, usize)>, visited: Set<usize>, order: Seq<usize>) -> bool {
    &&& order.no_duplicates()
    &&& forall|i: int| 0 <= i < order.len() ==> visited.contains(#[trigger] order[i])
    &&& visited.subset_of(vs)
    &&& forall|i: int, w: usize| #![trigger es.contains((order[i], w))] 0 <= i < order.len() && es.contains((order[i], w))
            ==> visited.contains(w) && (index_before(order, w, i) || path(es, w, order[i]))
}

/// bookkeeping invariant of the marking DFS used for topological sorting: `order` lists the
/// permanently marked vertices; every successor of a permanently marked vertex was marked earlier
pub open spec fn topo_inv(vs: Set<usize>, es: Set<(usize, usize)>, perm: Set<usize>, temp: Set<usize>, order: Seq<usize>) -> bool {
    &&& order.no_duplicates()
    &&& forall|x: usize| #![trigger perm.contains(x)] #![trigger order.contains(x)] perm.contains(x) <==> order.contains(x)
    &&& perm.subset_of(vs) && temp.subset_of(vs) && perm.disjoint(temp)
    &&& forall|i: int, w: usize| #![trigger es.contains((order[i], w))] 0 <= i < order.len() && es.contains((order[i], w)) ==> index_before(order, w, i)
}

/// o is a topological order of es: every edge goes forward
pub open spec fn edges_forward(es: Set<(usize, usize)>, o: Seq<usize>) -> bool {
    forall|i: int, j: int| #![trigger es.contains((o[i], o[j]))] 0 <= i < o.len() && 0 <= j < o.len() && es.contains((o[i], o[j])) ==> i < j
}

pub proof fn lemma_disjoint_subsets_len(p: Set<usize>, t: Set<usize>, vs: Set<usize>)
    requires p.subset_of(vs), t.subset_of(vs), p.disjoint(t),
    ensures p.len() + t.len() <= vs.len(),
{
    vstd::set_lib::lemma_set_disjoint_lens(p, t);
    vstd::set_lib::lemma_len_subset(p + t, vs);
}

/// along a walk in a graph that has a topological order, positions strictly increase
pub proof fn lemma_walk_forward(es: Set<(usize, usize)>, o: Seq<usize>, p: Seq<usize>, k: int)
    requires
        is_walk(es, p), 1 <= k < p.len(), edges_forward(es, o),
        forall|a: usize, b: usize| #![trigger es.contains((a, b))] es.contains((a, b)) ==> o.contains(a) && o.contains(b),
    ensures exists|i: int, j: int| 0 <= i < j < o.len() && o[i] == p[0] && o[j] == p[k],
    decreases k,
{
    assert(walk_edge(es, p, k - 1));
    assert(es.contains((p[k - 1], p[k])));
    let a = choose|a: int| 0 <= a < o.len() && o[a] == p[k - 1];
    let b = choose|b: int| 0 <= b < o.len() && o[b] == p[k];
    assert(es.contains((o[a], o[b])));
    if k == 1 {
        assert(0 <= a < b < o.len() && o[a] == p[0] && o[b] == p[k]);
    } else {
        lemma_walk_forward(es, o, p, k - 1);
        let (i, j) = choose|i: int, j: int| 0 <= i < j < o.len() && o[i] == p[0] && o[j] == p[k - 1];
        // o[j] == o[a] == p[k-1]; positions of equal elements may differ only if o has duplicates,
        // but edges_forward applies to (j, b) directly
        assert(es.contains((o[j], o[b])));
        assert(0 <= i < b < o.len() && o[i] == p[0] && o[b] == p[k]);
    }
}

/// a graph that has a topological order (duplicate-free) has no cycle
pub proof fn lemma_forward_acyclic(es: Set<(usize, usize)>, o: Seq<usize>)
    requires
        o.no_duplicates(), edges_forward(es, o),
        forall|a: usize, b: usize| #![trigger es.contains((a, b))] es.contains((a, b)) ==> o.contains(a) && o.contains(b),
    ensures acyclic(es),
{
    assert forall|v: usize| !path_plus(es, v, v) by {
        if path_plus(es, v, v) {
            let p = choose|p: Seq<usize>| #![trigger is_walk(es, p)] is_walk(es, p) && p.len() >= 2 && p[0] == v && p.last() == v;
            lemma_walk_forward(es, o, p, p.len() - 1);
            let (i, j) = choose|i: int, j: int| 0 <= i < j < o.len() && o[i] == p[0] && o[j] == p[p.len() - 1];
            assert(o[i] == o[j]);
        }
    }
}

/// reversing a finishing order in which every successor finished earlier gives a topological order
pub proof fn lemma_reverse_is_forward(es: Set<(usize, usize)>, o: Seq<usize>, r: Seq<usize>)
    requires
        o.no_duplicates(),
        forall|i: int, w: usize| #![trigger es.contains((o[i], w))] 0 <= i < o.len() && es.contains((o[i], w)) ==> index_before(o, w, i),
    ensures
        // stated as an implication so that a caller whose `r` is NOT the reverse learns nothing
        (r.len() == o.len() && forall|i: int| 0 <= i < r.len() ==> r[i] == o[o.len() - 1 - i]) ==> {
            &&& r.no_duplicates()
            &&& edges_forward(es, r)
            &&& forall|v: usize| #![trigger r.contains(v)] r.contains(v) <==> o.contains(v)
        },
{
    if !(r.len() == o.len() && forall|i: int| 0 <= i < r.len() ==> r[i] == o[o.len() - 1 - i]) { return; }
    let n = o.len() as int;
    assert forall|i: int, j: int| 0 <= i < r.len() && 0 <= j < r.len() && i != j implies r[i] != r[j] by {
        assert(r[i] == o[n - 1 - i] && r[j] == o[n - 1 - j]);
    }
    assert forall|i: int, j: int| #![trigger es.contains((r[i], r[j]))] 0 <= i < r.len() && 0 <= j < r.len() && es.contains((r[i], r[j])) implies i < j by {
        assert(r[i] == o[n - 1 - i] && r[j] == o[n - 1 - j]);
        assert(es.contains((o[n - 1 - i], r[j])));
        assert(index_before(o, r[j], n - 1 - i));
        let k = choose|k: int| 0 <= k < n - 1 - i && k < o.len() && #[trigger] o[k] == r[j];
        assert(k == n - 1 - j);
    }
    assert forall|v: usize| #![trigger r.contains(v)] r.contains(v) <==> o.contains(v) by {
        if r.contains(v) {
            let i = choose|i: int| 0 <= i < r.len() && r[i] == v;
            assert(o[n - 1 - i] == v);
        }
        if o.contains(v) {
            let i = choose|i: int| 0 <= i < o.len() && o[i] == v;
            assert(r[n - 1 - i] == v);
        }
    }
}

/// a cycle is reachable from node
pub open spec fn cycle_reachable(es: Set<(usize, usize)>, node: usize) -> bool {
    exists|v: usize| path(es, node, v) && #[trigger] path_plus(es, v, v)
}

/// bookkeeping invariant of the marking DFS used by is_acyclic: permanently marked vertices are
/// closed under successors and lie on no cycle
pub open spec fn acy_inv(vs: Set<usize>, es: Set<(usize, usize)>, perm: Set<usize>, temp: Set<usize>) -> bool {
    &&& perm.subset_of(vs) && temp.subset_of(vs) && perm.disjoint(temp)
    &&& forall|a: usize, b: usize| #![trigger es.contains((a, b))] perm.contains(a) && es.contains((a, b)) ==> perm.contains(b)
    &&& forall|p: usize| #![trigger perm.contains(p)] perm.contains(p) ==> !path_plus(es, p, p)
}

/// a set closed under edges that does not contain x contains nothing that reaches x
pub proof fn lemma_closed_no_path_out(es: Set<(usize, usize)>, s: Set<usize>, a: usize, x: usize)
    requires
        s.contains(a), !s.contains(x), path(es, a, x),
        forall|u: usize, w: usize| #![trigger es.contains((u, w))] s.contains(u) && es.contains((u, w)) ==> s.contains(w),
    ensures false,
{
    let f = |v: usize| s.contains(v);
    lemma_path_closed(es, f, a, x);
}

/// t is a spanning out-tree (arborescence) of the part of (vs, es) reachable from root:
/// its vertices are exactly the reachable ones, its edges are edges of the graph, the root has no
/// tree predecessor, every other tree vertex has exactly one, and every tree vertex is reachable
/// from the root inside the tree
pub open spec fn is_spanning_tree_of(t: &Graph<NullVertex, NullEdge>, es: Set<(usize, usize)>, root: usize) -> bool {
    &&& t.graph_wf()
    &&& forall|v: usize| #![trigger t.vertices@.contains_key(v)] t.vertices@.contains_key(v) <==> path(es, root, v)
    &&& forall|e: (usize, usize)| #![trigger t.edges@.contains_key(e)] t.edges@.contains_key(e) ==> es.contains(e)
    &&& t.predecessors@[root]@.len() == 0
    &&& forall|v: usize| #![trigger t.predecessors@[v]] t.vertices@.contains_key(v) && v != root ==> t.predecessors@[v]@.len() == 1
    &&& forall|v: usize| #![trigger t.vertices@.contains_key(v)] t.vertices@.contains_key(v) ==> path(t.edges@.dom(), root, v)
}

/// the part of the spanning-tree property that holds while the tree is being built
pub open spec fn tree_inv(t: &Graph<NullVertex, NullEdge>, vs: Set<usize>, es: Set<(usize, usize)>, root: usize) -> bool {
    &&& t.graph_wf()
    &&& t.vertices@.contains_key(root)
    &&& t.vertices@.dom().subset_of(vs)
    &&& forall|v: usize| #![trigger t.vertices@.contains_key(v)] t.vertices@.contains_key(v) ==> path(es, root, v)
    &&& forall|e: (usize, usize)| #![trigger t.edges@.contains_key(e)] t.edges@.contains_key(e) ==> es.contains(e)
    &&& t.predecessors@[root]@.len() == 0
    &&& forall|v: usize| #![trigger t.predecessors@[v]] t.vertices@.contains_key(v) && v != root ==> t.predecessors@[v]@.len() == 1
    &&& forall|v: usize| #![trigger t.vertices@.contains_key(v)] t.vertices@.contains_key(v) ==> path(t.edges@.dom(), root, v)
}

/// injective encoding of a pair of machine words as one integer below 2^128 (termination measure
/// of the fixpoint iteration in compute_predecessors: the set of codes only grows and is bounded)
pub open spec fn pair_code(u: usize, v: usize) -> int { u as int * 0x1_0000_0000_0000_0000 + v as int }
pub open spec fn CODE_BOUND() -> int { 0x1_0000_0000_0000_0000int * 0x1_0000_0000_0000_0000int }

pub type PredMap = Map<usize, FxHashSet<usize>>;

/// every recorded predecessor is a transitive predecessor
pub open spec fn preds_sound(es: Set<(usize, usize)>, pm: PredMap) -> bool {
    forall|v: usize, u: usize| #![trigger pm[v]@.contains(u)] pm.contains_key(v) && pm[v]@.contains(u) ==> path_plus(es, u, v)
}

/// every direct predecessor is recorded
pub open spec fn preds_direct(es: Set<(usize, usize)>, pm: PredMap) -> bool {
    forall|u: usize, v: usize| #![trigger es.contains((u, v))] es.contains((u, v)) ==> pm.contains_key(v) && pm[v]@.contains(u)
}

/// pm extends pm0 pointwise
pub open spec fn preds_mono(pm0: PredMap, pm: PredMap) -> bool {
    &&& pm.dom() == pm0.dom()
    &&& forall|v: usize, u: usize| #![trigger pm0[v]@.contains(u)] #![trigger pm[v]@.contains(u)] pm0.contains_key(v) && pm0[v]@.contains(u) ==> pm[v]@.contains(u)
}

/// the ghost set of codes mirrors the recorded pairs
pub open spec fn codes_match(codes: Set<int>, pm: PredMap) -> bool {
    &&& codes.subset_of(vstd::set_lib::set_int_range(0, CODE_BOUND()))
    &&& forall|u: usize, v: usize| #![trigger codes.contains(pair_code(u, v))] codes.contains(pair_code(u, v)) <==> (pm.contains_key(v) && pm[v]@.contains(u))
}

/// the same while the set of vertex s is borrowed out of the map and currently has view sp
pub open spec fn codes_match_upd(codes: Set<int>, pm: PredMap, s: usize, sp: Set<usize>) -> bool {
    &&& codes.subset_of(vstd::set_lib::set_int_range(0, CODE_BOUND()))
    &&& forall|u: usize, v: usize| #![trigger codes.contains(pair_code(u, v))] codes.contains(pair_code(u, v))
            <==> (if v == s { sp.contains(u) } else { pm.contains_key(v) && pm[v]@.contains(u) })
}

/// x's set is propagated to all its successors, unless x is still queued
pub open spec fn preds_propagated(es: Set<(usize, usize)>, pm: PredMap, queue: Seq<usize>) -> bool {
    forall|x: usize, s: usize, u: usize| #![trigger es.contains((x, s)), pm[x]@.contains(u)]
        es.contains((x, s)) && pm.contains_key(x) && pm[x]@.contains(u) && !queue.contains(x) ==> pm[s]@.contains(u)
}

pub proof fn lemma_codes_len(codes: Set<int>)
    requires codes.subset_of(vstd::set_lib::set_int_range(0, CODE_BOUND())),
    ensures codes.len() <= CODE_BOUND(),
{
    vstd::set_lib::lemma_int_range(0, CODE_BOUND());
    vstd::set_lib::lemma_len_subset(codes, vstd::set_lib::set_int_range(0, CODE_BOUND()));
}

/// the initial set of codes: one per edge
pub proof fn lemma_codes_of_edges(es: Set<(usize, usize)>, pm: PredMap) -> (codes: Set<int>)
    requires
        forall|u: usize, v: usize| #![trigger es.contains((u, v))] es.contains((u, v)) <==> (pm.contains_key(v) && pm[v]@.contains(u)),
    ensures codes_match(codes, pm),
{
    let codes = es.map(|e: (usize, usize)| pair_code(e.0, e.1));
    assert forall|c: int| codes.contains(c) implies vstd::set_lib::set_int_range(0, CODE_BOUND()).contains(c) by {
        let e = choose|e: (usize, usize)| es.contains(e) && pair_code(e.0, e.1) == c;
    }
    assert forall|u: usize, v: usize| #![trigger codes.contains(pair_code(u, v))] codes.contains(pair_code(u, v)) <==> (pm.contains_key(v) && pm[v]@.contains(u)) by {
        if codes.contains(pair_code(u, v)) {
            let e = choose|e: (usize, usize)| es.contains(e) && pair_code(e.0, e.1) == pair_code(u, v);
            assert(e.0 == u && e.1 == v);
            assert(e == (u, v));
        }
        if pm.contains_key(v) && pm[v]@.contains(u) {
            assert(es.contains((u, v)));
        }
    }
    codes
}

/// at a fixpoint the recorded sets are exactly the transitive predecessors
pub proof fn lemma_preds_complete(es: Set<(usize, usize)>, pm: PredMap, u: usize, v: usize)
    requires
        preds_direct(es, pm), preds_propagated(es, pm, Seq::<usize>::empty()), path_plus(es, u, v),
        forall|a: usize, b: usize| #![trigger es.contains((a, b))] es.contains((a, b)) ==> pm.contains_key(a) && pm.contains_key(b),
    ensures pm.contains_key(v) && pm[v]@.contains(u),
{
    lemma_path_plus_first(es, u, v);
    let w = choose|w: usize| es.contains((u, w)) && path(es, w, v);
    let f = |x: usize| pm.contains_key(x) && pm[x]@.contains(u);
    assert(f(w));
    assert forall|a: usize, b: usize| #![trigger es.contains((a, b))] f(a) && es.contains((a, b)) implies f(b) by {
        assert(!Seq::<usize>::empty().contains(a));
        assert(pm[a]@.contains(u));
    }
    lemma_path_closed(es, f, w, v);
}

// ---- compute_acyclic: vocabulary and the acyclicity argument ---------------------------------

/// an edge e was kept by compute_acyclic although its tail was already dequeued (at or before its
/// head) only if the tail is no transitive predecessor of the head
pub open spec fn kept_ok(es: Set<(usize, usize)>, deq: Seq<usize>, e: (usize, usize)) -> bool {
    forall|i: int, j: int| #![trigger deq[i], deq[j]] 0 <= j <= i < deq.len() && deq[i] == e.0 && deq[j] == e.1 ==> !path_plus(es, e.1, e.0)
}

pub proof fn lemma_subwalk(es: Set<(usize, usize)>, p: Seq<usize>, i: int, j: int)
    requires is_walk(es, p), 0 <= i <= j < p.len(),
    ensures is_walk(es, p.subrange(i, j + 1)), p.subrange(i, j + 1)[0] == p[i], p.subrange(i, j + 1).last() == p[j], p.subrange(i, j + 1).len() == j - i + 1,
{
    let q = p.subrange(i, j + 1);
    assert forall|k: int| 0 <= k < q.len() - 1 implies #[trigger] walk_edge(es, q, k) by {
        assert(walk_edge(es, p, i + k));
        assert(q[k] == p[i + k] && q[k + 1] == p[i + k + 1]);
    }
}

/// on a closed walk, the successor of p[k] reaches p[k] again by at least one edge
pub proof fn lemma_cycle_rotate(es: Set<(usize, usize)>, p: Seq<usize>, k: int)
    requires is_walk(es, p), p.len() >= 2, p[0] == p.last(), 0 <= k < p.len() - 1,
    ensures path_plus(es, p[k + 1], p[k]),
{
    let n = p.len() - 1;
    // A: from p[k+1] to p[n] == p[0]
    lemma_subwalk(es, p, k + 1, n);
    let a = p.subrange(k + 1, n + 1);
    assert(is_walk(es, a) && a[0] == p[k + 1] && a.last() == p[0]);
    assert(path(es, p[k + 1], p[0]));
    if k == 0 {
        if n == 1 {
            assert(walk_edge(es, p, 0));
            lemma_path_edge(es, p[0], p[1]);
        } else {
            assert(a.len() >= 2);
            assert(path_plus(es, p[k + 1], p[k]));
        }
    } else {
        // B: from p[0] to p[k], k >= 1 edges
        lemma_subwalk(es, p, 0, k);
        let b = p.subrange(0, k + 1);
        assert(is_walk(es, b) && b.len() >= 2 && b[0] == p[0] && b.last() == p[k]);
        assert(path_plus(es, p[0], p[k]));
        lemma_path_plus_trans_r(es, p[k + 1], p[0], p[k]);
    }
}

/// among the first m vertices of p (all dequeued) one has the largest dequeue position
pub proof fn lemma_argmax_pos(deq: Seq<usize>, p: Seq<usize>, m: int) -> (k: int)
    requires 1 <= m <= p.len(), forall|i: int| 0 <= i < m ==> deq.contains(#[trigger] p[i]),
    ensures 0 <= k < m, forall|i: int| 0 <= i < m ==> pos_of(deq, #[trigger] p[i]) <= pos_of(deq, p[k]),
    decreases m,
{
    if m == 1 {
        0
    } else {
        let k0 = lemma_argmax_pos(deq, p, m - 1);
        if pos_of(deq, p[m - 1]) > pos_of(deq, p[k0]) { m - 1 } else { k0 }
    }
}

/// the kept edges form an acyclic graph
pub proof fn lemma_kept_acyclic(es: Set<(usize, usize)>, ge: Set<(usize, usize)>, deq: Seq<usize>)
    requires
        deq.no_duplicates(),
        forall|e: (usize, usize)| #![trigger ge.contains(e)] ge.contains(e) ==> es.contains(e) && deq.contains(e.0) && kept_ok(es, deq, e),
    ensures acyclic(ge),
{
    assert forall|v: usize| !path_plus(ge, v, v) by {
        if path_plus(ge, v, v) {
            let p = choose|p: Seq<usize>| #![trigger is_walk(ge, p)] is_walk(ge, p) && p.len() >= 2 && p[0] == v && p.last() == v;
            let n = p.len() - 1;
            assert forall|i: int| 0 <= i < n implies deq.contains(#[trigger] p[i]) by {
                assert(walk_edge(ge, p, i));
                assert(ge.contains((p[i], p[i + 1])));
            }
            let k = lemma_argmax_pos(deq, p, n);
            assert(walk_edge(ge, p, k));
            let e = (p[k], p[k + 1]);
            assert(ge.contains(e));
            let b = p[k + 1];
            if k + 1 < n {
                assert(deq.contains(p[k + 1]));
                assert(pos_of(deq, p[k + 1]) <= pos_of(deq, p[k]));
            } else {
                assert(b == p[0]);
                assert(deq.contains(p[0]));
                assert(pos_of(deq, p[0]) <= pos_of(deq, p[k]));
            }
            let i = pos_of(deq, p[k]);
            let j = pos_of(deq, b);
            assert(0 <= j <= i < deq.len() && deq[i] == e.0 && deq[j] == e.1);
            assert(kept_ok(es, deq, e));
            assert(!path_plus(es, b, p[k]));
            lemma_cycle_rotate(ge, p, k);
            assert(ge.subset_of(es));
            lemma_path_plus_mono(ge, es, b, p[k]);
        }
    }
}

/// invariant of compute_acyclic's breadth-first construction over the fixed data (es = edges of
/// the source graph, ge = edges kept so far, deq = vertices dequeued so far, in order)
pub open spec fn acyc_build_inv(vs: Set<usize>, es: Set<(usize, usize)>, ge: Set<(usize, usize)>, deq: Seq<usize>, visited: Set<usize>, start: usize) -> bool {
    &&& deq.no_duplicates()
    &&& forall|x: usize| #![trigger visited.contains(x)] #![trigger deq.contains(x)] visited.contains(x) <==> deq.contains(x)
    &&& forall|x: usize| #![trigger visited.contains(x)] visited.contains(x) ==> vs.contains(x) && path(es, start, x) && path(ge, start, x)
    &&& forall|e: (usize, usize)| #![trigger ge.contains(e)] ge.contains(e) ==> es.contains(e) && deq.contains(e.0) && kept_ok(es, deq, e)
}

/// the queued vertices are distinct, unvisited, vertices, and reachable from start in both graphs
pub open spec fn acyc_queue_ok(vs: Set<usize>, es: Set<(usize, usize)>, ge: Set<(usize, usize)>, queue: Seq<usize>, visited: Set<usize>, start: usize) -> bool {
    &&& queue.no_duplicates()
    &&& forall|i: int| 0 <= i < queue.len() ==> vs.contains(#[trigger] queue[i]) && !visited.contains(queue[i]) && path(es, start, queue[i]) && path(ge, start, queue[i])
}

/// kept_ok survives appending to deq a vertex that is neither endpoint ... in fact any fresh vertex
pub proof fn lemma_kept_ok_push(es: Set<(usize, usize)>, deq: Seq<usize>, x: usize, e: (usize, usize))
    requires kept_ok(es, deq, e), !deq.contains(x), deq.contains(e.0),
    ensures kept_ok(es, deq.push(x), e),
{
    let d2 = deq.push(x);
    assert forall|i: int, j: int| #![trigger d2[i], d2[j]] 0 <= j <= i < d2.len() && d2[i] == e.0 && d2[j] == e.1 implies !path_plus(es, e.1, e.0) by {
        if i == deq.len() {
            // d2[i] == x == e.0, but e.0 is in deq and x is not
            assert(deq.contains(e.0));
        } else {
            assert(d2[i] == deq[i] && d2[j] == deq[j]);
        }
    }
}

impl<V, E> Graph<V, E>
where
    V: Vertex,
    E: Edge,
{
    /// precondition of `dfs_is_acyclic(graph, node, permanent_marks, temporary_marks)`
    pub open spec fn acy_dfs_pre(&self, node: usize, perm: Set<usize>, temp: Set<usize>) -> bool {
        &&& self.graph_wf()
        &&& self.vertices@.contains_key(node)
        &&& acy_inv(self.vertices@.dom(), self.edges@.dom(), perm, temp)
        &&& forall|t: usize| #![trigger temp.contains(t)] temp.contains(t) ==> path_plus(self.edges@.dom(), t, node)
    }

    /// postcondition of `dfs_is_acyclic`
    pub open spec fn acy_dfs_post(&self, node: usize, perm0: Set<usize>, temp0: Set<usize>, perm: Set<usize>, temp: Set<usize>, res: bool) -> bool {
        &&& res ==> {
            &&& acy_inv(self.vertices@.dom(), self.edges@.dom(), perm, temp)
            &&& temp == temp0
            &&& perm0.subset_of(perm) && perm.contains(node)
        }
        &&& !res ==> cycle_reachable(self.edges@.dom(), node)
    }

    /// precondition of topological `dfs_walk(graph, node, permanent_marks, temporary_marks, order)`
    pub open spec fn topo_dfs_pre(&self, node: usize, perm: Set<usize>, temp: Set<usize>, order: Seq<usize>) -> bool {
        &&& self.graph_wf()
        &&& self.vertices@.contains_key(node)
        &&& topo_inv(self.vertices@.dom(), self.edges@.dom(), perm, temp, order)
        &&& forall|t: usize| #![trigger temp.contains(t)] temp.contains(t) ==> path_plus(self.edges@.dom(), t, node)
    }

    /// postcondition of topological `dfs_walk`
    pub open spec fn topo_dfs_post(&self, node: usize, perm0: Set<usize>, temp0: Set<usize>, order0: Seq<usize>,
        perm: Set<usize>, temp: Set<usize>, order: Seq<usize>, res: Result<(), Error>) -> bool {
        &&& res is Ok ==> {
            &&& topo_inv(self.vertices@.dom(), self.edges@.dom(), perm, temp, order)
            &&& temp == temp0
            &&& order.len() >= order0.len() && order.subrange(0, order0.len() as int) =~= order0
            &&& perm0.subset_of(perm) && perm.contains(node)
        }
        &&& res matches Err(e) ==> e is Custom && !acyclic(self.edges@.dom())
    }

    /// precondition of post-order `dfs_walk(graph, node, visited, order)`
    pub open spec fn post_dfs_pre(&self, node: usize, visited: Set<usize>, order: Seq<usize>) -> bool {
        &&& self.graph_wf()
        &&& self.vertices@.contains_key(node)
        &&& !visited.contains(node)
        &&& post_inv(self.vertices@.dom(), self.edges@.dom(), visited, order)
        &&& forall|x: usize| #![trigger is_gray(visited, order, x)] is_gray(visited, order, x) ==> path(self.edges@.dom(), x, node)
    }

    /// postcondition of post-order `dfs_walk`
    pub open spec fn post_dfs_post(&self, node: usize, visited0: Set<usize>, order0: Seq<usize>, visited: Set<usize>, order: Seq<usize>, res: Result<(), Error>) -> bool {
        &&& res is Ok
        &&& post_inv(self.vertices@.dom(), self.edges@.dom(), visited, order)
        &&& order.len() > order0.len() && order.subrange(0, order0.len() as int) =~= order0
        &&& order.last() == node
        &&& visited0.subset_of(visited)
        &&& forall|x: usize| #![trigger is_gray(visited, order, x)] #![trigger is_gray(visited0, order0, x)] is_gray(visited, order, x) <==> is_gray(visited0, order0, x)
        &&& forall|x: usize| #![trigger visited.contains(x)] visited.contains(x) && !visited0.contains(x) ==> path(self.edges@.dom(), node, x)
    }

//@ fn impl<V, E> Graph<V, E> :: fn compute_pre_order loops=2
//@ rewrite 1 `for &successor in` => `for successor__r in it:` ## R-ref-pattern: `for &x in ITER { BODY }` is `for x__r in ITER { let x = *x__r; BODY }` for Copy items (part 1 of 2; Verus has no `&` patterns; the iterator expression stays the original tokens)
//@ rewrite 1 `{ stack.push(successor);` => `{ let successor = *successor__r; stack.push(successor);` ## R-ref-pattern: part 2 of 2
//@ spec
    requires self.graph_wf(),
    ensures
        /*@missing*/ !self.vertices@.contains_key(root) ==> r == Err::<Vec<usize>, Error>(Error::GraphVertexNotFound(root)),
        /*@ok*/ self.vertices@.contains_key(root) ==> r is Ok,
        /*@nodup*/ r matches Ok(o) ==> o@.no_duplicates(),
        /*@exact*/ r matches Ok(o) ==> forall|v: usize| #![trigger o@.contains(v)] o@.contains(v) <==> self.reaches(root, v),
        /*@root_first*/ r matches Ok(o) ==> o@.len() > 0 && o@[0] == root,
        /*@parent_first*/ r matches Ok(o) ==> forall|i: int| 1 <= i < o@.len() ==> has_earlier_pred(self.edges@.dom(), o@, i, #[trigger] o@[i]),
//@ before 0 `while let Some(node)`
    let ghost mut gs: Seq<usize> = stack@;
    proof {
        lemma_path_refl(self.edges@.dom(), root);
        assert(stack@ =~= seq![root]);
        vstd::set_lib::lemma_len_subset(visited@, self.vertices@.dom());
    }
//@ loop 0
    invariant
        gs == stack@,
        self.graph_wf(), self.vertices@.contains_key(root),
        order@.no_duplicates(),
        forall|v: usize| #![trigger visited@.contains(v)] #![trigger order@.contains(v)] visited@.contains(v) <==> order@.contains(v),
        visited@.subset_of(self.vertices@.dom()),
        forall|v: usize| #![trigger visited@.contains(v)] visited@.contains(v) ==> self.reaches(root, v),
        forall|k: int| 0 <= k < stack@.len() ==> self.reaches(root, #[trigger] stack@[k]),
        forall|a: usize, b: usize| #![trigger self.edges@.contains_key((a, b))]
            visited@.contains(a) && self.edges@.contains_key((a, b)) ==> visited@.contains(b) || stack@.contains(b),
        order@.len() == 0 ==> stack@ =~= seq![root],
        order@.len() > 0 ==> order@[0] == root,
        forall|i: int| 1 <= i < order@.len() ==> has_earlier_pred(self.edges@.dom(), order@, i, #[trigger] order@[i]),
        forall|k: int| 0 <= k < stack@.len() ==> (order@.len() == 0 && stack@[k] == root) || has_earlier_pred(self.edges@.dom(), order@, order@.len() as int, #[trigger] stack@[k]),
    ensures stack@.len() == 0,
    decreases self.vertices@.dom().len() - visited@.len(), stack@.len(),
//@ before 0 `if !visited.insert(node)`
    let ghost order0 = order@;
    let ghost visited0 = visited@;
    proof {
        assert(gs =~= stack@.push(node));
        lemma_push_contains(stack@, node);
        assert(gs[gs.len() - 1] == node);
        assert(self.reaches(root, node));
        self.lemma_reach_is_vertex(root, node);
        vstd::set_lib::lemma_len_subset(visited@, self.vertices@.dom());
        vstd::set_lib::lemma_len_subset(visited@.insert(node), self.vertices@.dom());
        assert forall|k: int| 0 <= k < stack@.len() implies (order@.len() == 0 && stack@[k] == root) || has_earlier_pred(self.edges@.dom(), order@, order@.len() as int, #[trigger] stack@[k]) by {
            assert(gs[k] == stack@[k]);
        }
        assert forall|k: int| 0 <= k < stack@.len() implies self.reaches(root, #[trigger] stack@[k]) by {
            assert(gs[k] == stack@[k]);
        }
    }
//@ before 0 `continue;`
    proof { gs = stack@; }
//@ after 0 `order.push(node);`
    proof {
        lemma_push_contains(order0, node);
        assert(!order0.contains(node));
        assert(order@ =~= order0.push(node));
        assert forall|i: int| 1 <= i < order@.len() implies has_earlier_pred(self.edges@.dom(), order@, i, #[trigger] order@[i]) by {
            if i < order0.len() {
                assert(has_earlier_pred(self.edges@.dom(), order0, i, order0[i]));
                let j = choose|j: int| 0 <= j < i && j < order0.len() && self.edges@.dom().contains((#[trigger] order0[j], order0[i]));
                assert(order@[j] == order0[j]);
            } else {
                assert(has_earlier_pred(self.edges@.dom(), order0, order0.len() as int, node));
                let j = choose|j: int| 0 <= j < order0.len() && self.edges@.dom().contains((#[trigger] order0[j], node));
                assert(order@[j] == order0[j]);
            }
        }
        assert forall|k: int| 0 <= k < stack@.len() implies has_earlier_pred(self.edges@.dom(), order@, order@.len() as int, #[trigger] stack@[k]) by {
            if order0.len() == 0 {
                assert(gs =~= seq![root]);
            } else {
                let j = choose|j: int| 0 <= j < order0.len() && self.edges@.dom().contains((#[trigger] order0[j], stack@[k]));
                assert(order@[j] == order0[j]);
            }
        }
    }
//@ loop 1
    invariant
        self.graph_wf(), self.vertices@.contains_key(root), self.vertices@.contains_key(node),
        /*@iterates_successors*/ seq_lists_set_ref(it.seq(), self.successors@[node]@),
        order@ == order0.push(node), visited@ == visited0.insert(node),
        !visited0.contains(node),
        order@.len() > 0, order@[order@.len() - 1] == node,
        self.reaches(root, node),
        forall|k: int| 0 <= k < stack@.len() ==> self.reaches(root, #[trigger] stack@[k]),
        forall|a: usize, b: usize| #![trigger self.edges@.contains_key((a, b))]
            visited@.contains(a) && a != node && self.edges@.contains_key((a, b)) ==> visited@.contains(b) || stack@.contains(b),
        forall|j: int| 0 <= j < it.index@ ==> stack@.contains(*#[trigger] it.seq()[j]),
        forall|k: int| 0 <= k < stack@.len() ==> has_earlier_pred(self.edges@.dom(), order@, order@.len() as int, #[trigger] stack@[k]),
        forall|b: usize| #![trigger self.edges@.contains_key((node, b))] it.index@ == it.seq().len() && self.edges@.contains_key((node, b)) ==> stack@.contains(b),
//@ before 0 `stack.push(successor);`
    let ghost st0 = stack@;
    proof {
        lemma_seq_lists_set_ref(it.seq(), self.successors@[node]@);
        assert(self.successors@[node]@.contains(successor));
        assert(self.edges@.contains_key((node, successor)));
        lemma_path_step(self.edges@.dom(), root, node, successor);
        lemma_push_contains(st0, successor);
    }
//@ after 0 `stack.push(successor);`
    proof {
        assert(stack@ =~= st0.push(successor));
        assert forall|k: int| 0 <= k < stack@.len() implies has_earlier_pred(self.edges@.dom(), order@, order@.len() as int, #[trigger] stack@[k]) by {
            if k < st0.len() {
                assert(stack@[k] == st0[k]);
            } else {
                assert(self.edges@.dom().contains((order@[order@.len() - 1], successor)));
            }
        }
        assert forall|k: int| 0 <= k < stack@.len() implies self.reaches(root, #[trigger] stack@[k]) by {
            if k < st0.len() { assert(stack@[k] == st0[k]); }
        }
        assert forall|b: usize| #![trigger self.edges@.contains_key((node, b))] it.index@ + 1 == it.seq().len() && self.edges@.contains_key((node, b)) implies stack@.contains(b) by {
            assert(self.successors@[node]@.contains(b));
            let j = choose|j: int| 0 <= j < it.seq().len() && *#[trigger] it.seq()[j] == b;
            if j < it.index@ { assert(st0.contains(*it.seq()[j])); }
        }
    }
//@ after 0 `stack.push(successor); }`
    proof { gs = stack@; }
//@ before 0 `Ok(order)`
    proof {
        assert(order@.len() > 0);
        assert(order@.contains(order@[0]));
        let s = |v: usize| visited@.contains(v);
        assert forall|a: usize, b: usize| #![trigger self.edges@.dom().contains((a, b))] s(a) && self.edges@.dom().contains((a, b)) implies s(b) by {
            assert(self.edges@.contains_key((a, b)));
            assert(!stack@.contains(b));
        }
        assert forall|v: usize| self.reaches(root, v) implies #[trigger] order@.contains(v) by {
            lemma_path_closed(self.edges@.dom(), s, root, v);
        }
    }
//@ end


//@ fn impl<V, E> Graph<V, E> :: fn compute_post_order loops=1
//@ rewrite 1 `order: &mut Vec<usize>, ) -> Result<(), Error> {` => `order: &mut Vec<usize>, ) -> (res: Result<(), Error>) requires graph.post_dfs_pre(node, old(visited)@, old(order)@), ensures /*@post*/ graph.post_dfs_post(node, old(visited)@, old(order)@, final(visited)@, final(order)@, res), decreases graph.vertices@.dom().len() - old(visited)@.len(), {` ## R-nested-contract: attaches requires / ensures / decreases (defined as spec fns in the template) to the signature of the nested fn; the assembler has no hole for nested items; executable tokens unchanged apart from naming the result
//@ rewrite 1 `for successor in &graph` => `for successor in it: &graph` ## R-ghost-iter-name: names the ghost iterator of the for loop; no executable change
//@ spec
    requires self.graph_wf(),
    ensures
        /*@missing*/ !self.vertices@.contains_key(root) ==> r == Err::<Vec<usize>, Error>(Error::GraphVertexNotFound(root)),
        /*@ok*/ self.vertices@.contains_key(root) ==> r is Ok,
        /*@nodup*/ r matches Ok(o) ==> o@.no_duplicates(),
        /*@exact*/ r matches Ok(o) ==> forall|v: usize| #![trigger o@.contains(v)] o@.contains(v) <==> self.reaches(root, v),
        /*@root_last*/ r matches Ok(o) ==> o@.len() > 0 && o@.last() == root,
        /*@edges*/ r matches Ok(o) ==> forall|i: int, w: usize| #![trigger self.edges@.contains_key((o@[i], w))]
            0 <= i < o@.len() && self.edges@.contains_key((o@[i], w)) ==> index_before(o@, w, i) || path(self.edges@.dom(), w, o@[i]),
        /*@acyclic_order*/ r matches Ok(o) ==> (acyclic_from(self.edges@.dom(), root) ==> forall|i: int, w: usize| #![trigger self.edges@.contains_key((o@[i], w))]
            0 <= i < o@.len() && self.edges@.contains_key((o@[i], w)) ==> index_before(o@, w, i)),
//@ after 0 `visited.insert(node);`
    proof {
        vstd::set_lib::lemma_len_subset(old(visited)@.insert(node), graph.vertices@.dom());
        lemma_path_refl(graph.edges@.dom(), node);
        assert forall|x: usize| #![trigger is_gray(visited@, order@, x)] is_gray(visited@, order@, x) <==> (x == node || is_gray(old(visited)@, old(order)@, x)) by {
            if x == node && order@.contains(node) {
                let i = choose|i: int| 0 <= i < order@.len() && order@[i] == node;
                assert(old(visited)@.contains(order@[i]));
            }
        }
    }
//@ loop 0
    invariant
        graph.graph_wf(), graph.vertices@.contains_key(node),
        seq_lists_set_ref(it.seq(), graph.successors@[node]@),
        post_inv(graph.vertices@.dom(), graph.edges@.dom(), visited@, order@),
        old(visited)@.insert(node).subset_of(visited@), !old(visited)@.contains(node),
        order@.len() >= old(order)@.len() && order@.subrange(0, old(order)@.len() as int) =~= old(order)@,
        forall|x: usize| #![trigger is_gray(visited@, order@, x)] is_gray(visited@, order@, x) <==> (x == node || is_gray(old(visited)@, old(order)@, x)),
        forall|x: usize| #![trigger is_gray(old(visited)@, old(order)@, x)] is_gray(old(visited)@, old(order)@, x) ==> path(graph.edges@.dom(), x, node),
        forall|j: int| 0 <= j < it.index@ ==> visited@.contains(*#[trigger] it.seq()[j]),
        forall|x: usize| #![trigger visited@.contains(x)] visited@.contains(x) && !old(visited)@.contains(x) ==> path(graph.edges@.dom(), node, x),
        forall|w: usize| #![trigger graph.edges@.contains_key((node, w))] it.index@ == it.seq().len() && graph.edges@.contains_key((node, w)) ==> visited@.contains(w),
//@ before 0 `if !visited.contains(successor)`
    let ghost vis1 = visited@;
    let ghost ord1 = order@;
    proof {
        lemma_seq_lists_set_ref(it.seq(), graph.successors@[node]@);
        assert(graph.successors@[node]@.contains(*successor));
        assert(graph.edges@.contains_key((node, *successor)));
        lemma_path_refl(graph.edges@.dom(), node);
        lemma_path_edge(graph.edges@.dom(), node, *successor);
    }
//@ before 0 `dfs_walk(graph, *successor, visited, order)?`
    proof {
        assert(is_gray(vis1, ord1, node));
        assert forall|x: usize| #![trigger is_gray(vis1, ord1, x)] is_gray(vis1, ord1, x) implies path(graph.edges@.dom(), x, *successor) by {
            if x != node {
                assert(is_gray(old(visited)@, old(order)@, x));
            }
            lemma_path_step(graph.edges@.dom(), x, node, *successor);
        }
        vstd::set_lib::lemma_len_subset(old(visited)@.insert(node), vis1);
        vstd::set_lib::lemma_len_subset(vis1, graph.vertices@.dom());
    }
//@ after 0 `dfs_walk(graph, *successor, visited, order)?;`
    proof {
        assert(order@.subrange(0, old(order)@.len() as int) =~= old(order)@) by {
            assert forall|k: int| 0 <= k < old(order)@.len() implies order@[k] == old(order)@[k] by {
                assert(order@.subrange(0, ord1.len() as int)[k] == ord1[k]);
                assert(ord1.subrange(0, old(order)@.len() as int)[k] == old(order)@[k]);
            }
        }
        assert forall|x: usize| #![trigger visited@.contains(x)] visited@.contains(x) && !old(visited)@.contains(x) implies path(graph.edges@.dom(), node, x) by {
            if !vis1.contains(x) {
                lemma_path_trans(graph.edges@.dom(), node, *successor, x);
            }
        }
        assert forall|x: usize| #![trigger is_gray(visited@, order@, x)] is_gray(visited@, order@, x) <==> (x == node || is_gray(old(visited)@, old(order)@, x)) by {
            assert(is_gray(visited@, order@, x) <==> is_gray(vis1, ord1, x));
        }
    }
//@ after 0 `if !visited.contains(successor) { dfs_walk(graph, *successor, visited, order)?; }`
    proof {
        assert forall|w: usize| #![trigger graph.edges@.contains_key((node, w))] it.index@ + 1 == it.seq().len() && graph.edges@.contains_key((node, w)) implies visited@.contains(w) by {
            assert(graph.successors@[node]@.contains(w));
            let j = choose|j: int| 0 <= j < it.seq().len() && *#[trigger] it.seq()[j] == w;
            if j < it.index@ { assert(vis1.contains(*it.seq()[j])); }
        }
    }
//@ before 0 `order.push(node);`
    let ghost ordl = order@;
    proof {
        assert(is_gray(visited@, ordl, node));
    }
//@ after 0 `order.push(node);`
    proof {
        let es = graph.edges@.dom();
        lemma_push_contains(ordl, node);
        assert(order@ =~= ordl.push(node));
        assert(order@.subrange(0, old(order)@.len() as int) =~= old(order)@);
        assert(order@.no_duplicates());
        assert forall|i: int, w: usize| #![trigger es.contains((order@[i], w))] 0 <= i < order@.len() && es.contains((order@[i], w))
            implies visited@.contains(w) && (index_before(order@, w, i) || path(es, w, order@[i])) by {
            if i < ordl.len() {
                assert(order@[i] == ordl[i]);
                assert(es.contains((ordl[i], w)));
                if index_before(ordl, w, i) {
                    let j = choose|j: int| 0 <= j < i && j < ordl.len() && #[trigger] ordl[j] == w;
                    assert(order@[j] == w);
                }
            } else {
                assert(order@[i] == node);
                assert(graph.edges@.contains_key((node, w)));
                assert(visited@.contains(w));
                if ordl.contains(w) {
                    let j = choose|j: int| 0 <= j < ordl.len() && ordl[j] == w;
                    assert(order@[j] == w);
                } else {
                    assert(is_gray(visited@, ordl, w));
                    if w == node {
                        lemma_path_refl(es, node);
                    } else {
                        assert(is_gray(old(visited)@, old(order)@, w));
                    }
                }
            }
        }
        assert forall|x: usize| #![trigger is_gray(visited@, order@, x)] #![trigger is_gray(old(visited)@, old(order)@, x)]
            is_gray(visited@, order@, x) <==> is_gray(old(visited)@, old(order)@, x) by {
            assert(is_gray(visited@, ordl, x) <==> (x == node || is_gray(old(visited)@, old(order)@, x)));
            if x == node {
                assert(!is_gray(old(visited)@, old(order)@, node));
            }
        }
        assert(order@.last() == node);
    }
//@ before 0 `Ok(order)`
    proof {
        let es = self.edges@.dom();
        assert(order@.contains(order@[order@.len() - 1]));
        // nothing is gray at the end: every discovered vertex is finished
        assert forall|x: usize| visited@.contains(x) implies #[trigger] order@.contains(x) by {
            assert(!is_gray(Set::<usize>::empty(), Seq::<usize>::empty(), x));
            assert(!is_gray(visited@, order@, x));
        }
        let s = |v: usize| order@.contains(v);
        assert forall|a: usize, b: usize| #![trigger es.contains((a, b))] s(a) && es.contains((a, b)) implies s(b) by {
            let i = choose|i: int| 0 <= i < order@.len() && order@[i] == a;
            assert(es.contains((order@[i], b)));
            assert(visited@.contains(b));
        }
        assert forall|v: usize| self.reaches(root, v) implies #[trigger] order@.contains(v) by {
            lemma_path_closed(es, s, root, v);
        }
        assert forall|v: usize| #[trigger] order@.contains(v) implies self.reaches(root, v) by {
            let i = choose|i: int| 0 <= i < order@.len() && order@[i] == v;
            assert(visited@.contains(order@[i]));
        }
        assert forall|i: int, w: usize| #![trigger self.edges@.contains_key((order@[i], w))]
            0 <= i < order@.len() && self.edges@.contains_key((order@[i], w)) implies index_before(order@, w, i) || path(es, w, order@[i]) by {
            assert(es.contains((order@[i], w)));
        }
        if acyclic_from(es, root) {
            assert forall|i: int, w: usize| #![trigger self.edges@.contains_key((order@[i], w))]
                0 <= i < order@.len() && self.edges@.contains_key((order@[i], w)) implies index_before(order@, w, i) by {
                assert(es.contains((order@[i], w)));
                if !index_before(order@, w, i) {
                    assert(order@.contains(order@[i]));
                    lemma_path_edge(es, order@[i], w);
                    lemma_path_plus_trans_l(es, order@[i], w, order@[i]);
                }
            }
        }
    }
//@ end


//@ fn impl<V, E> Graph<V, E> :: fn compute_topological_ordering loops=2
//@ rewrite 1 `order: &mut Vec<usize>, ) -> Result<(), Error> {` => `order: &mut Vec<usize>, ) -> (res: Result<(), Error>) requires graph.topo_dfs_pre(node, old(permanent_marks)@, old(temporary_marks)@, old(order)@), ensures /*@post*/ graph.topo_dfs_post(node, old(permanent_marks)@, old(temporary_marks)@, old(order)@, final(permanent_marks)@, final(temporary_marks)@, final(order)@, res), decreases graph.vertices@.dom().len() - old(permanent_marks)@.len() - old(temporary_marks)@.len(), {` ## R-nested-contract: attaches requires / ensures / decreases (defined as spec fns in the template) to the signature of the nested fn; executable tokens unchanged apart from naming the result
//@ rewrite 1 `for successor in &graph` => `for successor in it: &graph` ## R-ghost-iter-name: names the ghost iterator of the for loop; no executable change
//@ rewrite 1 `for node in self.vertices.keys()` => `for node in it: self.vertices.keys()` ## R-ghost-iter-name: names the ghost iterator of the for loop; no executable change
//@ rewrite 1 `Ok(order` => `let out__: Vec<usize> = order` ## R-let-result: binds the result expression to a local before wrapping it in Ok (part 1 of 2) so that a proof block can follow it; evaluation order unchanged
//@ rewrite 1 `.collect())` => `.collect(); Ok(out__)` ## R-let-result: part 2 of 2
//@ spec
    requires self.graph_wf(),
    ensures
        /*@acyclic_ok*/ acyclic(self.edges@.dom()) ==> r is Ok,
        /*@err*/ r matches Err(e) ==> e is Custom && !acyclic(self.edges@.dom()),
        /*@ok_acyclic*/ r is Ok ==> acyclic(self.edges@.dom()),
        /*@perm*/ r matches Ok(o) ==> o@.no_duplicates() && forall|v: usize| #![trigger o@.contains(v)] o@.contains(v) <==> self.vertices@.contains_key(v),
        /*@order*/ r matches Ok(o) ==> edges_forward(self.edges@.dom(), o@),
//@ before 0 `return Err("Graph contains a loop".into());`
    proof {
        assert(path_plus(graph.edges@.dom(), node, node));
    }
//@ after 0 `temporary_marks.insert(node);`
    proof {
        lemma_disjoint_subsets_len(permanent_marks@, temporary_marks@, graph.vertices@.dom());
    }
//@ loop 0
    invariant
        graph.graph_wf(), graph.vertices@.contains_key(node),
        seq_lists_set_ref(it.seq(), graph.successors@[node]@),
        topo_inv(graph.vertices@.dom(), graph.edges@.dom(), permanent_marks@, temporary_marks@, order@),
        temporary_marks@ == old(temporary_marks)@.insert(node), !old(temporary_marks)@.contains(node),
        old(permanent_marks)@.subset_of(permanent_marks@),
        order@.len() >= old(order)@.len() && order@.subrange(0, old(order)@.len() as int) =~= old(order)@,
        forall|t: usize| #![trigger old(temporary_marks)@.contains(t)] old(temporary_marks)@.contains(t) ==> path_plus(graph.edges@.dom(), t, node),
        forall|j: int| 0 <= j < it.index@ ==> permanent_marks@.contains(*#[trigger] it.seq()[j]),
        forall|w: usize| #![trigger graph.edges@.contains_key((node, w))] it.index@ == it.seq().len() && graph.edges@.contains_key((node, w)) ==> permanent_marks@.contains(w),
        old(permanent_marks)@.len() + old(temporary_marks)@.len() + 1 <= graph.vertices@.dom().len(),
//@ before 0 `dfs_walk(graph, *successor, permanent_marks, temporary_marks, order)?;`
    let ghost pm1 = permanent_marks@;
    let ghost ord1 = order@;
    proof {
        let es = graph.edges@.dom();
        lemma_seq_lists_set_ref(it.seq(), graph.successors@[node]@);
        assert(graph.successors@[node]@.contains(*successor));
        assert(graph.edges@.contains_key((node, *successor)));
        lemma_path_edge(es, node, *successor);
        assert forall|t: usize| #![trigger temporary_marks@.contains(t)] temporary_marks@.contains(t) implies path_plus(es, t, *successor) by {
            if t != node {
                lemma_path_plus_trans_l(es, t, node, *successor);
            }
        }
        vstd::set_lib::lemma_len_subset(old(permanent_marks)@, pm1);
        lemma_disjoint_subsets_len(pm1, temporary_marks@, graph.vertices@.dom());
    }
//@ after 0 `dfs_walk(graph, *successor, permanent_marks, temporary_marks, order)?;`
    proof {
        assert(order@.subrange(0, old(order)@.len() as int) =~= old(order)@) by {
            assert forall|k: int| 0 <= k < old(order)@.len() implies order@[k] == old(order)@[k] by {
                assert(order@.subrange(0, ord1.len() as int)[k] == ord1[k]);
                assert(ord1.subrange(0, old(order)@.len() as int)[k] == old(order)@[k]);
            }
        }
        assert forall|w: usize| #![trigger graph.edges@.contains_key((node, w))] it.index@ + 1 == it.seq().len() && graph.edges@.contains_key((node, w)) implies permanent_marks@.contains(w) by {
            assert(graph.successors@[node]@.contains(w));
            let j = choose|j: int| 0 <= j < it.seq().len() && *#[trigger] it.seq()[j] == w;
            if j < it.index@ { assert(pm1.contains(*it.seq()[j])); }
        }
    }
//@ before 0 `temporary_marks.remove(&node);`
    let ghost ordl = order@;
    let ghost pml = permanent_marks@;
//@ after 0 `order.push(node);`
    proof {
        let es = graph.edges@.dom();
        assert(temporary_marks@ =~= old(temporary_marks)@);
        lemma_push_contains(ordl, node);
        assert(order@ =~= ordl.push(node));
        assert(!pml.contains(node));
        assert(!ordl.contains(node));
        assert(order@.subrange(0, old(order)@.len() as int) =~= old(order)@);
        assert forall|i: int, w: usize| #![trigger es.contains((order@[i], w))] 0 <= i < order@.len() && es.contains((order@[i], w)) implies index_before(order@, w, i) by {
            if i < ordl.len() {
                assert(order@[i] == ordl[i]);
                assert(es.contains((ordl[i], w)));
                let j = choose|j: int| 0 <= j < i && j < ordl.len() && #[trigger] ordl[j] == w;
                assert(order@[j] == w);
            } else {
                assert(graph.edges@.contains_key((node, w)));
                assert(pml.contains(w));
                let j = choose|j: int| 0 <= j < ordl.len() && ordl[j] == w;
                assert(order@[j] == w);
            }
        }
    }
//@ loop 1
    invariant
        self.graph_wf(),
        seq_lists_set_ref(it.seq(), self.vertices@.dom()),
        topo_inv(self.vertices@.dom(), self.edges@.dom(), permanent_marks@, temporary_marks@, order@),
        temporary_marks@ == Set::<usize>::empty(),
        forall|j: int| 0 <= j < it.index@ ==> permanent_marks@.contains(*#[trigger] it.seq()[j]),
        forall|v: usize| #![trigger self.vertices@.contains_key(v)] it.index@ == it.seq().len() && self.vertices@.contains_key(v) ==> permanent_marks@.contains(v),
//@ before 0 `dfs_walk( self, *node,`
    let ghost pm1 = permanent_marks@;
    proof {
        lemma_seq_lists_set_ref(it.seq(), self.vertices@.dom());
    }
//@ after 0 `&mut order, )?;`
    proof {
        assert forall|v: usize| #![trigger self.vertices@.contains_key(v)] it.index@ + 1 == it.seq().len() && self.vertices@.contains_key(v) implies permanent_marks@.contains(v) by {
            assert(self.vertices@.dom().contains(v));
            let j = choose|j: int| 0 <= j < it.seq().len() && *#[trigger] it.seq()[j] == v;
            if j < it.index@ { assert(pm1.contains(*it.seq()[j])); }
        }
    }
//@ before 0 `let out__: Vec<usize> = order`
    let ghost ordf = order@;
//@ before 0 `Ok(out__)`
    proof {
        let es = self.edges@.dom();
        lemma_reverse_is_forward(es, ordf, out__@);
        if out__@.no_duplicates() && edges_forward(es, out__@) && (forall|v: usize| #![trigger out__@.contains(v)] out__@.contains(v) <==> ordf.contains(v)) {
            assert forall|a: usize, b: usize| #![trigger es.contains((a, b))] es.contains((a, b)) implies out__@.contains(a) && out__@.contains(b) by {
                assert(self.edges@.contains_key((a, b)));
                assert(self.vertices@.contains_key(a) && self.vertices@.contains_key(b));
            }
            lemma_forward_acyclic(es, out__@);
        }
    }
//@ end


//@ fn impl<V, E> Graph<V, E> :: fn is_acyclic loops=1
//@ rewrite 1 `temporary_marks: &mut FxHashSet<usize>, ) -> bool {` => `temporary_marks: &mut FxHashSet<usize>, ) -> (res: bool) requires graph.acy_dfs_pre(node, old(permanent_marks)@, old(temporary_marks)@), ensures /*@post*/ graph.acy_dfs_post(node, old(permanent_marks)@, old(temporary_marks)@, final(permanent_marks)@, final(temporary_marks)@, res), decreases graph.vertices@.dom().len() - old(permanent_marks)@.len() - old(temporary_marks)@.len(), {` ## R-nested-contract: attaches requires / ensures / decreases (defined as spec fns in the template) to the signature of the nested fn; executable tokens unchanged apart from naming the result
//@ rewrite 1 `let successors_are_acyclic = graph` => `let mut successors_are_acyclic = true; for successor in it: graph` ## R-all: `let b = ITER.all(|x| { P });` is by definition `let mut b = true; for x in ITER { if !{ P } { b = false; break; } }` (short-circuiting; part 1 of 3; ITER and P stay the original tokens; Verus has no model of a closure that captures `&mut` state and recurses)
//@ rewrite 1 `.all(|successor| {` => `{ if !{` ## R-all: part 2 of 3
//@ rewrite 1 `) });` => `) } { successors_are_acyclic = false; break; } }` ## R-all: part 3 of 3
//@ rewrite 1 `dfs_is_acyclic(self,` => `let out__: bool = dfs_is_acyclic(self,` ## R-let-result: binds the result expression to a local (part 1 of 2) so that a proof block can follow it; evaluation unchanged
//@ rewrite 1 `&mut temporary_marks) }` => `&mut temporary_marks); out__ }` ## R-let-result: part 2 of 2
//@ spec
    requires self.graph_wf(), self.vertices@.contains_key(root),
    ensures
        /*@iff*/ r == acyclic_from(self.edges@.dom(), root),
//@ after 0 `if temporary_marks.contains(&node) {`
    proof {
        lemma_path_refl(graph.edges@.dom(), node);
        assert(path_plus(graph.edges@.dom(), node, node));
    }
//@ after 0 `temporary_marks.insert(node);`
    proof {
        lemma_disjoint_subsets_len(permanent_marks@, temporary_marks@, graph.vertices@.dom());
    }
//@ loop 0
    invariant_except_break
        successors_are_acyclic,
        acy_inv(graph.vertices@.dom(), graph.edges@.dom(), permanent_marks@, temporary_marks@),
        temporary_marks@ == old(temporary_marks)@.insert(node),
        old(permanent_marks)@.subset_of(permanent_marks@),
        forall|j: int| 0 <= j < it.index@ ==> permanent_marks@.contains(*#[trigger] it.seq()[j]),
        forall|w: usize| #![trigger graph.edges@.contains_key((node, w))] it.index@ == it.seq().len() && graph.edges@.contains_key((node, w)) ==> permanent_marks@.contains(w),
    invariant
        graph.graph_wf(), graph.vertices@.contains_key(node),
        seq_lists_set_ref(it.seq(), graph.successors@[node]@),
        !old(temporary_marks)@.contains(node), !old(permanent_marks)@.contains(node),
        forall|t: usize| #![trigger old(temporary_marks)@.contains(t)] old(temporary_marks)@.contains(t) ==> path_plus(graph.edges@.dom(), t, node),
        old(permanent_marks)@.len() + old(temporary_marks)@.len() + 1 <= graph.vertices@.dom().len(),
    ensures
        successors_are_acyclic ==> acy_inv(graph.vertices@.dom(), graph.edges@.dom(), permanent_marks@, temporary_marks@)
            && temporary_marks@ == old(temporary_marks)@.insert(node) && old(permanent_marks)@.subset_of(permanent_marks@)
            && (forall|w: usize| #![trigger graph.edges@.contains_key((node, w))] graph.edges@.contains_key((node, w)) ==> permanent_marks@.contains(w)),
        !successors_are_acyclic ==> cycle_reachable(graph.edges@.dom(), node),
//@ before 0 `if !{ dfs_is_acyclic(graph, *successor, permanent_marks, temporary_marks) }`
    let ghost pm1 = permanent_marks@;
    proof {
        let es = graph.edges@.dom();
        lemma_seq_lists_set_ref(it.seq(), graph.successors@[node]@);
        assert(graph.successors@[node]@.contains(*successor));
        assert(graph.edges@.contains_key((node, *successor)));
        lemma_path_edge(es, node, *successor);
        assert forall|t: usize| #![trigger temporary_marks@.contains(t)] temporary_marks@.contains(t) implies path_plus(es, t, *successor) by {
            if t != node {
                lemma_path_plus_trans_l(es, t, node, *successor);
            }
        }
        vstd::set_lib::lemma_len_subset(old(permanent_marks)@, pm1);
        lemma_disjoint_subsets_len(pm1, temporary_marks@, graph.vertices@.dom());
    }
//@ before 0 `successors_are_acyclic = false; break;`
    proof {
        let es = graph.edges@.dom();
        let v = choose|v: usize| path(es, *successor, v) && #[trigger] path_plus(es, v, v);
        lemma_path_trans(es, node, *successor, v);
        assert(path(es, node, v) && path_plus(es, v, v));
    }
//@ after 0 `{ successors_are_acyclic = false; break; }`
    proof {
        assert forall|w: usize| #![trigger graph.edges@.contains_key((node, w))] it.index@ + 1 == it.seq().len() && graph.edges@.contains_key((node, w)) implies permanent_marks@.contains(w) by {
            assert(graph.successors@[node]@.contains(w));
            let j = choose|j: int| 0 <= j < it.seq().len() && *#[trigger] it.seq()[j] == w;
            if j < it.index@ { assert(pm1.contains(*it.seq()[j])); }
        }
    }
//@ before 0 `temporary_marks.remove(&node);`
    let ghost pml = permanent_marks@;
//@ after 0 `permanent_marks.insert(node);`
    proof {
        let es = graph.edges@.dom();
        assert(temporary_marks@ =~= old(temporary_marks)@);
        assert(!pml.contains(node));
        // node lies on no cycle: a cycle would leave node through a permanently marked successor,
        // and the permanently marked set is closed and does not contain node
        if path_plus(es, node, node) {
            lemma_path_plus_first(es, node, node);
            let w = choose|w: usize| es.contains((node, w)) && path(es, w, node);
            assert(graph.edges@.contains_key((node, w)));
            lemma_closed_no_path_out(es, pml, w, node);
        }
    }
//@ before 0 `out__ }`
    proof {
        let es = self.edges@.dom();
        if out__ {
            let f = |v: usize| permanent_marks@.contains(v);
            assert forall|v: usize| path(es, root, v) implies !path_plus(es, v, v) by {
                lemma_path_closed(es, f, root, v);
            }
        } else {
            let v = choose|v: usize| path(es, root, v) && #[trigger] path_plus(es, v, v);
            assert(path(es, root, v) && path_plus(es, v, v));
        }
    }
//@ end


//@ fn impl<V, E> Graph<V, E> :: fn compute_dfs_tree loops=3
//@ rewrite 2 `for &successor in` => `for successor__r in it:` ## R-ref-pattern: `for &x in ITER { BODY }` is `for x__r in ITER { let x = *x__r; BODY }` for Copy items (part 1 of 2; the iterator expressions stay the original tokens)
//@ rewrite 1 `let mut stack = Vec::new();` => `let mut stack: Vec<(usize, usize)> = Vec::new();` ## R-type-annotation: spells out the type rustc infers for the local (needed because the spliced invariants mention the local before the statements that fix its type)
//@ rewrite 1 `let mut tree = Graph::new();` => `let mut tree: Graph<NullVertex, NullEdge> = Graph::new();` ## R-type-annotation: spells out the inferred type of the local
//@ rewrite 1 `{ stack.push((start_index, successor));` => `{ let successor = *successor__r; stack.push((start_index, successor));` ## R-ref-pattern: part 2 of 2 (first loop)
//@ rewrite 1 `{ stack.push((index, successor));` => `{ let successor = *successor__r; stack.push((index, successor));` ## R-ref-pattern: part 2 of 2 (second loop)
//@ spec
    requires self.graph_wf(),
    ensures
        /*@missing*/ !self.vertices@.contains_key(start_index) ==> (r matches Err(e) && e == Error::GraphVertexNotFound(start_index)),
        /*@ok*/ self.vertices@.contains_key(start_index) ==> r is Ok,
        /*@tree*/ r matches Ok(t) ==> is_spanning_tree_of(&t, self.edges@.dom(), start_index),
//@ after 0 `tree.insert_vertex(NullVertex::new(start_index))?;`
    proof {
        lemma_path_refl(self.edges@.dom(), start_index);
        lemma_path_refl(tree.edges@.dom(), start_index);
        assert(tree.vertices@.dom() =~= set![start_index]);
    }
//@ loop 0
    invariant
        self.graph_wf(), self.vertices@.contains_key(start_index),
        seq_lists_set_ref(it.seq(), self.successors@[start_index]@),
        tree_inv(&tree, self.vertices@.dom(), self.edges@.dom(), start_index),
        tree.vertices@.dom() =~= set![start_index],
        forall|k: int| 0 <= k < stack@.len() ==> (#[trigger] stack@[k]).0 == start_index && self.edges@.contains_key(stack@[k]),
        forall|j: int| 0 <= j < it.index@ ==> stack@.contains((start_index, *#[trigger] it.seq()[j])),
        forall|b: usize| #![trigger self.edges@.contains_key((start_index, b))] it.index@ == it.seq().len() && self.edges@.contains_key((start_index, b)) ==> stack@.contains((start_index, b)),
//@ before 0 `stack.push((start_index, successor));`
    let ghost st0 = stack@;
    proof {
        lemma_seq_lists_set_ref(it.seq(), self.successors@[start_index]@);
        assert(self.successors@[start_index]@.contains(successor));
        assert(self.edges@.contains_key((start_index, successor)));
        lemma_push_contains(st0, (start_index, successor));
    }
//@ after 0 `stack.push((start_index, successor));`
    proof {
        assert(stack@ =~= st0.push((start_index, successor)));
        assert forall|k: int| 0 <= k < stack@.len() implies (#[trigger] stack@[k]).0 == start_index && self.edges@.contains_key(stack@[k]) by {
            if k < st0.len() { assert(stack@[k] == st0[k]); }
        }
        assert forall|b: usize| #![trigger self.edges@.contains_key((start_index, b))] it.index@ + 1 == it.seq().len() && self.edges@.contains_key((start_index, b)) implies stack@.contains((start_index, b)) by {
            assert(self.successors@[start_index]@.contains(b));
            let j = choose|j: int| 0 <= j < it.seq().len() && *#[trigger] it.seq()[j] == b;
            if j < it.index@ { assert(st0.contains((start_index, *it.seq()[j]))); }
        }
    }
//@ before 0 `while let Some((pred, index))`
    let ghost mut gs: Seq<(usize, usize)> = stack@;
    proof {
        vstd::set_lib::lemma_len_subset(tree.vertices@.dom(), self.vertices@.dom());
        assert forall|a: usize, b: usize| #![trigger self.edges@.contains_key((a, b))]
            tree.vertices@.contains_key(a) && self.edges@.contains_key((a, b)) implies tree.vertices@.contains_key(b) || stack@.contains((a, b)) by {
            assert(a == start_index);
        }
    }
//@ loop 1
    invariant
        gs == stack@,
        self.graph_wf(), self.vertices@.contains_key(start_index),
        tree_inv(&tree, self.vertices@.dom(), self.edges@.dom(), start_index),
        forall|k: int| 0 <= k < stack@.len() ==> tree.vertices@.contains_key((#[trigger] stack@[k]).0) && self.edges@.contains_key(stack@[k]),
        forall|a: usize, b: usize| #![trigger self.edges@.contains_key((a, b))]
            tree.vertices@.contains_key(a) && self.edges@.contains_key((a, b)) ==> tree.vertices@.contains_key(b) || stack@.contains((a, b)),
    ensures stack@.len() == 0,
    decreases self.vertices@.dom().len() - tree.vertices@.dom().len(), stack@.len(),
//@ before 0 `if tree.has_vertex(index)`
    let ghost tree0 = tree;
    proof {
        assert(gs =~= stack@.push((pred, index)));
        lemma_push_contains(stack@, (pred, index));
        assert(gs[gs.len() - 1] == (pred, index));
        assert(tree.vertices@.contains_key(pred) && self.edges@.contains_key((pred, index)));
        assert(self.vertices@.contains_key(index));
        assert forall|k: int| 0 <= k < stack@.len() implies tree.vertices@.contains_key((#[trigger] stack@[k]).0) && self.edges@.contains_key(stack@[k]) by {
            assert(gs[k] == stack@[k]);
        }
        vstd::set_lib::lemma_len_subset(tree.vertices@.dom(), self.vertices@.dom());
        vstd::set_lib::lemma_len_subset(tree.vertices@.dom().insert(index), self.vertices@.dom());
    }
//@ before 0 `continue;`
    proof { gs = stack@; }
//@ before 0 `for successor__r in it: &self.successors[&index]`
    proof {
        let es = self.edges@.dom();
        assert(tree0.graph_wf());
        // index was not a tree vertex, so no tree edge touched it
        assert(!tree0.edges@.contains_key((pred, index)));
        assert(tree.vertices@.dom() =~= tree0.vertices@.dom().insert(index));
        assert(tree.edges@.dom() =~= tree0.edges@.dom().insert((pred, index)));
        assert(tree0.edges@.dom().subset_of(tree.edges@.dom()));
        lemma_path_step(es, start_index, pred, index);
        assert forall|v: usize| #![trigger tree.vertices@.contains_key(v)] tree.vertices@.contains_key(v) implies path(tree.edges@.dom(), start_index, v) by {
            if v == index {
                lemma_path_mono(tree0.edges@.dom(), tree.edges@.dom(), start_index, pred);
                lemma_path_step(tree.edges@.dom(), start_index, pred, index);
            } else {
                lemma_path_mono(tree0.edges@.dom(), tree.edges@.dom(), start_index, v);
            }
        }
        assert(tree.predecessors@[index]@ =~= set![pred]);
        assert forall|v: usize| #![trigger tree.predecessors@[v]] tree.vertices@.contains_key(v) && v != start_index implies tree.predecessors@[v]@.len() == 1 by {
            if v != index {
                assert(tree.predecessors@[v] == tree0.predecessors@[v]);
            }
        }
        assert(tree.predecessors@[start_index] == tree0.predecessors@[start_index]);
    }
//@ loop 2
    invariant
        self.graph_wf(), self.vertices@.contains_key(start_index), self.vertices@.contains_key(index),
        seq_lists_set_ref(it.seq(), self.successors@[index]@),
        tree_inv(&tree, self.vertices@.dom(), self.edges@.dom(), start_index),
        tree.vertices@.dom() == tree0.vertices@.dom().insert(index), !tree0.vertices@.contains_key(index),
        forall|k: int| 0 <= k < stack@.len() ==> tree.vertices@.contains_key((#[trigger] stack@[k]).0) && self.edges@.contains_key(stack@[k]),
        forall|a: usize, b: usize| #![trigger self.edges@.contains_key((a, b))]
            tree.vertices@.contains_key(a) && a != index && self.edges@.contains_key((a, b)) ==> tree.vertices@.contains_key(b) || stack@.contains((a, b)),
        forall|j: int| 0 <= j < it.index@ ==> stack@.contains((index, *#[trigger] it.seq()[j])),
        forall|b: usize| #![trigger self.edges@.contains_key((index, b))] it.index@ == it.seq().len() && self.edges@.contains_key((index, b)) ==> stack@.contains((index, b)),
//@ before 0 `stack.push((index, successor));`
    let ghost st0 = stack@;
    proof {
        lemma_seq_lists_set_ref(it.seq(), self.successors@[index]@);
        assert(self.successors@[index]@.contains(successor));
        assert(self.edges@.contains_key((index, successor)));
        lemma_push_contains(st0, (index, successor));
    }
//@ after 0 `stack.push((index, successor));`
    proof {
        assert(stack@ =~= st0.push((index, successor)));
        assert forall|k: int| 0 <= k < stack@.len() implies tree.vertices@.contains_key((#[trigger] stack@[k]).0) && self.edges@.contains_key(stack@[k]) by {
            if k < st0.len() { assert(stack@[k] == st0[k]); }
        }
        assert forall|b: usize| #![trigger self.edges@.contains_key((index, b))] it.index@ + 1 == it.seq().len() && self.edges@.contains_key((index, b)) implies stack@.contains((index, b)) by {
            assert(self.successors@[index]@.contains(b));
            let j = choose|j: int| 0 <= j < it.seq().len() && *#[trigger] it.seq()[j] == b;
            if j < it.index@ { assert(st0.contains((index, *it.seq()[j]))); }
        }
    }
//@ after 0 `stack.push((index, successor)); }`
    proof { gs = stack@; }
//@ before 0 `Ok(tree)`
    proof {
        let es = self.edges@.dom();
        let f = |v: usize| tree.vertices@.contains_key(v);
        assert forall|a: usize, b: usize| #![trigger es.contains((a, b))] f(a) && es.contains((a, b)) implies f(b) by {
            assert(self.edges@.contains_key((a, b)));
            assert(!stack@.contains((a, b)));
        }
        assert forall|v: usize| path(es, start_index, v) implies #[trigger] tree.vertices@.contains_key(v) by {
            lemma_path_closed(es, f, start_index, v);
        }
    }
//@ end


//@ fn impl<V, E> Graph<V, E> :: fn compute_predecessors loops=5
//@ rewrite 1 `for vertex in &self.vertices {` => `for vertex in it: &self.vertices {` ## R-ghost-iter-name: names the ghost iterator of the for loop; no executable change
//@ rewrite 1 `let mut preds = FxHashSet::default();` => `let mut preds: FxHashSet<usize> = FxHashSet::default();` ## R-type-annotation: spells out the inferred type of the local
//@ rewrite 1 `for predecessor in &self.predecessors[vertex.0] {` => `for predecessor in it2: &self.predecessors[vertex.0] {` ## R-ghost-iter-name: names the ghost iterator of the for loop; no executable change
//@ rewrite 1 `for successor_index in &self` => `for successor_index in it: &self` ## R-ghost-iter-name: names the ghost iterator of the for loop; no executable change
//@ rewrite 1 `for predecessor in &this_predecessors {` => `for predecessor in it2: &this_predecessors {` ## R-ghost-iter-name: names the ghost iterator of the for loop; no executable change
//@ rewrite 1 `changed |= successor_predecessors.insert(*predecessor);` => `{ let ins__ = successor_predecessors.insert(*predecessor); changed = changed || ins__; }` ## R-bool-or-assign: `a |= E` on bools evaluates E and then ors it into a (no short-circuit) = `{ let t = E; a = a || t; }` (Verus has no `|` on bools)
//@ spec
    requires self.graph_wf(),
    ensures
        /*@ok*/ r is Ok,
        /*@keys*/ r matches Ok(m) ==> m@.dom() == self.vertices@.dom(),
        /*@exact*/ r matches Ok(m) ==> forall|v: usize, u: usize| #![trigger m@[v]@.contains(u)] self.vertices@.contains_key(v) ==>
            (m@[v]@.contains(u) <==> path_plus(self.edges@.dom(), u, v)),
//@ loop 0
    invariant
        self.graph_wf(),
        seq_lists_map(it.seq(), self.vertices@),
        forall|k: usize| #![trigger predecessors@.contains_key(k)] predecessors@.contains_key(k) ==> self.vertices@.contains_key(k) && predecessors@[k]@ == self.predecessors@[k]@,
        forall|j: int| 0 <= j < it.index@ ==> predecessors@.contains_key(*(#[trigger] it.seq()[j]).0) && queue@.contains(*it.seq()[j].0),
        forall|i: int| 0 <= i < queue@.len() ==> self.vertices@.contains_key(#[trigger] queue@[i]),
        forall|k: usize| #![trigger self.vertices@.contains_key(k)] it.index@ == it.seq().len() && self.vertices@.contains_key(k) ==> predecessors@.contains_key(k) && queue@.contains(k),
//@ before 0 `let mut preds: FxHashSet<usize>`
    proof {
        assert(self.vertices@.contains_pair(*vertex.0, *vertex.1));
    }
//@ loop 1
    invariant
        self.graph_wf(), self.vertices@.contains_key(*vertex.0),
        seq_lists_set_ref(it2.seq(), self.predecessors@[*vertex.0]@),
        forall|u: usize| #![trigger preds@.contains(u)] preds@.contains(u) ==> self.predecessors@[*vertex.0]@.contains(u),
        forall|j: int| 0 <= j < it2.index@ ==> preds@.contains(*#[trigger] it2.seq()[j]),
        it2.index@ == it2.seq().len() ==> preds@ =~= self.predecessors@[*vertex.0]@,
//@ before 0 `preds.insert(*predecessor);`
    proof { lemma_seq_lists_set_ref(it2.seq(), self.predecessors@[*vertex.0]@); }
//@ after 0 `preds.insert(*predecessor);`
    proof {
        assert forall|u: usize| it2.index@ + 1 == it2.seq().len() && self.predecessors@[*vertex.0]@.contains(u) implies #[trigger] preds@.contains(u) by {
            let j = choose|j: int| 0 <= j < it2.seq().len() && *#[trigger] it2.seq()[j] == u;
        }
    }
//@ before 0 `predecessors.insert(*vertex.0, preds);`
    let ghost q0 = queue@;
    let ghost pm0 = predecessors@;
//@ after 0 `queue.push_back(*vertex.0);`
    proof {
        lemma_push_contains(q0, *vertex.0);
        assert(queue@ =~= q0.push(*vertex.0));
        lemma_seq_lists_map(it.seq(), self.vertices@);
        assert forall|i: int| 0 <= i < queue@.len() implies self.vertices@.contains_key(#[trigger] queue@[i]) by {
            if i < q0.len() { assert(queue@[i] == q0[i]); }
        }
        assert forall|k: usize| #![trigger self.vertices@.contains_key(k)] it.index@ + 1 == it.seq().len() && self.vertices@.contains_key(k) implies predecessors@.contains_key(k) && queue@.contains(k) by {
            let j = choose|j: int| 0 <= j < it.seq().len() && *(#[trigger] it.seq()[j]).0 == k;
            if j < it.index@ { assert(pm0.contains_key(*it.seq()[j].0) && q0.contains(*it.seq()[j].0)); }
        }
    }
//@ before 0 `while let Some(vertex_index)`
    let ghost mut gq: Seq<usize> = queue@;
    let ghost mut codes: Set<int> = Set::empty();
    proof {
        let es = self.edges@.dom();
        assert(predecessors@.dom() =~= self.vertices@.dom());
        assert forall|u: usize, v: usize| #![trigger es.contains((u, v))] es.contains((u, v)) <==> (predecessors@.contains_key(v) && predecessors@[v]@.contains(u)) by {
            assert(es.contains((u, v)) == self.edges@.contains_key((u, v)));
            if predecessors@.contains_key(v) && predecessors@[v]@.contains(u) {
                assert(self.predecessors@[v]@.contains(u));
            }
        }
        codes = lemma_codes_of_edges(es, predecessors@);
        assert forall|v: usize, u: usize| #![trigger predecessors@[v]@.contains(u)] predecessors@.contains_key(v) && predecessors@[v]@.contains(u) implies path_plus(es, u, v) by {
            assert(es.contains((u, v)));
            lemma_path_edge(es, u, v);
        }
        lemma_codes_len(codes);
    }
//@ loop 2
    invariant
        gq == queue@,
        self.graph_wf(),
        predecessors@.dom() == self.vertices@.dom(),
        preds_sound(self.edges@.dom(), predecessors@),
        preds_direct(self.edges@.dom(), predecessors@),
        preds_propagated(self.edges@.dom(), predecessors@, queue@),
        forall|i: int| 0 <= i < queue@.len() ==> self.vertices@.contains_key(#[trigger] queue@[i]),
        codes_match(codes, predecessors@),
    ensures queue@.len() == 0,
    decreases CODE_BOUND() - codes.len(), queue@.len(),
//@ before 0 `let this_predecessors =`
    let ghost pmw = predecessors@;
    let ghost q1 = queue@;
    let ghost codesw = codes;
    proof {
        assert(gq =~= seq![vertex_index] + q1);
        assert(gq[0] == vertex_index);
        lemma_drop_first_contains(gq);
        assert(gq.subrange(1, gq.len() as int) =~= q1);
        assert(self.vertices@.contains_key(vertex_index));
        assert forall|i: int| 0 <= i < q1.len() implies self.vertices@.contains_key(#[trigger] q1[i]) by {
            assert(gq[i + 1] == q1[i]);
        }
        lemma_codes_len(codes);
    }
//@ loop 3
    invariant
        self.graph_wf(), self.vertices@.contains_key(vertex_index),
        seq_lists_set_ref(it.seq(), self.successors@[vertex_index]@),
        this_predecessors@ == pmw[vertex_index]@,
        pmw.dom() == self.vertices@.dom(),
        preds_sound(self.edges@.dom(), pmw), preds_direct(self.edges@.dom(), pmw), preds_propagated(self.edges@.dom(), pmw, gq),
        forall|a: usize| #![trigger gq.contains(a)] gq.contains(a) <==> (a == vertex_index || q1.contains(a)),
        preds_mono(pmw, predecessors@),
        preds_sound(self.edges@.dom(), predecessors@),
        predecessors@[vertex_index]@ =~= this_predecessors@,
        forall|j: int| 0 <= j < it.index@ ==> this_predecessors@.subset_of(predecessors@[*#[trigger] it.seq()[j]]@),
        forall|s: usize| #![trigger self.edges@.contains_key((vertex_index, s))] it.index@ == it.seq().len() && self.edges@.contains_key((vertex_index, s)) ==> this_predecessors@.subset_of(predecessors@[s]@),
        forall|y: usize| #![trigger predecessors@[y]] self.vertices@.contains_key(y) ==> predecessors@[y]@ =~= pmw[y]@ || queue@.contains(y),
        forall|a: usize| #![trigger q1.contains(a)] q1.contains(a) ==> queue@.contains(a),
        forall|i: int| 0 <= i < queue@.len() ==> self.vertices@.contains_key(#[trigger] queue@[i]),
        codes_match(codes, predecessors@),
        codesw.subset_of(codes),
        codes.len() == codesw.len() ==> queue@ == q1,
//@ before 0 `let successor_predecessors =`
    let ghost pma = predecessors@;
    let ghost codesa = codes;
    let ghost s = *successor_index;
    proof {
        let es = self.edges@.dom();
        lemma_seq_lists_set_ref(it.seq(), self.successors@[vertex_index]@);
        assert(self.successors@[vertex_index]@.contains(s));
        assert(self.edges@.contains_key((vertex_index, s)));
        assert(self.vertices@.contains_key(s));
        lemma_path_edge(es, vertex_index, s);
        assert forall|u: usize| #![trigger this_predecessors@.contains(u)] this_predecessors@.contains(u) implies path_plus(es, u, s) by {
            assert(pmw[vertex_index]@.contains(u));
            lemma_path_plus_trans_l(es, u, vertex_index, s);
        }
    }
//@ loop 4
    invariant
        seq_lists_set_ref(it2.seq(), this_predecessors@),
        forall|u: usize| #![trigger this_predecessors@.contains(u)] this_predecessors@.contains(u) ==> path_plus(self.edges@.dom(), u, s),
        pma.contains_key(s), s == *successor_index,
        pma[s]@.subset_of(successor_predecessors@),
        forall|u: usize| #![trigger successor_predecessors@.contains(u)] successor_predecessors@.contains(u) ==> pma[s]@.contains(u) || this_predecessors@.contains(u),
        forall|j: int| 0 <= j < it2.index@ ==> successor_predecessors@.contains(*#[trigger] it2.seq()[j]),
        it2.index@ == it2.seq().len() ==> this_predecessors@.subset_of(successor_predecessors@),
        !changed ==> successor_predecessors@ =~= pma[s]@ && codes == codesa,
        changed ==> codes.len() > codesa.len(),
        codesa.subset_of(codes),
        codes_match_upd(codes, pma, s, successor_predecessors@),
//@ before 0 `let ins__ = successor_predecessors.insert(*predecessor);`
    let ghost sp0 = successor_predecessors@;
    let ghost codes0 = codes;
    proof { lemma_seq_lists_set_ref(it2.seq(), this_predecessors@); }
//@ after 0 `changed = changed || ins__;`
    proof {
        if ins__ {
            let c = pair_code(*predecessor, s);
            assert(!codes0.contains(c));
            codes = codes0.insert(c);
            assert(vstd::set_lib::set_int_range(0, CODE_BOUND()).contains(c));
            vstd::set_lib::lemma_len_subset(codesa, codes0);
            assert forall|u: usize, v: usize| #![trigger codes.contains(pair_code(u, v))] codes.contains(pair_code(u, v))
                <==> (if v == s { successor_predecessors@.contains(u) } else { pma.contains_key(v) && pma[v]@.contains(u) }) by {
                if pair_code(u, v) == c { assert(u == *predecessor && v == s); }
                assert(codes0.contains(pair_code(u, v)) <==> (if v == s { sp0.contains(u) } else { pma.contains_key(v) && pma[v]@.contains(u) }));
            }
        }
        assert forall|u: usize| it2.index@ + 1 == it2.seq().len() && this_predecessors@.contains(u) implies #[trigger] successor_predecessors@.contains(u) by {
            let j = choose|j: int| 0 <= j < it2.seq().len() && *#[trigger] it2.seq()[j] == u;
            if j < it2.index@ { assert(sp0.contains(*it2.seq()[j])); }
        }
    }
//@ after 0 `changed = changed || ins__; } }`
    let ghost qb = queue@;
    proof {
        let es = self.edges@.dom();
        // the borrow has ended: the map is pma with the set of s replaced
        assert(predecessors@.dom() == pma.dom());
        assert forall|v: usize| #![trigger predecessors@[v]] pma.contains_key(v) && v != s implies predecessors@[v] == pma[v] by {
            assert(!vstd::std_specs::hash::contains_borrowed_key(Map::<usize, ()>::empty().insert(v, ()), successor_index)) by {
                assert(!Map::<usize, ()>::empty().insert(v, ()).contains_key(s));
            }
        }
        assert(codes_match(codes, predecessors@)) by {
            assert forall|u: usize, v: usize| #![trigger codes.contains(pair_code(u, v))] codes.contains(pair_code(u, v)) <==> (predecessors@.contains_key(v) && predecessors@[v]@.contains(u)) by {
                if v != s && pma.contains_key(v) { assert(predecessors@[v] == pma[v]); }
            }
        }
        assert(preds_mono(pmw, predecessors@)) by {
            assert forall|v: usize, u: usize| #![trigger pmw[v]@.contains(u)] #![trigger predecessors@[v]@.contains(u)] pmw.contains_key(v) && pmw[v]@.contains(u) implies predecessors@[v]@.contains(u) by {
                assert(pma[v]@.contains(u));
                if v != s { assert(predecessors@[v] == pma[v]); }
            }
        }
        assert(preds_sound(es, predecessors@)) by {
            assert forall|v: usize, u: usize| #![trigger predecessors@[v]@.contains(u)] predecessors@.contains_key(v) && predecessors@[v]@.contains(u) implies path_plus(es, u, v) by {
                if v != s { assert(predecessors@[v] == pma[v]); assert(pma[v]@.contains(u)); }
                else if !pma[s]@.contains(u) { assert(this_predecessors@.contains(u)); }
            }
        }
        // the set of vertex_index itself did not change (a self-loop only re-adds its own elements)
        assert(predecessors@[vertex_index]@ =~= this_predecessors@) by {
            if vertex_index != s { assert(predecessors@[vertex_index] == pma[vertex_index]); }
        }
        vstd::set_lib::lemma_len_subset(codesw, codesa);
    }
//@ after 0 `queue.push_back(*successor_index); }`
    proof {
        lemma_push_contains(qb, s);
        if changed { assert(queue@ =~= qb.push(s)); }
        assert forall|i: int| 0 <= i < queue@.len() implies self.vertices@.contains_key(#[trigger] queue@[i]) by {
            if i < qb.len() { assert(queue@[i] == qb[i]); }
        }
        assert forall|y: usize| #![trigger predecessors@[y]] self.vertices@.contains_key(y) implies predecessors@[y]@ =~= pmw[y]@ || queue@.contains(y) by {
            if y != s {
                assert(predecessors@[y] == pma[y]);
                assert(pma[y]@ =~= pmw[y]@ || qb.contains(y));
            } else if !changed {
                assert(pma[s]@ =~= pmw[s]@ || qb.contains(s));
            }
        }
        assert forall|j: int| 0 <= j < it.index@ + 1 implies this_predecessors@.subset_of(predecessors@[*#[trigger] it.seq()[j]]@) by {
            let t = *it.seq()[j];
            if j < it.index@ {
                assert(this_predecessors@.subset_of(pma[t]@));
                if t != s { assert(predecessors@[t] == pma[t]); }
            }
        }
        assert forall|s2: usize| #![trigger self.edges@.contains_key((vertex_index, s2))] it.index@ + 1 == it.seq().len() && self.edges@.contains_key((vertex_index, s2)) implies this_predecessors@.subset_of(predecessors@[s2]@) by {
            assert(self.successors@[vertex_index]@.contains(s2));
            let j = choose|j: int| 0 <= j < it.seq().len() && *#[trigger] it.seq()[j] == s2;
        }
    }
//@ after 0 `queue.push_back(*successor_index); } }`
    proof {
        let es = self.edges@.dom();
        // re-establish the while invariant
        assert(preds_direct(es, predecessors@)) by {
            assert forall|u: usize, v: usize| #![trigger es.contains((u, v))] es.contains((u, v)) implies predecessors@.contains_key(v) && predecessors@[v]@.contains(u) by {
                assert(pmw.contains_key(v) && pmw[v]@.contains(u));
            }
        }
        assert(preds_propagated(es, predecessors@, queue@)) by {
            assert forall|x: usize, s2: usize, u: usize| #![trigger es.contains((x, s2)), predecessors@[x]@.contains(u)]
                es.contains((x, s2)) && predecessors@.contains_key(x) && predecessors@[x]@.contains(u) && !queue@.contains(x) implies predecessors@[s2]@.contains(u) by {
                assert(self.edges@.contains_key((x, s2)));
                if x == vertex_index {
                    assert(this_predecessors@.contains(u));
                    assert(this_predecessors@.subset_of(predecessors@[s2]@));
                } else {
                    assert(!q1.contains(x));
                    assert(!gq.contains(x));
                    assert(predecessors@[x]@ =~= pmw[x]@);
                    assert(pmw[x]@.contains(u));
                    assert(pmw[s2]@.contains(u));
                }
            }
        }
        vstd::set_lib::lemma_len_subset(codesw, codes);
        lemma_codes_len(codes);
        gq = queue@;
    }
//@ before 0 `Ok(predecessors)`
    proof {
        let es = self.edges@.dom();
        assert(queue@ =~= Seq::<usize>::empty());
        assert forall|v: usize, u: usize| #![trigger predecessors@[v]@.contains(u)] self.vertices@.contains_key(v) implies
            (predecessors@[v]@.contains(u) <==> path_plus(es, u, v)) by {
            if path_plus(es, u, v) {
                assert forall|a: usize, b: usize| #![trigger es.contains((a, b))] es.contains((a, b)) implies predecessors@.contains_key(a) && predecessors@.contains_key(b) by {
                    assert(self.edges@.contains_key((a, b)));
                }
                lemma_preds_complete(es, predecessors@, u, v);
            }
        }
    }
//@ end


//@ fn impl<V, E> Graph<V, E> :: fn compute_acyclic loops=3
//@ rewrite 1 `let mut graph = Graph::new();` => `let mut graph: Graph<NullVertex, NullEdge> = Graph::new();` ## R-type-annotation: spells out the inferred type of the local
//@ rewrite 1 `let mut visited = FxHashSet::default();` => `let mut visited: FxHashSet<usize> = FxHashSet::default();` ## R-type-annotation: spells out the inferred type of the local
//@ rewrite 1 `let mut queue = VecDeque::new();` => `let mut queue: VecDeque<usize> = VecDeque::new();` ## R-type-annotation: spells out the inferred type of the local
//@ rewrite 1 `for vertex in &self.vertices {` => `for vertex in it: &self.vertices {` ## R-ghost-iter-name: names the ghost iterator of the for loop; no executable change
//@ rewrite 1 `for successor in &self` => `for successor in it: &self` ## R-ghost-iter-name: names the ghost iterator of the for loop; no executable change
//@ rewrite 1 `{ continue; }` => `{ } else {` ## R-continue: `if C { continue; } REST` at the end of a loop body is `if C { } else { REST }` (part 1 of 2; Verus for-loops have no `continue`)
//@ rewrite 1 `))?; } }` => `))?; } } }` ## R-continue: part 2 of 2, closes the else block at the end of the loop body
//@ spec
    requires self.graph_wf(),
    ensures
        /*@missing*/ !self.vertices@.contains_key(start_index) ==> (r matches Err(e) && e == Error::GraphVertexNotFound(start_index)),
        /*@ok*/ self.vertices@.contains_key(start_index) ==> r is Ok,
        /*@wf*/ r matches Ok(g) ==> g.graph_wf() && g.vertices@.dom() == self.vertices@.dom(),
        /*@subgraph*/ r matches Ok(g) ==> forall|e: (usize, usize)| #![trigger g.edges@.contains_key(e)] g.edges@.contains_key(e) ==> self.edges@.contains_key(e) && self.reaches(start_index, e.0),
        /*@acyclic*/ r matches Ok(g) ==> acyclic(g.edges@.dom()),
        /*@dropped*/ r matches Ok(g) ==> forall|u: usize, w: usize| #![trigger self.edges@.contains_key((u, w))]
            self.edges@.contains_key((u, w)) && self.reaches(start_index, u) && !g.edges@.contains_key((u, w)) ==> path_plus(self.edges@.dom(), w, u),
        /*@reach*/ r matches Ok(g) ==> forall|v: usize| #![trigger self.reaches(start_index, v)] path(g.edges@.dom(), start_index, v) <==> self.reaches(start_index, v),
//@ loop 0
    invariant
        self.graph_wf(),
        seq_lists_map(it.seq(), self.vertices@),
        graph.graph_wf(), graph.edges@.dom() =~= Set::<(usize, usize)>::empty(),
        forall|k: usize| #![trigger graph.vertices@.contains_key(k)] graph.vertices@.contains_key(k) ==> self.vertices@.contains_key(k),
        forall|k: usize| #![trigger graph.vertices@.contains_key(k)] graph.vertices@.contains_key(k) ==> exists|j: int| 0 <= j < it.index@ && *(#[trigger] it.seq()[j]).0 == k,
        forall|j: int| 0 <= j < it.index@ ==> graph.vertices@.contains_key(*(#[trigger] it.seq()[j]).0),
        forall|k: usize| #![trigger self.vertices@.contains_key(k)] it.index@ == it.seq().len() && self.vertices@.contains_key(k) ==> graph.vertices@.contains_key(k),
//@ before 0 `graph.insert_vertex(NullVertex::new(*vertex.0))?;`
    let ghost gv0 = graph.vertices@.dom();
    proof {
        lemma_seq_lists_map(it.seq(), self.vertices@);
        assert(self.vertices@.contains_pair(*vertex.0, *vertex.1));
        if graph.vertices@.contains_key(*vertex.0) {
            let j = choose|j: int| 0 <= j < it.index@ && *(#[trigger] it.seq()[j]).0 == *vertex.0;
            assert(*it.seq()[j].0 != *it.seq()[it.index@].0);
        }
    }
//@ after 0 `graph.insert_vertex(NullVertex::new(*vertex.0))?;`
    proof {
        assert forall|k: usize| #![trigger graph.vertices@.contains_key(k)] graph.vertices@.contains_key(k) implies exists|j: int| 0 <= j < it.index@ + 1 && *(#[trigger] it.seq()[j]).0 == k by {
            if k != *vertex.0 {
                assert(gv0.contains(k));
                let j = choose|j: int| 0 <= j < it.index@ && *(#[trigger] it.seq()[j]).0 == k;
            }
        }
        assert forall|k: usize| #![trigger self.vertices@.contains_key(k)] it.index@ + 1 == it.seq().len() && self.vertices@.contains_key(k) implies graph.vertices@.contains_key(k) by {
            let j = choose|j: int| 0 <= j < it.seq().len() && *(#[trigger] it.seq()[j]).0 == k;
            if j < it.index@ { assert(gv0.contains(*it.seq()[j].0)); }
        }
    }
//@ before 0 `while !queue.is_empty()`
    let ghost mut deq: Seq<usize> = Seq::empty();
    proof {
        assert(graph.vertices@.dom() =~= self.vertices@.dom());
        assert(queue@ =~= seq![start_index]);
        lemma_path_refl(self.edges@.dom(), start_index);
        lemma_path_refl(graph.edges@.dom(), start_index);
        assert(queue@.contains(queue@[0]));
        vstd::set_lib::lemma_len_subset(visited@, self.vertices@.dom());
    }
//@ loop 1
    invariant
        self.graph_wf(), /*@root_is_vertex*/ self.vertices@.contains_key(start_index),
        graph.graph_wf(), graph.vertices@.dom() == self.vertices@.dom(),
        predecessors@.dom() == self.vertices@.dom(),
        forall|v: usize, u: usize| #![trigger predecessors@[v]@.contains(u)] self.vertices@.contains_key(v) ==> (predecessors@[v]@.contains(u) <==> path_plus(self.edges@.dom(), u, v)),
        acyc_build_inv(self.vertices@.dom(), self.edges@.dom(), graph.edges@.dom(), deq, visited@, start_index),
        /*@queue_ok*/ acyc_queue_ok(self.vertices@.dom(), self.edges@.dom(), graph.edges@.dom(), queue@, visited@, start_index),
        forall|a: usize, b: usize| #![trigger self.edges@.contains_key((a, b))] visited@.contains(a) && self.edges@.contains_key((a, b))
            ==> (visited@.contains(b) || queue@.contains(b)) && (graph.edges@.contains_key((a, b)) || path_plus(self.edges@.dom(), b, a)),
        visited@.contains(start_index) || queue@.contains(start_index),
    decreases self.vertices@.dom().len() - visited@.len(),
//@ before 0 `let vertex_index = queue.pop_front().unwrap();`
    let ghost q0 = queue@;
    let ghost vis0 = visited@;
//@ after 0 `visited.insert(vertex_index);`
    let ghost deq0 = deq;
    let ghost q1 = queue@;
    proof {
        let es = self.edges@.dom();
        let ge = graph.edges@.dom();
        assert(q0 =~= seq![vertex_index] + q1);
        assert(q0[0] == vertex_index);
        lemma_drop_first_contains(q0);
        assert(q0.subrange(1, q0.len() as int) =~= q1);
        assert(!vis0.contains(vertex_index));
        deq = deq0.push(vertex_index);
        lemma_push_contains(deq0, vertex_index);
        assert(!deq0.contains(vertex_index));
        assert(deq.no_duplicates());
        assert forall|e: (usize, usize)| #![trigger ge.contains(e)] ge.contains(e) implies es.contains(e) && deq.contains(e.0) && kept_ok(es, deq, e) by {
            lemma_kept_ok_push(es, deq0, vertex_index, e);
        }
        assert forall|i: int| 0 <= i < q1.len() implies self.vertices@.dom().contains(#[trigger] q1[i]) && !visited@.contains(q1[i]) && path(es, start_index, q1[i]) && path(ge, start_index, q1[i]) by {
            assert(q0[i + 1] == q1[i]);
            assert(q0[0] != q0[i + 1]);
        }
        assert(q1.no_duplicates()) by {
            assert forall|i: int, j: int| 0 <= i < q1.len() && 0 <= j < q1.len() && i != j implies q1[i] != q1[j] by {
                assert(q0[i + 1] == q1[i] && q0[j + 1] == q1[j]);
            }
        }
        vstd::set_lib::lemma_len_subset(vis0.insert(vertex_index), self.vertices@.dom());
        vstd::set_lib::lemma_len_subset(vis0, self.vertices@.dom());
        // no kept edge leaves vertex_index yet: heads of kept edges were dequeued before
        assert forall|b: usize| !ge.contains((vertex_index, b)) by {
            if ge.contains((vertex_index, b)) { assert(deq0.contains(vertex_index)); }
        }
    }
//@ loop 2
    invariant
        self.graph_wf(), self.vertices@.contains_key(start_index), self.vertices@.contains_key(vertex_index),
        graph.graph_wf(), graph.vertices@.dom() == self.vertices@.dom(),
        predecessors@.dom() == self.vertices@.dom(),
        forall|v: usize, u: usize| #![trigger predecessors@[v]@.contains(u)] self.vertices@.contains_key(v) ==> (predecessors@[v]@.contains(u) <==> path_plus(self.edges@.dom(), u, v)),
        *vertex_predecessors == predecessors@[vertex_index],
        seq_lists_set_ref(it.seq(), self.successors@[vertex_index]@),
        visited@ == vis0.insert(vertex_index), !vis0.contains(vertex_index), deq == deq0.push(vertex_index),
        deq[deq.len() - 1] == vertex_index,
        acyc_build_inv(self.vertices@.dom(), self.edges@.dom(), graph.edges@.dom(), deq, visited@, start_index),
        acyc_queue_ok(self.vertices@.dom(), self.edges@.dom(), graph.edges@.dom(), queue@, visited@, start_index),
        forall|a: usize, b: usize| #![trigger self.edges@.contains_key((a, b))] visited@.contains(a) && a != vertex_index && self.edges@.contains_key((a, b))
            ==> (visited@.contains(b) || queue@.contains(b)) && (graph.edges@.contains_key((a, b)) || path_plus(self.edges@.dom(), b, a)),
        visited@.contains(start_index) || queue@.contains(start_index),
        forall|j: int| 0 <= j < it.index@ ==> (visited@.contains(*#[trigger] it.seq()[j]) || queue@.contains(*it.seq()[j]))
            && (graph.edges@.contains_key((vertex_index, *it.seq()[j])) || path_plus(self.edges@.dom(), *it.seq()[j], vertex_index)),
        forall|j: int| it.index@ <= j < it.seq().len() ==> !graph.edges@.contains_key((vertex_index, *#[trigger] it.seq()[j])),
        forall|b: usize| #![trigger self.edges@.contains_key((vertex_index, b))] it.index@ == it.seq().len() && self.edges@.contains_key((vertex_index, b))
            ==> (visited@.contains(b) || queue@.contains(b)) && (graph.edges@.contains_key((vertex_index, b)) || path_plus(self.edges@.dom(), b, vertex_index)),
        self.vertices@.dom().len() - visited@.len() < self.vertices@.dom().len() - vis0.len(),
//@ after 0 `for successor in it: &self.successors[&vertex_index] {`
    let ghost qa = queue@;
    let ghost gea = graph.edges@.dom();
    proof {
        lemma_seq_lists_set_ref(it.seq(), self.successors@[vertex_index]@);
        assert(self.successors@[vertex_index]@.contains(*successor));
        assert(self.edges@.contains_key((vertex_index, *successor)));
        assert(self.vertices@.contains_key(*successor));
        lemma_push_contains(qa, *successor);
    }
    let ghost mut fresh_in_queue = false;
//@ before 0 `queue.push_back(*successor);`
    proof {
        if qa.contains(*successor) {
            let i = choose|i: int| 0 <= i < qa.len() && qa[i] == *successor;
            assert(vstd::std_specs::cmp::PartialEqSpec::eq_spec(&qa[i], successor));
        }
        assert(!qa.contains(*successor));
        fresh_in_queue = true;
    }
//@ before 0 `} else { // successors we haven't seen yet`
    proof {
        assert forall|b: usize| #![trigger self.edges@.contains_key((vertex_index, b))] it.index@ + 1 == it.seq().len() && self.edges@.contains_key((vertex_index, b))
            implies (visited@.contains(b) || queue@.contains(b)) && (graph.edges@.contains_key((vertex_index, b)) || path_plus(self.edges@.dom(), b, vertex_index)) by {
            assert(self.successors@[vertex_index]@.contains(b));
            let j = choose|j: int| 0 <= j < it.seq().len() && *#[trigger] it.seq()[j] == b;
        }
    }
//@ after 0 `graph.insert_edge(NullEdge::new(vertex_index, *successor))?;`
    proof {
        let es = self.edges@.dom();
        let ge = graph.edges@.dom();
        let b = *successor;
        assert(ge =~= gea.insert((vertex_index, b)));
        assert(gea.subset_of(ge));
        if queue@.len() > qa.len() { assert(queue@ =~= qa.push(b)); assert(fresh_in_queue); assert(!qa.contains(b)); }
        assert(visited@.contains(vertex_index));
        lemma_path_step(es, start_index, vertex_index, b);
        assert(path(gea, start_index, vertex_index));
        lemma_path_mono(gea, ge, start_index, vertex_index);
        lemma_path_step(ge, start_index, vertex_index, b);
        // the new edge satisfies kept_ok: its tail, if dequeued already, is no transitive predecessor
        assert(kept_ok(es, deq, (vertex_index, b))) by {
            assert forall|i: int, j: int| #![trigger deq[i], deq[j]] 0 <= j <= i < deq.len() && deq[i] == vertex_index && deq[j] == b implies !path_plus(es, b, vertex_index) by {
                assert(deq.contains(b));
                assert(visited@.contains(b));
                assert(!predecessors@[vertex_index]@.contains(b));
            }
        }
        assert forall|x: usize| #![trigger visited@.contains(x)] visited@.contains(x) implies path(ge, start_index, x) by {
            lemma_path_mono(gea, ge, start_index, x);
        }
        assert forall|i: int| 0 <= i < queue@.len() implies self.vertices@.dom().contains(#[trigger] queue@[i]) && !visited@.contains(queue@[i])
            && path(es, start_index, queue@[i]) && path(ge, start_index, queue@[i]) by {
            if i < qa.len() {
                assert(queue@[i] == qa[i]);
                lemma_path_mono(gea, ge, start_index, qa[i]);
            }
        }
        assert(queue@.no_duplicates()) by {
            assert forall|i: int, j: int| 0 <= i < queue@.len() && 0 <= j < queue@.len() && i != j implies queue@[i] != queue@[j] by {
                if i < qa.len() { assert(queue@[i] == qa[i]); }
                if j < qa.len() { assert(queue@[j] == qa[j]); }
                if i >= qa.len() || j >= qa.len() { assert(!qa.contains(b)); }
            }
        }
        assert forall|j: int| it.index@ + 1 <= j < it.seq().len() implies !graph.edges@.contains_key((vertex_index, *#[trigger] it.seq()[j])) by {
            assert(*it.seq()[j] != *it.seq()[it.index@]);
        }
        assert forall|b2: usize| #![trigger self.edges@.contains_key((vertex_index, b2))] it.index@ + 1 == it.seq().len() && self.edges@.contains_key((vertex_index, b2))
            implies (visited@.contains(b2) || queue@.contains(b2)) && (graph.edges@.contains_key((vertex_index, b2)) || path_plus(es, b2, vertex_index)) by {
            assert(self.successors@[vertex_index]@.contains(b2));
            let j = choose|j: int| 0 <= j < it.seq().len() && *#[trigger] it.seq()[j] == b2;
            if j < it.index@ { assert(qa.contains(*it.seq()[j]) ==> queue@.contains(*it.seq()[j])); }
        }
    }
//@ before 0 `Ok(graph)`
    proof {
        let es = self.edges@.dom();
        let ge = graph.edges@.dom();
        assert(queue@.len() == 0);
        let f = |v: usize| visited@.contains(v);
        assert forall|a: usize, b: usize| #![trigger es.contains((a, b))] f(a) && es.contains((a, b)) implies f(b) by {
            assert(self.edges@.contains_key((a, b)));
            assert(!queue@.contains(b));
        }
        assert(!queue@.contains(start_index));
        assert forall|v: usize| self.reaches(start_index, v) implies #[trigger] visited@.contains(v) by {
            lemma_path_closed(es, f, start_index, v);
        }
        lemma_kept_acyclic(es, ge, deq);
        assert forall|e: (usize, usize)| #![trigger graph.edges@.contains_key(e)] graph.edges@.contains_key(e) implies self.edges@.contains_key(e) && self.reaches(start_index, e.0) by {
            assert(ge.contains(e));
            assert(deq.contains(e.0));
        }
        assert(ge.subset_of(es));
        assert forall|v: usize| #![trigger self.reaches(start_index, v)] path(ge, start_index, v) <==> self.reaches(start_index, v) by {
            if path(ge, start_index, v) { lemma_path_mono(ge, es, start_index, v); }
            if self.reaches(start_index, v) { assert(visited@.contains(v)); }
        }
    }
//@ end

} // impl Graph (traversals)
