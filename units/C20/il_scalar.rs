// ---- units/C20/il_scalar.rs: il::Scalar as far as the architecture descriptors need it: the struct, Scalar::new,
// Scalar::{name, bits} and the convenience constructor il::scalar, extracted from /repo and proved HERE with a
// NAME-precise contract (the same contracts unit C01 proves in units/C01/il_glue.rs; re-proved, not imported, so
// that this unit does not need il::Expression / il::Constant and their arithmetic).  Included inside `pub mod il`.
//@ source lib/il/scalar.rs
//@ item struct Scalar

// derive(Clone, PartialEq, Eq, Hash) on Scalar re-supplied.  ASSUMED, the reading units C04 / C13 / C15 use:
// derive = structural copy / structural equality; `Hash` is opaque, its lawfulness is the key-model axiom of
// prelude/scalar_hash.rs.
impl Clone for Scalar {
    #[verifier::external_body]
    fn clone(&self) -> (r: Scalar) ensures r == *self { unimplemented!() }
}
impl vstd::std_specs::cmp::PartialEqSpecImpl for Scalar {
    open spec fn obeys_eq_spec() -> bool { true }
    open spec fn eq_spec(&self, other: &Scalar) -> bool { *self == *other }
}
impl PartialEq for Scalar {
    #[verifier::external_body]
    fn eq(&self, other: &Scalar) -> (r: bool) ensures r == (*self == *other) { unimplemented!() }
}
impl Eq for Scalar {}
impl std::hash::Hash for Scalar {
    #[verifier::external_body]
    fn hash<H: std::hash::Hasher>(&self, state: &mut H) { unimplemented!() }
}

/// the scalar called `name` of width `bits` (not in SSA form), as `il::scalar(name, bits)` builds it
/// (`string_of`: units/C20/strlit.rs)
pub open spec fn named_scalar(name: Seq<char>, bits: usize) -> Scalar {
    Scalar { name: string_of(name), bits, ssa: None }
}

impl Scalar {
//@ fn impl Scalar :: fn new
//@ rewrite 1 `name.into()` => `into_string(name)` ## R-into: the same conversion through the stand-in of prelude/strmap.rs carrying the assumed contract of Into<String> (keeps the characters)
//@ spec
    ensures /*@fields*/ r == named_scalar(into_string_chars(name), bits), /*@name*/ r.name@ == into_string_chars(name),
//@ enter
    proof { assert forall|s: String| #[trigger] string_of(s@) == s by { crate::strlit::lemma_string_of_view(s); } }
//@ end

//@ fn impl Scalar :: fn bits
//@ spec
    ensures /*@field*/ r == self.bits,
//@ end
}

//@ source lib/il/mod.rs
//@ fn fn scalar
//@ spec
    ensures /*@fields*/ r == named_scalar(into_string_chars(name), bits), /*@name*/ r.name@ == into_string_chars(name),
//@ end
