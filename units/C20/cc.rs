// ---- units/C20/cc.rs: analysis::calling_convention (lib/analysis/calling_convention.rs), every item of the file.
// Included inside `pub mod analysis { pub mod calling_convention { .. } }`.
//@ source lib/analysis/calling_convention.rs
//@ item enum CallingConventionType
//@ item enum ReturnAddressType
//@ item enum ArgumentType
//@ item struct CallingConvention

// derive(Clone) of CallingConvention (needed by nothing under contract) is not re-supplied.

// =====================================================================================================
// (1) THE TWIN.  `CallingConvention::new` is extracted TWICE from the same source text on every run:
//   (a) as the executable function (further down), and
//   (b) as the GHOST function `cc_twin` below: the same text read as a mathematical term.  The rewrites turn
//       the executable containers into mathematical ones and nothing else:
//          il::scalar(n, b)            ->  reg(n, b)            (a (name, width) pair; the name stays a &'static str)
//          vec![..] / Vec::new()       ->  seq![..] / Seq::empty()
//          let mut s = HashSet::new(); ->  let s = Seq::empty();
//          s.insert(x);                ->  let s = s.push(x);    (the LIST of inserted elements, in program order)
//          ReturnAddressType / CallingConvention { .. }  ->  RaTwin / CcTwin { .. }
//   Verus PROVES on every run that the value `new` returns is the lifting `cc_lift` of the twin (postcondition
//   `twin` of `new`), and evaluates every check of the property on the twin (`assert .. by (compute)`): the names
//   are compared as string literals by Verus' evaluator, the widths as numbers.
// =====================================================================================================

/// a register as the tables name it: literal name + width in bits
pub struct RegName { pub name: &'static str, pub bits: usize }

pub open spec fn reg(name: &'static str, bits: usize) -> RegName { RegName { name, bits } }

pub enum RaTwin { Register(RegName), Stack(usize) }

pub struct CcTwin {
    pub argument_registers: Seq<RegName>,
    pub preserved_registers: Seq<RegName>,
    pub trashed_registers: Seq<RegName>,
    pub stack_argument_offset: usize,
    pub stack_argument_length: usize,
    pub return_address_type: RaTwin,
    pub return_register: RegName,
}

/// one more element inserted into the (twin of a) register set
pub open spec fn rs_ins(s: Seq<RegName>, x: RegName) -> Seq<RegName> { s.push(x) }

//@ itemx impl CallingConvention :: fn new name=vf_twin_anchor_new
//@ rewrite 1 `pub fn new(typ: CallingConventionType) -> CallingConvention {` => `fn new() {} pub open spec fn cc_twin(typ: CallingConventionType) -> CcTwin {` ## R-fn-twin: ghost twin of CallingConvention::new: the same body read as a mathematical term (an empty executable fn in front keeps the item a `fn` for the extractor); spec-only, no executable token involved
//@ rewrite * `il::scalar(` => `reg(` ## R-fn-twin: a scalar constructor call becomes the (literal name, width) pair it is applied to
//@ rewrite * `vec![` => `seq![` ## R-fn-twin: vector literal -> sequence literal
//@ rewrite 1 `Vec::new()` => `Seq::<RegName>::empty()` ## R-fn-twin: empty vector -> empty sequence
//@ rewrite * `let mut preserved_registers = HashSet::new();` => `let preserved_registers = Seq::<RegName>::empty();` ## R-fn-twin: empty set -> empty list of inserted elements
//@ rewrite * `let mut trashed_registers = HashSet::new();` => `let trashed_registers = Seq::<RegName>::empty();` ## R-fn-twin: empty set -> empty list of inserted elements
//@ rewrite * `preserved_registers.insert(` => `let preserved_registers = rs_ins(preserved_registers,` ## R-fn-twin: insertion -> the list of inserted elements grows by one (program order)
//@ rewrite * `trashed_registers.insert(` => `let trashed_registers = rs_ins(trashed_registers,` ## R-fn-twin: insertion -> the list of inserted elements grows by one (program order)
//@ rewrite * `ReturnAddressType::` => `RaTwin::` ## R-fn-twin: the twin of the return-address descriptor
//@ rewrite * `CallingConvention {` => `CcTwin {` ## R-fn-twin: the twin of the record
//@ end
