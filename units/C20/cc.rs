// ---- units/C20/cc.rs: analysis::calling_convention (lib/analysis/calling_convention.rs), every item of the file.
// Included inside `pub mod analysis { pub mod calling_convention { .. } }`.
//@ source lib/analysis/calling_convention.rs
//@ item enum CallingConventionType
//@ item enum ReturnAddressType
//@ item enum ArgumentType
//@ item struct CallingConvention

// derive(Clone) of CallingConvention (needed by nothing under contract) is not re-supplied.

// =====================================================================================================
// (1) THE TWIN.  `CallingConvention::new` is extracted TWICE from the same source text on every run:
//   (a) as the executable function (further down), and
//   (b) as the GHOST function `cc_twin` below: the same text read as a mathematical term.  The rewrites turn
//       the executable containers into mathematical ones and nothing else:
//          il::scalar(n, b)            ->  reg(n, b)            (a (name, width) pair; the name stays a &'static str)
//          vec![..] / Vec::new()       ->  seq![..] / Seq::empty()
//          let mut s = HashSet::new(); ->  let s = Seq::empty();
//          s.insert(x);                ->  let s = s.push(x);    (the LIST of inserted elements, in program order)
//          ReturnAddressType / CallingConvention { .. }  ->  RaTwin / CcTwin { .. }
//   Verus PROVES on every run that the value `new` returns is the lifting `cc_lift` of the twin (postcondition
//   `twin` of `new`), and evaluates every check of the property on the twin (`assert .. by (compute)`): the names
//   are compared as string literals by Verus' evaluator, the widths as numbers.
// =====================================================================================================

// (`RegName` = literal name + width in bits: units/C20/tables.rs)
pub open spec fn reg(name: &'static str, bits: usize) -> RegName { RegName { name, bits } }

pub enum RaTwin { Register(RegName), Stack(usize) }

pub struct CcTwin {
    pub argument_registers: Seq<RegName>,
    pub preserved_registers: Seq<RegName>,
    pub trashed_registers: Seq<RegName>,
    pub stack_argument_offset: usize,
    pub stack_argument_length: usize,
    pub return_address_type: RaTwin,
    pub return_register: RegName,
}

/// one more element inserted into the (twin of a) register set
pub open spec fn rs_ins(s: Seq<RegName>, x: RegName) -> Seq<RegName> { s.push(x) }

//@ itemx impl CallingConvention :: fn new name=vf_twin_anchor_new
//@ rewrite 1 `pub fn new(typ: CallingConventionType) -> CallingConvention {` => `fn new() {} pub open spec fn cc_twin_raw(typ: CallingConventionType) -> CcTwin {` ## R-fn-twin: ghost twin of CallingConvention::new: the same body read as a mathematical term (an empty executable fn in front keeps the item a `fn` for the extractor); spec-only, no executable token involved
//@ rewrite * `il::scalar(` => `reg(` ## R-fn-twin: a scalar constructor call becomes the (literal name, width) pair it is applied to
//@ rewrite * `vec![` => `seq![` ## R-fn-twin: vector literal -> sequence literal
//@ rewrite 1 `Vec::new()` => `Seq::<RegName>::empty()` ## R-fn-twin: empty vector -> empty sequence
//@ rewrite * `let mut preserved_registers = HashSet::new();` => `let preserved_registers = Seq::<RegName>::empty();` ## R-fn-twin: empty set -> empty list of inserted elements
//@ rewrite * `let mut trashed_registers = HashSet::new();` => `let trashed_registers = Seq::<RegName>::empty();` ## R-fn-twin: empty set -> empty list of inserted elements
//@ rewrite * `preserved_registers.insert(` => `let preserved_registers = rs_ins(preserved_registers,` ## R-fn-twin: insertion -> the list of inserted elements grows by one (program order)
//@ rewrite * `trashed_registers.insert(` => `let trashed_registers = rs_ins(trashed_registers,` ## R-fn-twin: insertion -> the list of inserted elements grows by one (program order)
//@ rewrite * `ReturnAddressType::` => `RaTwin::` ## R-fn-twin: the twin of the return-address descriptor
//@ rewrite * `CallingConvention {` => `CcTwin {` ## R-fn-twin: the twin of the record
//@ end

/// the twin, hidden from the solver except where it is revealed (in `new`, to prove that the executable function
/// returns the lifting of the twin); Verus' evaluator sees through it
#[verifier::opaque]
pub open spec fn cc_twin(typ: CallingConventionType) -> CcTwin { cc_twin_raw(typ) }

// =====================================================================================================
// (2) LIFTING the twin to il::Scalar level
// =====================================================================================================

/// the il::Scalar a (name, width) pair stands for: what `il::scalar(name, bits)` returns
pub open spec fn scalar_of(r: RegName) -> Scalar { named_scalar(r.name@, r.bits) }

pub open spec fn lift_seq(s: Seq<RegName>) -> Seq<Scalar> { Seq::new(s.len(), |i: int| scalar_of(s[i])) }

/// the SET of scalars inserted, given the LIST of inserted (name, width) pairs
pub open spec fn lift_set(s: Seq<RegName>) -> Set<Scalar>
    decreases s.len(),
{
    if s.len() == 0 { Set::empty() } else { lift_set(s.drop_last()).insert(scalar_of(s.last())) }
}

pub open spec fn ra_lift(t: RaTwin) -> ReturnAddressType {
    match t { RaTwin::Register(r) => ReturnAddressType::Register(scalar_of(r)), RaTwin::Stack(o) => ReturnAddressType::Stack(o) }
}

/// the executable record `c` is the lifting of the twin `t`
pub open spec fn is_lift(c: CallingConvention, t: CcTwin) -> bool {
    &&& c.argument_registers@ =~= lift_seq(t.argument_registers)
    &&& c.preserved_registers@ == lift_set(t.preserved_registers)
    &&& c.trashed_registers@ == lift_set(t.trashed_registers)
    &&& c.stack_argument_offset == t.stack_argument_offset
    &&& c.stack_argument_length == t.stack_argument_length
    &&& c.return_address_type == ra_lift(t.return_address_type)
    &&& c.return_register == scalar_of(t.return_register)
}

pub broadcast proof fn lemma_lift_ins(s: Seq<RegName>, x: RegName)
    ensures #[trigger] lift_set(rs_ins(s, x)) == lift_set(s).insert(scalar_of(x)),
{
    assert(rs_ins(s, x).drop_last() =~= s);
    assert(rs_ins(s, x).last() == x);
}

pub broadcast proof fn lemma_lift_empty()
    ensures #[trigger] lift_set(Seq::<RegName>::empty()) == Set::<Scalar>::empty(),
{
}

/// membership in the lifted set = being the lifting of one of the listed pairs
pub proof fn lemma_lift_set_contains(s: Seq<RegName>, x: Scalar)
    ensures lift_set(s).contains(x) <==> exists|i: int| 0 <= i < s.len() && x == scalar_of(#[trigger] s[i]),
    decreases s.len(),
{
    if s.len() > 0 {
        lemma_lift_set_contains(s.drop_last(), x);
        if lift_set(s).contains(x) {
            if x == scalar_of(s.last()) {
                assert(x == scalar_of(s[s.len() - 1]));
            } else {
                let i = choose|i: int| 0 <= i < s.drop_last().len() && x == scalar_of(#[trigger] s.drop_last()[i]);
                assert(x == scalar_of(s[i]));
            }
        }
        if exists|i: int| 0 <= i < s.len() && x == scalar_of(#[trigger] s[i]) {
            let i = choose|i: int| 0 <= i < s.len() && x == scalar_of(#[trigger] s[i]);
            if i < s.len() - 1 { assert(x == scalar_of(s.drop_last()[i])); }
        }
    }
}

