// ---- units/C20/arch.rs: lib/architecture.rs - the Architecture trait and its seven implementations.
// Included inside `pub mod architecture`.
//@ source lib/architecture.rs
//@ item enum Endian

/// the seven supported architectures (one per implementation of the trait)
pub enum ArchId { X86, Amd64, Mips, Mipsel, Ppc, AArch64, AArch64Eb }

/// THE ORACLE for the descriptors that are not part of the calling convention, from the platform definitions:
/// name (falcon's own naming of its architectures), byte order (IA-32 / AMD64: little; MIPS: big, MIPSEL = little-endian MIPS;
/// PowerPC 32 as supported here: big; AArch64: little, AArch64Eb (_be): big), default calling convention (the System V
/// psABI of the platform; AAPCS64 for both AArch64 byte orders) and the translator type that lifts its code.
/// Word size and stack pointer come from the ABI row of the default calling convention (units/C20/abi.rs).
pub open spec fn arch_name(id: ArchId) -> &'static str {
    match id { ArchId::X86 => "x86", ArchId::Amd64 => "amd64", ArchId::Mips => "mips", ArchId::Mipsel => "mipsel", ArchId::Ppc => "ppc",
               ArchId::AArch64 => "aarch64", ArchId::AArch64Eb => "aarch64eb" }
}
pub open spec fn arch_endian(id: ArchId) -> Endian {
    match id { ArchId::X86 | ArchId::Amd64 | ArchId::Mipsel | ArchId::AArch64 => Endian::Little,
               ArchId::Mips | ArchId::Ppc | ArchId::AArch64Eb => Endian::Big }
}
pub open spec fn arch_cc(id: ArchId) -> CallingConventionType {
    match id { ArchId::X86 => CallingConventionType::Cdecl, ArchId::Amd64 => CallingConventionType::Amd64SystemV,
               ArchId::Mips => CallingConventionType::MipsSystemV, ArchId::Mipsel => CallingConventionType::MipselSystemV,
               ArchId::Ppc => CallingConventionType::PpcSystemV, ArchId::AArch64 | ArchId::AArch64Eb => CallingConventionType::AArch64 }
}
pub open spec fn arch_translator(id: ArchId) -> TranslatorId {
    match id { ArchId::X86 => TranslatorId::X86, ArchId::Amd64 => TranslatorId::Amd64, ArchId::Mips => TranslatorId::Mips,
               ArchId::Mipsel => TranslatorId::Mipsel, ArchId::Ppc => TranslatorId::Ppc, ArchId::AArch64 => TranslatorId::AArch64,
               ArchId::AArch64Eb => TranslatorId::AArch64Eb }
}
pub open spec fn arch_word(id: ArchId) -> usize { abi(arch_cc(id)).word_bits }
pub open spec fn arch_sp(id: ArchId) -> il::Scalar { scalar_of(abi(arch_cc(id)).sp) }

/// stack pointer: word-sized and a scalar the architecture's translator produces
pub proof fn lemma_sp_facts(id: ArchId)
    ensures arch_sp(id).bits == arch_word(id), produced(tbl(arch_cc(id)), arch_sp(id)),
{
    lemma_sp_produced(arch_cc(id));
}

// the real trait, with ghost members added (rule R-trait-contract of unit C11: a spec function naming the architecture
// and a contract per method; the executable signatures are unchanged)
//@ itemx trait Architecture
//@ rewrite 1 `trait Architecture: Debug + Send + Sync {` => `trait Architecture {` ## R-supertraits: the supertrait bounds Debug + Send + Sync are dropped (Verus 0.2026.09.13 rejects `dyn Architecture` when the trait has the std supertrait Debug: 'the trait bound Dyn<..>: Debug is not satisfied' in its trait-conflict checker); they add no method that the functions under contract call and no executable code
//@ rewrite 1 `fn name(&self) -> &str;` => `spec fn id(&self) -> ArchId; fn name(&self) -> (r: &str) ensures r@ == arch_name(self.id())@;` ## R-trait-contract: adds the ghost member `id` and a contract to the method; the executable signature is unchanged
//@ rewrite 1 `fn endian(&self) -> Endian;` => `fn endian(&self) -> (r: Endian) ensures r == arch_endian(self.id());` ## R-trait-contract: adds a contract to the method; the executable signature is unchanged
//@ rewrite 1 `fn translator(&self) -> Box<dyn translator::Translator>;` => `fn translator(&self) -> (r: Box<dyn translator::Translator>) ensures r.which() == arch_translator(self.id());` ## R-trait-contract: adds a contract to the method; the executable signature is unchanged
//@ rewrite 1 `fn calling_convention(&self) -> CallingConvention;` => `fn calling_convention(&self) -> (r: CallingConvention) ensures cc_property(arch_cc(self.id()), r);` ## R-trait-contract: adds a contract to the method; the executable signature is unchanged
//@ rewrite 1 `fn stack_pointer(&self) -> il::Scalar;` => `fn stack_pointer(&self) -> (r: il::Scalar) ensures r == arch_sp(self.id());` ## R-trait-contract: adds a contract to the method; the executable signature is unchanged
//@ rewrite 1 `fn word_size(&self) -> usize;` => `fn word_size(&self) -> (r: usize) ensures r == arch_word(self.id());` ## R-trait-contract: adds a contract to the method; the executable signature is unchanged
//@ rewrite 1 `fn box_clone(&self) -> Box<dyn Architecture>;` => `proof fn vf_box_clone_dropped(tracked &self) {}` ## R-drop-member: the member `box_clone` is removed from the trait as seen by the verifier: Verus 0.2026.09.13 rejects a trait with a method whose signature mentions `dyn` of the trait itself ('cyclic self-reference in a definition'); its seven implementations (`Box::new(self.clone())`) are NOT under contract (listed in meta.json)
//@ end

// ---------------------------------------------------------------------------------------------
//@ item struct Amd64
// derive(Clone, Debug) of the field-less struct Amd64 re-supplied: structural copy; the Debug text is never inspected
impl Clone for Amd64 {
    #[verifier::external_body]
    fn clone(&self) -> (r: Amd64) ensures r == *self { unimplemented!() }
}
impl std::fmt::Debug for Amd64 {
    #[verifier::external_body]
    fn fmt(&self, f: &mut std::fmt::Formatter<'_>) -> std::fmt::Result { unimplemented!() }
}
impl Amd64 {
//@ fn impl Amd64 :: fn new
//@ spec
    ensures /*@unit*/ true,
//@ end
}
impl Architecture for Amd64 {
    open spec fn id(&self) -> ArchId { ArchId::Amd64 }
//@ fn impl Architecture for Amd64 :: fn name nopub
//@ spec
    ensures /*@name*/ r@ == arch_name(ArchId::Amd64)@,
//@ end
//@ fn impl Architecture for Amd64 :: fn endian nopub
//@ spec
    ensures /*@endian*/ r == arch_endian(ArchId::Amd64),
//@ end
//@ fn impl Architecture for Amd64 :: fn translator nopub
//@ spec
    ensures /*@same_translator*/ r.which() == arch_translator(ArchId::Amd64),
//@ end
//@ fn impl Architecture for Amd64 :: fn calling_convention nopub
//@ spec
    ensures
        /*@cc_property*/ cc_property(arch_cc(ArchId::Amd64), r),
        /*@sp_preserved*/ r.preserved_registers@.contains(arch_sp(ArchId::Amd64)),
        /*@stack_word*/ r.stack_argument_length * 8 == arch_word(ArchId::Amd64),
//@ end
//@ fn impl Architecture for Amd64 :: fn stack_pointer nopub
//@ spec
    ensures
        /*@sp*/ r == arch_sp(ArchId::Amd64),
        /*@sp_width*/ r.bits == arch_word(ArchId::Amd64),
        /*@sp_produced*/ produced(tbl(arch_cc(ArchId::Amd64)), r),
//@ enter
    proof { lemma_sp_facts(ArchId::Amd64); }
//@ end
//@ fn impl Architecture for Amd64 :: fn word_size nopub
//@ spec
    ensures /*@word*/ r == arch_word(ArchId::Amd64),
//@ end
}

// ---------------------------------------------------------------------------------------------
//@ item struct AArch64
// derive(Clone, Debug) of the field-less struct AArch64 re-supplied: structural copy; the Debug text is never inspected
impl Clone for AArch64 {
    #[verifier::external_body]
    fn clone(&self) -> (r: AArch64) ensures r == *self { unimplemented!() }
}
impl std::fmt::Debug for AArch64 {
    #[verifier::external_body]
    fn fmt(&self, f: &mut std::fmt::Formatter<'_>) -> std::fmt::Result { unimplemented!() }
}
impl AArch64 {
//@ fn impl AArch64 :: fn new
//@ spec
    ensures /*@unit*/ true,
//@ end
}
impl Architecture for AArch64 {
    open spec fn id(&self) -> ArchId { ArchId::AArch64 }
//@ fn impl Architecture for AArch64 :: fn name nopub
//@ spec
    ensures /*@name*/ r@ == arch_name(ArchId::AArch64)@,
//@ end
//@ fn impl Architecture for AArch64 :: fn endian nopub
//@ spec
    ensures /*@endian*/ r == arch_endian(ArchId::AArch64),
//@ end
//@ fn impl Architecture for AArch64 :: fn translator nopub
//@ spec
    ensures /*@same_translator*/ r.which() == arch_translator(ArchId::AArch64),
//@ end
//@ fn impl Architecture for AArch64 :: fn calling_convention nopub
//@ spec
    ensures
        /*@cc_property*/ cc_property(arch_cc(ArchId::AArch64), r),
        /*@sp_preserved*/ r.preserved_registers@.contains(arch_sp(ArchId::AArch64)),
        /*@stack_word*/ r.stack_argument_length * 8 == arch_word(ArchId::AArch64),
//@ end
//@ fn impl Architecture for AArch64 :: fn stack_pointer nopub
//@ spec
    ensures
        /*@sp*/ r == arch_sp(ArchId::AArch64),
        /*@sp_width*/ r.bits == arch_word(ArchId::AArch64),
        /*@sp_produced*/ produced(tbl(arch_cc(ArchId::AArch64)), r),
//@ enter
    proof { lemma_sp_facts(ArchId::AArch64); }
//@ end
//@ fn impl Architecture for AArch64 :: fn word_size nopub
//@ spec
    ensures /*@word*/ r == arch_word(ArchId::AArch64),
//@ end
}

// ---------------------------------------------------------------------------------------------
//@ item struct AArch64Eb
// derive(Clone, Debug) of the field-less struct AArch64Eb re-supplied: structural copy; the Debug text is never inspected
impl Clone for AArch64Eb {
    #[verifier::external_body]
    fn clone(&self) -> (r: AArch64Eb) ensures r == *self { unimplemented!() }
}
impl std::fmt::Debug for AArch64Eb {
    #[verifier::external_body]
    fn fmt(&self, f: &mut std::fmt::Formatter<'_>) -> std::fmt::Result { unimplemented!() }
}
impl AArch64Eb {
//@ fn impl AArch64Eb :: fn new
//@ spec
    ensures /*@unit*/ true,
//@ end
}
impl Architecture for AArch64Eb {
    open spec fn id(&self) -> ArchId { ArchId::AArch64Eb }
//@ fn impl Architecture for AArch64Eb :: fn name nopub
//@ spec
    ensures /*@name*/ r@ == arch_name(ArchId::AArch64Eb)@,
//@ end
//@ fn impl Architecture for AArch64Eb :: fn endian nopub
//@ spec
    ensures /*@endian*/ r == arch_endian(ArchId::AArch64Eb),
//@ end
//@ fn impl Architecture for AArch64Eb :: fn translator nopub
//@ spec
    ensures /*@same_translator*/ r.which() == arch_translator(ArchId::AArch64Eb),
//@ end
//@ fn impl Architecture for AArch64Eb :: fn calling_convention nopub
//@ spec
    ensures
        /*@cc_property*/ cc_property(arch_cc(ArchId::AArch64Eb), r),
        /*@sp_preserved*/ r.preserved_registers@.contains(arch_sp(ArchId::AArch64Eb)),
        /*@stack_word*/ r.stack_argument_length * 8 == arch_word(ArchId::AArch64Eb),
//@ end
//@ fn impl Architecture for AArch64Eb :: fn stack_pointer nopub
//@ spec
    ensures
        /*@sp*/ r == arch_sp(ArchId::AArch64Eb),
        /*@sp_width*/ r.bits == arch_word(ArchId::AArch64Eb),
        /*@sp_produced*/ produced(tbl(arch_cc(ArchId::AArch64Eb)), r),
//@ enter
    proof { lemma_sp_facts(ArchId::AArch64Eb); }
//@ end
//@ fn impl Architecture for AArch64Eb :: fn word_size nopub
//@ spec
    ensures /*@word*/ r == arch_word(ArchId::AArch64Eb),
//@ end
}

// ---------------------------------------------------------------------------------------------
//@ item struct Mips
// derive(Clone, Debug) of the field-less struct Mips re-supplied: structural copy; the Debug text is never inspected
impl Clone for Mips {
    #[verifier::external_body]
    fn clone(&self) -> (r: Mips) ensures r == *self { unimplemented!() }
}
impl std::fmt::Debug for Mips {
    #[verifier::external_body]
    fn fmt(&self, f: &mut std::fmt::Formatter<'_>) -> std::fmt::Result { unimplemented!() }
}
impl Mips {
//@ fn impl Mips :: fn new
//@ spec
    ensures /*@unit*/ true,
//@ end
}
impl Architecture for Mips {
    open spec fn id(&self) -> ArchId { ArchId::Mips }
//@ fn impl Architecture for Mips :: fn name nopub
//@ spec
    ensures /*@name*/ r@ == arch_name(ArchId::Mips)@,
//@ end
//@ fn impl Architecture for Mips :: fn endian nopub
//@ spec
    ensures /*@endian*/ r == arch_endian(ArchId::Mips),
//@ end
//@ fn impl Architecture for Mips :: fn translator nopub
//@ spec
    ensures /*@same_translator*/ r.which() == arch_translator(ArchId::Mips),
//@ end
//@ fn impl Architecture for Mips :: fn calling_convention nopub
//@ spec
    ensures
        /*@cc_property*/ cc_property(arch_cc(ArchId::Mips), r),
        /*@sp_preserved*/ r.preserved_registers@.contains(arch_sp(ArchId::Mips)),
        /*@stack_word*/ r.stack_argument_length * 8 == arch_word(ArchId::Mips),
//@ end
//@ fn impl Architecture for Mips :: fn stack_pointer nopub
//@ spec
    ensures
        /*@sp*/ r == arch_sp(ArchId::Mips),
        /*@sp_width*/ r.bits == arch_word(ArchId::Mips),
        /*@sp_produced*/ produced(tbl(arch_cc(ArchId::Mips)), r),
//@ enter
    proof { lemma_sp_facts(ArchId::Mips); }
//@ end
//@ fn impl Architecture for Mips :: fn word_size nopub
//@ spec
    ensures /*@word*/ r == arch_word(ArchId::Mips),
//@ end
}

// ---------------------------------------------------------------------------------------------
//@ item struct Mipsel
// derive(Clone, Debug) of the field-less struct Mipsel re-supplied: structural copy; the Debug text is never inspected
impl Clone for Mipsel {
    #[verifier::external_body]
    fn clone(&self) -> (r: Mipsel) ensures r == *self { unimplemented!() }
}
impl std::fmt::Debug for Mipsel {
    #[verifier::external_body]
    fn fmt(&self, f: &mut std::fmt::Formatter<'_>) -> std::fmt::Result { unimplemented!() }
}
impl Mipsel {
//@ fn impl Mipsel :: fn new
//@ spec
    ensures /*@unit*/ true,
//@ end
}
impl Architecture for Mipsel {
    open spec fn id(&self) -> ArchId { ArchId::Mipsel }
//@ fn impl Architecture for Mipsel :: fn name nopub
//@ spec
    ensures /*@name*/ r@ == arch_name(ArchId::Mipsel)@,
//@ end
//@ fn impl Architecture for Mipsel :: fn endian nopub
//@ spec
    ensures /*@endian*/ r == arch_endian(ArchId::Mipsel),
//@ end
//@ fn impl Architecture for Mipsel :: fn translator nopub
//@ spec
    ensures /*@same_translator*/ r.which() == arch_translator(ArchId::Mipsel),
//@ end
//@ fn impl Architecture for Mipsel :: fn calling_convention nopub
//@ spec
    ensures
        /*@cc_property*/ cc_property(arch_cc(ArchId::Mipsel), r),
        /*@sp_preserved*/ r.preserved_registers@.contains(arch_sp(ArchId::Mipsel)),
        /*@stack_word*/ r.stack_argument_length * 8 == arch_word(ArchId::Mipsel),
//@ end
//@ fn impl Architecture for Mipsel :: fn stack_pointer nopub
//@ spec
    ensures
        /*@sp*/ r == arch_sp(ArchId::Mipsel),
        /*@sp_width*/ r.bits == arch_word(ArchId::Mipsel),
        /*@sp_produced*/ produced(tbl(arch_cc(ArchId::Mipsel)), r),
//@ enter
    proof { lemma_sp_facts(ArchId::Mipsel); }
//@ end
//@ fn impl Architecture for Mipsel :: fn word_size nopub
//@ spec
    ensures /*@word*/ r == arch_word(ArchId::Mipsel),
//@ end
}

// ---------------------------------------------------------------------------------------------
//@ item struct Ppc
// derive(Clone, Debug) of the field-less struct Ppc re-supplied: structural copy; the Debug text is never inspected
impl Clone for Ppc {
    #[verifier::external_body]
    fn clone(&self) -> (r: Ppc) ensures r == *self { unimplemented!() }
}
impl std::fmt::Debug for Ppc {
    #[verifier::external_body]
    fn fmt(&self, f: &mut std::fmt::Formatter<'_>) -> std::fmt::Result { unimplemented!() }
}
impl Ppc {
//@ fn impl Ppc :: fn new
//@ spec
    ensures /*@unit*/ true,
//@ end
}
impl Architecture for Ppc {
    open spec fn id(&self) -> ArchId { ArchId::Ppc }
//@ fn impl Architecture for Ppc :: fn name nopub
//@ spec
    ensures /*@name*/ r@ == arch_name(ArchId::Ppc)@,
//@ end
//@ fn impl Architecture for Ppc :: fn endian nopub
//@ spec
    ensures /*@endian*/ r == arch_endian(ArchId::Ppc),
//@ end
//@ fn impl Architecture for Ppc :: fn translator nopub
//@ spec
    ensures /*@same_translator*/ r.which() == arch_translator(ArchId::Ppc),
//@ end
//@ fn impl Architecture for Ppc :: fn calling_convention nopub
//@ spec
    ensures
        /*@cc_property*/ cc_property(arch_cc(ArchId::Ppc), r),
        /*@sp_preserved*/ r.preserved_registers@.contains(arch_sp(ArchId::Ppc)),
        /*@stack_word*/ r.stack_argument_length * 8 == arch_word(ArchId::Ppc),
//@ end
//@ fn impl Architecture for Ppc :: fn stack_pointer nopub
//@ spec
    ensures
        /*@sp*/ r == arch_sp(ArchId::Ppc),
        /*@sp_width*/ r.bits == arch_word(ArchId::Ppc),
        /*@sp_produced*/ produced(tbl(arch_cc(ArchId::Ppc)), r),
//@ enter
    proof { lemma_sp_facts(ArchId::Ppc); }
//@ end
//@ fn impl Architecture for Ppc :: fn word_size nopub
//@ spec
    ensures /*@word*/ r == arch_word(ArchId::Ppc),
//@ end
}

// ---------------------------------------------------------------------------------------------
//@ item struct X86
// derive(Clone, Debug) of the field-less struct X86 re-supplied: structural copy; the Debug text is never inspected
impl Clone for X86 {
    #[verifier::external_body]
    fn clone(&self) -> (r: X86) ensures r == *self { unimplemented!() }
}
impl std::fmt::Debug for X86 {
    #[verifier::external_body]
    fn fmt(&self, f: &mut std::fmt::Formatter<'_>) -> std::fmt::Result { unimplemented!() }
}
impl X86 {
//@ fn impl X86 :: fn new
//@ spec
    ensures /*@unit*/ true,
//@ end
}
impl Architecture for X86 {
    open spec fn id(&self) -> ArchId { ArchId::X86 }
//@ fn impl Architecture for X86 :: fn name nopub
//@ spec
    ensures /*@name*/ r@ == arch_name(ArchId::X86)@,
//@ end
//@ fn impl Architecture for X86 :: fn endian nopub
//@ spec
    ensures /*@endian*/ r == arch_endian(ArchId::X86),
//@ end
//@ fn impl Architecture for X86 :: fn translator nopub
//@ spec
    ensures /*@same_translator*/ r.which() == arch_translator(ArchId::X86),
//@ end
//@ fn impl Architecture for X86 :: fn calling_convention nopub
//@ spec
    ensures
        /*@cc_property*/ cc_property(arch_cc(ArchId::X86), r),
        /*@sp_preserved*/ r.preserved_registers@.contains(arch_sp(ArchId::X86)),
        /*@stack_word*/ r.stack_argument_length * 8 == arch_word(ArchId::X86),
//@ end
//@ fn impl Architecture for X86 :: fn stack_pointer nopub
//@ spec
    ensures
        /*@sp*/ r == arch_sp(ArchId::X86),
        /*@sp_width*/ r.bits == arch_word(ArchId::X86),
        /*@sp_produced*/ produced(tbl(arch_cc(ArchId::X86)), r),
//@ enter
    proof { lemma_sp_facts(ArchId::X86); }
//@ end
//@ fn impl Architecture for X86 :: fn word_size nopub
//@ spec
    ensures /*@word*/ r == arch_word(ArchId::X86),
//@ end
}
