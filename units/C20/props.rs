// ---- units/C20/props.rs: the PROPERTY on the executable record (il::Scalar level), the lemmas that lift each evaluated
// check of the twin to it, and the contracts of every function of lib/analysis/calling_convention.rs.

// =====================================================================================================
// (4) the property, stated on the value `CallingConvention::new(typ)` returns (a = abi(typ): the ABI oracle)
// =====================================================================================================
/// argument registers, in ABI order
pub open spec fn p_abi_args(c: CallingConvention, a: Abi) -> bool { c.argument_registers@ =~= lift_seq(a.args) }
/// the return-value register
pub open spec fn p_abi_return(c: CallingConvention, a: Abi) -> bool { c.return_register == scalar_of(a.ret) }
/// where the return address lives
pub open spec fn p_return_address(c: CallingConvention, a: Abi) -> bool { c.return_address_type == ra_lift(a.ra) }
/// stack arguments advance in steps of the machine's word size
pub open spec fn p_stack_args(c: CallingConvention, a: Abi) -> bool { c.stack_argument_length * 8 == a.word_bits }
/// ... and start where the ABI puts the first one at function entry
pub open spec fn p_stack_first(c: CallingConvention, a: Abi) -> bool { c.stack_argument_offset == a.stack_first }
/// no register (NAME) is both preserved and trashed
pub open spec fn p_disjoint(c: CallingConvention) -> bool {
    forall|x: Scalar, y: Scalar| #![trigger c.preserved_registers@.contains(x), c.trashed_registers@.contains(y)]
        c.preserved_registers@.contains(x) && c.trashed_registers@.contains(y) ==> x.name@ != y.name@
}
/// the stack pointer is preserved
pub open spec fn p_sp_preserved(c: CallingConvention, a: Abi) -> bool { c.preserved_registers@.contains(scalar_of(a.sp)) }
/// argument, result and return-address registers have the machine's word size
pub open spec fn p_widths(c: CallingConvention, a: Abi) -> bool {
    &&& forall|i: int| 0 <= i < c.argument_registers@.len() ==> (#[trigger] c.argument_registers@[i]).bits == a.word_bits
    &&& c.return_register.bits == a.word_bits
    &&& (c.return_address_type matches ReturnAddressType::Register(x) ==> x.bits == a.word_bits)
}
/// record k of the table is a FULL register and `x` is the scalar the lifter uses for it: (name, bits)
pub open spec fn rec_is(t: Seq<TblRec>, k: int, x: Scalar) -> bool {
    0 <= k < t.len() && t[k].full && x == named_scalar(t[k].name@, t[k].bits)
}
/// `x` is a scalar the translator produces: the scalar of a full register of its table, with that name and width
pub open spec fn produced(t: Seq<TblRec>, x: Scalar) -> bool { exists|k: int| #[trigger] rec_is(t, k, x) }

pub open spec fn p_produced_args(c: CallingConvention, tb: Seq<TblRec>) -> bool {
    forall|i: int| 0 <= i < c.argument_registers@.len() ==> produced(tb, #[trigger] c.argument_registers@[i])
}
pub open spec fn p_produced_preserved(c: CallingConvention, tb: Seq<TblRec>) -> bool {
    forall|x: Scalar| #[trigger] c.preserved_registers@.contains(x) ==> produced(tb, x)
}
pub open spec fn p_produced_trashed(c: CallingConvention, tb: Seq<TblRec>) -> bool {
    forall|x: Scalar| #[trigger] c.trashed_registers@.contains(x) ==> produced(tb, x)
}
pub open spec fn p_produced_ret(c: CallingConvention, a: Abi, tb: Seq<TblRec>) -> bool {
    &&& produced(tb, c.return_register)
    &&& (a.ra_in_table ==> (c.return_address_type matches ReturnAddressType::Register(x) ==> produced(tb, x)))
}

// =====================================================================================================
// (5) lifting: evaluated check on the twin  ==>  property of the executable record   (generic, proved once)
// =====================================================================================================
pub proof fn lemma_same_reg(a: RegName, b: RegName)
    requires same_reg(a, b),
    ensures scalar_of(a) == scalar_of(b),
{
}

pub proof fn lemma_seq_same(a: Seq<RegName>, b: Seq<RegName>, k: int, i: int)
    requires 0 <= k <= i < a.len(), seq_same_from(a, b, k),
    ensures i < b.len(), same_reg(a[i], b[i]),
    decreases i - k,
{
    if k < i { lemma_seq_same(a, b, k + 1, i); }
}

pub proof fn lemma_has_reg(s: Seq<RegName>, r: RegName, k: int)
    requires 0 <= k, has_reg_from(s, r, k),
    ensures exists|i: int| 0 <= i < s.len() && scalar_of(r) == scalar_of(#[trigger] s[i]),
    decreases s.len() - k,
{
    if k < s.len() {
        if same_reg(s[k], r) { assert(scalar_of(r) == scalar_of(s[k])); } else { lemma_has_reg(s, r, k + 1); }
    }
}

pub proof fn lemma_has_name(s: Seq<RegName>, n: &'static str, k: int, j: int)
    requires 0 <= k <= j < s.len(), !has_name_from(s, n, k),
    ensures s[j].name != n,
    decreases j - k,
{
    if k < j { lemma_has_name(s, n, k + 1, j); }
}

pub proof fn lemma_names_disjoint(p: Seq<RegName>, t: Seq<RegName>, k: int, i: int, j: int)
    requires 0 <= k <= i < p.len(), 0 <= j < t.len(), names_disjoint_from(p, t, k),
    ensures p[i].name != t[j].name,
    decreases i - k,
{
    if k < i { lemma_names_disjoint(p, t, k + 1, i, j); } else { lemma_has_name(t, p[i].name, 0, j); }
}

pub proof fn lemma_all_bits(s: Seq<RegName>, bits: usize, k: int, i: int)
    requires 0 <= k <= i < s.len(), all_bits_from(s, bits, k),
    ensures s[i].bits == bits,
    decreases i - k,
{
    if k < i { lemma_all_bits(s, bits, k + 1, i); }
}

/// a (name, width) found in the table as a full register: its scalar is one the translator produces
pub proof fn lemma_tbl_has_produced(tb: Seq<TblRec>, r: RegName)
    requires tbl_has(tb, r),
    ensures produced(tb, scalar_of(r)),
{
    let k = choose|k: int| #[trigger] tbl_hit(tb, r, k);
    assert(rec_is(tb, k, scalar_of(r)));
}

pub proof fn lemma_lift_abi_args(c: CallingConvention, t: CcTwin, a: Abi)
    requires is_lift(c, t), chk_abi_args(t, a),
    ensures p_abi_args(c, a),
{
    assert forall|i: int| 0 <= i < t.argument_registers.len() implies scalar_of(t.argument_registers[i]) == scalar_of(a.args[i]) by {
        lemma_seq_same(t.argument_registers, a.args, 0, i);
    }
}

pub proof fn lemma_lift_return_address(c: CallingConvention, t: CcTwin, a: Abi)
    requires is_lift(c, t), chk_return_address(t, a),
    ensures p_return_address(c, a),
{
}

pub proof fn lemma_lift_disjoint(c: CallingConvention, t: CcTwin)
    requires is_lift(c, t), chk_disjoint(t),
    ensures p_disjoint(c),
{
    broadcast use crate::strlit::axiom_string_of;
    assert forall|x: Scalar, y: Scalar| c.preserved_registers@.contains(x) && c.trashed_registers@.contains(y) implies x.name@ != y.name@ by {
        lemma_lift_set_contains(t.preserved_registers, x);
        lemma_lift_set_contains(t.trashed_registers, y);
        let i = choose|i: int| 0 <= i < t.preserved_registers.len() && x == scalar_of(#[trigger] t.preserved_registers[i]);
        let j = choose|j: int| 0 <= j < t.trashed_registers.len() && y == scalar_of(#[trigger] t.trashed_registers[j]);
        lemma_names_disjoint(t.preserved_registers, t.trashed_registers, 0, i, j);
        crate::strlit::axiom_str_ext(t.preserved_registers[i].name, t.trashed_registers[j].name);
    }
}

pub proof fn lemma_lift_sp_preserved(c: CallingConvention, t: CcTwin, a: Abi)
    requires is_lift(c, t), chk_sp_preserved(t, a),
    ensures p_sp_preserved(c, a),
{
    lemma_has_reg(t.preserved_registers, a.sp, 0);
    lemma_lift_set_contains(t.preserved_registers, scalar_of(a.sp));
}

pub proof fn lemma_lift_widths(c: CallingConvention, t: CcTwin, a: Abi)
    requires is_lift(c, t), chk_widths(t, a),
    ensures p_widths(c, a),
{
    assert forall|i: int| 0 <= i < c.argument_registers@.len() implies (#[trigger] c.argument_registers@[i]).bits == a.word_bits by {
        lemma_all_bits(t.argument_registers, a.word_bits, 0, i);
    }
}

pub proof fn lemma_lift_produced_args(typ: CallingConventionType, c: CallingConvention, t: CcTwin)
    requires is_lift(c, t), chk_produced_args(typ, t),
    ensures p_produced_args(c, tbl(typ)),
{
    assert forall|i: int| 0 <= i < c.argument_registers@.len() implies produced(tbl(typ), #[trigger] c.argument_registers@[i]) by {
        lemma_all_in_tbl(typ, t.argument_registers, i);
        lemma_tbl_has_produced(tbl(typ), t.argument_registers[i]);
    }
}

pub proof fn lemma_lift_produced_set(typ: CallingConventionType, s: Seq<RegName>, x: Scalar)
    requires all_in_tbl_from(typ, s, 0), lift_set(s).contains(x),
    ensures produced(tbl(typ), x),
{
    lemma_lift_set_contains(s, x);
    let i = choose|i: int| 0 <= i < s.len() && x == scalar_of(#[trigger] s[i]);
    lemma_all_in_tbl(typ, s, i);
    lemma_tbl_has_produced(tbl(typ), s[i]);
}

pub proof fn lemma_lift_produced_preserved(typ: CallingConventionType, c: CallingConvention, t: CcTwin)
    requires is_lift(c, t), chk_produced_preserved(typ, t),
    ensures p_produced_preserved(c, tbl(typ)),
{
    assert forall|x: Scalar| #[trigger] c.preserved_registers@.contains(x) implies produced(tbl(typ), x) by {
        lemma_lift_produced_set(typ, t.preserved_registers, x);
    }
}

pub proof fn lemma_lift_produced_trashed(typ: CallingConventionType, c: CallingConvention, t: CcTwin)
    requires is_lift(c, t), chk_produced_trashed(typ, t),
    ensures p_produced_trashed(c, tbl(typ)),
{
    assert forall|x: Scalar| #[trigger] c.trashed_registers@.contains(x) implies produced(tbl(typ), x) by {
        lemma_lift_produced_set(typ, t.trashed_registers, x);
    }
}

pub proof fn lemma_lift_produced_ret(typ: CallingConventionType, c: CallingConvention, t: CcTwin, a: Abi)
    requires is_lift(c, t), chk_produced_ret(typ, t, a),
    ensures p_produced_ret(c, a, tbl(typ)),
{
    let s1 = seq![t.return_register];
    lemma_all_in_tbl(typ, s1, 0);
    lemma_tbl_has_produced(tbl(typ), s1[0]);
    if a.ra_in_table {
        if let RaTwin::Register(x) = t.return_address_type {
            let s2 = seq![x];
            lemma_all_in_tbl(typ, s2, 0);
            lemma_tbl_has_produced(tbl(typ), s2[0]);
        }
    }
}
