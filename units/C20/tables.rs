// ---- units/C20/tables.rs: the register tables of the four translators, read as mathematical sequences.
// Each table is extracted from the tree on every run (rule R-table-twin of unit C01: the SAME literal, `&[ .. ]` read
// as `seq![ .. ]`); nothing of a table is written in this template.  Only the ghost twin is needed here: no
// executable code of this unit reads the tables (get_register & co. are units C01 / C02 / C03's).
// `TblRec` is the common reading of a record: literal name, width, "is a full register".

/// common reading of a register-table record
pub struct TblRec { pub name: &'static str, pub bits: usize, pub full: bool }

/// a register as the tables and the calling-convention twin name it: literal name + width in bits
pub struct RegName { pub name: &'static str, pub bits: usize }

/// record k of the table is a FULL register called r.name of width r.bits
pub open spec fn tbl_hit(t: Seq<TblRec>, r: RegName, k: int) -> bool {
    0 <= k < t.len() && t[k].full && t[k].name == r.name && t[k].bits == r.bits
}

/// `r` is a full register of the table, with that name and that width
pub open spec fn tbl_has(t: Seq<TblRec>, r: RegName) -> bool { exists|k: int| #[trigger] tbl_hit(t, r, k) }

/// the seven translator types (one per `impl Translator` in lib/translator/{x86,mips,ppc,aarch64}/mod.rs)
pub enum TranslatorId { X86, Amd64, Mips, Mipsel, Ppc, AArch64, AArch64Eb }

// lib/translator/mod.rs declares `pub trait Translator` with the required method `translate_block` (implemented by
// each translator by calling its capstone / bad64 driven block lifter: FFI, out of reach) and provided methods on top
// of it.  The trait is RESTATED here with a ghost member only, naming WHICH translator type an object is, so that
// "the architecture hands out its own translator" can be stated.  What that translator does with the bytes (byte
// order of the decoder, register names in the lifted IL) is examined by the bounded witness only.
pub trait Translator {
    spec fn which(&self) -> TranslatorId;
}

pub mod x86 {
use vstd::prelude::*;
use crate::il::*;
use crate::strmap::*;
use crate::capstone_x86::capstone_sys::x86_reg;
use super::{TblRec, RegName, tbl_has, tbl_hit};
broadcast use crate::strmap::axiom_into_string_str;

//@ source lib/translator/x86/mode.rs
//@ item enum Mode
//@ source lib/translator/x86/x86register.rs
//@ item struct X86Register

//@ itemx const X86REGISTERS
//@ rewrite 1 `const X86REGISTERS: &[X86Register] = &[` => `const X86REGISTERS_TWIN: () = (); pub open spec fn x86_table_spec_raw() -> Seq<X86Register> { seq![` ## R-table-twin: ghost twin of the table: the same literal read as a mathematical sequence (a dummy constant keeps the item a `const` for the extractor); spec-only, no executable token involved
//@ rewrite 1 `] ;` => `] }` ## R-table-twin: closes the spec function
//@ end
//@ itemx const AMD64REGISTERS
//@ rewrite 1 `const AMD64REGISTERS: &[X86Register] = &[` => `const AMD64REGISTERS_TWIN: () = (); pub open spec fn amd64_table_spec_raw() -> Seq<X86Register> { seq![` ## R-table-twin: ghost twin of the table: the same literal read as a mathematical sequence (a dummy constant keeps the item a `const` for the extractor); spec-only, no executable token involved
//@ rewrite 1 `] ;` => `] }` ## R-table-twin: closes the spec function
//@ end

/// the table twin, hidden from the solver (opaque: the solver never needs the 30..331 records; Verus' evaluator, which does
/// the table look-ups, sees through it)
#[verifier::opaque]
pub open spec fn x86_table_spec() -> Seq<X86Register> { x86_table_spec_raw() }
/// the table twin, hidden from the solver (opaque: the solver never needs the 30..331 records; Verus' evaluator, which does
/// the table look-ups, sees through it)
#[verifier::opaque]
pub open spec fn amd64_table_spec() -> Seq<X86Register> { amd64_table_spec_raw() }

/// the table in the common reading (full register: t[k].capstone_reg == t[k].full_reg)
pub open spec fn x86_recs(t: Seq<X86Register>) -> Seq<TblRec> {
    Seq::new(t.len(), |i: int| TblRec { name: t[i].name, bits: t[i].bits, full: t[i].capstone_reg == t[i].full_reg })
}

/// evaluable: some record with index in [lo, hi) is a FULL register called r.name of width r.bits
/// (halving recursion: the evaluator's recursion depth stays logarithmic in the table size)
pub open spec fn x86_has_in(t: Seq<X86Register>, r: RegName, lo: int, hi: int) -> bool
    decreases hi - lo,
{
    if lo < 0 || hi > t.len() || hi <= lo { false }
    else if hi == lo + 1 { (t[lo].capstone_reg == t[lo].full_reg) && t[lo].name == r.name && t[lo].bits == r.bits }
    else { x86_has_in(t, r, lo, lo + (hi - lo) / 2) || x86_has_in(t, r, lo + (hi - lo) / 2, hi) }
}

pub open spec fn x86_all_from(s: Seq<RegName>, t: Seq<X86Register>, k: int) -> bool
    decreases s.len() - k,
{
    if k < 0 || k >= s.len() { true } else { x86_has_in(t, s[k], 0, t.len() as int) && x86_all_from(s, t, k + 1) }
}

pub proof fn lemma_x86_has(t: Seq<X86Register>, r: RegName, lo: int, hi: int)
    requires x86_has_in(t, r, lo, hi),
    ensures tbl_has(x86_recs(t), r),
    decreases hi - lo,
{
    if hi == lo + 1 {
        assert(tbl_hit(x86_recs(t), r, lo));
    } else {
        let mid = lo + (hi - lo) / 2;
        if x86_has_in(t, r, lo, mid) { lemma_x86_has(t, r, lo, mid); } else { lemma_x86_has(t, r, mid, hi); }
    }
}

pub proof fn lemma_x86_all(s: Seq<RegName>, t: Seq<X86Register>, k: int, i: int)
    requires 0 <= k <= i < s.len(), x86_all_from(s, t, k),
    ensures tbl_has(x86_recs(t), s[i]),
    decreases i - k,
{
    if k < i { lemma_x86_all(s, t, k + 1, i); } else { lemma_x86_has(t, s[i], 0, t.len() as int); }
}

// ---- what the x86 lifter itself uses as word size and stack pointer (lib/translator/x86/mode.rs)
impl Mode {
//@ source lib/translator/x86/mode.rs
//@ fn impl Mode :: fn bits
//@ spec
    ensures /*@width*/ r == (match *self { Mode::X86 => 32usize, Mode::Amd64 => 64usize }),
//@ end

//@ fn impl Mode :: fn sp
//@ spec
    ensures /*@sp*/ r == (match *self { Mode::X86 => named_scalar("esp"@, 32), Mode::Amd64 => named_scalar("rsp"@, 64) }),
//@ end
}
// ---- the translator types of this module (lib/translator/x86/mod.rs): the unit structs and their constructors, extracted;
// `impl Translator` restated with the ghost member only (see `trait Translator` above)
//@ source lib/translator/x86/mod.rs
//@ item struct X86
impl X86 {
//@ fn impl X86 :: fn new
//@ spec
    ensures /*@unit*/ true,
//@ end
}
impl crate::translator::Translator for X86 { open spec fn which(&self) -> crate::translator::TranslatorId { crate::translator::TranslatorId::X86 } }
//@ item struct Amd64
impl Amd64 {
//@ fn impl Amd64 :: fn new
//@ spec
    ensures /*@unit*/ true,
//@ end
}
impl crate::translator::Translator for Amd64 { open spec fn which(&self) -> crate::translator::TranslatorId { crate::translator::TranslatorId::Amd64 } }
proof fn vf_canary_x86() ensures false {}
} // mod x86

pub mod mips {
use vstd::prelude::*;
use crate::il::*;
use crate::strmap::*;
use crate::capstone_mp::capstone_sys::mips_reg;
use super::{TblRec, RegName, tbl_has, tbl_hit};
broadcast use crate::strmap::axiom_into_string_str;

//@ source lib/translator/mips/semantics.rs
//@ item struct MipsRegister
//@ itemx const MIPS_REGISTERS
//@ rewrite 1 `const MIPS_REGISTERS: &[MipsRegister] = &[` => `const MIPS_REGISTERS_TWIN: () = (); pub open spec fn mips_table_spec_raw() -> Seq<MipsRegister> { seq![` ## R-table-twin: ghost twin of the table: the same literal read as a mathematical sequence (a dummy constant keeps the item a `const` for the extractor); spec-only, no executable token involved
//@ rewrite 1 `] ;` => `] }` ## R-table-twin: closes the spec function
//@ end

/// the table twin, hidden from the solver (opaque: the solver never needs the 30..331 records; Verus' evaluator, which does
/// the table look-ups, sees through it)
#[verifier::opaque]
pub open spec fn mips_table_spec() -> Seq<MipsRegister> { mips_table_spec_raw() }

/// the table in the common reading (full register: true)
pub open spec fn mips_recs(t: Seq<MipsRegister>) -> Seq<TblRec> {
    Seq::new(t.len(), |i: int| TblRec { name: t[i].name, bits: t[i].bits, full: true })
}

/// evaluable: some record with index in [lo, hi) is a FULL register called r.name of width r.bits
/// (halving recursion: the evaluator's recursion depth stays logarithmic in the table size)
pub open spec fn mips_has_in(t: Seq<MipsRegister>, r: RegName, lo: int, hi: int) -> bool
    decreases hi - lo,
{
    if lo < 0 || hi > t.len() || hi <= lo { false }
    else if hi == lo + 1 { (true) && t[lo].name == r.name && t[lo].bits == r.bits }
    else { mips_has_in(t, r, lo, lo + (hi - lo) / 2) || mips_has_in(t, r, lo + (hi - lo) / 2, hi) }
}

pub open spec fn mips_all_from(s: Seq<RegName>, t: Seq<MipsRegister>, k: int) -> bool
    decreases s.len() - k,
{
    if k < 0 || k >= s.len() { true } else { mips_has_in(t, s[k], 0, t.len() as int) && mips_all_from(s, t, k + 1) }
}

pub proof fn lemma_mips_has(t: Seq<MipsRegister>, r: RegName, lo: int, hi: int)
    requires mips_has_in(t, r, lo, hi),
    ensures tbl_has(mips_recs(t), r),
    decreases hi - lo,
{
    if hi == lo + 1 {
        assert(tbl_hit(mips_recs(t), r, lo));
    } else {
        let mid = lo + (hi - lo) / 2;
        if mips_has_in(t, r, lo, mid) { lemma_mips_has(t, r, lo, mid); } else { lemma_mips_has(t, r, mid, hi); }
    }
}

pub proof fn lemma_mips_all(s: Seq<RegName>, t: Seq<MipsRegister>, k: int, i: int)
    requires 0 <= k <= i < s.len(), mips_all_from(s, t, k),
    ensures tbl_has(mips_recs(t), s[i]),
    decreases i - k,
{
    if k < i { lemma_mips_all(s, t, k + 1, i); } else { lemma_mips_has(t, s[i], 0, t.len() as int); }
}

impl MipsRegister {
// the scalar the MIPS lifter writes / reads for a record: (name, bits)
//@ fn impl MipsRegister :: fn scalar
//@ spec
    ensures /*@scalar*/ r == named_scalar(self.name@, self.bits),
//@ end
}
// ---- the translator types of this module (lib/translator/mips/mod.rs): the unit structs and their constructors, extracted;
// `impl Translator` restated with the ghost member only (see `trait Translator` above)
//@ source lib/translator/mips/mod.rs
//@ item struct Mips
impl Mips {
//@ fn impl Mips :: fn new
//@ spec
    ensures /*@unit*/ true,
//@ end
}
impl crate::translator::Translator for Mips { open spec fn which(&self) -> crate::translator::TranslatorId { crate::translator::TranslatorId::Mips } }
//@ item struct Mipsel
impl Mipsel {
//@ fn impl Mipsel :: fn new
//@ spec
    ensures /*@unit*/ true,
//@ end
}
impl crate::translator::Translator for Mipsel { open spec fn which(&self) -> crate::translator::TranslatorId { crate::translator::TranslatorId::Mipsel } }
proof fn vf_canary_mips() ensures false {}
} // mod mips

pub mod ppc {
use vstd::prelude::*;
use crate::il::*;
use crate::strmap::*;
use crate::capstone_mp::capstone_sys::ppc_reg;
use super::{TblRec, RegName, tbl_has, tbl_hit};
broadcast use crate::strmap::axiom_into_string_str;

//@ source lib/translator/ppc/semantics.rs
//@ item struct PpcRegister
//@ itemx const PPC_REGISTERS
//@ rewrite 1 `const PPC_REGISTERS: &[PpcRegister] = &[` => `const PPC_REGISTERS_TWIN: () = (); pub open spec fn ppc_table_spec_raw() -> Seq<PpcRegister> { seq![` ## R-table-twin: ghost twin of the table: the same literal read as a mathematical sequence (a dummy constant keeps the item a `const` for the extractor); spec-only, no executable token involved
//@ rewrite 1 `] ;` => `] }` ## R-table-twin: closes the spec function
//@ end

/// the table twin, hidden from the solver (opaque: the solver never needs the 30..331 records; Verus' evaluator, which does
/// the table look-ups, sees through it)
#[verifier::opaque]
pub open spec fn ppc_table_spec() -> Seq<PpcRegister> { ppc_table_spec_raw() }

/// the table in the common reading (full register: true)
pub open spec fn ppc_recs(t: Seq<PpcRegister>) -> Seq<TblRec> {
    Seq::new(t.len(), |i: int| TblRec { name: t[i].name, bits: t[i].bits, full: true })
}

/// evaluable: some record with index in [lo, hi) is a FULL register called r.name of width r.bits
/// (halving recursion: the evaluator's recursion depth stays logarithmic in the table size)
pub open spec fn ppc_has_in(t: Seq<PpcRegister>, r: RegName, lo: int, hi: int) -> bool
    decreases hi - lo,
{
    if lo < 0 || hi > t.len() || hi <= lo { false }
    else if hi == lo + 1 { (true) && t[lo].name == r.name && t[lo].bits == r.bits }
    else { ppc_has_in(t, r, lo, lo + (hi - lo) / 2) || ppc_has_in(t, r, lo + (hi - lo) / 2, hi) }
}

pub open spec fn ppc_all_from(s: Seq<RegName>, t: Seq<PpcRegister>, k: int) -> bool
    decreases s.len() - k,
{
    if k < 0 || k >= s.len() { true } else { ppc_has_in(t, s[k], 0, t.len() as int) && ppc_all_from(s, t, k + 1) }
}

pub proof fn lemma_ppc_has(t: Seq<PpcRegister>, r: RegName, lo: int, hi: int)
    requires ppc_has_in(t, r, lo, hi),
    ensures tbl_has(ppc_recs(t), r),
    decreases hi - lo,
{
    if hi == lo + 1 {
        assert(tbl_hit(ppc_recs(t), r, lo));
    } else {
        let mid = lo + (hi - lo) / 2;
        if ppc_has_in(t, r, lo, mid) { lemma_ppc_has(t, r, lo, mid); } else { lemma_ppc_has(t, r, mid, hi); }
    }
}

pub proof fn lemma_ppc_all(s: Seq<RegName>, t: Seq<PpcRegister>, k: int, i: int)
    requires 0 <= k <= i < s.len(), ppc_all_from(s, t, k),
    ensures tbl_has(ppc_recs(t), s[i]),
    decreases i - k,
{
    if k < i { lemma_ppc_all(s, t, k + 1, i); } else { lemma_ppc_has(t, s[i], 0, t.len() as int); }
}

impl PpcRegister {
//@ fn impl PpcRegister :: fn scalar
//@ spec
    ensures /*@scalar*/ r == named_scalar(self.name@, self.bits),
//@ end
}
// ---- the translator types of this module (lib/translator/ppc/mod.rs): the unit structs and their constructors, extracted;
// `impl Translator` restated with the ghost member only (see `trait Translator` above)
//@ source lib/translator/ppc/mod.rs
//@ item struct Ppc
impl Ppc {
//@ fn impl Ppc :: fn new
//@ spec
    ensures /*@unit*/ true,
//@ end
}
impl crate::translator::Translator for Ppc { open spec fn which(&self) -> crate::translator::TranslatorId { crate::translator::TranslatorId::Ppc } }
proof fn vf_canary_ppc() ensures false {}
} // mod ppc

pub mod aarch64 {
use vstd::prelude::*;
use crate::bad64_reg::Reg;
use super::{TblRec, RegName, tbl_has, tbl_hit};

//@ source lib/translator/aarch64/register.rs
//@ item struct AArch64Register
//@ itemx const AARCH64_REGISTERS
//@ rewrite 1 `const AARCH64_REGISTERS: &[AArch64Register] = &[` => `const AARCH64_REGISTERS_TWIN: () = (); pub open spec fn aarch64_table_spec_raw() -> Seq<AArch64Register> { seq![` ## R-table-twin: ghost twin of the table: the same literal read as a mathematical sequence (a dummy constant keeps the item a `const` for the extractor); spec-only, no executable token involved
//@ rewrite 1 `] ;` => `] }` ## R-table-twin: closes the spec function
//@ end

/// the table twin, hidden from the solver (opaque: the solver never needs the 30..331 records; Verus' evaluator, which does
/// the table look-ups, sees through it)
#[verifier::opaque]
pub open spec fn aarch64_table_spec() -> Seq<AArch64Register> { aarch64_table_spec_raw() }

/// the table in the common reading (full register: t[k].bad64_reg == t[k].bad64_full_reg)
pub open spec fn aarch64_recs(t: Seq<AArch64Register>) -> Seq<TblRec> {
    Seq::new(t.len(), |i: int| TblRec { name: t[i].name, bits: t[i].bits, full: t[i].bad64_reg == t[i].bad64_full_reg })
}

/// evaluable: some record with index in [lo, hi) is a FULL register called r.name of width r.bits
/// (halving recursion: the evaluator's recursion depth stays logarithmic in the table size)
pub open spec fn aarch64_has_in(t: Seq<AArch64Register>, r: RegName, lo: int, hi: int) -> bool
    decreases hi - lo,
{
    if lo < 0 || hi > t.len() || hi <= lo { false }
    else if hi == lo + 1 { (t[lo].bad64_reg == t[lo].bad64_full_reg) && t[lo].name == r.name && t[lo].bits == r.bits }
    else { aarch64_has_in(t, r, lo, lo + (hi - lo) / 2) || aarch64_has_in(t, r, lo + (hi - lo) / 2, hi) }
}

pub open spec fn aarch64_all_from(s: Seq<RegName>, t: Seq<AArch64Register>, k: int) -> bool
    decreases s.len() - k,
{
    if k < 0 || k >= s.len() { true } else { aarch64_has_in(t, s[k], 0, t.len() as int) && aarch64_all_from(s, t, k + 1) }
}

pub proof fn lemma_aarch64_has(t: Seq<AArch64Register>, r: RegName, lo: int, hi: int)
    requires aarch64_has_in(t, r, lo, hi),
    ensures tbl_has(aarch64_recs(t), r),
    decreases hi - lo,
{
    if hi == lo + 1 {
        assert(tbl_hit(aarch64_recs(t), r, lo));
    } else {
        let mid = lo + (hi - lo) / 2;
        if aarch64_has_in(t, r, lo, mid) { lemma_aarch64_has(t, r, lo, mid); } else { lemma_aarch64_has(t, r, mid, hi); }
    }
}

pub proof fn lemma_aarch64_all(s: Seq<RegName>, t: Seq<AArch64Register>, k: int, i: int)
    requires 0 <= k <= i < s.len(), aarch64_all_from(s, t, k),
    ensures tbl_has(aarch64_recs(t), s[i]),
    decreases i - k,
{
    if k < i { lemma_aarch64_all(s, t, k + 1, i); } else { lemma_aarch64_has(t, s[i], 0, t.len() as int); }
}
// ---- the translator types of this module (lib/translator/aarch64/mod.rs): the unit structs and their constructors, extracted;
// `impl Translator` restated with the ghost member only (see `trait Translator` above)
//@ source lib/translator/aarch64/mod.rs
//@ item struct AArch64
impl AArch64 {
//@ fn impl AArch64 :: fn new
//@ spec
    ensures /*@unit*/ true,
//@ end
}
impl crate::translator::Translator for AArch64 { open spec fn which(&self) -> crate::translator::TranslatorId { crate::translator::TranslatorId::AArch64 } }
//@ item struct AArch64Eb
impl AArch64Eb {
//@ fn impl AArch64Eb :: fn new
//@ spec
    ensures /*@unit*/ true,
//@ end
}
impl crate::translator::Translator for AArch64Eb { open spec fn which(&self) -> crate::translator::TranslatorId { crate::translator::TranslatorId::AArch64Eb } }
} // mod aarch64
