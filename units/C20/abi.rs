// ---- units/C20/abi.rs: THE EXTERNAL ORACLE and the checks of the property.  Included inside
// `analysis::calling_convention` after cc.rs.
//
// `abi(typ)` is TRANSCRIBED FROM THE PLATFORM ABI DOCUMENTS, not from the code (sources, per row):
//  * Cdecl (i386 System V psABI, ch. 3 "Function Calling Sequence"): all arguments on the stack, the first at 4(%esp)
//    at function entry (0(%esp) holds the return address), result in %eax, 4-byte argument slots, stack pointer %esp.
//  * Amd64SystemV (System V AMD64 psABI, 3.2.3 "Parameter Passing"): INTEGER-class arguments in %rdi, %rsi, %rdx,
//    %rcx, %r8, %r9, in this order; further ones in 8-byte slots from 8(%rsp) at entry (0(%rsp) = return address);
//    result in %rax; stack pointer %rsp.
//  * MipsSystemV / MipselSystemV (MIPS o32, System V MIPS psABI ch. 3): $a0..$a3 ($4..$7), a 16-byte home area for them
//    at 0..15($sp), so the fifth argument word is at 16($sp) at entry; result in $v0 ($2); return address in $ra ($31);
//    stack pointer $sp ($29); 4-byte slots.  The convention is the same for both byte orders.
//  * PpcSystemV (System V PowerPC psABI, 32 bit, ch. 3, fig. 3-17 "Standard Stack Frame"): r3..r10, result in r3,
//    return address in the link register LR, stack pointer r1; at entry 0(r1) is the back chain word, 4(r1) the
//    LR save word and the parameter list area starts at 8(r1); 4-byte slots.
//  * AArch64 (AAPCS64, 6.1.1 "General-purpose registers" and 6.8.2 "Parameter passing rules"): integral / pointer arguments in
//    x0..x7 (NGRN), result in x0, return address in x30 (LR), stack pointer SP; arguments that do not fit go to the
//    stack from [SP] at entry in slots of 8 bytes (rule C.16: NSAA rounded up to 8).  (Floating-point / SIMD
//    arguments use v0..v7 through a SEPARATE counter (NSRN); falcon's CallingConvention has ONE positional list,
//    `argument_type(n)` = "the n-th argument", and for every other architecture lists the integer-class registers
//    only, so the oracle for that list is x0..x7.)
// `ra_in_table`: whether the return-address register is a record of the translator's register table.  False for
//  PowerPC only: the link register is not an operand register of capstone's PPC decoder; the lifter names it directly
//  (`scalar("lr", 32)` in bl / blr / mflr / mtlr, lib/translator/ppc/semantics.rs).  That these FFI-driven builders
//  emit lr:32 is checked by the bounded witness only (meta.json, undecided_subclaims).

pub struct Abi {
    pub word_bits: usize,
    pub sp: RegName,
    pub args: Seq<RegName>,
    pub ret: RegName,
    pub ra: RaTwin,
    pub stack_first: usize,
    pub ra_in_table: bool,
}

pub open spec fn abi(typ: CallingConventionType) -> Abi {
    match typ {
        CallingConventionType::Cdecl => Abi {
            word_bits: 32, sp: reg("esp", 32), args: Seq::<RegName>::empty(), ret: reg("eax", 32),
            ra: RaTwin::Stack(0), stack_first: 4, ra_in_table: true },
        CallingConventionType::Amd64SystemV => Abi {
            word_bits: 64, sp: reg("rsp", 64),
            args: seq![reg("rdi", 64), reg("rsi", 64), reg("rdx", 64), reg("rcx", 64), reg("r8", 64), reg("r9", 64)],
            ret: reg("rax", 64), ra: RaTwin::Stack(0), stack_first: 8, ra_in_table: true },
        CallingConventionType::MipsSystemV | CallingConventionType::MipselSystemV => Abi {
            word_bits: 32, sp: reg("$sp", 32),
            args: seq![reg("$a0", 32), reg("$a1", 32), reg("$a2", 32), reg("$a3", 32)],
            ret: reg("$v0", 32), ra: RaTwin::Register(reg("$ra", 32)), stack_first: 16, ra_in_table: true },
        CallingConventionType::PpcSystemV => Abi {
            word_bits: 32, sp: reg("r1", 32),
            args: seq![reg("r3", 32), reg("r4", 32), reg("r5", 32), reg("r6", 32), reg("r7", 32), reg("r8", 32), reg("r9", 32), reg("r10", 32)],
            ret: reg("r3", 32), ra: RaTwin::Register(reg("lr", 32)), stack_first: 8, ra_in_table: false },
        CallingConventionType::AArch64 => Abi {
            word_bits: 64, sp: reg("sp", 64),
            args: seq![reg("x0", 64), reg("x1", 64), reg("x2", 64), reg("x3", 64), reg("x4", 64), reg("x5", 64), reg("x6", 64), reg("x7", 64)],
            ret: reg("x0", 64), ra: RaTwin::Register(reg("x30", 64)), stack_first: 0, ra_in_table: true },
    }
}

/// the register table of the translator that lifts code for this convention (extracted twins, units/C20/tables.rs)
pub open spec fn tbl(typ: CallingConventionType) -> Seq<TblRec> {
    match typ {
        CallingConventionType::Cdecl => x86_recs(x86_table_spec()),
        CallingConventionType::Amd64SystemV => x86_recs(amd64_table_spec()),
        CallingConventionType::MipsSystemV | CallingConventionType::MipselSystemV => mips_recs(mips_table_spec()),
        CallingConventionType::PpcSystemV => ppc_recs(ppc_table_spec()),
        CallingConventionType::AArch64 => aarch64_recs(aarch64_table_spec()),
    }
}

/// evaluable: every (name, width) of s[k..] is a FULL register of that table
pub open spec fn all_in_tbl_from(typ: CallingConventionType, s: Seq<RegName>, k: int) -> bool {
    match typ {
        CallingConventionType::Cdecl => x86_all_from(s, x86_table_spec(), k),
        CallingConventionType::Amd64SystemV => x86_all_from(s, amd64_table_spec(), k),
        CallingConventionType::MipsSystemV | CallingConventionType::MipselSystemV => mips_all_from(s, mips_table_spec(), k),
        CallingConventionType::PpcSystemV => ppc_all_from(s, ppc_table_spec(), k),
        CallingConventionType::AArch64 => aarch64_all_from(s, aarch64_table_spec(), k),
    }
}

pub proof fn lemma_all_in_tbl(typ: CallingConventionType, s: Seq<RegName>, i: int)
    requires 0 <= i < s.len(), all_in_tbl_from(typ, s, 0),
    ensures tbl_has(tbl(typ), s[i]),
{
    match typ {
        CallingConventionType::Cdecl => lemma_x86_all(s, x86_table_spec(), 0, i),
        CallingConventionType::Amd64SystemV => lemma_x86_all(s, amd64_table_spec(), 0, i),
        CallingConventionType::MipsSystemV | CallingConventionType::MipselSystemV => lemma_mips_all(s, mips_table_spec(), 0, i),
        CallingConventionType::PpcSystemV => lemma_ppc_all(s, ppc_table_spec(), 0, i),
        CallingConventionType::AArch64 => lemma_aarch64_all(s, aarch64_table_spec(), 0, i),
    }
}

// =====================================================================================================
// (3) the CHECKS, as evaluable functions over the twin (names compared as string literals)
// =====================================================================================================
pub open spec fn same_reg(a: RegName, b: RegName) -> bool { a.name == b.name && a.bits == b.bits }

pub open spec fn seq_same_from(a: Seq<RegName>, b: Seq<RegName>, k: int) -> bool
    decreases a.len() - k,
{
    if k < 0 || k >= a.len() { true } else { k < b.len() && same_reg(a[k], b[k]) && seq_same_from(a, b, k + 1) }
}

pub open spec fn has_reg_from(s: Seq<RegName>, r: RegName, k: int) -> bool
    decreases s.len() - k,
{
    if k < 0 || k >= s.len() { false } else { same_reg(s[k], r) || has_reg_from(s, r, k + 1) }
}

pub open spec fn has_name_from(s: Seq<RegName>, n: &'static str, k: int) -> bool
    decreases s.len() - k,
{
    if k < 0 || k >= s.len() { false } else { s[k].name == n || has_name_from(s, n, k + 1) }
}

/// no NAME of p[k..] occurs in t (a register is identified by its name, whatever width it is listed with)
pub open spec fn names_disjoint_from(p: Seq<RegName>, t: Seq<RegName>, k: int) -> bool
    decreases p.len() - k,
{
    if k < 0 || k >= p.len() { true } else { !has_name_from(t, p[k].name, 0) && names_disjoint_from(p, t, k + 1) }
}

pub open spec fn all_bits_from(s: Seq<RegName>, bits: usize, k: int) -> bool
    decreases s.len() - k,
{
    if k < 0 || k >= s.len() { true } else { s[k].bits == bits && all_bits_from(s, bits, k + 1) }
}

pub open spec fn chk_abi_args(t: CcTwin, a: Abi) -> bool { t.argument_registers.len() == a.args.len() && seq_same_from(t.argument_registers, a.args, 0) }
pub open spec fn chk_abi_return(t: CcTwin, a: Abi) -> bool { same_reg(t.return_register, a.ret) }
pub open spec fn chk_return_address(t: CcTwin, a: Abi) -> bool {
    match t.return_address_type {
        RaTwin::Register(x) => (a.ra matches RaTwin::Register(y) && same_reg(x, y)),
        RaTwin::Stack(o) => (a.ra matches RaTwin::Stack(p) && o == p),
    }
}
pub open spec fn chk_stack_args(t: CcTwin, a: Abi) -> bool { t.stack_argument_length * 8 == a.word_bits }
pub open spec fn chk_stack_first(t: CcTwin, a: Abi) -> bool { t.stack_argument_offset == a.stack_first }
pub open spec fn chk_disjoint(t: CcTwin) -> bool { names_disjoint_from(t.preserved_registers, t.trashed_registers, 0) }
pub open spec fn chk_sp_preserved(t: CcTwin, a: Abi) -> bool { has_reg_from(t.preserved_registers, a.sp, 0) }
/// the registers of the word-sized classes (arguments, result, return address) have the machine's word size
pub open spec fn chk_widths(t: CcTwin, a: Abi) -> bool {
    &&& all_bits_from(t.argument_registers, a.word_bits, 0)
    &&& t.return_register.bits == a.word_bits
    &&& (t.return_address_type matches RaTwin::Register(x) ==> x.bits == a.word_bits)
}
/// every register the convention names is a FULL register of the translator's table, with that name and width
/// (split by class so that a failure names the class)
pub open spec fn chk_produced_args(typ: CallingConventionType, t: CcTwin) -> bool { all_in_tbl_from(typ, t.argument_registers, 0) }
pub open spec fn chk_produced_preserved(typ: CallingConventionType, t: CcTwin) -> bool { all_in_tbl_from(typ, t.preserved_registers, 0) }
pub open spec fn chk_produced_trashed(typ: CallingConventionType, t: CcTwin) -> bool { all_in_tbl_from(typ, t.trashed_registers, 0) }
pub open spec fn chk_produced_ret(typ: CallingConventionType, t: CcTwin, a: Abi) -> bool {
    &&& all_in_tbl_from(typ, seq![t.return_register], 0)
    &&& ((a.ra_in_table && t.return_address_type is Register) ==> all_in_tbl_from(typ, seq![t.return_address_type->Register_0], 0))
}

/// the stack pointer of the ABI row is a FULL register of the translator's table, with that name and width
pub open spec fn chk_sp_produced(typ: CallingConventionType, a: Abi) -> bool { all_in_tbl_from(typ, seq![a.sp], 0) }
