// ---- units/C20/cc_lemmas.rs: every check of the property, for every calling-convention type, EVALUATED by Verus on the
// twin of CallingConvention::new (extracted text), the ABI oracle and the twins of the register tables (extracted text).
// One lemma per (check, type) so that a failure names both; one module per type (Verus works on modules in parallel).
// (Text generated once from the list of checks; nothing of the code under check is mentioned.)  `holds`: see `mod hold`
// in unit.rs.  The twins are opaque for the solver; the `reveal` inside a nested proof block makes them visible to
// Verus' evaluator only (a `reveal` is scoped to its block for the solver), so that a check that evaluates to false
// fails at once instead of sending the solver through several hundred table records.

pub mod chk_aarch64 {
use vstd::prelude::*;
use super::*;
use crate::hold::*;
broadcast use crate::hold::lemma_holds;

pub proof fn lemma_abi_args()
    ensures /*@abi_args*/ chk_abi_args(cc_twin(CallingConventionType::AArch64), abi(CallingConventionType::AArch64)),
{
    assert(true) by { reveal(cc_twin); }
    assert(holds(chk_abi_args(cc_twin(CallingConventionType::AArch64), abi(CallingConventionType::AArch64)))) by (compute);
}

pub proof fn lemma_abi_return()
    ensures /*@abi_return*/ chk_abi_return(cc_twin(CallingConventionType::AArch64), abi(CallingConventionType::AArch64)),
{
    assert(true) by { reveal(cc_twin); }
    assert(holds(chk_abi_return(cc_twin(CallingConventionType::AArch64), abi(CallingConventionType::AArch64)))) by (compute);
}

pub proof fn lemma_return_address()
    ensures /*@return_address*/ chk_return_address(cc_twin(CallingConventionType::AArch64), abi(CallingConventionType::AArch64)),
{
    assert(true) by { reveal(cc_twin); }
    assert(holds(chk_return_address(cc_twin(CallingConventionType::AArch64), abi(CallingConventionType::AArch64)))) by (compute);
}

pub proof fn lemma_stack_args()
    ensures /*@stack_args*/ chk_stack_args(cc_twin(CallingConventionType::AArch64), abi(CallingConventionType::AArch64)),
{
    assert(true) by { reveal(cc_twin); }
    assert(holds(chk_stack_args(cc_twin(CallingConventionType::AArch64), abi(CallingConventionType::AArch64)))) by (compute);
}

pub proof fn lemma_stack_first()
    ensures /*@stack_first*/ chk_stack_first(cc_twin(CallingConventionType::AArch64), abi(CallingConventionType::AArch64)),
{
    assert(true) by { reveal(cc_twin); }
    assert(holds(chk_stack_first(cc_twin(CallingConventionType::AArch64), abi(CallingConventionType::AArch64)))) by (compute);
}

pub proof fn lemma_disjoint()
    ensures /*@disjoint*/ chk_disjoint(cc_twin(CallingConventionType::AArch64)),
{
    assert(true) by { reveal(cc_twin); }
    assert(holds(chk_disjoint(cc_twin(CallingConventionType::AArch64)))) by (compute);
}

pub proof fn lemma_sp_preserved()
    ensures /*@sp_preserved*/ chk_sp_preserved(cc_twin(CallingConventionType::AArch64), abi(CallingConventionType::AArch64)),
{
    assert(true) by { reveal(cc_twin); }
    assert(holds(chk_sp_preserved(cc_twin(CallingConventionType::AArch64), abi(CallingConventionType::AArch64)))) by (compute);
}

pub proof fn lemma_widths()
    ensures /*@widths*/ chk_widths(cc_twin(CallingConventionType::AArch64), abi(CallingConventionType::AArch64)),
{
    assert(true) by { reveal(cc_twin); }
    assert(holds(chk_widths(cc_twin(CallingConventionType::AArch64), abi(CallingConventionType::AArch64)))) by (compute);
}

pub proof fn lemma_produced_args()
    ensures /*@produced_args*/ chk_produced_args(CallingConventionType::AArch64, cc_twin(CallingConventionType::AArch64)),
{
    assert(true) by { reveal(cc_twin); reveal(aarch64_table_spec); }
    assert(holds(chk_produced_args(CallingConventionType::AArch64, cc_twin(CallingConventionType::AArch64)))) by (compute);
}

pub proof fn lemma_produced_preserved()
    ensures /*@produced_preserved*/ chk_produced_preserved(CallingConventionType::AArch64, cc_twin(CallingConventionType::AArch64)),
{
    assert(true) by { reveal(cc_twin); reveal(aarch64_table_spec); }
    assert(holds(chk_produced_preserved(CallingConventionType::AArch64, cc_twin(CallingConventionType::AArch64)))) by (compute);
}

pub proof fn lemma_produced_trashed()
    ensures /*@produced_trashed*/ chk_produced_trashed(CallingConventionType::AArch64, cc_twin(CallingConventionType::AArch64)),
{
    assert(true) by { reveal(cc_twin); reveal(aarch64_table_spec); }
    assert(holds(chk_produced_trashed(CallingConventionType::AArch64, cc_twin(CallingConventionType::AArch64)))) by (compute);
}

pub proof fn lemma_produced_ret()
    ensures /*@produced_ret*/ chk_produced_ret(CallingConventionType::AArch64, cc_twin(CallingConventionType::AArch64), abi(CallingConventionType::AArch64)),
{
    assert(true) by { reveal(cc_twin); reveal(aarch64_table_spec); }
    assert(holds(chk_produced_ret(CallingConventionType::AArch64, cc_twin(CallingConventionType::AArch64), abi(CallingConventionType::AArch64)))) by (compute);
}

pub proof fn lemma_sp_produced()
    ensures /*@sp_produced*/ chk_sp_produced(CallingConventionType::AArch64, abi(CallingConventionType::AArch64)),
{
    assert(true) by { reveal(aarch64_table_spec); }
    assert(holds(chk_sp_produced(CallingConventionType::AArch64, abi(CallingConventionType::AArch64)))) by (compute);
}

} // mod chk_aarch64

pub mod chk_amd64 {
use vstd::prelude::*;
use super::*;
use crate::hold::*;
broadcast use crate::hold::lemma_holds;

pub proof fn lemma_abi_args()
    ensures /*@abi_args*/ chk_abi_args(cc_twin(CallingConventionType::Amd64SystemV), abi(CallingConventionType::Amd64SystemV)),
{
    assert(true) by { reveal(cc_twin); }
    assert(holds(chk_abi_args(cc_twin(CallingConventionType::Amd64SystemV), abi(CallingConventionType::Amd64SystemV)))) by (compute);
}

pub proof fn lemma_abi_return()
    ensures /*@abi_return*/ chk_abi_return(cc_twin(CallingConventionType::Amd64SystemV), abi(CallingConventionType::Amd64SystemV)),
{
    assert(true) by { reveal(cc_twin); }
    assert(holds(chk_abi_return(cc_twin(CallingConventionType::Amd64SystemV), abi(CallingConventionType::Amd64SystemV)))) by (compute);
}

pub proof fn lemma_return_address()
    ensures /*@return_address*/ chk_return_address(cc_twin(CallingConventionType::Amd64SystemV), abi(CallingConventionType::Amd64SystemV)),
{
    assert(true) by { reveal(cc_twin); }
    assert(holds(chk_return_address(cc_twin(CallingConventionType::Amd64SystemV), abi(CallingConventionType::Amd64SystemV)))) by (compute);
}

pub proof fn lemma_stack_args()
    ensures /*@stack_args*/ chk_stack_args(cc_twin(CallingConventionType::Amd64SystemV), abi(CallingConventionType::Amd64SystemV)),
{
    assert(true) by { reveal(cc_twin); }
    assert(holds(chk_stack_args(cc_twin(CallingConventionType::Amd64SystemV), abi(CallingConventionType::Amd64SystemV)))) by (compute);
}

pub proof fn lemma_stack_first()
    ensures /*@stack_first*/ chk_stack_first(cc_twin(CallingConventionType::Amd64SystemV), abi(CallingConventionType::Amd64SystemV)),
{
    assert(true) by { reveal(cc_twin); }
    assert(holds(chk_stack_first(cc_twin(CallingConventionType::Amd64SystemV), abi(CallingConventionType::Amd64SystemV)))) by (compute);
}

pub proof fn lemma_disjoint()
    ensures /*@disjoint*/ chk_disjoint(cc_twin(CallingConventionType::Amd64SystemV)),
{
    assert(true) by { reveal(cc_twin); }
    assert(holds(chk_disjoint(cc_twin(CallingConventionType::Amd64SystemV)))) by (compute);
}

pub proof fn lemma_sp_preserved()
    ensures /*@sp_preserved*/ chk_sp_preserved(cc_twin(CallingConventionType::Amd64SystemV), abi(CallingConventionType::Amd64SystemV)),
{
    assert(true) by { reveal(cc_twin); }
    assert(holds(chk_sp_preserved(cc_twin(CallingConventionType::Amd64SystemV), abi(CallingConventionType::Amd64SystemV)))) by (compute);
}

pub proof fn lemma_widths()
    ensures /*@widths*/ chk_widths(cc_twin(CallingConventionType::Amd64SystemV), abi(CallingConventionType::Amd64SystemV)),
{
    assert(true) by { reveal(cc_twin); }
    assert(holds(chk_widths(cc_twin(CallingConventionType::Amd64SystemV), abi(CallingConventionType::Amd64SystemV)))) by (compute);
}

pub proof fn lemma_produced_args()
    ensures /*@produced_args*/ chk_produced_args(CallingConventionType::Amd64SystemV, cc_twin(CallingConventionType::Amd64SystemV)),
{
    assert(true) by { reveal(cc_twin); reveal(amd64_table_spec); }
    assert(holds(chk_produced_args(CallingConventionType::Amd64SystemV, cc_twin(CallingConventionType::Amd64SystemV)))) by (compute);
}

pub proof fn lemma_produced_preserved()
    ensures /*@produced_preserved*/ chk_produced_preserved(CallingConventionType::Amd64SystemV, cc_twin(CallingConventionType::Amd64SystemV)),
{
    assert(true) by { reveal(cc_twin); reveal(amd64_table_spec); }
    assert(holds(chk_produced_preserved(CallingConventionType::Amd64SystemV, cc_twin(CallingConventionType::Amd64SystemV)))) by (compute);
}

pub proof fn lemma_produced_trashed()
    ensures /*@produced_trashed*/ chk_produced_trashed(CallingConventionType::Amd64SystemV, cc_twin(CallingConventionType::Amd64SystemV)),
{
    assert(true) by { reveal(cc_twin); reveal(amd64_table_spec); }
    assert(holds(chk_produced_trashed(CallingConventionType::Amd64SystemV, cc_twin(CallingConventionType::Amd64SystemV)))) by (compute);
}

pub proof fn lemma_produced_ret()
    ensures /*@produced_ret*/ chk_produced_ret(CallingConventionType::Amd64SystemV, cc_twin(CallingConventionType::Amd64SystemV), abi(CallingConventionType::Amd64SystemV)),
{
    assert(true) by { reveal(cc_twin); reveal(amd64_table_spec); }
    assert(holds(chk_produced_ret(CallingConventionType::Amd64SystemV, cc_twin(CallingConventionType::Amd64SystemV), abi(CallingConventionType::Amd64SystemV)))) by (compute);
}

pub proof fn lemma_sp_produced()
    ensures /*@sp_produced*/ chk_sp_produced(CallingConventionType::Amd64SystemV, abi(CallingConventionType::Amd64SystemV)),
{
    assert(true) by { reveal(amd64_table_spec); }
    assert(holds(chk_sp_produced(CallingConventionType::Amd64SystemV, abi(CallingConventionType::Amd64SystemV)))) by (compute);
}

} // mod chk_amd64

pub mod chk_cdecl {
use vstd::prelude::*;
use super::*;
use crate::hold::*;
broadcast use crate::hold::lemma_holds;

pub proof fn lemma_abi_args()
    ensures /*@abi_args*/ chk_abi_args(cc_twin(CallingConventionType::Cdecl), abi(CallingConventionType::Cdecl)),
{
    assert(true) by { reveal(cc_twin); }
    assert(holds(chk_abi_args(cc_twin(CallingConventionType::Cdecl), abi(CallingConventionType::Cdecl)))) by (compute);
}

pub proof fn lemma_abi_return()
    ensures /*@abi_return*/ chk_abi_return(cc_twin(CallingConventionType::Cdecl), abi(CallingConventionType::Cdecl)),
{
    assert(true) by { reveal(cc_twin); }
    assert(holds(chk_abi_return(cc_twin(CallingConventionType::Cdecl), abi(CallingConventionType::Cdecl)))) by (compute);
}

pub proof fn lemma_return_address()
    ensures /*@return_address*/ chk_return_address(cc_twin(CallingConventionType::Cdecl), abi(CallingConventionType::Cdecl)),
{
    assert(true) by { reveal(cc_twin); }
    assert(holds(chk_return_address(cc_twin(CallingConventionType::Cdecl), abi(CallingConventionType::Cdecl)))) by (compute);
}

pub proof fn lemma_stack_args()
    ensures /*@stack_args*/ chk_stack_args(cc_twin(CallingConventionType::Cdecl), abi(CallingConventionType::Cdecl)),
{
    assert(true) by { reveal(cc_twin); }
    assert(holds(chk_stack_args(cc_twin(CallingConventionType::Cdecl), abi(CallingConventionType::Cdecl)))) by (compute);
}

pub proof fn lemma_stack_first()
    ensures /*@stack_first*/ chk_stack_first(cc_twin(CallingConventionType::Cdecl), abi(CallingConventionType::Cdecl)),
{
    assert(true) by { reveal(cc_twin); }
    assert(holds(chk_stack_first(cc_twin(CallingConventionType::Cdecl), abi(CallingConventionType::Cdecl)))) by (compute);
}

pub proof fn lemma_disjoint()
    ensures /*@disjoint*/ chk_disjoint(cc_twin(CallingConventionType::Cdecl)),
{
    assert(true) by { reveal(cc_twin); }
    assert(holds(chk_disjoint(cc_twin(CallingConventionType::Cdecl)))) by (compute);
}

pub proof fn lemma_sp_preserved()
    ensures /*@sp_preserved*/ chk_sp_preserved(cc_twin(CallingConventionType::Cdecl), abi(CallingConventionType::Cdecl)),
{
    assert(true) by { reveal(cc_twin); }
    assert(holds(chk_sp_preserved(cc_twin(CallingConventionType::Cdecl), abi(CallingConventionType::Cdecl)))) by (compute);
}

pub proof fn lemma_widths()
    ensures /*@widths*/ chk_widths(cc_twin(CallingConventionType::Cdecl), abi(CallingConventionType::Cdecl)),
{
    assert(true) by { reveal(cc_twin); }
    assert(holds(chk_widths(cc_twin(CallingConventionType::Cdecl), abi(CallingConventionType::Cdecl)))) by (compute);
}

pub proof fn lemma_produced_args()
    ensures /*@produced_args*/ chk_produced_args(CallingConventionType::Cdecl, cc_twin(CallingConventionType::Cdecl)),
{
    assert(true) by { reveal(cc_twin); reveal(x86_table_spec); }
    assert(holds(chk_produced_args(CallingConventionType::Cdecl, cc_twin(CallingConventionType::Cdecl)))) by (compute);
}

pub proof fn lemma_produced_preserved()
    ensures /*@produced_preserved*/ chk_produced_preserved(CallingConventionType::Cdecl, cc_twin(CallingConventionType::Cdecl)),
{
    assert(true) by { reveal(cc_twin); reveal(x86_table_spec); }
    assert(holds(chk_produced_preserved(CallingConventionType::Cdecl, cc_twin(CallingConventionType::Cdecl)))) by (compute);
}

pub proof fn lemma_produced_trashed()
    ensures /*@produced_trashed*/ chk_produced_trashed(CallingConventionType::Cdecl, cc_twin(CallingConventionType::Cdecl)),
{
    assert(true) by { reveal(cc_twin); reveal(x86_table_spec); }
    assert(holds(chk_produced_trashed(CallingConventionType::Cdecl, cc_twin(CallingConventionType::Cdecl)))) by (compute);
}

pub proof fn lemma_produced_ret()
    ensures /*@produced_ret*/ chk_produced_ret(CallingConventionType::Cdecl, cc_twin(CallingConventionType::Cdecl), abi(CallingConventionType::Cdecl)),
{
    assert(true) by { reveal(cc_twin); reveal(x86_table_spec); }
    assert(holds(chk_produced_ret(CallingConventionType::Cdecl, cc_twin(CallingConventionType::Cdecl), abi(CallingConventionType::Cdecl)))) by (compute);
}

pub proof fn lemma_sp_produced()
    ensures /*@sp_produced*/ chk_sp_produced(CallingConventionType::Cdecl, abi(CallingConventionType::Cdecl)),
{
    assert(true) by { reveal(x86_table_spec); }
    assert(holds(chk_sp_produced(CallingConventionType::Cdecl, abi(CallingConventionType::Cdecl)))) by (compute);
}

} // mod chk_cdecl

pub mod chk_mips {
use vstd::prelude::*;
use super::*;
use crate::hold::*;
broadcast use crate::hold::lemma_holds;

pub proof fn lemma_abi_args()
    ensures /*@abi_args*/ chk_abi_args(cc_twin(CallingConventionType::MipsSystemV), abi(CallingConventionType::MipsSystemV)),
{
    assert(true) by { reveal(cc_twin); }
    assert(holds(chk_abi_args(cc_twin(CallingConventionType::MipsSystemV), abi(CallingConventionType::MipsSystemV)))) by (compute);
}

pub proof fn lemma_abi_return()
    ensures /*@abi_return*/ chk_abi_return(cc_twin(CallingConventionType::MipsSystemV), abi(CallingConventionType::MipsSystemV)),
{
    assert(true) by { reveal(cc_twin); }
    assert(holds(chk_abi_return(cc_twin(CallingConventionType::MipsSystemV), abi(CallingConventionType::MipsSystemV)))) by (compute);
}

pub proof fn lemma_return_address()
    ensures /*@return_address*/ chk_return_address(cc_twin(CallingConventionType::MipsSystemV), abi(CallingConventionType::MipsSystemV)),
{
    assert(true) by { reveal(cc_twin); }
    assert(holds(chk_return_address(cc_twin(CallingConventionType::MipsSystemV), abi(CallingConventionType::MipsSystemV)))) by (compute);
}

pub proof fn lemma_stack_args()
    ensures /*@stack_args*/ chk_stack_args(cc_twin(CallingConventionType::MipsSystemV), abi(CallingConventionType::MipsSystemV)),
{
    assert(true) by { reveal(cc_twin); }
    assert(holds(chk_stack_args(cc_twin(CallingConventionType::MipsSystemV), abi(CallingConventionType::MipsSystemV)))) by (compute);
}

pub proof fn lemma_stack_first()
    ensures /*@stack_first*/ chk_stack_first(cc_twin(CallingConventionType::MipsSystemV), abi(CallingConventionType::MipsSystemV)),
{
    assert(true) by { reveal(cc_twin); }
    assert(holds(chk_stack_first(cc_twin(CallingConventionType::MipsSystemV), abi(CallingConventionType::MipsSystemV)))) by (compute);
}

pub proof fn lemma_disjoint()
    ensures /*@disjoint*/ chk_disjoint(cc_twin(CallingConventionType::MipsSystemV)),
{
    assert(true) by { reveal(cc_twin); }
    assert(holds(chk_disjoint(cc_twin(CallingConventionType::MipsSystemV)))) by (compute);
}

pub proof fn lemma_sp_preserved()
    ensures /*@sp_preserved*/ chk_sp_preserved(cc_twin(CallingConventionType::MipsSystemV), abi(CallingConventionType::MipsSystemV)),
{
    assert(true) by { reveal(cc_twin); }
    assert(holds(chk_sp_preserved(cc_twin(CallingConventionType::MipsSystemV), abi(CallingConventionType::MipsSystemV)))) by (compute);
}

pub proof fn lemma_widths()
    ensures /*@widths*/ chk_widths(cc_twin(CallingConventionType::MipsSystemV), abi(CallingConventionType::MipsSystemV)),
{
    assert(true) by { reveal(cc_twin); }
    assert(holds(chk_widths(cc_twin(CallingConventionType::MipsSystemV), abi(CallingConventionType::MipsSystemV)))) by (compute);
}

pub proof fn lemma_produced_args()
    ensures /*@produced_args*/ chk_produced_args(CallingConventionType::MipsSystemV, cc_twin(CallingConventionType::MipsSystemV)),
{
    assert(true) by { reveal(cc_twin); reveal(mips_table_spec); }
    assert(holds(chk_produced_args(CallingConventionType::MipsSystemV, cc_twin(CallingConventionType::MipsSystemV)))) by (compute);
}

pub proof fn lemma_produced_preserved()
    ensures /*@produced_preserved*/ chk_produced_preserved(CallingConventionType::MipsSystemV, cc_twin(CallingConventionType::MipsSystemV)),
{
    assert(true) by { reveal(cc_twin); reveal(mips_table_spec); }
    assert(holds(chk_produced_preserved(CallingConventionType::MipsSystemV, cc_twin(CallingConventionType::MipsSystemV)))) by (compute);
}

pub proof fn lemma_produced_trashed()
    ensures /*@produced_trashed*/ chk_produced_trashed(CallingConventionType::MipsSystemV, cc_twin(CallingConventionType::MipsSystemV)),
{
    assert(true) by { reveal(cc_twin); reveal(mips_table_spec); }
    assert(holds(chk_produced_trashed(CallingConventionType::MipsSystemV, cc_twin(CallingConventionType::MipsSystemV)))) by (compute);
}

pub proof fn lemma_produced_ret()
    ensures /*@produced_ret*/ chk_produced_ret(CallingConventionType::MipsSystemV, cc_twin(CallingConventionType::MipsSystemV), abi(CallingConventionType::MipsSystemV)),
{
    assert(true) by { reveal(cc_twin); reveal(mips_table_spec); }
    assert(holds(chk_produced_ret(CallingConventionType::MipsSystemV, cc_twin(CallingConventionType::MipsSystemV), abi(CallingConventionType::MipsSystemV)))) by (compute);
}

pub proof fn lemma_sp_produced()
    ensures /*@sp_produced*/ chk_sp_produced(CallingConventionType::MipsSystemV, abi(CallingConventionType::MipsSystemV)),
{
    assert(true) by { reveal(mips_table_spec); }
    assert(holds(chk_sp_produced(CallingConventionType::MipsSystemV, abi(CallingConventionType::MipsSystemV)))) by (compute);
}

} // mod chk_mips

pub mod chk_mipsel {
use vstd::prelude::*;
use super::*;
use crate::hold::*;
broadcast use crate::hold::lemma_holds;

pub proof fn lemma_abi_args()
    ensures /*@abi_args*/ chk_abi_args(cc_twin(CallingConventionType::MipselSystemV), abi(CallingConventionType::MipselSystemV)),
{
    assert(true) by { reveal(cc_twin); }
    assert(holds(chk_abi_args(cc_twin(CallingConventionType::MipselSystemV), abi(CallingConventionType::MipselSystemV)))) by (compute);
}

pub proof fn lemma_abi_return()
    ensures /*@abi_return*/ chk_abi_return(cc_twin(CallingConventionType::MipselSystemV), abi(CallingConventionType::MipselSystemV)),
{
    assert(true) by { reveal(cc_twin); }
    assert(holds(chk_abi_return(cc_twin(CallingConventionType::MipselSystemV), abi(CallingConventionType::MipselSystemV)))) by (compute);
}

pub proof fn lemma_return_address()
    ensures /*@return_address*/ chk_return_address(cc_twin(CallingConventionType::MipselSystemV), abi(CallingConventionType::MipselSystemV)),
{
    assert(true) by { reveal(cc_twin); }
    assert(holds(chk_return_address(cc_twin(CallingConventionType::MipselSystemV), abi(CallingConventionType::MipselSystemV)))) by (compute);
}

pub proof fn lemma_stack_args()
    ensures /*@stack_args*/ chk_stack_args(cc_twin(CallingConventionType::MipselSystemV), abi(CallingConventionType::MipselSystemV)),
{
    assert(true) by { reveal(cc_twin); }
    assert(holds(chk_stack_args(cc_twin(CallingConventionType::MipselSystemV), abi(CallingConventionType::MipselSystemV)))) by (compute);
}

pub proof fn lemma_stack_first()
    ensures /*@stack_first*/ chk_stack_first(cc_twin(CallingConventionType::MipselSystemV), abi(CallingConventionType::MipselSystemV)),
{
    assert(true) by { reveal(cc_twin); }
    assert(holds(chk_stack_first(cc_twin(CallingConventionType::MipselSystemV), abi(CallingConventionType::MipselSystemV)))) by (compute);
}

pub proof fn lemma_disjoint()
    ensures /*@disjoint*/ chk_disjoint(cc_twin(CallingConventionType::MipselSystemV)),
{
    assert(true) by { reveal(cc_twin); }
    assert(holds(chk_disjoint(cc_twin(CallingConventionType::MipselSystemV)))) by (compute);
}

pub proof fn lemma_sp_preserved()
    ensures /*@sp_preserved*/ chk_sp_preserved(cc_twin(CallingConventionType::MipselSystemV), abi(CallingConventionType::MipselSystemV)),
{
    assert(true) by { reveal(cc_twin); }
    assert(holds(chk_sp_preserved(cc_twin(CallingConventionType::MipselSystemV), abi(CallingConventionType::MipselSystemV)))) by (compute);
}

pub proof fn lemma_widths()
    ensures /*@widths*/ chk_widths(cc_twin(CallingConventionType::MipselSystemV), abi(CallingConventionType::MipselSystemV)),
{
    assert(true) by { reveal(cc_twin); }
    assert(holds(chk_widths(cc_twin(CallingConventionType::MipselSystemV), abi(CallingConventionType::MipselSystemV)))) by (compute);
}

pub proof fn lemma_produced_args()
    ensures /*@produced_args*/ chk_produced_args(CallingConventionType::MipselSystemV, cc_twin(CallingConventionType::MipselSystemV)),
{
    assert(true) by { reveal(cc_twin); reveal(mips_table_spec); }
    assert(holds(chk_produced_args(CallingConventionType::MipselSystemV, cc_twin(CallingConventionType::MipselSystemV)))) by (compute);
}

pub proof fn lemma_produced_preserved()
    ensures /*@produced_preserved*/ chk_produced_preserved(CallingConventionType::MipselSystemV, cc_twin(CallingConventionType::MipselSystemV)),
{
    assert(true) by { reveal(cc_twin); reveal(mips_table_spec); }
    assert(holds(chk_produced_preserved(CallingConventionType::MipselSystemV, cc_twin(CallingConventionType::MipselSystemV)))) by (compute);
}

pub proof fn lemma_produced_trashed()
    ensures /*@produced_trashed*/ chk_produced_trashed(CallingConventionType::MipselSystemV, cc_twin(CallingConventionType::MipselSystemV)),
{
    assert(true) by { reveal(cc_twin); reveal(mips_table_spec); }
    assert(holds(chk_produced_trashed(CallingConventionType::MipselSystemV, cc_twin(CallingConventionType::MipselSystemV)))) by (compute);
}

pub proof fn lemma_produced_ret()
    ensures /*@produced_ret*/ chk_produced_ret(CallingConventionType::MipselSystemV, cc_twin(CallingConventionType::MipselSystemV), abi(CallingConventionType::MipselSystemV)),
{
    assert(true) by { reveal(cc_twin); reveal(mips_table_spec); }
    assert(holds(chk_produced_ret(CallingConventionType::MipselSystemV, cc_twin(CallingConventionType::MipselSystemV), abi(CallingConventionType::MipselSystemV)))) by (compute);
}

pub proof fn lemma_sp_produced()
    ensures /*@sp_produced*/ chk_sp_produced(CallingConventionType::MipselSystemV, abi(CallingConventionType::MipselSystemV)),
{
    assert(true) by { reveal(mips_table_spec); }
    assert(holds(chk_sp_produced(CallingConventionType::MipselSystemV, abi(CallingConventionType::MipselSystemV)))) by (compute);
}

} // mod chk_mipsel

pub mod chk_ppc {
use vstd::prelude::*;
use super::*;
use crate::hold::*;
broadcast use crate::hold::lemma_holds;

pub proof fn lemma_abi_args()
    ensures /*@abi_args*/ chk_abi_args(cc_twin(CallingConventionType::PpcSystemV), abi(CallingConventionType::PpcSystemV)),
{
    assert(true) by { reveal(cc_twin); }
    assert(holds(chk_abi_args(cc_twin(CallingConventionType::PpcSystemV), abi(CallingConventionType::PpcSystemV)))) by (compute);
}

pub proof fn lemma_abi_return()
    ensures /*@abi_return*/ chk_abi_return(cc_twin(CallingConventionType::PpcSystemV), abi(CallingConventionType::PpcSystemV)),
{
    assert(true) by { reveal(cc_twin); }
    assert(holds(chk_abi_return(cc_twin(CallingConventionType::PpcSystemV), abi(CallingConventionType::PpcSystemV)))) by (compute);
}

pub proof fn lemma_return_address()
    ensures /*@return_address*/ chk_return_address(cc_twin(CallingConventionType::PpcSystemV), abi(CallingConventionType::PpcSystemV)),
{
    assert(true) by { reveal(cc_twin); }
    assert(holds(chk_return_address(cc_twin(CallingConventionType::PpcSystemV), abi(CallingConventionType::PpcSystemV)))) by (compute);
}

pub proof fn lemma_stack_args()
    ensures /*@stack_args*/ chk_stack_args(cc_twin(CallingConventionType::PpcSystemV), abi(CallingConventionType::PpcSystemV)),
{
    assert(true) by { reveal(cc_twin); }
    assert(holds(chk_stack_args(cc_twin(CallingConventionType::PpcSystemV), abi(CallingConventionType::PpcSystemV)))) by (compute);
}

pub proof fn lemma_stack_first()
    ensures /*@stack_first*/ chk_stack_first(cc_twin(CallingConventionType::PpcSystemV), abi(CallingConventionType::PpcSystemV)),
{
    assert(true) by { reveal(cc_twin); }
    assert(holds(chk_stack_first(cc_twin(CallingConventionType::PpcSystemV), abi(CallingConventionType::PpcSystemV)))) by (compute);
}

pub proof fn lemma_disjoint()
    ensures /*@disjoint*/ chk_disjoint(cc_twin(CallingConventionType::PpcSystemV)),
{
    assert(true) by { reveal(cc_twin); }
    assert(holds(chk_disjoint(cc_twin(CallingConventionType::PpcSystemV)))) by (compute);
}

pub proof fn lemma_sp_preserved()
    ensures /*@sp_preserved*/ chk_sp_preserved(cc_twin(CallingConventionType::PpcSystemV), abi(CallingConventionType::PpcSystemV)),
{
    assert(true) by { reveal(cc_twin); }
    assert(holds(chk_sp_preserved(cc_twin(CallingConventionType::PpcSystemV), abi(CallingConventionType::PpcSystemV)))) by (compute);
}

pub proof fn lemma_widths()
    ensures /*@widths*/ chk_widths(cc_twin(CallingConventionType::PpcSystemV), abi(CallingConventionType::PpcSystemV)),
{
    assert(true) by { reveal(cc_twin); }
    assert(holds(chk_widths(cc_twin(CallingConventionType::PpcSystemV), abi(CallingConventionType::PpcSystemV)))) by (compute);
}

pub proof fn lemma_produced_args()
    ensures /*@produced_args*/ chk_produced_args(CallingConventionType::PpcSystemV, cc_twin(CallingConventionType::PpcSystemV)),
{
    assert(true) by { reveal(cc_twin); reveal(ppc_table_spec); }
    assert(holds(chk_produced_args(CallingConventionType::PpcSystemV, cc_twin(CallingConventionType::PpcSystemV)))) by (compute);
}

pub proof fn lemma_produced_preserved()
    ensures /*@produced_preserved*/ chk_produced_preserved(CallingConventionType::PpcSystemV, cc_twin(CallingConventionType::PpcSystemV)),
{
    assert(true) by { reveal(cc_twin); reveal(ppc_table_spec); }
    assert(holds(chk_produced_preserved(CallingConventionType::PpcSystemV, cc_twin(CallingConventionType::PpcSystemV)))) by (compute);
}

pub proof fn lemma_produced_trashed()
    ensures /*@produced_trashed*/ chk_produced_trashed(CallingConventionType::PpcSystemV, cc_twin(CallingConventionType::PpcSystemV)),
{
    assert(true) by { reveal(cc_twin); reveal(ppc_table_spec); }
    assert(holds(chk_produced_trashed(CallingConventionType::PpcSystemV, cc_twin(CallingConventionType::PpcSystemV)))) by (compute);
}

pub proof fn lemma_produced_ret()
    ensures /*@produced_ret*/ chk_produced_ret(CallingConventionType::PpcSystemV, cc_twin(CallingConventionType::PpcSystemV), abi(CallingConventionType::PpcSystemV)),
{
    assert(true) by { reveal(cc_twin); reveal(ppc_table_spec); }
    assert(holds(chk_produced_ret(CallingConventionType::PpcSystemV, cc_twin(CallingConventionType::PpcSystemV), abi(CallingConventionType::PpcSystemV)))) by (compute);
}

pub proof fn lemma_sp_produced()
    ensures /*@sp_produced*/ chk_sp_produced(CallingConventionType::PpcSystemV, abi(CallingConventionType::PpcSystemV)),
{
    assert(true) by { reveal(ppc_table_spec); }
    assert(holds(chk_sp_produced(CallingConventionType::PpcSystemV, abi(CallingConventionType::PpcSystemV)))) by (compute);
}

} // mod chk_ppc
