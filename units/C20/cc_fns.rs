// ---- units/C20/cc_fns.rs: the functions of lib/analysis/calling_convention.rs under contract.
//@ source lib/analysis/calling_convention.rs

/// all evaluated checks of one calling-convention type (dispatch over the per-(check, type) lemmas of cc_lemmas.rs)
pub open spec fn chk_all(typ: CallingConventionType) -> bool {
    let t = cc_twin(typ);
    let a = abi(typ);
    &&& chk_abi_args(t, a) && chk_abi_return(t, a) && chk_return_address(t, a) && chk_stack_args(t, a) && chk_stack_first(t, a)
    &&& chk_disjoint(t) && chk_sp_preserved(t, a) && chk_widths(t, a)
    &&& chk_produced_args(typ, t) && chk_produced_preserved(typ, t) && chk_produced_trashed(typ, t) && chk_produced_ret(typ, t, a)
}

pub proof fn lemma_chk_all(typ: CallingConventionType)
    ensures chk_all(typ),
{
    match typ {
        CallingConventionType::AArch64 => { chk_aarch64::lemma_abi_args(); chk_aarch64::lemma_abi_return(); chk_aarch64::lemma_return_address(); chk_aarch64::lemma_stack_args(); chk_aarch64::lemma_stack_first(); chk_aarch64::lemma_disjoint(); chk_aarch64::lemma_sp_preserved(); chk_aarch64::lemma_widths(); chk_aarch64::lemma_produced_args(); chk_aarch64::lemma_produced_preserved(); chk_aarch64::lemma_produced_trashed(); chk_aarch64::lemma_produced_ret(); }
        CallingConventionType::Amd64SystemV => { chk_amd64::lemma_abi_args(); chk_amd64::lemma_abi_return(); chk_amd64::lemma_return_address(); chk_amd64::lemma_stack_args(); chk_amd64::lemma_stack_first(); chk_amd64::lemma_disjoint(); chk_amd64::lemma_sp_preserved(); chk_amd64::lemma_widths(); chk_amd64::lemma_produced_args(); chk_amd64::lemma_produced_preserved(); chk_amd64::lemma_produced_trashed(); chk_amd64::lemma_produced_ret(); }
        CallingConventionType::Cdecl => { chk_cdecl::lemma_abi_args(); chk_cdecl::lemma_abi_return(); chk_cdecl::lemma_return_address(); chk_cdecl::lemma_stack_args(); chk_cdecl::lemma_stack_first(); chk_cdecl::lemma_disjoint(); chk_cdecl::lemma_sp_preserved(); chk_cdecl::lemma_widths(); chk_cdecl::lemma_produced_args(); chk_cdecl::lemma_produced_preserved(); chk_cdecl::lemma_produced_trashed(); chk_cdecl::lemma_produced_ret(); }
        CallingConventionType::MipsSystemV => { chk_mips::lemma_abi_args(); chk_mips::lemma_abi_return(); chk_mips::lemma_return_address(); chk_mips::lemma_stack_args(); chk_mips::lemma_stack_first(); chk_mips::lemma_disjoint(); chk_mips::lemma_sp_preserved(); chk_mips::lemma_widths(); chk_mips::lemma_produced_args(); chk_mips::lemma_produced_preserved(); chk_mips::lemma_produced_trashed(); chk_mips::lemma_produced_ret(); }
        CallingConventionType::MipselSystemV => { chk_mipsel::lemma_abi_args(); chk_mipsel::lemma_abi_return(); chk_mipsel::lemma_return_address(); chk_mipsel::lemma_stack_args(); chk_mipsel::lemma_stack_first(); chk_mipsel::lemma_disjoint(); chk_mipsel::lemma_sp_preserved(); chk_mipsel::lemma_widths(); chk_mipsel::lemma_produced_args(); chk_mipsel::lemma_produced_preserved(); chk_mipsel::lemma_produced_trashed(); chk_mipsel::lemma_produced_ret(); }
        CallingConventionType::PpcSystemV => { chk_ppc::lemma_abi_args(); chk_ppc::lemma_abi_return(); chk_ppc::lemma_return_address(); chk_ppc::lemma_stack_args(); chk_ppc::lemma_stack_first(); chk_ppc::lemma_disjoint(); chk_ppc::lemma_sp_preserved(); chk_ppc::lemma_widths(); chk_ppc::lemma_produced_args(); chk_ppc::lemma_produced_preserved(); chk_ppc::lemma_produced_trashed(); chk_ppc::lemma_produced_ret(); }
    }
}

/// THE PROPERTY of a calling-convention record for type `typ` (every clause of the statement that speaks about the record)
pub open spec fn cc_property(typ: CallingConventionType, c: CallingConvention) -> bool {
    let a = abi(typ);
    &&& p_abi_args(c, a) && p_abi_return(c, a) && p_return_address(c, a) && p_stack_args(c, a) && p_stack_first(c, a)
    &&& p_disjoint(c) && p_sp_preserved(c, a) && p_widths(c, a)
    &&& p_produced_args(c, tbl(typ)) && p_produced_preserved(c, tbl(typ)) && p_produced_trashed(c, tbl(typ)) && p_produced_ret(c, a, tbl(typ))
}

/// every record that is the lifting of the twin of `new(typ)` has the property
pub proof fn lemma_cc_property(typ: CallingConventionType, c: CallingConvention)
    requires is_lift(c, cc_twin(typ)),
    ensures cc_property(typ, c),
{
    let t = cc_twin(typ);
    let a = abi(typ);
    lemma_chk_all(typ);
    lemma_lift_abi_args(c, t, a);
    lemma_same_reg(t.return_register, a.ret);
    lemma_lift_return_address(c, t, a);
    lemma_lift_disjoint(c, t);
    lemma_lift_sp_preserved(c, t, a);
    lemma_lift_widths(c, t, a);
    lemma_lift_produced_args(typ, c, t);
    lemma_lift_produced_preserved(typ, c, t);
    lemma_lift_produced_trashed(typ, c, t);
    lemma_lift_produced_ret(typ, c, t, a);
}

/// the architecture's stack pointer (ABI row) is a scalar the translator produces, with that width
pub proof fn lemma_sp_produced(typ: CallingConventionType)
    ensures produced(tbl(typ), scalar_of(abi(typ).sp)),
{
    match typ {
        CallingConventionType::AArch64 => { chk_aarch64::lemma_sp_produced(); }
        CallingConventionType::Amd64SystemV => { chk_amd64::lemma_sp_produced(); }
        CallingConventionType::Cdecl => { chk_cdecl::lemma_sp_produced(); }
        CallingConventionType::MipsSystemV => { chk_mips::lemma_sp_produced(); }
        CallingConventionType::MipselSystemV => { chk_mipsel::lemma_sp_produced(); }
        CallingConventionType::PpcSystemV => { chk_ppc::lemma_sp_produced(); }
    }
    let s1 = seq![abi(typ).sp];
    lemma_all_in_tbl(typ, s1, 0);
    lemma_tbl_has_produced(tbl(typ), s1[0]);
}

impl ReturnAddressType {
//@ fn impl ReturnAddressType :: fn register
//@ spec
    ensures /*@exact*/ r == (match *self { ReturnAddressType::Register(s) => Some(&s), ReturnAddressType::Stack(_) => None::<&il::Scalar> }),
//@ end

//@ fn impl ReturnAddressType :: fn stack
//@ spec
    ensures /*@exact*/ r == (match *self { ReturnAddressType::Stack(o) => Some(o), ReturnAddressType::Register(_) => None::<usize> }),
//@ end
}

impl ArgumentType {
//@ fn impl ArgumentType :: fn register
//@ spec
    ensures /*@exact*/ r == (match *self { ArgumentType::Register(s) => Some(&s), ArgumentType::Stack(_) => None::<&il::Scalar> }),
//@ end

//@ fn impl ArgumentType :: fn stack
//@ spec
    ensures /*@exact*/ r == (match *self { ArgumentType::Stack(o) => Some(o), ArgumentType::Register(_) => None::<usize> }),
//@ end
}

impl CallingConvention {
//@ fn impl CallingConvention :: fn new
//@ spec
    ensures
        /*@twin*/ is_lift(r, cc_twin(typ)),
        /*@abi_args*/ p_abi_args(r, abi(typ)),
        /*@abi_return*/ p_abi_return(r, abi(typ)),
        /*@return_address*/ p_return_address(r, abi(typ)),
        /*@stack_args*/ p_stack_args(r, abi(typ)),
        /*@stack_first*/ p_stack_first(r, abi(typ)),
        /*@disjoint*/ p_disjoint(r),
        /*@sp_preserved*/ p_sp_preserved(r, abi(typ)),
        /*@widths*/ p_widths(r, abi(typ)),
        /*@produced_args*/ p_produced_args(r, tbl(typ)),
        /*@produced_preserved*/ p_produced_preserved(r, tbl(typ)),
        /*@produced_trashed*/ p_produced_trashed(r, tbl(typ)),
        /*@produced_ret*/ p_produced_ret(r, abi(typ), tbl(typ)),
//@ enter
    proof {
        broadcast use {lemma_lift_ins, lemma_lift_empty};
        reveal(cc_twin);
        assert forall|c: CallingConvention|
            #![trigger p_abi_args(c, abi(typ))] #![trigger p_abi_return(c, abi(typ))] #![trigger p_return_address(c, abi(typ))]
            #![trigger p_stack_args(c, abi(typ))] #![trigger p_stack_first(c, abi(typ))] #![trigger p_disjoint(c)]
            #![trigger p_sp_preserved(c, abi(typ))] #![trigger p_widths(c, abi(typ))] #![trigger p_produced_args(c, tbl(typ))]
            #![trigger p_produced_preserved(c, tbl(typ))] #![trigger p_produced_trashed(c, tbl(typ))] #![trigger p_produced_ret(c, abi(typ), tbl(typ))]
            is_lift(c, cc_twin(typ)) implies cc_property(typ, c) by { lemma_cc_property(typ, c); }
    }
//@ end

//@ fn impl CallingConvention :: fn argument_registers
//@ spec
    ensures /*@field*/ r@ == self.argument_registers@,
//@ end

//@ fn impl CallingConvention :: fn preserved_registers
//@ spec
    ensures /*@field*/ r == &self.preserved_registers,
//@ end

//@ fn impl CallingConvention :: fn trashed_registers
//@ spec
    ensures /*@field*/ r == &self.trashed_registers,
//@ end

//@ fn impl CallingConvention :: fn stack_argument_length
//@ spec
    ensures /*@field*/ r == self.stack_argument_length,
//@ end

//@ fn impl CallingConvention :: fn stack_argument_offset
//@ spec
    ensures /*@field*/ r == self.stack_argument_offset,
//@ end

//@ fn impl CallingConvention :: fn return_address_type
//@ spec
    ensures /*@field*/ r == &self.return_address_type,
//@ end

//@ fn impl CallingConvention :: fn return_register
//@ spec
    ensures /*@field*/ r == &self.return_register,
//@ end

// argument n: the n-th argument register, then stack slots of `stack_argument_length` bytes from `stack_argument_offset`
// (the precondition excludes the only failure of the real function: usize overflow of the offset arithmetic)
//@ fn impl CallingConvention :: fn argument_type
//@ spec
    requires
        argument_number >= self.argument_registers@.len() ==>
            self.stack_argument_offset + self.stack_argument_length * (argument_number - self.argument_registers@.len()) <= usize::MAX,
    ensures
        /*@register*/ argument_number < self.argument_registers@.len() ==> r == ArgumentType::Register(self.argument_registers@[argument_number as int]),
        /*@stack*/ argument_number >= self.argument_registers@.len() ==>
            r == ArgumentType::Stack((self.stack_argument_offset + self.stack_argument_length * (argument_number - self.argument_registers@.len())) as usize),
//@ before 0 `let offset`
    proof {
        assert(self.stack_argument_length * n <= self.stack_argument_offset + self.stack_argument_length * n) by (nonlinear_arith)
            requires self.stack_argument_offset >= 0;
    }
//@ end

//@ fn impl CallingConvention :: fn is_preserved
//@ spec
    ensures
        /*@exact*/ r == (if self.preserved_registers@.contains(*scalar) { Some(true) } else if self.trashed_registers@.contains(*scalar) { Some(false) } else { None::<bool> }),
//@ end

//@ fn impl CallingConvention :: fn is_trashed
//@ spec
    ensures
        /*@exact*/ r == (if self.trashed_registers@.contains(*scalar) { Some(true) } else if self.preserved_registers@.contains(*scalar) { Some(false) } else { None::<bool> }),
//@ end
}
