// ======================================================================================
// units/C20/strlit.rs (NEW, unit C20) - two facts about strings the register-name reasoning needs.
// ASSUMED (listed in the evidence):
//  * `axiom_str_ext`: a `&str` is determined by its characters (two string slices with the same characters are the
//    same value).  Rust's `str` equality IS equality of contents; vstd models `str` as an abstract type with a view and
//    does not state extensionality.  Same device as prelude/strmap.rs `axiom_string_ext` for `String`.  Needed in ONE
//    direction only: Verus' evaluator decides `"$s8" != "$fp"` on the literals; to conclude that the il::Scalars built
//    from them differ, the views must differ.
//  * `string_of(n)` / `axiom_string_of`: every finite character sequence is the content of some String (idealisation:
//    allocation limits are outside the model).  Identical to prelude/strhash.rs `string_of` / `axiom_string_of`
//    (restated here so that this unit does not pull in the hash-map stand-ins of that file).  Ghost code only.
// ======================================================================================
pub mod strlit {
    use vstd::prelude::*;

    pub axiom fn axiom_str_ext(a: &'static str, b: &'static str)
        ensures a@ == b@ ==> a == b;

    pub uninterp spec fn string_of(n: Seq<char>) -> String;

    pub broadcast axiom fn axiom_string_of(n: Seq<char>)
        ensures (#[trigger] string_of(n))@ == n;

    /// every String is the `string_of` its characters (consequence of strmap::axiom_string_ext)
    pub proof fn lemma_string_of_view(s: String)
        ensures string_of(s@) == s,
    {
        broadcast use axiom_string_of;
        crate::strmap::axiom_string_ext(string_of(s@), s);
    }
}
