// Unit C20 - architecture descriptors agree with one another, with the translators' register tables and with the
// platform ABI: analysis::calling_convention (every function), architecture::* (the seven Architecture impls),
// the register tables of the four translators (extracted, as twins), translator::x86::mode::Mode::{bits, sp}.
// Generated file = this template + the real text of the items named in the `//@` holes.
#![feature(allocator_api)]
#![allow(unused_imports, unused_variables, dead_code, unused_mut, non_snake_case, non_camel_case_types, unused_parens, unused_braces, deprecated)]
use vstd::prelude::*;
use std::collections::HashSet;

verus! {

//@ include prelude/strmap.rs
//@ include prelude/scalar_hash.rs
//@ include prelude/error.rs
//@ include prelude/goblin_elf.rs
//@ include units/C11/error_from.rs
//@ include units/C20/strlit.rs
//@ include prelude/capstone_x86.rs
//@ include prelude/capstone_mips_ppc.rs
//@ include prelude/bad64_reg.rs

// `holds(b)` is `b`, hidden from Verus' evaluator (closed, other module): `assert(holds(e)) by (compute)` makes the
// evaluator reduce `e` to a literal and hands `holds(<literal>)` to the solver, so that a check that evaluates to
// false is reported as an ordinary failed assertion of ITS lemma (an `assert(e) by (compute)` that evaluates to false
// makes Verus drop the whole module instead).  No axiom: lemma_holds is proved.
pub mod hold {
use vstd::prelude::*;
pub closed spec fn holds(b: bool) -> bool { b }
pub broadcast proof fn lemma_holds(b: bool) ensures #[trigger] holds(b) == b {}
} // mod hold

pub mod il {
use super::*;
use super::strmap::*;
use super::strlit::string_of;
broadcast use crate::strmap::axiom_into_string_str;
// il::ProgramLocation (lib/il/location.rs) is only a payload of falcon::Error here: opaque stand-in
#[verifier::external_body] pub struct ProgramLocation { _p: () }
//@ include units/C20/il_scalar.rs
proof fn vf_canary_il() ensures false {}
} // mod il

pub mod analysis {
pub mod calling_convention {
use crate::*;
use crate::il;
use crate::il::{Scalar, named_scalar};
use crate::translator::{TblRec, RegName, tbl_has, tbl_hit};
use crate::translator::x86::*;
use crate::translator::mips::*;
use crate::translator::ppc::*;
use crate::translator::aarch64::*;
use std::collections::HashSet;
use crate::hold::*;
broadcast use {crate::hold::lemma_holds, crate::strmap::axiom_into_string_str, crate::scalar_hash::axiom_scalar_obeys_key_model, vstd::std_specs::hash::axiom_random_state_builds_valid_hashers};
//@ include units/C20/cc.rs
//@ include units/C20/abi.rs
//@ include units/C20/cc_lemmas.rs
//@ include units/C20/props.rs
//@ include units/C20/cc_fns.rs
proof fn vf_canary_cc() ensures false {}
} // mod calling_convention
} // mod analysis

pub mod architecture {
use vstd::prelude::*;
use crate::analysis::calling_convention::*;
use crate::il;
use crate::translator;
use crate::translator::{TranslatorId, Translator};
use std::fmt::Debug;
broadcast use crate::strmap::axiom_into_string_str;
//@ include units/C20/arch.rs
proof fn vf_canary_architecture() ensures false {}
} // mod architecture

pub mod loader {
use vstd::prelude::*;
use crate::*;
use crate::architecture::*;
use crate::Error;
//@ include units/C20/elf_new.rs
proof fn vf_canary_loader() ensures false {}
} // mod loader

pub mod translator {
use vstd::prelude::*;
//@ include units/C20/tables.rs
} // mod translator

proof fn vf_canary_root() ensures false {}

} // verus!

fn main() {}
