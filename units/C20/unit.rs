// Unit C20 - architecture descriptors agree with one another, with the translators' register tables and with the
// platform ABI: analysis::calling_convention (every function), architecture::* (the seven Architecture impls),
// the register tables of the four translators (extracted, as twins), translator::x86::mode::Mode::{bits, sp}.
// Generated file = this template + the real text of the items named in the `//@` holes.
#![feature(allocator_api)]
#![allow(unused_imports, unused_variables, dead_code, unused_mut, non_snake_case, non_camel_case_types, unused_parens, unused_braces, deprecated)]
use vstd::prelude::*;
use std::collections::HashSet;

verus! {

//@ include prelude/strmap.rs
//@ include prelude/scalar_hash.rs

pub mod il {
use super::*;
use super::strmap::*;
broadcast use crate::strmap::axiom_into_string_str;
//@ include units/C20/il_scalar.rs
proof fn vf_canary_il() ensures false {}
} // mod il

pub mod analysis {
pub mod calling_convention {
use crate::*;
use crate::il;
use crate::il::{Scalar, named_scalar};
use std::collections::HashSet;
//@ include units/C20/cc.rs
proof fn vf_canary_cc() ensures false {}
} // mod calling_convention
} // mod analysis

proof fn vf_canary_root() ensures false {}

} // verus!

fn main() {}
