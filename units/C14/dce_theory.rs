// ======================================================================================
// units/C14/dce_theory.rs - SPEC LEVEL ONLY (no `//@ fn` holes): OBSERVATIONAL EQUIVALENCE of the result of
// dead-code elimination with its input, over an abstract small-step semantics of the IL.
//
//   * The semantics is PARAMETRIC (`Sem`): expression evaluation `ev` (None = fault), memory `ld` / `st`, the
//     effect `ext` of a Branch / Intrinsic (an arbitrary RELATION between what the instruction is presented - the
//     operation, the whole scalar state, memory - and what it leaves behind), and the truth of an edge condition.
//     The only hypothesis is `ev_reads_only`: the value of an expression depends on the scalars that occur in it.
//   * A valued run extends unit C12's location-level run (`is_run`: control follows `succ` of unit C18) with a
//     scalar state and a memory; an edge is taken only if its condition evaluates to a true value.
//   * THEOREM (theorem_dce_observational_equivalence): for every function f, every g with
//     `dce_result(f, g, ks, m, du)` (the postcondition of `dead_code_elimination`), every initial state and every
//     fault-free run of f there is a run of g that visits the same locations (same path), has the same memory
//     after every step and computes the same (address, value) at every Store, presents the same scalar state to
//     every Branch and Intrinsic, and agrees on every scalar whenever the last location of a block without
//     successors has been executed.
//   The proof is a simulation: the two runs agree on every scalar whose last (declared) writer has not been
//   killed; a killed definition is never read (def-use chains are complete: C12's L-AI `lemma_lai` + `is_def_use`)
//   and reaches neither a Branch / Intrinsic nor an exit (it is not LIVE).
// Included inside `pub mod dead_code_elimination` after dce_fn.rs.
// ======================================================================================

pub type Val = int;
pub type SEnv = spec_fn(il::Scalar) -> Val;
pub type Mem = spec_fn(Val) -> Val;

/// the parameters of the semantics
pub struct Sem {
    /// value of an expression in a scalar state; None: the evaluation faults
    pub ev: spec_fn(il::Expression, SEnv) -> Option<Val>,
    /// memory read; None: fault
    pub ld: spec_fn(Mem, Val) -> Option<Val>,
    /// memory write (memory, address, value); None: fault
    pub st: spec_fn(Mem, Val, Val) -> Option<Mem>,
    /// what a Branch / Intrinsic may do: (operation, scalar state and memory it is presented, scalar state and memory it leaves)
    pub ext: spec_fn(il::Operation, SEnv, Mem, SEnv, Mem) -> bool,
    /// an edge condition with this value lets the edge be taken
    pub truthy: spec_fn(Val) -> bool,
}

/// THE ONLY HYPOTHESIS on the semantics: the value of an expression depends only on the scalars occurring in it
pub open spec fn ev_reads_only(sem: Sem) -> bool {
    forall|e: il::Expression, a: SEnv, b: SEnv| #![trigger (sem.ev)(e, a), (sem.ev)(e, b)]
        (forall|x: il::Scalar| il::expr_scalars(e).contains(x) ==> a(x) == b(x)) ==> (sem.ev)(e, a) == (sem.ev)(e, b)
}

pub open spec fn upd(env: SEnv, x: il::Scalar, v: Val) -> SEnv {
    |y: il::Scalar| if y == x { v } else { env(y) }
}

/// executing operation `op` from (env, mem) may lead to (env2, mem2) without fault
pub open spec fn op_effect(sem: Sem, op: il::Operation, env: SEnv, mem: Mem, env2: SEnv, mem2: Mem) -> bool {
    match op {
        il::Operation::Assign { dst, src } => (sem.ev)(src, env) is Some && env2 == upd(env, dst, (sem.ev)(src, env).unwrap()) && mem2 == mem,
        il::Operation::Store { index, src } => (sem.ev)(index, env) is Some && (sem.ev)(src, env) is Some
            && (sem.st)(mem, (sem.ev)(index, env).unwrap(), (sem.ev)(src, env).unwrap()) == Some(mem2) && env2 == env,
        il::Operation::Load { dst, index } => (sem.ev)(index, env) is Some && (sem.ld)(mem, (sem.ev)(index, env).unwrap()) is Some
            && env2 == upd(env, dst, (sem.ld)(mem, (sem.ev)(index, env).unwrap()).unwrap()) && mem2 == mem,
        il::Operation::Branch { target } => (sem.ext)(op, env, mem, env2, mem2),
        il::Operation::Intrinsic { intrinsic } => (sem.ext)(op, env, mem, env2, mem2),
        il::Operation::Nop { placeholder } => env2 == env && mem2 == mem,
    }
}

/// executing location `l` of `f`: an instruction executes its operation, a guarded edge is taken only if its
/// condition evaluates (without fault) to a true value, an unguarded edge and an empty block do nothing
pub open spec fn loc_effect(sem: Sem, f: il::Function, l: Loc, env: SEnv, mem: Mem, env2: SEnv, mem2: Mem) -> bool {
    match l {
        Loc::Instruction(b, i) => op_effect(sem, op_at(f, l).unwrap(), env, mem, env2, mem2),
        Loc::Edge(h, t) => env2 == env && mem2 == mem && (match cond_at(f, l) {
            Some(c) => (sem.ev)(c, env) is Some && (sem.truthy)((sem.ev)(c, env).unwrap()),
            None => true,
        }),
        Loc::EmptyBlock(b) => env2 == env && mem2 == mem,
    }
}

/// a valued configuration: the location that has JUST been executed, the history of executed locations
/// (ending with it), the scalar state and the memory after it
pub struct VCfg {
    pub loc: Loc,
    pub hist: Seq<Loc>,
    pub env: SEnv,
    pub mem: Mem,
}

pub open spec fn vstep(sem: Sem, f: il::Function, c1: VCfg, c2: VCfg) -> bool {
    &&& il::succ(f, c1.loc, c2.loc)
    &&& c2.hist == c1.hist.push(c2.loc)
    &&& loc_effect(sem, f, c2.loc, c1.env, c1.mem, c2.env, c2.mem)
}

/// a finite fault-free execution prefix of `f` from the initial state (env0, mem0): starts by executing the entry location
pub open spec fn is_vrun(sem: Sem, f: il::Function, run: Seq<VCfg>, env0: SEnv, mem0: Mem) -> bool {
    &&& run.len() > 0
    &&& Some(run[0].loc) == il::entry_loc(f)
    &&& run[0].hist == seq![run[0].loc]
    &&& loc_effect(sem, f, run[0].loc, env0, mem0, run[0].env, run[0].mem)
    &&& forall|k: int| 0 <= k < run.len() - 1 ==> vstep(sem, f, #[trigger] run[k], run[k + 1])
}

/// the location-level run (unit C12) under a valued run
pub open spec fn proj(run: Seq<VCfg>) -> Seq<Config> {
    Seq::new(run.len(), |k: int| (run[k].loc, run[k].hist))
}

pub proof fn lemma_proj_run(sem: Sem, f: il::Function, run: Seq<VCfg>, env0: SEnv, mem0: Mem)
    requires is_vrun(sem, f, run, env0, mem0),
    ensures is_run(f, proj(run)), proj(run).len() == run.len(),
        forall|k: int| 0 <= k < run.len() ==> (#[trigger] proj(run)[k]).0 == run[k].loc && proj(run)[k].1 == run[k].hist,
{
    let pr = proj(run);
    assert forall|k: int| 0 <= k < pr.len() - 1 implies exec_step(f, #[trigger] pr[k], pr[k + 1]) by {
        assert(vstep(sem, f, run[k], run[k + 1]));
    }
}

/// the scalar state / memory / history BEFORE step `k`
pub open spec fn pre_env(run: Seq<VCfg>, env0: SEnv, k: int) -> SEnv { if k == 0 { env0 } else { run[k - 1].env } }
pub open spec fn pre_mem(run: Seq<VCfg>, mem0: Mem, k: int) -> Mem { if k == 0 { mem0 } else { run[k - 1].mem } }
pub open spec fn pre_hist(run: Seq<VCfg>, k: int) -> Seq<Loc> { if k == 0 { Seq::<Loc>::empty() } else { run[k - 1].hist } }

pub proof fn lemma_vrun_step(sem: Sem, f: il::Function, run: Seq<VCfg>, env0: SEnv, mem0: Mem, k: int)
    requires is_vrun(sem, f, run, env0, mem0), 0 <= k < run.len(),
    ensures
        loc_effect(sem, f, run[k].loc, pre_env(run, env0, k), pre_mem(run, mem0, k), run[k].env, run[k].mem),
        run[k].hist == pre_hist(run, k).push(run[k].loc),
        k > 0 ==> il::succ(f, run[k - 1].loc, run[k].loc),
{
    if k == 0 {
        assert(run[0].hist =~= Seq::<Loc>::empty().push(run[0].loc));
    } else {
        assert(vstep(sem, f, run[k - 1], run[k]));
    }
}

// ---------------------------------------------------------------------------------------------
// the frame, seen by the semantics: same locations, same steps, same operations except the nopped ones

pub proof fn lemma_nopped_valid(f: il::Function, g: il::Function, ks: LSet, l: Loc)
    requires f.function_wf(), nopped(f, g, ks),
    ensures il::loc_valid(g, l) == il::loc_valid(f, l),
{
    let fc = f.control_flow_graph;
    let gc = g.control_flow_graph;
    match l {
        Loc::Instruction(b, i) => {
            assert(gc.graph.vertices@.dom().contains(b) == fc.graph.vertices@.dom().contains(b));
            if fc.graph.vertices@.contains_key(b) {
                let fb = fc.graph.vertices@[b];
                let gb = gc.graph.vertices@[b];
                assert(block_nopped(fb, gb, ks));
                if fb.has_instruction(i) {
                    let p = choose|p: int| 0 <= p < fb.instructions@.len() && (#[trigger] fb.instructions@[p]).index == i;
                    assert(gb.instructions@[p].index == i);
                }
                if gb.has_instruction(i) {
                    let p = choose|p: int| 0 <= p < gb.instructions@.len() && (#[trigger] gb.instructions@[p]).index == i;
                    assert(fb.instructions@[p].index == i);
                }
            }
        }
        Loc::Edge(h, t) => {}
        Loc::EmptyBlock(b) => {
            assert(gc.graph.vertices@.dom().contains(b) == fc.graph.vertices@.dom().contains(b));
            if fc.graph.vertices@.contains_key(b) { assert(block_nopped(fc.graph.vertices@[b], gc.graph.vertices@[b], ks)); }
        }
    }
}

/// block-level facts shared by the step lemmas
pub proof fn lemma_nopped_block(f: il::Function, g: il::Function, ks: LSet, b: usize)
    requires nopped(f, g, ks), f.control_flow_graph.has_block(b),
    ensures
        g.control_flow_graph.has_block(b),
        g.control_flow_graph.blocks_view()[b].instructions@.len() == f.control_flow_graph.blocks_view()[b].instructions@.len(),
        forall|p: int, i: usize| #![trigger il::instr_at(g.control_flow_graph.blocks_view()[b], p, i)] #![trigger il::instr_at(f.control_flow_graph.blocks_view()[b], p, i)]
            il::instr_at(g.control_flow_graph.blocks_view()[b], p, i) == il::instr_at(f.control_flow_graph.blocks_view()[b], p, i),
        forall|p: int| 0 <= p < f.control_flow_graph.blocks_view()[b].instructions@.len() ==>
            (#[trigger] g.control_flow_graph.blocks_view()[b].instructions@[p]).index == f.control_flow_graph.blocks_view()[b].instructions@[p].index,
{
    let fb = f.control_flow_graph.graph.vertices@[b];
    let gb = g.control_flow_graph.graph.vertices@[b];
    assert(f.control_flow_graph.graph.vertices@.dom().contains(b));
    assert(block_nopped(fb, gb, ks));
    assert forall|p: int, i: usize| il::instr_at(gb, p, i) == il::instr_at(fb, p, i) by {
        if 0 <= p < fb.instructions@.len() {
            assert(ins_nopped(fb.instructions@[p], gb.instructions@[p], ks(Loc::Instruction(fb.index, fb.instructions@[p].index))));
        }
    }
    assert forall|p: int| 0 <= p < fb.instructions@.len() implies (#[trigger] gb.instructions@[p]).index == fb.instructions@[p].index by {
        assert(ins_nopped(fb.instructions@[p], gb.instructions@[p], ks(Loc::Instruction(fb.index, fb.instructions@[p].index))));
    }
}

pub proof fn lemma_nopped_block_start(f: il::Function, g: il::Function, ks: LSet, b: usize, l2: Loc)
    requires nopped(f, g, ks), f.control_flow_graph.has_block(b),
    ensures il::is_block_start(g, b, l2) == il::is_block_start(f, b, l2),
{
    lemma_nopped_block(f, g, ks, b);
    let fb = f.control_flow_graph.blocks_view()[b];
    if fb.instructions@.len() > 0 {
        assert(g.control_flow_graph.blocks_view()[b].instructions@[0].index == fb.instructions@[0].index);
    }
}

/// THE SAME CONTROL FLOW: g steps from l to l2 exactly when f does
pub proof fn lemma_nopped_succ(f: il::Function, g: il::Function, ks: LSet, l: Loc, l2: Loc)
    requires f.function_wf(), nopped(f, g, ks),
    ensures il::succ(g, l, l2) == il::succ(f, l, l2),
{
    lemma_nopped_valid(f, g, ks, l);
    if il::loc_valid(f, l) {
        match l {
            Loc::Instruction(b, i) => {
                lemma_nopped_block(f, g, ks, b);
                let fb = f.control_flow_graph.blocks_view()[b];
                let gb = g.control_flow_graph.blocks_view()[b];
                assert(il::is_out_edge(g, b, l2) == il::is_out_edge(f, b, l2));
                if il::succ_instr(f, b, i, l2) {
                    let p = choose|p: int| #[trigger] il::instr_at(fb, p, i) && (
                        if p + 1 < fb.instructions@.len() { l2 == Loc::Instruction(b, fb.instructions@[p + 1].index) } else { il::is_out_edge(f, b, l2) });
                    assert(il::instr_at(gb, p, i));
                    if p + 1 < fb.instructions@.len() { assert(gb.instructions@[p + 1].index == fb.instructions@[p + 1].index); }
                    assert(il::succ_instr(g, b, i, l2));
                }
                if il::succ_instr(g, b, i, l2) {
                    let p = choose|p: int| #[trigger] il::instr_at(gb, p, i) && (
                        if p + 1 < gb.instructions@.len() { l2 == Loc::Instruction(b, gb.instructions@[p + 1].index) } else { il::is_out_edge(g, b, l2) });
                    assert(il::instr_at(fb, p, i));
                    if p + 1 < fb.instructions@.len() { assert(gb.instructions@[p + 1].index == fb.instructions@[p + 1].index); }
                    assert(il::succ_instr(f, b, i, l2));
                }
            }
            Loc::Edge(h, t) => {
                assert(f.control_flow_graph.graph.adj_wf() && f.control_flow_graph.graph.vertex_wf());
                assert(f.control_flow_graph.graph.edges@.contains_key((h, t)));
                assert(f.control_flow_graph.graph.successors@.dom().contains(t));
                assert(f.control_flow_graph.graph.vertices@.dom().contains(t));
                lemma_nopped_block_start(f, g, ks, t, l2);
            }
            Loc::EmptyBlock(b) => {
                assert(il::is_out_edge(g, b, l2) == il::is_out_edge(f, b, l2));
            }
        }
    }
}

pub proof fn lemma_nopped_entry(f: il::Function, g: il::Function, ks: LSet)
    requires f.function_wf(), nopped(f, g, ks),
    ensures il::entry_loc(g) == il::entry_loc(f),
{
    let fc = f.control_flow_graph;
    if fc.entry is Some && fc.has_block(fc.entry->0) {
        let e = fc.entry->0;
        lemma_nopped_block(f, g, ks, e);
        if fc.blocks_view()[e].instructions@.len() > 0 {
            assert(g.control_flow_graph.blocks_view()[e].instructions@[0].index == fc.blocks_view()[e].instructions@[0].index);
        }
    } else if fc.entry is Some {
        assert(!g.control_flow_graph.graph.vertices@.dom().contains(fc.entry->0));
    }
}

/// THE SAME OPERATIONS except at the nopped locations; the same edge conditions
pub proof fn lemma_nopped_op_at(f: il::Function, g: il::Function, ks: LSet, l: Loc)
    requires f.function_wf(), nopped(f, g, ks), il::loc_valid(f, l),
    ensures
        l is Instruction ==> op_at(g, l) == Some(if ks(l) { il::Operation::Nop { placeholder: None } } else { op_at(f, l).unwrap() }),
        cond_at(g, l) == cond_at(f, l),
{
    match l {
        Loc::Instruction(b, i) => {
            lemma_nopped_block(f, g, ks, b);
            let fb = f.control_flow_graph.blocks_view()[b];
            let gb = g.control_flow_graph.blocks_view()[b];
            assert(fb.block_wf() && fb.index == b);
            let p = choose|p: int| 0 <= p < fb.instructions@.len() && (#[trigger] fb.instructions@[p]).index == i;
            assert(il::instr_at(fb, p, i));
            assert(il::instr_at(gb, p, i));
            let pf = instr_pos(fb, i);
            let pg = instr_pos(gb, i);
            assert(il::instr_at(fb, pf, i));
            assert(il::instr_at(gb, pg, i));
            assert(il::instr_at(fb, pg, i));
            if pf < pg { assert(fb.instructions@[pf].index != fb.instructions@[pg].index); }
            if pg < pf { assert(fb.instructions@[pg].index != fb.instructions@[pf].index); }
            assert(block_nopped(fb, gb, ks));
            assert(ins_nopped(fb.instructions@[pf], gb.instructions@[pf], ks(Loc::Instruction(fb.index, fb.instructions@[pf].index))));
        }
        _ => {}
    }
}

// ---------------------------------------------------------------------------------------------
// the simulation relation

/// scalar `x` is CLEAN after history `h`: its last (declared) writer, if any, has not been killed
pub open spec fn clean(f: il::Function, ks: LSet, h: Seq<Loc>, x: il::Scalar) -> bool {
    forall|j: int| #[trigger] last_writer(f, h, x, j) ==> !ks(h[j])
}

/// the two scalar states agree on every clean scalar
pub open spec fn agree_clean(f: il::Function, ks: LSet, h: Seq<Loc>, a: SEnv, b: SEnv) -> bool {
    forall|x: il::Scalar| #[trigger] clean(f, ks, h, x) ==> a(x) == b(x)
}

/// the scalar state of g after executing `l` from `envg`, given what f's execution of `l` produced (`envf2`):
/// a nopped location changes nothing; Assign / Load update the destination with the value computed from g's own
/// state; a Branch / Intrinsic leaves what it left in f's run (it is presented the same state)
pub open spec fn g_next(sem: Sem, f: il::Function, ks: LSet, l: Loc, envg: SEnv, mem: Mem, envf2: SEnv) -> SEnv {
    if ks(l) { envg } else {
        match op_at(f, l) {
            Some(il::Operation::Assign { dst, src }) => upd(envg, dst, (sem.ev)(src, envg).unwrap()),
            Some(il::Operation::Load { dst, index }) => upd(envg, dst, (sem.ld)(mem, (sem.ev)(index, envg).unwrap()).unwrap()),
            Some(il::Operation::Branch { target }) => envf2,
            Some(il::Operation::Intrinsic { intrinsic }) => envf2,
            _ => envg,
        }
    }
}

/// the scalars location `l` reads have the same value in both states
pub open spec fn agree_reads(f: il::Function, l: Loc, a: SEnv, b: SEnv) -> bool {
    forall|x: il::Scalar| #[trigger] reads(f, l, x) ==> a(x) == b(x)
}

pub open spec fn agree_all(a: SEnv, b: SEnv) -> bool {
    forall|x: il::Scalar| #[trigger] a(x) == b(x)
}

/// a scalar that `l` does not write keeps its last writer
pub proof fn lemma_clean_frame(f: il::Function, ks: LSet, h: Seq<Loc>, l: Loc, x: il::Scalar)
    requires !writes(f, l, x),
    ensures clean(f, ks, h.push(l), x) == clean(f, ks, h, x),
{
    let h2 = h.push(l);
    assert forall|j: int| last_writer(f, h2, x, j) == last_writer(f, h, x, j) by {
        if last_writer(f, h2, x, j) {
            if j == h.len() { assert(h2[j] == l); }
            assert(h2[j] == h[j]);
            assert forall|k: int| j < k < h.len() implies !writes(f, #[trigger] h[k], x) by { assert(h2[k] == h[k]); }
        }
        if last_writer(f, h, x, j) {
            assert(h2[j] == h[j]);
            assert forall|k: int| j < k < h2.len() implies !writes(f, #[trigger] h2[k], x) by {
                if k < h.len() { assert(h2[k] == h[k]); } else { assert(h2[k] == l); }
            }
        }
    }
    if clean(f, ks, h, x) {
        assert forall|j: int| #[trigger] last_writer(f, h2, x, j) implies !ks(h2[j]) by { assert(last_writer(f, h, x, j)); assert(h2[j] == h[j]); }
    }
    if clean(f, ks, h2, x) {
        assert forall|j: int| #[trigger] last_writer(f, h, x, j) implies !ks(h[j]) by { assert(last_writer(f, h2, x, j)); assert(h2[j] == h[j]); }
    }
}

/// a scalar that `l` writes has `l` as its last writer
pub proof fn lemma_clean_written(f: il::Function, ks: LSet, h: Seq<Loc>, l: Loc, x: il::Scalar)
    requires writes(f, l, x),
    ensures clean(f, ks, h.push(l), x) == !ks(l),
{
    let h2 = h.push(l);
    assert(h2[h.len() as int] == l);
    assert(last_writer(f, h2, x, h.len() as int));
    if !ks(l) {
        assert forall|j: int| #[trigger] last_writer(f, h2, x, j) implies !ks(h2[j]) by {
            if j < h.len() { assert(!writes(f, h2[h.len() as int], x)); }
        }
    }
}

/// ONE STEP OF THE SIMULATION.  f executes location `l` from (envf, mem) to (envf2, mem2); g's state envg agrees with
/// envf on the clean scalars, on the scalars `l` reads, and - if `l` is a Branch / Intrinsic - on ALL scalars.
/// Then g executes `l` from (envg, mem) to (g_next, mem2), and the states again agree on the clean scalars.
pub proof fn lemma_step_sim(sem: Sem, f: il::Function, g: il::Function, ks: LSet, l: Loc, h: Seq<Loc>,
        envf: SEnv, envg: SEnv, mem: Mem, envf2: SEnv, mem2: Mem)
    requires
        f.function_wf(), nopped(f, g, ks), ev_reads_only(sem),
        il::loc_valid(f, l),
        ks(l) ==> is_candidate(f, l),
        agree_clean(f, ks, h, envf, envg),
        !ks(l) ==> agree_reads(f, l, envf, envg),
        is_observer(f, l) ==> agree_all(envf, envg),
        loc_effect(sem, f, l, envf, mem, envf2, mem2),
    ensures
        loc_effect(sem, g, l, envg, mem, g_next(sem, f, ks, l, envg, mem, envf2), mem2),
        agree_clean(f, ks, h.push(l), envf2, g_next(sem, f, ks, l, envg, mem, envf2)),
{
    let envg2 = g_next(sem, f, ks, l, envg, mem, envf2);
    let h2 = h.push(l);
    lemma_nopped_op_at(f, g, ks, l);
    match l {
        Loc::Instruction(b, i) => {
            let op = op_at(f, l).unwrap();
            match op {
                il::Operation::Assign { dst, src } => {
                    assert(written_at(f, l) == Some(seq![dst]));
                    assert(seq![dst][0] == dst);
                    assert forall|x: il::Scalar| writes(f, l, x) == (x == dst) by {
                        if x == dst { assert(seq![dst].contains(dst)); }
                    }
                    if !ks(l) {
                        assert((sem.ev)(src, envf) == (sem.ev)(src, envg)) by {
                            assert forall|x: il::Scalar| il::expr_scalars(src).contains(x) implies envf(x) == envg(x) by {
                                assert(read_at(f, l) == Some(il::expr_scalars(src)));
                                assert(reads(f, l, x));
                            }
                        }
                    }
                    assert forall|x: il::Scalar| #[trigger] clean(f, ks, h2, x) implies envf2(x) == envg2(x) by {
                        if x == dst { lemma_clean_written(f, ks, h, l, x); } else { lemma_clean_frame(f, ks, h, l, x); }
                    }
                }
                il::Operation::Load { dst, index } => {
                    assert(written_at(f, l) == Some(seq![dst]));
                    assert(seq![dst][0] == dst);
                    assert forall|x: il::Scalar| writes(f, l, x) == (x == dst) by {
                        if x == dst { assert(seq![dst].contains(dst)); }
                    }
                    if !ks(l) {
                        assert((sem.ev)(index, envf) == (sem.ev)(index, envg)) by {
                            assert forall|x: il::Scalar| il::expr_scalars(index).contains(x) implies envf(x) == envg(x) by {
                                assert(read_at(f, l) == Some(il::expr_scalars(index)));
                                assert(reads(f, l, x));
                            }
                        }
                    }
                    assert forall|x: il::Scalar| #[trigger] clean(f, ks, h2, x) implies envf2(x) == envg2(x) by {
                        if x == dst { lemma_clean_written(f, ks, h, l, x); } else { lemma_clean_frame(f, ks, h, l, x); }
                    }
                }
                il::Operation::Store { index, src } => {
                    assert(written_at(f, l) == Some(Seq::<il::Scalar>::empty()));
                    assert(read_at(f, l) == Some(il::expr_scalars(index) + il::expr_scalars(src)));
                    assert((sem.ev)(index, envf) == (sem.ev)(index, envg)) by {
                        assert forall|x: il::Scalar| il::expr_scalars(index).contains(x) implies envf(x) == envg(x) by {
                            let k = choose|k: int| 0 <= k < il::expr_scalars(index).len() && il::expr_scalars(index)[k] == x;
                            assert((il::expr_scalars(index) + il::expr_scalars(src))[k] == x);
                            assert(reads(f, l, x));
                        }
                    }
                    assert((sem.ev)(src, envf) == (sem.ev)(src, envg)) by {
                        assert forall|x: il::Scalar| il::expr_scalars(src).contains(x) implies envf(x) == envg(x) by {
                            let k = choose|k: int| 0 <= k < il::expr_scalars(src).len() && il::expr_scalars(src)[k] == x;
                            assert((il::expr_scalars(index) + il::expr_scalars(src))[il::expr_scalars(index).len() + k] == x);
                            assert(reads(f, l, x));
                        }
                    }
                    assert forall|x: il::Scalar| #[trigger] clean(f, ks, h2, x) implies envf2(x) == envg2(x) by {
                        lemma_clean_frame(f, ks, h, l, x);
                    }
                }
                il::Operation::Branch { target } => {
                    assert(is_observer(f, l));
                    assert(envf =~= envg);
                }
                il::Operation::Intrinsic { intrinsic } => {
                    assert(is_observer(f, l));
                    assert(envf =~= envg);
                }
                il::Operation::Nop { placeholder } => {
                    assert(written_at(f, l) == Some(Seq::<il::Scalar>::empty()));
                    assert forall|x: il::Scalar| #[trigger] clean(f, ks, h2, x) implies envf2(x) == envg2(x) by {
                        lemma_clean_frame(f, ks, h, l, x);
                    }
                }
            }
        }
        Loc::Edge(hd, tl) => {
            assert(!ks(l));
            if cond_at(f, l) is Some {
                let c = cond_at(f, l).unwrap();
                assert((sem.ev)(c, envf) == (sem.ev)(c, envg)) by {
                    assert forall|x: il::Scalar| il::expr_scalars(c).contains(x) implies envf(x) == envg(x) by {
                        assert(read_at(f, l) == Some(il::expr_scalars(c)));
                        assert(reads(f, l, x));
                    }
                }
            }
            assert forall|x: il::Scalar| #[trigger] clean(f, ks, h2, x) implies envf2(x) == envg2(x) by {
                lemma_clean_frame(f, ks, h, l, x);
            }
        }
        Loc::EmptyBlock(b) => {
            assert(!ks(l));
            assert forall|x: il::Scalar| #[trigger] clean(f, ks, h2, x) implies envf2(x) == envg2(x) by {
                lemma_clean_frame(f, ks, h, l, x);
            }
        }
    }
}

// ---------------------------------------------------------------------------------------------
// why the preconditions of the step hold along a run: a killed definition is never observed

/// the history before step `k` of a location-level run
pub open spec fn hist_before(run: Seq<Config>, k: int) -> Seq<Loc> { if k == 0 { Seq::<Loc>::empty() } else { run[k - 1].1 } }

/// the last writer of a scalar before step k reaches location run[k] before it executes
pub proof fn lemma_last_writer_reaches(fr: &il::Function, m: Map<il::ProgramLocation, LocationSet>, run: Seq<Config>, k: int, x: il::Scalar, j: int)
    requires fr.function_wf(), is_rd_solution(fr, m), is_run(*fr, run), 0 <= k < run.len(), last_writer(*fr, hist_before(run, k), x, j),
    ensures k > 0, rd_in_has(*fr, m, run[k].0, ploc(*fr, hist_before(run, k)[j])), m.contains_key(ploc(*fr, run[k].0)),
{
    let f = *fr;
    lemma_lai(fr, m, run, k);
    if k > 0 {
        lemma_lai(fr, m, run, k - 1);
        let c1 = run[k - 1];
        assert(exec_step(f, c1, run[k]));
        let d = c1.1[j];
        assert(locs_of(f, m[ploc(f, c1.0)]@)(d));
        lemma_step_input(f, true, c1.0, run[k].0);
        assert(il::pred(f, run[k].0, c1.0) && m.contains_key(ploc(f, c1.0)) && m[ploc(f, c1.0)]@.contains(ploc(f, d)));
    }
}

/// NEVER READ: every scalar the location of step `k` reads is clean before the step
pub proof fn lemma_reads_clean(fr: &il::Function, m: Map<il::ProgramLocation, LocationSet>, du: Map<il::ProgramLocation, LocationSet>, ks: LSet,
        run: Seq<Config>, k: int, x: il::Scalar)
    requires
        fr.function_wf(), is_rd_solution(fr, m), is_def_use(*fr, m, du), kill_set_ok(*fr, m, du, ks),
        is_run(*fr, run), 0 <= k < run.len(), reads(*fr, run[k].0, x),
    ensures clean(*fr, ks, hist_before(run, k), x),
{
    let f = *fr;
    let h = hist_before(run, k);
    let l = run[k].0;
    assert forall|j: int| #[trigger] last_writer(f, h, x, j) implies !ks(h[j]) by {
        lemma_last_writer_reaches(fr, m, run, k, x, j);
        let d = h[j];
        if ks(d) {
            assert(killable(f, m, du, d));
            assert(kloc(ploc(f, d)) == d && kloc(ploc(f, l)) == l) by { lemma_ploc_inj(f, d, d); lemma_ploc_inj(f, l, l); }
            assert(reads(f, l, x) && writes(f, d, x));
            assert(uses(f, l, d));
            assert(chain_has(du, ploc(f, d), ploc(f, l)));
            assert(du[ploc(f, d)]@.contains(ploc(f, l)));
        }
    }
}

/// NEVER PRESENTED: before a Branch / Intrinsic executes every scalar is clean
pub proof fn lemma_observer_clean(fr: &il::Function, m: Map<il::ProgramLocation, LocationSet>, du: Map<il::ProgramLocation, LocationSet>, ks: LSet,
        run: Seq<Config>, k: int, x: il::Scalar)
    requires
        fr.function_wf(), is_rd_solution(fr, m), kill_set_ok(*fr, m, du, ks),
        is_run(*fr, run), 0 <= k < run.len(), is_observer(*fr, run[k].0),
    ensures clean(*fr, ks, hist_before(run, k), x),
{
    let f = *fr;
    let h = hist_before(run, k);
    let l = run[k].0;
    assert forall|j: int| #[trigger] last_writer(f, h, x, j) implies !ks(h[j]) by {
        lemma_last_writer_reaches(fr, m, run, k, x, j);
        let d = h[j];
        if ks(d) {
            assert(killable(f, m, du, d));
            assert(is_observer(f, l) && rd_in_has(f, m, l, ploc(f, d)));
            assert(reaches_observer(f, m, ploc(f, d)));
        }
    }
}

/// NEVER LEFT BEHIND: when the last location of a block without successors has been executed every scalar is clean
pub proof fn lemma_exit_clean(fr: &il::Function, m: Map<il::ProgramLocation, LocationSet>, du: Map<il::ProgramLocation, LocationSet>, ks: LSet,
        run: Seq<Config>, k: int, x: il::Scalar)
    requires
        fr.function_wf(), is_rd_solution(fr, m), kill_set_ok(*fr, m, du, ks),
        is_run(*fr, run), 0 <= k < run.len(), is_exit_end(*fr, run[k].0),
    ensures clean(*fr, ks, run[k].1, x),
{
    let f = *fr;
    let h = run[k].1;
    let l = run[k].0;
    lemma_lai(fr, m, run, k);
    assert forall|j: int| #[trigger] last_writer(f, h, x, j) implies !ks(h[j]) by {
        let d = h[j];
        assert(locs_of(f, m[ploc(f, l)]@)(d));
        if ks(d) {
            assert(killable(f, m, du, d));
            assert(is_exit_end(f, l) && m.contains_key(ploc(f, l)) && m[ploc(f, l)]@.contains(ploc(f, d)));
            assert(reaches_exit(f, m, ploc(f, d)));
        }
    }
}

// ---------------------------------------------------------------------------------------------
// the run of g

/// the scalar state of g after step `k` of f's run
pub open spec fn g_env(sem: Sem, f: il::Function, ks: LSet, run: Seq<VCfg>, env0: SEnv, mem0: Mem, k: int) -> SEnv
    decreases k,
{
    if k < 0 { env0 } else {
        g_next(sem, f, ks, run[k].loc, if k == 0 { env0 } else { g_env(sem, f, ks, run, env0, mem0, k - 1) }, pre_mem(run, mem0, k), run[k].env)
    }
}

/// THE RUN OF g that shadows f's run: same locations, same histories, same memories, its own scalar states
pub open spec fn g_run(sem: Sem, f: il::Function, ks: LSet, run: Seq<VCfg>, env0: SEnv, mem0: Mem) -> Seq<VCfg> {
    Seq::new(run.len(), |k: int| VCfg { loc: run[k].loc, hist: run[k].hist, env: g_env(sem, f, ks, run, env0, mem0, k), mem: run[k].mem })
}

/// the (address, value) a Store at location `l` computes from scalar state `env` (None: `l` is not a Store)
pub open spec fn store_event(sem: Sem, f: il::Function, l: Loc, env: SEnv) -> Option<(Option<Val>, Option<Val>)> {
    match op_at(f, l) {
        Some(il::Operation::Store { index, src }) => Some(((sem.ev)(index, env), (sem.ev)(src, env))),
        _ => None,
    }
}

/// WHAT AN OBSERVER CAN SEE at step `k`: the location (the path), the memory after the step, the (address, value)
/// of a store, the whole scalar state presented to a Branch / Intrinsic, the whole scalar state at the end of a
/// block without successors
pub open spec fn same_observation(sem: Sem, f: il::Function, g: il::Function, frun: Seq<VCfg>, grun: Seq<VCfg>, env0: SEnv, k: int) -> bool {
    &&& grun[k].loc == frun[k].loc
    &&& grun[k].hist == frun[k].hist
    &&& grun[k].mem == frun[k].mem
    &&& store_event(sem, g, grun[k].loc, pre_env(grun, env0, k)) == store_event(sem, f, frun[k].loc, pre_env(frun, env0, k))
    &&& (is_observer(f, frun[k].loc) ==> agree_all(pre_env(frun, env0, k), pre_env(grun, env0, k)))
    &&& (is_exit_end(f, frun[k].loc) ==> agree_all(frun[k].env, grun[k].env))
}

/// the preconditions of one simulation step hold at step `k` of a run: what the location reads is clean (never
/// read), what a Branch / Intrinsic is presented is clean (never presented), only candidates are killed
pub proof fn lemma_step_pre(fr: &il::Function, ks: LSet, m: Map<il::ProgramLocation, LocationSet>, du: Map<il::ProgramLocation, LocationSet>,
        pr: Seq<Config>, k: int, envf: SEnv, envg: SEnv)
    requires
        fr.function_wf(), is_rd_solution(fr, m), is_def_use(*fr, m, du), kill_set_ok(*fr, m, du, ks),
        is_run(*fr, pr), 0 <= k < pr.len(),
        agree_clean(*fr, ks, hist_before(pr, k), envf, envg),
    ensures
        il::loc_valid(*fr, pr[k].0),
        ks(pr[k].0) ==> is_candidate(*fr, pr[k].0),
        agree_reads(*fr, pr[k].0, envf, envg),
        is_observer(*fr, pr[k].0) ==> agree_all(envf, envg),
{
    let f = *fr;
    let l = pr[k].0;
    lemma_lai(fr, m, pr, k);
    lemma_closure_valid(f, true, l);
    if ks(l) { assert(killable(f, m, du, l)); }
    assert forall|x: il::Scalar| #[trigger] reads(f, l, x) implies envf(x) == envg(x) by {
        lemma_reads_clean(fr, m, du, ks, pr, k, x);
    }
    if is_observer(f, l) {
        assert forall|x: il::Scalar| #[trigger] envf(x) == envg(x) by {
            lemma_observer_clean(fr, m, du, ks, pr, k, x);
        }
    }
}

/// unfolding of the shadow run at step `k`
pub proof fn lemma_g_run_at(sem: Sem, f: il::Function, ks: LSet, frun: Seq<VCfg>, env0: SEnv, mem0: Mem, k: int)
    requires 0 <= k < frun.len(),
    ensures
        ({
            let grun = g_run(sem, f, ks, frun, env0, mem0);
            &&& grun.len() == frun.len()
            &&& grun[k].loc == frun[k].loc && grun[k].hist == frun[k].hist && grun[k].mem == frun[k].mem
            &&& grun[k].env == g_next(sem, f, ks, frun[k].loc, pre_env(grun, env0, k), pre_mem(frun, mem0, k), frun[k].env)
            &&& pre_mem(grun, mem0, k) == pre_mem(frun, mem0, k)
            &&& pre_hist(grun, k) == pre_hist(frun, k)
        }),
{
    let grun = g_run(sem, f, ks, frun, env0, mem0);
    assert(grun[k].env == g_env(sem, f, ks, frun, env0, mem0, k));
    if k > 0 { assert(grun[k - 1].env == g_env(sem, f, ks, frun, env0, mem0, k - 1)); }
}

/// THE SIMULATION INVARIANT along the run: after step `k` the two scalar states agree on every clean scalar,
/// and step `k` is a step of g
pub proof fn lemma_sim_inv(sem: Sem, fr: &il::Function, g: il::Function, ks: LSet, m: Map<il::ProgramLocation, LocationSet>, du: Map<il::ProgramLocation, LocationSet>,
        frun: Seq<VCfg>, env0: SEnv, mem0: Mem, k: int)
    requires
        fr.function_wf(), dce_result(fr, g, ks, m, du), ev_reads_only(sem),
        is_vrun(sem, *fr, frun, env0, mem0), 0 <= k < frun.len(),
    ensures
        ({
            let grun = g_run(sem, *fr, ks, frun, env0, mem0);
            &&& agree_clean(*fr, ks, pre_hist(frun, k), pre_env(frun, env0, k), pre_env(grun, env0, k))
            &&& agree_clean(*fr, ks, frun[k].hist, frun[k].env, grun[k].env)
            &&& loc_effect(sem, g, frun[k].loc, pre_env(grun, env0, k), pre_mem(frun, mem0, k), grun[k].env, frun[k].mem)
        }),
    decreases k,
{
    let f = *fr;
    let grun = g_run(sem, f, ks, frun, env0, mem0);
    let l = frun[k].loc;
    let pr = proj(frun);
    lemma_proj_run(sem, f, frun, env0, mem0);
    lemma_vrun_step(sem, f, frun, env0, mem0, k);
    lemma_g_run_at(sem, f, ks, frun, env0, mem0, k);
    let h = pre_hist(frun, k);
    let envf = pre_env(frun, env0, k);
    let envg = pre_env(grun, env0, k);
    let mem = pre_mem(frun, mem0, k);
    assert(h == hist_before(pr, k));
    assert(pr[k].0 == l);
    if k > 0 {
        lemma_sim_inv(sem, fr, g, ks, m, du, frun, env0, mem0, k - 1);
    } else {
        assert forall|x: il::Scalar| #[trigger] clean(f, ks, h, x) implies envf(x) == envg(x) by {}
    }
    lemma_step_pre(fr, ks, m, du, pr, k, envf, envg);
    lemma_step_sim(sem, f, g, ks, l, h, envf, envg, mem, frun[k].env, frun[k].mem);
}

/// a Store computes the same (address, value) in both runs
pub proof fn lemma_same_store(sem: Sem, f: il::Function, g: il::Function, ks: LSet, l: Loc, envf: SEnv, envg: SEnv)
    requires
        f.function_wf(), nopped(f, g, ks), ev_reads_only(sem), il::loc_valid(f, l),
        ks(l) ==> is_candidate(f, l), agree_reads(f, l, envf, envg),
    ensures store_event(sem, g, l, envg) == store_event(sem, f, l, envf),
{
    lemma_nopped_op_at(f, g, ks, l);
    match op_at(f, l) {
        Some(il::Operation::Store { index, src }) => {
            assert(!ks(l));
            assert(read_at(f, l) == Some(il::expr_scalars(index) + il::expr_scalars(src)));
            assert forall|x: il::Scalar| il::expr_scalars(index).contains(x) implies envf(x) == envg(x) by {
                let q = choose|q: int| 0 <= q < il::expr_scalars(index).len() && il::expr_scalars(index)[q] == x;
                assert((il::expr_scalars(index) + il::expr_scalars(src))[q] == x);
                assert(reads(f, l, x));
            }
            assert forall|x: il::Scalar| il::expr_scalars(src).contains(x) implies envf(x) == envg(x) by {
                let q = choose|q: int| 0 <= q < il::expr_scalars(src).len() && il::expr_scalars(src)[q] == x;
                assert((il::expr_scalars(index) + il::expr_scalars(src))[il::expr_scalars(index).len() + q] == x);
                assert(reads(f, l, x));
            }
        }
        _ => {}
    }
}

/// step `k` of the shadow run is observably the same as step `k` of f's run
pub proof fn lemma_sim_at(sem: Sem, fr: &il::Function, g: il::Function, ks: LSet, m: Map<il::ProgramLocation, LocationSet>, du: Map<il::ProgramLocation, LocationSet>,
        frun: Seq<VCfg>, env0: SEnv, mem0: Mem, k: int)
    requires
        fr.function_wf(), dce_result(fr, g, ks, m, du), ev_reads_only(sem),
        is_vrun(sem, *fr, frun, env0, mem0), 0 <= k < frun.len(),
    ensures
        same_observation(sem, *fr, g, frun, g_run(sem, *fr, ks, frun, env0, mem0), env0, k),
{
    let f = *fr;
    let grun = g_run(sem, f, ks, frun, env0, mem0);
    let l = frun[k].loc;
    let pr = proj(frun);
    lemma_proj_run(sem, f, frun, env0, mem0);
    lemma_g_run_at(sem, f, ks, frun, env0, mem0, k);
    lemma_sim_inv(sem, fr, g, ks, m, du, frun, env0, mem0, k);
    let envf = pre_env(frun, env0, k);
    let envg = pre_env(grun, env0, k);
    assert(pre_hist(frun, k) == hist_before(pr, k));
    assert(pr[k].0 == l);
    lemma_step_pre(fr, ks, m, du, pr, k, envf, envg);
    lemma_same_store(sem, f, g, ks, l, envf, envg);
    if is_exit_end(f, l) {
        let ef = frun[k].env;
        let eg = grun[k].env;
        assert forall|x: il::Scalar| #[trigger] ef(x) == eg(x) by {
            lemma_exit_clean(fr, m, du, ks, pr, k, x);
        }
    }
}

/// THE THEOREM (the second sentence of property C14): the result of dead-code elimination is observationally
/// equivalent to its input - for every function, every initial state, every fault-free run of the input there is a
/// run of the output along the same path with the same memory after every step, the same (address, value) at every
/// store, the same scalar state presented to every Branch / Intrinsic and the same value of every scalar when a
/// block without successors has been executed.
pub proof fn theorem_dce_observational_equivalence(sem: Sem, fr: &il::Function, g: il::Function, ks: LSet,
        m: Map<il::ProgramLocation, LocationSet>, du: Map<il::ProgramLocation, LocationSet>, frun: Seq<VCfg>, env0: SEnv, mem0: Mem)
    requires
        fr.function_wf(), dce_result(fr, g, ks, m, du), ev_reads_only(sem),
        is_vrun(sem, *fr, frun, env0, mem0),
    ensures
        ({
            let grun = g_run(sem, *fr, ks, frun, env0, mem0);
            &&& is_vrun(sem, g, grun, env0, mem0)
            &&& grun.len() == frun.len()
            &&& forall|k: int| 0 <= k < frun.len() ==> #[trigger] same_observation(sem, *fr, g, frun, grun, env0, k)
        }),
{
    let f = *fr;
    let grun = g_run(sem, f, ks, frun, env0, mem0);
    lemma_nopped_entry(f, g, ks);
    lemma_g_run_at(sem, f, ks, frun, env0, mem0, 0);
    lemma_sim_inv(sem, fr, g, ks, m, du, frun, env0, mem0, 0);
    assert forall|k: int| 0 <= k < grun.len() - 1 implies vstep(sem, g, #[trigger] grun[k], grun[k + 1]) by {
        lemma_g_run_at(sem, f, ks, frun, env0, mem0, k);
        lemma_g_run_at(sem, f, ks, frun, env0, mem0, k + 1);
        lemma_sim_inv(sem, fr, g, ks, m, du, frun, env0, mem0, k + 1);
        assert(vstep(sem, f, frun[k], frun[k + 1]));
        lemma_nopped_succ(f, g, ks, frun[k].loc, frun[k + 1].loc);
    }
    assert forall|k: int| 0 <= k < frun.len() implies #[trigger] same_observation(sem, f, g, frun, grun, env0, k) by {
        lemma_sim_at(sem, fr, g, ks, m, du, frun, env0, mem0, k);
    }
}
