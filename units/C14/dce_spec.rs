// ======================================================================================
// units/C14/dce_spec.rs - vocabulary of dead-code elimination, taken from the property statement:
//   FRAME      `nopped(f, g, K)`: g is f with the operations at the locations K replaced by `Operation::nop()`;
//              blocks, edges (conditions included), entry / exit, counters, instruction indices, addresses,
//              comments and positions are unchanged;
//   KILL SET   `killable(f, m, du, l)`: l is an Assign / Load instruction (a Store, a Branch and an Intrinsic
//              are observable and are never candidates), nothing uses it, and it is not LIVE: it reaches
//              neither the end of a block without successors nor a Branch / Intrinsic (before that executes).
// Pure spec + proof; no `//@ fn` holes.  Included inside `pub mod dead_code_elimination` (first file).
// ======================================================================================

pub type FLSet = Set<il::FunctionLocation>;

// ---------------------------------------------------------------------------------------------
// the frame

/// instruction `gi` is `fi` with the operation replaced by a nop if `k`, untouched otherwise
pub open spec fn ins_nopped(fi: il::Instruction, gi: il::Instruction, k: bool) -> bool {
    &&& gi.index == fi.index
    &&& gi.comment == fi.comment
    &&& gi.address == fi.address
    &&& gi.operation == (if k { il::Operation::Nop { placeholder: None } } else { fi.operation })
}

/// block `gb` is `fb` with the operations of the instructions in `ks` replaced by nops: same index, same counter,
/// same phi nodes, same number of instructions, position by position the same instruction index / address / comment
pub open spec fn block_nopped(fb: il::Block, gb: il::Block, ks: LSet) -> bool {
    &&& gb.index == fb.index
    &&& gb.next_instruction_index == fb.next_instruction_index
    &&& gb.phi_nodes == fb.phi_nodes
    &&& gb.instructions@.len() == fb.instructions@.len()
    &&& forall|p: int| #![trigger fb.instructions@[p]] #![trigger gb.instructions@[p]] 0 <= p < fb.instructions@.len() ==>
            ins_nopped(fb.instructions@[p], gb.instructions@[p], ks(Loc::Instruction(fb.index, fb.instructions@[p].index)))
}

/// THE FRAME: function `g` is `f` with the operations at the instruction locations `ks` replaced by `Operation::nop()`.
/// Everything else - address, name, index, the edge map (conditions and comments included), the adjacency maps,
/// entry, exit, the block / temporary counters, the SSA flag, the set of blocks - is the same.
pub open spec fn nopped(f: il::Function, g: il::Function, ks: LSet) -> bool {
    let fc = f.control_flow_graph;
    let gc = g.control_flow_graph;
    &&& g.address == f.address && g.name == f.name && g.index == f.index
    &&& gc.graph.edges == fc.graph.edges && gc.graph.successors == fc.graph.successors && gc.graph.predecessors == fc.graph.predecessors
    &&& gc.next_index == fc.next_index && gc.next_temp_index == fc.next_temp_index
    &&& gc.entry == fc.entry && gc.exit == fc.exit && gc.ssa_form == fc.ssa_form
    &&& gc.graph.vertices@.dom() == fc.graph.vertices@.dom()
    &&& forall|b: usize| #![trigger fc.graph.vertices@[b]] #![trigger gc.graph.vertices@[b]] fc.graph.vertices@.contains_key(b) ==>
            block_nopped(fc.graph.vertices@[b], gc.graph.vertices@[b], ks)
}

pub open spec fn no_locs() -> LSet { |l: Loc| false }

pub open spec fn with_loc(ks: LSet, x: Loc) -> LSet { |l: Loc| l == x || ks(l) }

/// the clone the elimination starts from
pub proof fn lemma_nopped_refl(f: il::Function)
    ensures nopped(f, f, no_locs()),
{
}

/// the frame keeps the data invariant of C15: the result is a well-formed function
pub proof fn lemma_nopped_wf(f: il::Function, g: il::Function, ks: LSet)
    requires f.function_wf(), nopped(f, g, ks),
    ensures g.function_wf(),
{
    let fc = f.control_flow_graph;
    let gc = g.control_flow_graph;
    assert forall|k: usize| #![trigger gc.graph.vertices@[k]] gc.graph.vertices@.contains_key(k) implies
            gc.graph.vertices@[k].block_wf() && gc.graph.vertices@[k].index == k by {
        assert(fc.graph.vertices@.dom().contains(k));
        let fb = fc.graph.vertices@[k];
        let gb = gc.graph.vertices@[k];
        assert(block_nopped(fb, gb, ks));
        assert(fb.block_wf() && fb.index == k);
        assert forall|i: int, j: int| 0 <= i < j < gb.instructions@.len() implies (#[trigger] gb.instructions@[i]).index != (#[trigger] gb.instructions@[j]).index by {
            assert(fb.instructions@[i].index != fb.instructions@[j].index);
        }
        assert forall|i: int| 0 <= i < gb.instructions@.len() implies (#[trigger] gb.instructions@[i]).index < gb.next_instruction_index by {
            assert(fb.instructions@[i].index < fb.next_instruction_index);
        }
    }
    assert forall|k: usize| #![trigger gc.graph.vertices@.contains_key(k)] gc.graph.vertices@.contains_key(k) implies k < gc.next_index by {
        assert(fc.graph.vertices@.dom().contains(k));
    }
    assert(gc.graph.vertex_wf()) by {
        assert forall|k: usize| #![trigger gc.graph.vertices@[k]] gc.graph.vertices@.contains_key(k) implies
                graph::Vertex::index_spec(&gc.graph.vertices@[k]) == k by {
            assert(gc.graph.vertices@[k].index == k);
        }
    }
    if gc.entry is Some { assert(fc.graph.vertices@.dom().contains(gc.entry->0)); }
    if gc.exit is Some { assert(fc.graph.vertices@.dom().contains(gc.exit->0)); }
}

/// ONE REPLACEMENT: `g2` is `g` with block `b` replaced by `nb`, which is g's block `b` with the operation at
/// position `p` replaced by a nop; then g2 is f with one more location nopped
pub proof fn lemma_nopped_step(f: il::Function, g: il::Function, g2: il::Function, ks: LSet, b: usize, nb: il::Block, p: int)
    requires
        f.function_wf(), nopped(f, g, ks),
        g.control_flow_graph.graph.vertices@.contains_key(b),
        il::block_op_replaced(g.control_flow_graph.graph.vertices@[b], nb, p, il::Operation::Nop { placeholder: None }),
        g2.control_flow_graph.graph.vertices@ == g.control_flow_graph.graph.vertices@.insert(b, nb),
        g2.address == g.address && g2.name == g.name && g2.index == g.index,
        g2.control_flow_graph.graph.edges == g.control_flow_graph.graph.edges,
        g2.control_flow_graph.graph.successors == g.control_flow_graph.graph.successors,
        g2.control_flow_graph.graph.predecessors == g.control_flow_graph.graph.predecessors,
        g2.control_flow_graph.next_index == g.control_flow_graph.next_index,
        g2.control_flow_graph.next_temp_index == g.control_flow_graph.next_temp_index,
        g2.control_flow_graph.entry == g.control_flow_graph.entry,
        g2.control_flow_graph.exit == g.control_flow_graph.exit,
        g2.control_flow_graph.ssa_form == g.control_flow_graph.ssa_form,
    ensures
        nopped(f, g2, with_loc(ks, Loc::Instruction(b, f.control_flow_graph.graph.vertices@[b].instructions@[p].index))),
{
    let fc = f.control_flow_graph;
    let gc = g.control_flow_graph;
    let g2c = g2.control_flow_graph;
    assert(fc.graph.vertices@.dom().contains(b));
    let fb0 = fc.graph.vertices@[b];
    let gb0 = gc.graph.vertices@[b];
    assert(block_nopped(fb0, gb0, ks));
    assert(fb0.block_wf() && fb0.index == b);
    let x = Loc::Instruction(b, fb0.instructions@[p].index);
    let ks2 = with_loc(ks, x);
    assert(g2c.graph.vertices@.dom() =~= fc.graph.vertices@.dom());
    assert forall|c: usize| #![trigger fc.graph.vertices@[c]] #![trigger g2c.graph.vertices@[c]] fc.graph.vertices@.contains_key(c) implies
            block_nopped(fc.graph.vertices@[c], g2c.graph.vertices@[c], ks2) by {
        let fb = fc.graph.vertices@[c];
        assert(block_nopped(fb, gc.graph.vertices@[c], ks));
        assert(fb.index == c);
        if c == b {
            assert(g2c.graph.vertices@[c] == nb);
            assert forall|q: int| #![trigger fb.instructions@[q]] #![trigger nb.instructions@[q]] 0 <= q < fb.instructions@.len() implies
                    ins_nopped(fb.instructions@[q], nb.instructions@[q], ks2(Loc::Instruction(fb.index, fb.instructions@[q].index))) by {
                assert(ins_nopped(fb.instructions@[q], gb0.instructions@[q], ks(Loc::Instruction(fb.index, fb.instructions@[q].index))));
                if q == p {
                } else {
                    if q < p { assert(fb.instructions@[q].index != fb.instructions@[p].index); }
                    else { assert(fb.instructions@[p].index != fb.instructions@[q].index); }
                    assert(nb.instructions@[q] == gb0.instructions@[q]);
                }
            }
        } else {
            assert(g2c.graph.vertices@[c] == gc.graph.vertices@[c]);
            let gb = gc.graph.vertices@[c];
            assert forall|q: int| #![trigger fb.instructions@[q]] #![trigger gb.instructions@[q]] 0 <= q < fb.instructions@.len() implies
                    ins_nopped(fb.instructions@[q], gb.instructions@[q], ks2(Loc::Instruction(fb.index, fb.instructions@[q].index))) by {
                assert(ins_nopped(fb.instructions@[q], gb.instructions@[q], ks(Loc::Instruction(fb.index, fb.instructions@[q].index))));
            }
        }
    }
}

// ---------------------------------------------------------------------------------------------
// candidates, observers, liveness

/// `l` is an instruction of `f` holding an Assign or a Load: the ONLY operations dead-code elimination may replace
/// (their write list is the declared, non-empty `[dst]`; a Store, a Branch and an Intrinsic are observable)
pub open spec fn is_candidate(f: il::Function, l: Loc) -> bool {
    l is Instruction && il::loc_valid(f, l) && (op_at(f, l) matches Some(op) && (op is Assign || op is Load))
}

/// `l` is an instruction of `f` holding a Branch or an Intrinsic: it is presented the whole scalar state
pub open spec fn is_observer(f: il::Function, l: Loc) -> bool {
    l is Instruction && il::loc_valid(f, l) && (op_at(f, l) matches Some(op) && (op is Branch || op is Intrinsic))
}

/// block `b` of `f` has no successors
pub open spec fn is_exit_block(f: il::Function, b: usize) -> bool {
    f.control_flow_graph.has_block(b) && forall|t: usize| !(#[trigger] f.control_flow_graph.has_edge(b, t))
}

/// `l` is where some block without successors ends
pub open spec fn is_exit_end(f: il::Function, l: Loc) -> bool {
    exists|b: usize| #[trigger] is_exit_block(f, b) && il::is_block_end(f, b, l)
}

/// definition `d` is still valid when the last location of a block without successors HAS BEEN executed
pub open spec fn reaches_exit(f: il::Function, m: Map<il::ProgramLocation, LocationSet>, d: il::ProgramLocation) -> bool {
    exists|l: Loc| #![trigger is_exit_end(f, l)] is_exit_end(f, l) && m.contains_key(ploc(f, l)) && m[ploc(f, l)]@.contains(d)
}

/// definition `d` is valid when some Branch / Intrinsic IS ABOUT TO execute
pub open spec fn reaches_observer(f: il::Function, m: Map<il::ProgramLocation, LocationSet>, d: il::ProgramLocation) -> bool {
    exists|l: Loc| #![trigger is_observer(f, l)] is_observer(f, l) && rd_in_has(f, m, l, d)
}

/// LIVE: the definitions dead-code elimination must always keep
pub open spec fn is_live(f: il::Function, m: Map<il::ProgramLocation, LocationSet>, d: il::ProgramLocation) -> bool {
    reaches_exit(f, m, d) || reaches_observer(f, m, d)
}

/// THE KILL-SET CONDITION at location `l` w.r.t. the reaching definitions `m` and the def-use chains `du`
pub open spec fn killable(f: il::Function, m: Map<il::ProgramLocation, LocationSet>, du: Map<il::ProgramLocation, LocationSet>, l: Loc) -> bool {
    &&& is_candidate(f, l)
    &&& du.contains_key(ploc(f, l)) && du[ploc(f, l)]@ == Set::<il::ProgramLocation>::empty()
    &&& !is_live(f, m, ploc(f, l))
}

/// every location of `ks` satisfies the kill-set condition
pub open spec fn kill_set_ok(f: il::Function, m: Map<il::ProgramLocation, LocationSet>, du: Map<il::ProgramLocation, LocationSet>, ks: LSet) -> bool {
    forall|l: Loc| #[trigger] ks(l) ==> killable(f, m, du, l)
}

/// COMPLETENESS of the kill set: every location that satisfies the kill-set condition is in `ks`
pub open spec fn kill_set_all(f: il::Function, m: Map<il::ProgramLocation, LocationSet>, du: Map<il::ProgramLocation, LocationSet>, ks: LSet) -> bool {
    forall|l: Loc| #[trigger] killable(f, m, du, l) ==> ks(l)
}

// ---------------------------------------------------------------------------------------------
// what the loops that fill `live` have established (monotone in `live`)

/// the members of `s` are recorded in `live` (by their function location)
pub open spec fn defs_in(s: PLSet, live: FLSet) -> bool {
    forall|d: il::ProgramLocation| #[trigger] s.contains(d) ==> live.contains(d.function_location)
}

/// the definitions valid at the end of block `b` are in `live` if `b` has no successors
pub open spec fn exit_done(f: il::Function, m: Map<il::ProgramLocation, LocationSet>, b: usize, live: FLSet) -> bool {
    is_exit_block(f, b) ==> forall|l: Loc| #![trigger il::is_block_end(f, b, l)] il::is_block_end(f, b, l) && m.contains_key(ploc(f, l)) ==> defs_in(m[ploc(f, l)]@, live)
}

/// the definitions reaching location `l` before it executes are in `live` if `l` is a Branch / Intrinsic
pub open spec fn obs_done(f: il::Function, m: Map<il::ProgramLocation, LocationSet>, l: Loc, live: FLSet) -> bool {
    is_observer(f, l) ==> forall|d: il::ProgramLocation| #[trigger] rd_in_has(f, m, l, d) ==> live.contains(d.function_location)
}

/// the first `n` positions of block `blk` are done
pub open spec fn obs_block_done(f: il::Function, m: Map<il::ProgramLocation, LocationSet>, blk: il::Block, n: int, live: FLSet) -> bool {
    forall|p: int| 0 <= p < n && p < blk.instructions@.len() ==> obs_done(f, m, Loc::Instruction(blk.index, (#[trigger] blk.instructions@[p]).index), live)
}

pub proof fn lemma_defs_in_mono(s: PLSet, a: FLSet, b: FLSet)
    requires defs_in(s, a), a.subset_of(b),
    ensures defs_in(s, b),
{
}

pub proof fn lemma_exit_done_mono(f: il::Function, m: Map<il::ProgramLocation, LocationSet>, b: usize, x: FLSet, y: FLSet)
    requires exit_done(f, m, b, x), x.subset_of(y),
    ensures exit_done(f, m, b, y),
{
    if is_exit_block(f, b) {
        assert forall|l: Loc| #![trigger il::is_block_end(f, b, l)] il::is_block_end(f, b, l) && m.contains_key(ploc(f, l)) implies defs_in(m[ploc(f, l)]@, y) by {
            lemma_defs_in_mono(m[ploc(f, l)]@, x, y);
        }
    }
}

pub proof fn lemma_obs_done_mono(f: il::Function, m: Map<il::ProgramLocation, LocationSet>, l: Loc, x: FLSet, y: FLSet)
    requires obs_done(f, m, l, x), x.subset_of(y),
    ensures obs_done(f, m, l, y),
{
}

pub proof fn lemma_obs_block_done_mono(f: il::Function, m: Map<il::ProgramLocation, LocationSet>, blk: il::Block, n: int, x: FLSet, y: FLSet)
    requires obs_block_done(f, m, blk, n, x), x.subset_of(y),
    ensures obs_block_done(f, m, blk, n, y),
{
    assert forall|p: int| 0 <= p < n && p < blk.instructions@.len() implies obs_done(f, m, Loc::Instruction(blk.index, (#[trigger] blk.instructions@[p]).index), y) by {
        lemma_obs_done_mono(f, m, Loc::Instruction(blk.index, blk.instructions@[p].index), x, y);
    }
}

/// all blocks listed by `bs` up to `n` are done (exit part)
pub open spec fn exits_done(f: il::Function, m: Map<il::ProgramLocation, LocationSet>, bs: Seq<&il::Block>, n: int, live: FLSet) -> bool {
    forall|i: int| 0 <= i < n && i < bs.len() ==> exit_done(f, m, (#[trigger] bs[i]).index, live)
}

/// all blocks listed by `bs` up to `n` are done (observer part)
pub open spec fn observers_done(f: il::Function, m: Map<il::ProgramLocation, LocationSet>, bs: Seq<&il::Block>, n: int, live: FLSet) -> bool {
    forall|i: int| 0 <= i < n && i < bs.len() ==> obs_block_done(f, m, *(#[trigger] bs[i]), bs[i].instructions@.len() as int, live)
}

pub proof fn lemma_exits_done_mono(f: il::Function, m: Map<il::ProgramLocation, LocationSet>, bs: Seq<&il::Block>, n: int, x: FLSet, y: FLSet)
    requires exits_done(f, m, bs, n, x), x.subset_of(y),
    ensures exits_done(f, m, bs, n, y),
{
    assert forall|i: int| 0 <= i < n && i < bs.len() implies exit_done(f, m, (#[trigger] bs[i]).index, y) by {
        lemma_exit_done_mono(f, m, bs[i].index, x, y);
    }
}

pub proof fn lemma_observers_done_mono(f: il::Function, m: Map<il::ProgramLocation, LocationSet>, bs: Seq<&il::Block>, n: int, x: FLSet, y: FLSet)
    requires observers_done(f, m, bs, n, x), x.subset_of(y),
    ensures observers_done(f, m, bs, n, y),
{
    assert forall|i: int| 0 <= i < n && i < bs.len() implies obs_block_done(f, m, *(#[trigger] bs[i]), bs[i].instructions@.len() as int, y) by {
        lemma_obs_block_done_mono(f, m, *bs[i], bs[i].instructions@.len() as int, x, y);
    }
}

/// EVERY live definition is recorded in `live`
pub open spec fn live_covered(f: il::Function, m: Map<il::ProgramLocation, LocationSet>, live: FLSet) -> bool {
    forall|d: il::ProgramLocation| #[trigger] is_live(f, m, d) ==> live.contains(d.function_location)
}

/// both scans complete: every live definition is in `live`
pub proof fn lemma_live_covered(f: il::Function, m: Map<il::ProgramLocation, LocationSet>, bs: Seq<&il::Block>, bs2: Seq<&il::Block>, live: FLSet)
    requires
        f.function_wf(),
        f.control_flow_graph.graph.lists_vertices(bs, |k: usize| true),
        f.control_flow_graph.graph.lists_vertices(bs2, |k: usize| true),
        exits_done(f, m, bs, bs.len() as int, live),
        observers_done(f, m, bs2, bs2.len() as int, live),
    ensures live_covered(f, m, live),
{
    let ids = |k: usize| true;
    assert forall|d: il::ProgramLocation| #[trigger] is_live(f, m, d) implies live.contains(d.function_location) by {
        if reaches_exit(f, m, d) {
            let l = choose|l: Loc| #![trigger is_exit_end(f, l)] is_exit_end(f, l) && m.contains_key(ploc(f, l)) && m[ploc(f, l)]@.contains(d);
            let b = choose|b: usize| #[trigger] is_exit_block(f, b) && il::is_block_end(f, b, l);
            assert(ids(b) && f.control_flow_graph.graph.vertices@.contains_key(b));
            let i = choose|i: int| 0 <= i < bs.len() && graph::Vertex::index_spec(#[trigger] bs[i]) == b;
            assert(bs[i].index == b);
            assert(exit_done(f, m, bs[i].index, live));
            assert(il::is_block_end(f, b, l));
            assert(defs_in(m[ploc(f, l)]@, live));
        } else {
            let l = choose|l: Loc| #![trigger is_observer(f, l)] is_observer(f, l) && rd_in_has(f, m, l, d);
            match l {
                Loc::Instruction(b, ix) => {
                    assert(il::instr_valid(f, b, ix));
                    assert(ids(b) && f.control_flow_graph.graph.vertices@.contains_key(b));
                    let i = choose|i: int| 0 <= i < bs2.len() && graph::Vertex::index_spec(#[trigger] bs2[i]) == b;
                    assert(bs2[i].index == b);
                    assert(*bs2[i] == f.control_flow_graph.graph.vertices@[b]);
                    let p = choose|p: int| 0 <= p < bs2[i].instructions@.len() && (#[trigger] bs2[i].instructions@[p]).index == ix;
                    assert(obs_block_done(f, m, *bs2[i], bs2[i].instructions@.len() as int, live));
                    assert(obs_done(f, m, Loc::Instruction(bs2[i].index, bs2[i].instructions@[p].index), live));
                }
                _ => {}
            }
        }
    }
}

// ---------------------------------------------------------------------------------------------
// exactness of `live`: nothing else is recorded

/// every recorded function location is (the function location of) a live definition
pub open spec fn live_exact(f: il::Function, m: Map<il::ProgramLocation, LocationSet>, live: FLSet) -> bool {
    forall|k: il::FunctionLocation| #[trigger] live.contains(k) ==> is_live(f, m, ploc(f, il::fl_loc(k)))
}

/// every member of `s` is a live definition of `f`
pub open spec fn all_live(f: il::Function, m: Map<il::ProgramLocation, LocationSet>, s: PLSet) -> bool {
    forall|d: il::ProgramLocation| #[trigger] s.contains(d) ==> is_live(f, m, d) && d.function_index == f.index
}

pub proof fn lemma_live_insert(f: il::Function, m: Map<il::ProgramLocation, LocationSet>, live: FLSet, d: il::ProgramLocation)
    requires live_exact(f, m, live), is_live(f, m, d), d.function_index == f.index,
    ensures live_exact(f, m, live.insert(d.function_location)),
{
    lemma_ploc_of(f, d);
}

/// the definitions valid at the end of a block without successors are live
pub proof fn lemma_exit_state_live(fr: &il::Function, m: Map<il::ProgramLocation, LocationSet>, b: usize, l: Loc)
    requires is_rd_solution(fr, m), is_exit_block(*fr, b), il::is_block_end(*fr, b, l), m.contains_key(ploc(*fr, l)),
    ensures all_live(*fr, m, m[ploc(*fr, l)]@),
{
    let f = *fr;
    assert(opt_inv(&rda_of(fr), fview(m, f)(l)));
    assert(is_exit_end(f, l));
    assert forall|d: il::ProgramLocation| #[trigger] m[ploc(f, l)]@.contains(d) implies is_live(f, m, d) && d.function_index == f.index by {
        assert(is_exit_end(f, l) && m.contains_key(ploc(f, l)) && m[ploc(f, l)]@.contains(d));
        assert(reaches_exit(f, m, d));
        assert(is_def_loc(f, d));
    }
}

/// the definitions reaching a Branch / Intrinsic before it executes are live
pub proof fn lemma_observer_state_live(fr: &il::Function, m: Map<il::ProgramLocation, LocationSet>, l: Loc, s: PLSet)
    requires is_rd_solution(fr, m), is_observer(*fr, l), is_rd_in(*fr, m, l, s),
    ensures all_live(*fr, m, s),
{
    let f = *fr;
    lemma_rd_in_defs_ok(fr, m, l, s);
    lemma_rd_in_has(f, m, l, s);
    assert forall|d: il::ProgramLocation| #[trigger] s.contains(d) implies is_live(f, m, d) && d.function_index == f.index by {
        assert(is_observer(f, l) && rd_in_has(f, m, l, d));
        assert(reaches_observer(f, m, d));
        assert(is_def_loc(f, d));
    }
}

// ---------------------------------------------------------------------------------------------
// scanning a listed state into `live`

/// the first `n` listed definitions are recorded
pub open spec fn listed_in(items: Seq<&il::ProgramLocation>, n: int, live: FLSet) -> bool {
    forall|j: int| 0 <= j < n && j < items.len() ==> live.contains((#[trigger] items[j]).function_location)
}

pub proof fn lemma_listed_done(s: PLSet, items: Seq<&il::ProgramLocation>, n: int, live: FLSet)
    requires graph::seq_lists_set_ref(items, s), listed_in(items, n, live),
    ensures n == items.len() ==> defs_in(s, live),
{
    if n != items.len() { return; }
    graph::lemma_seq_lists_set_ref(items, s);
    assert forall|d: il::ProgramLocation| #[trigger] s.contains(d) implies live.contains(d.function_location) by {
        let i = choose|i: int| 0 <= i < items.len() && *(#[trigger] items[i]) == d;
        assert(live.contains(items[i].function_location));
    }
}

// ---------------------------------------------------------------------------------------------
// blocks

/// where block `blk` ends: its last instruction, or its EmptyBlock location
pub open spec fn end_loc(blk: il::Block) -> Loc {
    if blk.instructions@.len() == 0 { Loc::EmptyBlock(blk.index) } else { Loc::Instruction(blk.index, blk.instructions@.last().index) }
}

pub proof fn lemma_block_end_unique(f: il::Function, blk: il::Block)
    requires il::block_of(f, blk),
    ensures forall|l: Loc| #![trigger il::is_block_end(f, blk.index, l)] il::is_block_end(f, blk.index, l) <==> l == end_loc(blk),
{
}

/// a block has no successors exactly when its successor set is empty
pub proof fn lemma_no_successors(f: il::Function, b: usize)
    requires f.function_wf(), f.control_flow_graph.has_block(b),
    ensures (f.control_flow_graph.graph.successors@[b]@.len() == 0) <==> is_exit_block(f, b),
{
    let gr = f.control_flow_graph.graph;
    assert(gr.adj_wf() && gr.vertex_wf());
    assert(gr.vertices@.dom().contains(b));
    assert(gr.successors@.dom().contains(b));
    let s = gr.successors@[b]@;
    if s.len() == 0 {
        s.lemma_len0_is_empty();
        assert forall|t: usize| !(#[trigger] f.control_flow_graph.has_edge(b, t)) by {
            if gr.edges@.contains_key((b, t)) { assert(gr.successors@[b]@.contains(t)); }
        }
    } else {
        if is_exit_block(f, b) {
            assert forall|t: usize| !s.contains(t) by {
                if gr.successors@[b]@.contains(t) { assert(gr.edges@.contains_key((b, t))); assert(f.control_flow_graph.has_edge(b, t)); }
            }
            assert(s =~= Set::<usize>::empty());
        }
    }
}

/// the frame keeps the instruction indices of every block
pub proof fn lemma_nopped_has_instruction(f: il::Function, g: il::Function, ks: LSet, b: usize, i: usize)
    requires nopped(f, g, ks), il::instr_valid(f, b, i),
    ensures g.control_flow_graph.graph.vertices@.contains_key(b), g.control_flow_graph.graph.vertices@[b].has_instruction(i),
{
    let fb = f.control_flow_graph.graph.vertices@[b];
    let gb = g.control_flow_graph.graph.vertices@[b];
    assert(f.control_flow_graph.graph.vertices@.dom().contains(b));
    assert(block_nopped(fb, gb, ks));
    let p = choose|p: int| 0 <= p < fb.instructions@.len() && (#[trigger] fb.instructions@[p]).index == i;
    assert(ins_nopped(fb.instructions@[p], gb.instructions@[p], ks(Loc::Instruction(fb.index, fb.instructions@[p].index))));
    assert(gb.instructions@[p].index == i);
}

// ---------------------------------------------------------------------------------------------
// the def-use chains do not depend on which solution of the reaching-definitions equations they were computed from

pub proof fn lemma_def_use_any_solution(fr: &il::Function, m2: Map<il::ProgramLocation, LocationSet>, m: Map<il::ProgramLocation, LocationSet>, du: Map<il::ProgramLocation, LocationSet>)
    requires fr.function_wf(), is_rd_solution(fr, m2), is_rd_solution(fr, m), is_def_use(*fr, m2, du),
    ensures is_def_use(*fr, m, du),
{
    let f = *fr;
    lemma_solution_unique(fr, m2, m);
    assert(m.dom().subset_of(du.dom()));
    assert forall|d: il::ProgramLocation, u: il::ProgramLocation| #![trigger chain_has(du, d, u)] chain_has(du, d, u) <==>
            (m.contains_key(u) && rd_in_has(f, m, kloc(u), d) && uses(f, kloc(u), kloc(d))) by {
        assert(m.dom().contains(u) == m2.dom().contains(u));
        if rd_in_has(f, m2, kloc(u), d) { lemma_rd_in_has_unique(fr, m2, m, kloc(u), d); }
        if rd_in_has(f, m, kloc(u), d) { lemma_rd_in_has_unique(fr, m, m2, kloc(u), d); }
    }
}

// ---------------------------------------------------------------------------------------------
// the kill list

/// what the three filters establish for an item of the kill list (w.r.t. the concrete `live` set)
pub open spec fn kill_item_ok(f: il::Function, du: Map<il::ProgramLocation, LocationSet>, live: FLSet, k: il::FunctionLocation) -> bool {
    &&& is_candidate(f, il::fl_loc(k))
    &&& !live.contains(k)
    &&& du.contains_key(ploc(f, il::fl_loc(k))) && du[ploc(f, il::fl_loc(k))]@ == Set::<il::ProgramLocation>::empty()
}

/// the locations of the first `n` items of the kill list
pub open spec fn kpre(ks: Seq<il::FunctionLocation>, n: int) -> LSet {
    |l: Loc| exists|j: int| 0 <= j < n && j < ks.len() && il::fl_loc(#[trigger] ks[j]) == l
}

/// the locations of the kill list
pub open spec fn kall(ks: Seq<il::FunctionLocation>) -> LSet {
    |l: Loc| exists|j: int| 0 <= j < ks.len() && il::fl_loc(#[trigger] ks[j]) == l
}

pub proof fn lemma_kpre_step(ks: Seq<il::FunctionLocation>, n: int, l: Loc)
    requires 0 <= n < ks.len(),
    ensures kpre(ks, n + 1)(l) == (l == il::fl_loc(ks[n]) || kpre(ks, n)(l)),
{
    if kpre(ks, n)(l) {
        let j = choose|j: int| 0 <= j < n && j < ks.len() && il::fl_loc(#[trigger] ks[j]) == l;
        assert(0 <= j < n + 1 && il::fl_loc(ks[j]) == l);
    }
    if l == il::fl_loc(ks[n]) { assert(0 <= n < n + 1 && il::fl_loc(ks[n]) == l); }
    if kpre(ks, n + 1)(l) {
        let j = choose|j: int| 0 <= j < n + 1 && j < ks.len() && il::fl_loc(#[trigger] ks[j]) == l;
        if j < n { assert(kpre(ks, n)(l)); }
    }
}

/// THE RESULT of dead-code elimination on `fr`: frame + kill set, w.r.t. the reaching definitions `m` and the def-use chains `du`
pub open spec fn dce_result(fr: &il::Function, g: il::Function, ks: LSet, m: Map<il::ProgramLocation, LocationSet>, du: Map<il::ProgramLocation, LocationSet>) -> bool {
    &&& nopped(*fr, g, ks)
    &&& is_rd_solution(fr, m)
    &&& is_def_use(*fr, m, du)
    &&& kill_set_ok(*fr, m, du, ks)
    &&& kill_set_all(*fr, m, du, ks)
}

/// the kill list is exactly the set of locations that satisfy the kill-set condition
pub proof fn lemma_kill_sets(f: il::Function, m: Map<il::ProgramLocation, LocationSet>, du: Map<il::ProgramLocation, LocationSet>, live: FLSet,
        locs: Seq<il::RefFunctionLocation>, ks: Seq<il::FunctionLocation>)
    requires
        live_covered(f, m, live), live_exact(f, m, live),
        il::lists_rfls(locs, f, il::sel_all(f)),
        forall|j: int| 0 <= j < ks.len() ==> kill_item_ok(f, du, live, #[trigger] ks[j]),
        forall|i: int| 0 <= i < locs.len() && kill_item_ok(f, du, live, il::loc_fl(il::loc_of(#[trigger] locs[i]))) ==> ks.contains(il::loc_fl(il::loc_of(locs[i]))),
    ensures
        kill_set_ok(f, m, du, kall(ks)),
        kill_set_all(f, m, du, kall(ks)),
{
    assert forall|l: Loc| #[trigger] kall(ks)(l) implies killable(f, m, du, l) by {
        let j = choose|j: int| 0 <= j < ks.len() && il::fl_loc(#[trigger] ks[j]) == l;
        assert(kill_item_ok(f, du, live, ks[j]));
        assert(il::loc_fl(il::fl_loc(ks[j])) == ks[j]);
        if is_live(f, m, ploc(f, l)) { assert(live.contains(ploc(f, l).function_location)); }
    }
    assert forall|l: Loc| #[trigger] killable(f, m, du, l) implies kall(ks)(l) by {
        assert(il::sel_all(f)(l));
        let i = choose|i: int| 0 <= i < locs.len() && il::loc_of(#[trigger] locs[i]) == l;
        lemma_ploc_inj(f, l, l);
        assert(il::fl_loc(il::loc_fl(l)) == l);
        if live.contains(il::loc_fl(l)) { assert(is_live(f, m, ploc(f, il::fl_loc(il::loc_fl(l))))); }
        assert(kill_item_ok(f, du, live, il::loc_fl(il::loc_of(locs[i]))));
        assert(ks.contains(il::loc_fl(l)));
        let j = choose|j: int| 0 <= j < ks.len() && ks[j] == il::loc_fl(l);
        assert(il::fl_loc(ks[j]) == l);
    }
}
