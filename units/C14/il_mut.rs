// ======================================================================================
// units/C14/il_mut.rs - the mutators `dead_code_elimination` goes through to replace one operation:
//   Function::block_mut -> ControlFlowGraph::block_mut -> (graph::vertex_mut, C11)
//   Block::instruction_mut, Instruction::operation_mut, Operation::nop
// the classifiers Instruction::is_assign / is_load of the candidate filter (+ is_store / is_branch), and the
// constructors Instruction::new / nop (not used by the function as it stands; under contract so that a variant of
// the function that builds a fresh instruction is judged by the verifier and not only by the bounded enumerator).
// REAL text, extracted; proved in THIS unit (ControlFlowGraph::block_mut and Operation::nop are also under
// contract in unit C15's cfg_edit.rs / block_edit.rs; re-proved here from the same text, as unit C10 does,
// because block_edit.rs carries Block::instruction_mut WITHOUT an effect contract and two extractions of one
// function cannot coexist).
// To be included inside `pub mod il` after units/C15/il_core.rs and units/C18/loc_core.rs.
// ======================================================================================

/// block `g` is block `b` with the operation at position `p` replaced by `op`; everything else is untouched
pub open spec fn block_op_replaced(b: Block, g: Block, p: int, op: Operation) -> bool {
    &&& 0 <= p < b.instructions@.len()
    &&& g.index == b.index
    &&& g.next_instruction_index == b.next_instruction_index
    &&& g.phi_nodes == b.phi_nodes
    &&& g.instructions@ == b.instructions@.update(p, Instruction { operation: op, ..b.instructions@[p] })
}

impl Operation {
//@ source lib/il/operation.rs
//@ fn impl Operation :: fn nop
//@ spec
    ensures /*@ctor*/ r == (Operation::Nop { placeholder: None }),
//@ end
}

impl Instruction {
//@ source lib/il/instruction.rs
//@ fn impl Instruction :: fn is_assign
//@ spec
    ensures /*@variant*/ r == (self.operation is Assign),
//@ end

//@ fn impl Instruction :: fn is_load
//@ spec
    ensures /*@variant*/ r == (self.operation is Load),
//@ end

//@ fn impl Instruction :: fn is_store
//@ spec
    ensures /*@variant*/ r == (self.operation is Store),
//@ end

//@ fn impl Instruction :: fn is_branch
//@ spec
    ensures /*@variant*/ r == (self.operation is Branch),
//@ end

//@ fn impl Instruction :: fn new
//@ spec
    ensures /*@ctor*/ r == (Instruction { operation: operation, index: index, comment: None, address: None }),
//@ end

//@ fn impl Instruction :: fn nop
//@ spec
    ensures /*@ctor*/ r == (Instruction { operation: Operation::Nop { placeholder: None }, index: index, comment: None, address: None }),
//@ end

//@ fn impl Instruction :: fn operation_mut
//@ spec
    ensures
        /*@field*/ *r == old(self).operation && final(self).operation == *final(r),
        /*@frame*/ final(self).index == old(self).index && final(self).comment == old(self).comment && final(self).address == old(self).address,
//@ end
}

impl Block {
//@ source lib/il/block.rs
//@ fn impl Block :: fn instruction_mut loops=1
//@ rewrite 1 `self.instructions .iter_mut() .find(|instruction| instruction.index() == index)` => `{ let mut vf_i: usize = 0; while vf_i < self.instructions.len() { if self.instructions[vf_i].index() == index { return Some(&mut self.instructions[vf_i]); } vf_i += 1; } None }` ## R-find-mut: `VEC.iter_mut().find(|x| P(x))` is by definition the loop that returns `Some(&mut VEC[i])` for the first position i whose element satisfies P and `None` when there is none (slice::IterMut yields the elements in index order, `find` stops at the first hit); P = `instruction.index() == index` stays the original comparison
//@ spec
    ensures
        /*@found*/ r matches Some(x) ==> (exists|p: int| 0 <= p < old(self).instructions@.len()
            && (#[trigger] old(self).instructions@[p]).index == index
            && (forall|q: int| 0 <= q < p ==> (#[trigger] old(self).instructions@[q]).index != index)
            && *x == old(self).instructions@[p] && final(self).instructions@ == old(self).instructions@.update(p, *final(x))),
        /*@missing*/ r is None ==> !old(self).has_instruction(index) && final(self).instructions@ == old(self).instructions@,
        /*@frame*/ final(self).index == old(self).index && final(self).next_instruction_index == old(self).next_instruction_index
            && final(self).phi_nodes == old(self).phi_nodes,
//@ loop 0
    invariant
        *self == *old(self),
        forall|q: int| 0 <= q < vf_i ==> (#[trigger] old(self).instructions@[q]).index != index,
    decreases self.instructions@.len() - vf_i,
//@ end
}

impl ControlFlowGraph {
//@ source lib/il/control_flow_graph.rs
//@ fn impl ControlFlowGraph :: fn block_mut
//@ spec
    ensures
        /*@found*/ old(self).has_block(index) ==> (r matches Ok(b) && *b == old(self).graph.vertices@[index]
            && final(self).graph.vertices@ == old(self).graph.vertices@.insert(index, *final(b))),
        /*@missing*/ !old(self).has_block(index) ==> (r matches Err(e) && e == Error::GraphVertexNotFound(index)) && final(self).graph.vertices@ == old(self).graph.vertices@,
        /*@frame*/ final(self).graph.edges == old(self).graph.edges && final(self).graph.successors == old(self).graph.successors
            && final(self).graph.predecessors == old(self).graph.predecessors && final(self).next_index == old(self).next_index
            && final(self).next_temp_index == old(self).next_temp_index && final(self).entry == old(self).entry
            && final(self).exit == old(self).exit && final(self).ssa_form == old(self).ssa_form,
//@ end
}

impl Function {
//@ source lib/il/function.rs
//@ fn impl Function :: fn block_mut
//@ spec
    ensures
        /*@found*/ old(self).control_flow_graph.has_block(index) ==> (r matches Ok(b) && *b == old(self).control_flow_graph.graph.vertices@[index]
            && final(self).control_flow_graph.graph.vertices@ == old(self).control_flow_graph.graph.vertices@.insert(index, *final(b))),
        /*@missing*/ !old(self).control_flow_graph.has_block(index) ==> (r matches Err(e) && e == Error::GraphVertexNotFound(index))
            && final(self).control_flow_graph.graph.vertices@ == old(self).control_flow_graph.graph.vertices@,
        /*@frame*/ final(self).address == old(self).address && final(self).name == old(self).name && final(self).index == old(self).index
            && final(self).control_flow_graph.graph.edges == old(self).control_flow_graph.graph.edges
            && final(self).control_flow_graph.graph.successors == old(self).control_flow_graph.graph.successors
            && final(self).control_flow_graph.graph.predecessors == old(self).control_flow_graph.graph.predecessors
            && final(self).control_flow_graph.next_index == old(self).control_flow_graph.next_index
            && final(self).control_flow_graph.next_temp_index == old(self).control_flow_graph.next_temp_index
            && final(self).control_flow_graph.entry == old(self).control_flow_graph.entry
            && final(self).control_flow_graph.exit == old(self).control_flow_graph.exit
            && final(self).control_flow_graph.ssa_form == old(self).control_flow_graph.ssa_form,
//@ end
}
