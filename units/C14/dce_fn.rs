// ======================================================================================
// units/C14/dce_fn.rs - `dead_code_elimination` (lib/analysis/dead_code_elimination.rs, with candidate fixes
// 1-3 of this unit and fixes 1-2 of unit C12 applied): REAL text, extracted; the iterator chains are rewritten
// into the loops they denote (every rewrite is logged with its justification).
// Included inside `pub mod dead_code_elimination` after dce_spec.rs.
// ======================================================================================

//@ source lib/analysis/dead_code_elimination.rs
//@ fn fn dead_code_elimination loops=7
//@ rewrite 1 `function .blocks() .into_iter() .filter(|block| {` => `let vf_blocks = function.blocks(); for block in vf_it0: vf_blocks { if {` ## R-filter-for-each: `ITER.filter(|x| { P }).for_each(|x| { BODY })` is by definition `for x in ITER { if { P } { BODY } }` (part 1 of 3; the iterated vector is bound to a local first and the ghost iterator is named; P and BODY stay the original tokens)
//@ rewrite 1 `}) .for_each(|block| {` => `} {` ## R-filter-for-each: part 2 of 3 (end of the predicate block, start of the body)
//@ rewrite 1 `state.locations().iter().for_each(|location| {` => `for location in vf_it1: state.locations().iter() {` ## R-for-each: `ITER.for_each(|x| BODY)` is by definition `for x in ITER { BODY }` (ITER and BODY stay the original tokens)
//@ rewrite 1 `}); } });` => `} } } }` ## R-filter-for-each: closes the loop over the reaching definitions, the `if let`, the `if` of the filter and the loop over the blocks (part 3 of 3)
//@ rewrite 1 `for block in function.blocks() {` => `let vf_blocks2 = function.blocks(); for block in vf_it2: vf_blocks2 {` ## R-let-iter: binds the iterated vector to a name before the loop and names the ghost iterator, so that invariants can mention them; no executable change
//@ rewrite 1 `for instruction in block.instructions() {` => `for instruction in vf_it3: block.instructions() {` ## R-ghost-iter-name: names the ghost iterator of the for loop so that invariants can mention it; no executable change
//@ rewrite 1 `reaching_definitions::reaching_definitions_in(&rd, &rpl)? .locations() .iter() .for_each(|location| {` => `let vf_in = reaching_definitions::reaching_definitions_in(&rd, &rpl)?; for location in vf_it4: vf_in.locations().iter() {` ## R-for-each: as above; the receiver (with its `?`) is evaluated first and bound to a local, as in the original expression
//@ rewrite 1 `}); } _ => {}` => `} } _ => {}` ## R-for-each: closes the loop of the rewritten for_each
//@ rewrite 1 `let kill = function .locations() .into_iter() .filter(|location| {` => `let mut kill: Vec<il::FunctionLocation> = Vec::new(); let vf_locs = function.locations(); for location in vf_it5: vf_locs { if ({` ## R-filter-map-collect: `let v = ITER.filter(|x| P1).filter(|x| P2).filter(|x| P3).map(|l| F(l)).collect::<Vec<T>>();` is by definition `let mut v: Vec<T> = Vec::new(); for x in ITER { if P1 && P2 && P3 { v.push(F(x)); } }` (an item rejected by a filter is not shown to the later ones: `&&` short-circuits the same way); part 1 of 3, P1 / P2 / P3 stay the original tokens
//@ rewrite 2 `.filter(|location|` => `&& (` ## R-filter-map-collect: part 2 of 3 (the next predicate; its closing parenthesis is the one that closed `filter(`)
//@ rewrite 1 `.map(|l| l.into()) .collect::<Vec<il::FunctionLocation>>();` => `{ kill.push(location.into()); } }` ## R-filter-map-collect: part 3 of 3 (F = `l.into()` applied to the accepted item)
//@ rewrite 1 `for k in kill {` => `for k in vf_it6: kill {` ## R-ghost-iter-name: names the ghost iterator of the for loop so that invariants can mention it; no executable change
//@ closure 0 |instruction: &il::Instruction| -> (r0: bool)
    ensures r0 == (instruction.operation is Assign || instruction.operation is Load),
//@ closure 1 |uses: &LocationSet| -> (r1: bool)
    ensures r1 == (uses@ == Set::<il::ProgramLocation>::empty()),
//@ spec
    requires function.function_wf(),
    ensures
        /*@no_entry*/ function.control_flow_graph.entry is None ==> r == Err::<il::Function, Error>(Error::FixedPointRequiresEntry),
        /*@errors*/ r matches Err(e) ==> (function.control_flow_graph.entry is None && e == Error::FixedPointRequiresEntry)
            || (il::entry_loc(*function) is Some && e == Error::FixedPointMaxSteps),
        /*@frame*/ r matches Ok(g) ==> exists|ks: LSet| #[trigger] nopped(*function, g, ks),
        /*@kill_set*/ r matches Ok(g) ==> exists|ks: LSet, m: Map<il::ProgramLocation, LocationSet>, du: Map<il::ProgramLocation, LocationSet>|
            #[trigger] dce_result(function, g, ks, m, du),
        /*@wf*/ r matches Ok(g) ==> g.function_wf(),
//@ enter
    let ghost f = *function;
//@ before 0 `let mut live`
    let ghost m = rd@;
    proof { assert(is_rd_solution(function, m)); }
//@ before 0 `for block in vf_it0`
    let ghost bs = vf_blocks@;
//@ loop 0
    invariant
        f == *function, function.function_wf(), m == rd@, is_rd_solution(function, m),
        vf_it0.seq() == bs,
        f.control_flow_graph.graph.lists_vertices(bs, |k: usize| true),
        exits_done(f, m, bs, vf_it0.index@ as int, live@),
        live_exact(f, m, live@),
//@ before 0 `if { function`
    let ghost n0 = vf_it0.index@ as int;
    let ghost live_a = live@;
    proof {
        assert(block == bs[n0]);
        assert(il::block_of(f, *block));
        lemma_no_successors(f, block.index);
    }
//@ after 0 `il::RefFunctionLocation::EmptyBlock(block) };`
    proof {
        assert(il::rfl_in(f, rfl));
        assert(il::loc_of(rfl) == end_loc(*block));
        lemma_block_end_unique(f, *block);
        assert(is_exit_block(f, block.index));
    }
//@ before 0 `for location in vf_it1`
    let ghost st = state@;
    proof {
        assert(m.contains_key(ploc(f, il::loc_of(rfl))) && m[ploc(f, il::loc_of(rfl))] == *state);
        lemma_len0(st);
        lemma_exit_state_live(function, m, block.index, il::loc_of(rfl));
    }
//@ loop 1
    invariant
        graph::seq_lists_set_ref(vf_it1.seq(), st),
        all_live(f, m, st), live_exact(f, m, live@),
        live_a.subset_of(live@),
        listed_in(vf_it1.seq(), vf_it1.index@ as int, live@),
        vf_it1.index@ == vf_it1.seq().len() ==> defs_in(st, live@),
//@ before 0 `live.insert(location.function_location().clone());`
    let ghost live_c = live@;
    proof {
        graph::lemma_seq_lists_set_ref(vf_it1.seq(), st);
        assert(st.contains(*location));
        lemma_live_insert(f, m, live_c, *location);
    }
//@ after 0 `live.insert(location.function_location().clone());`
    proof { lemma_listed_done(st, vf_it1.seq(), vf_it1.index@ + 1, live@); }
//@ after 0 `live.insert(location.function_location().clone()); }`
    proof { assert(defs_in(st, live@)); }
//@ after 0 `live.insert(location.function_location().clone()); } } }`
    proof {
        lemma_exits_done_mono(f, m, bs, n0, live_a, live@);
    }
//@ before 0 `for block in vf_it2`
    let ghost bs2 = vf_blocks2@;
//@ loop 2
    invariant
        f == *function, function.function_wf(), m == rd@, is_rd_solution(function, m),
        vf_it2.seq() == bs2,
        f.control_flow_graph.graph.lists_vertices(bs, |k: usize| true),
        f.control_flow_graph.graph.lists_vertices(bs2, |k: usize| true),
        exits_done(f, m, bs, bs.len() as int, live@),
        observers_done(f, m, bs2, vf_it2.index@ as int, live@),
        live_exact(f, m, live@),
//@ before 0 `for instruction in vf_it3`
    let ghost n2 = vf_it2.index@ as int;
    proof {
        assert(block == bs2[n2]);
        assert(il::block_of(f, *block));
    }
//@ loop 3
    invariant
        f == *function, function.function_wf(), m == rd@, is_rd_solution(function, m),
        0 <= n2 < bs2.len(), block == bs2[n2], il::block_of(f, *block),
        vf_it3.seq().len() == block.instructions@.len(),
        forall|j: int| 0 <= j < vf_it3.seq().len() ==> *(#[trigger] vf_it3.seq()[j]) == block.instructions@[j],
        exits_done(f, m, bs, bs.len() as int, live@),
        observers_done(f, m, bs2, n2, live@),
        obs_block_done(f, m, *block, vf_it3.index@ as int, live@),
        live_exact(f, m, live@),
//@ before 0 `match *instruction.operation()`
    let ghost n3 = vf_it3.index@ as int;
    let ghost live_b = live@;
    let ghost l3 = Loc::Instruction(block.index, instruction.index);
    proof {
        assert(*instruction == block.instructions@[n3]);
        assert(il::block_holds(*block, *instruction));
        let rfl3 = il::RefFunctionLocation::Instruction(block, instruction);
        assert(il::rfl_in(f, rfl3));
        il::lemma_rfl_in_valid(f, rfl3);
        lemma_op_of_at(f, rfl3);
        assert(op_at(f, l3) == Some(instruction.operation));
    }
//@ before 0 `for location in vf_it4`
    let ghost st4 = vf_in@;
    proof {
        assert(is_rd_in(f, m, l3, st4));
        lemma_rd_in_has(f, m, l3, st4);
        lemma_len0(st4);
        assert(is_observer(f, l3));
        lemma_observer_state_live(function, m, l3, st4);
    }
//@ loop 4
    invariant
        graph::seq_lists_set_ref(vf_it4.seq(), st4),
        all_live(f, m, st4), live_exact(f, m, live@),
        live_b.subset_of(live@),
        listed_in(vf_it4.seq(), vf_it4.index@ as int, live@),
        vf_it4.index@ == vf_it4.seq().len() ==> defs_in(st4, live@),
//@ before 1 `live.insert(location.function_location().clone());`
    let ghost live_d = live@;
    proof {
        graph::lemma_seq_lists_set_ref(vf_it4.seq(), st4);
        assert(st4.contains(*location));
        lemma_live_insert(f, m, live_d, *location);
    }
//@ after 1 `live.insert(location.function_location().clone());`
    proof { lemma_listed_done(st4, vf_it4.seq(), vf_it4.index@ + 1, live@); }
//@ after 1 `live.insert(location.function_location().clone()); }`
    proof {
        assert(defs_in(st4, live@));
        assert(obs_done(f, m, l3, live@));
    }
//@ after 0 `_ => {} }`
    proof {
        lemma_exits_done_mono(f, m, bs, bs.len() as int, live_b, live@);
        lemma_observers_done_mono(f, m, bs2, n2, live_b, live@);
        lemma_obs_block_done_mono(f, m, *block, n3, live_b, live@);
        assert(obs_done(f, m, l3, live@));
    }
//@ before 0 `let du = def_use(function)?;`
    proof { lemma_live_covered(f, m, bs, bs2, live@); }
//@ after 0 `let du = def_use(function)?;`
    let ghost duv = du@;
    proof {
        let m2 = choose|m2: Map<il::ProgramLocation, LocationSet>| #[trigger] is_rd_solution(function, m2) && is_def_use(f, m2, duv);
        lemma_def_use_any_solution(function, m2, m, duv);
    }
//@ before 0 `for location in vf_it5`
    let ghost locs = vf_locs@;
    let ghost livev = live@;
//@ loop 5
    invariant
        f == *function, function.function_wf(), duv == du@, livev == live@,
        vf_it5.seq() == locs,
        il::lists_rfls(locs, f, il::sel_all(f)),
        forall|j: int| 0 <= j < kill@.len() ==> kill_item_ok(f, duv, livev, #[trigger] kill@[j]),
        forall|i: int| 0 <= i < vf_it5.index@ && kill_item_ok(f, duv, livev, il::loc_fl(il::loc_of(#[trigger] locs[i]))) ==> kill@.contains(il::loc_fl(il::loc_of(locs[i]))),
//@ before 0 `if ({ location`
    let ghost n5 = vf_it5.index@ as int;
    let ghost kill_a = kill@;
    let ghost l5 = il::loc_of(location);
    proof {
        assert(location == locs[n5]);
        assert(il::rfl_in(f, location));
        il::lemma_rfl_in_valid(f, location);
        lemma_op_of_at(f, location);
        lemma_ploc_inj(f, l5, l5);
    }
//@ after 0 `{ kill.push(location.into()); }`
    proof {
        assert forall|i: int| 0 <= i < n5 + 1 && kill_item_ok(f, duv, livev, il::loc_fl(il::loc_of(#[trigger] locs[i]))) implies kill@.contains(il::loc_fl(il::loc_of(locs[i]))) by {
            if i < n5 {
                assert(kill_a.contains(il::loc_fl(il::loc_of(locs[i]))));
                let j = choose|j: int| 0 <= j < kill_a.len() && kill_a[j] == il::loc_fl(il::loc_of(locs[i]));
                assert(kill@[j] == kill_a[j]);
            } else {
                assert(kill@.len() == kill_a.len() + 1);
                assert(kill@[kill_a.len() as int] == il::loc_fl(l5));
            }
        }
    }
//@ before 0 `let mut dce_function`
    let ghost ks = kill@;
    proof {
        lemma_kill_sets(f, m, duv, livev, locs, ks);
    }
//@ after 0 `let mut dce_function = function.clone();`
    proof {
        lemma_nopped_refl(f);
        assert(kpre(ks, 0) =~= no_locs());
    }
//@ loop 6
    invariant
        f == *function, function.function_wf(),
        vf_it6.seq() == ks,
        forall|j: int| 0 <= j < ks.len() ==> kill_item_ok(f, duv, livev, #[trigger] ks[j]),
        nopped(f, dce_function, kpre(ks, vf_it6.index@ as int)),
//@ before 0 `let instruction_index`
    let ghost n6 = vf_it6.index@ as int;
    let ghost g0 = dce_function;
    proof {
        assert(k == ks[n6]);
        assert(kill_item_ok(f, duv, livev, k));
    }
//@ before 0 `let block = dce_function.block_mut(block_index).unwrap();`
    let ghost gb0 = g0.control_flow_graph.graph.vertices@[block_index];
    proof {
        assert(il::fl_loc(k) == Loc::Instruction(block_index, instruction_index));
        assert(f.control_flow_graph.graph.vertices@.dom().contains(block_index));
        assert(g0.control_flow_graph.graph.vertices@.dom().contains(block_index));
        lemma_nopped_has_instruction(f, g0, kpre(ks, n6), block_index, instruction_index);
    }
//@ before 0 `} Ok(dce_function)`
    proof {
        let nb = dce_function.control_flow_graph.graph.vertices@[block_index];
        assert(dce_function.control_flow_graph.graph.vertices@ == g0.control_flow_graph.graph.vertices@.insert(block_index, nb));
        assert(nb.index == gb0.index);
        assert(nb.instructions@.len() == gb0.instructions@.len());
        let p = choose|p: int| 0 <= p < gb0.instructions@.len() && (#[trigger] gb0.instructions@[p]).index == instruction_index && nb.instructions@ == gb0.instructions@.update(p, nb.instructions@[p]);
        assert(nb.instructions@[p].operation == (il::Operation::Nop { placeholder: None }));
        assert(nb.instructions@[p] == (il::Instruction { operation: il::Operation::Nop { placeholder: None }, ..gb0.instructions@[p] }));
        assert(il::block_op_replaced(gb0, nb, p, il::Operation::Nop { placeholder: None }));
        lemma_nopped_step(f, g0, dce_function, kpre(ks, n6), block_index, nb, p);
        assert(block_nopped(f.control_flow_graph.graph.vertices@[block_index], gb0, kpre(ks, n6)));
        assert(f.control_flow_graph.graph.vertices@[block_index].instructions@[p].index == instruction_index);
        assert(with_loc(kpre(ks, n6), Loc::Instruction(block_index, instruction_index)) =~= kpre(ks, n6 + 1)) by {
            assert forall|l: Loc| with_loc(kpre(ks, n6), Loc::Instruction(block_index, instruction_index))(l) == #[trigger] kpre(ks, n6 + 1)(l) by {
                lemma_kpre_step(ks, n6, l);
            }
        }
    }
//@ before 0 `Ok(dce_function)`
    proof {
        assert(kpre(ks, ks.len() as int) =~= kall(ks)) by {
            assert forall|l: Loc| kpre(ks, ks.len() as int)(l) == #[trigger] kall(ks)(l) by {}
        }
        lemma_nopped_wf(f, dce_function, kall(ks));
        assert(dce_result(function, dce_function, kall(ks), m, duv));
    }
//@ end
