// Unit C14 - dead-code elimination (lib/analysis/dead_code_elimination.rs) only replaces operations by no-ops and
// the result is observationally equivalent to its input: the FRAME and KILL-SET contracts on the real function
// (reaching definitions / def-use chains imported from unit C12, the solver from C09), and, at spec level, an
// abstract small-step semantics with the simulation theorem "a killed definition is never observed".
// Generated file = this template + the real text of the items named in the `//@` holes.
#![feature(allocator_api)]
#![allow(unused_imports, unused_variables, dead_code, unused_mut, non_snake_case, unused_parens, unused_braces, deprecated)]
use vstd::prelude::*;
use vstd::arithmetic::power2::*;
use vstd::arithmetic::div_mod::*;
use vstd::arithmetic::mul::*;
use std::ops::*;
use std::cmp;
use std::cmp::Ordering;
use std::collections::{BTreeMap, BTreeSet, VecDeque};
use std::fmt;
use std::rc::Rc;

verus! {

//@ include spec/bv.rs
//@ include prelude/bigint.rs
//@ include prelude/error.rs
//@ include prelude/fxhash.rs
//@ include prelude/stdcoll.rs
//@ include prelude/rc_asref.rs
//@ include prelude/location_hash.rs
//@ include prelude/fmt_option.rs
//@ include prelude/opt_slice.rs
//@ include prelude/ordering_eq.rs
//@ include prelude/hashset_of.rs
//@ include prelude/hashmap_entry.rs
//@ include units/C11/error_from.rs
//@ mode contracts-only C15
//@ include units/C15/error_from_string.rs
//@ mode full

// falcon::RC (default build, feature "thread_safe" off): the real alias, extracted
//@ item lib/lib.rs :: type RC#0

pub mod graph {
use super::*;
use vstd::std_specs::iter::IteratorSpec;
use rustc_hash::{FxHashMap, FxHashSet};
broadcast use {rustc_hash::axiom_fx_builds_valid_hashers, stdcoll::axiom_btreemap_index_req, stdcoll::axiom_hashmap_index_req, stdcoll::axiom_usize_pair_obeys_key_model};
//@ mode contracts-only C11
//@ include units/C11/graph_core.rs
//@ mode full
proof fn vf_canary_graph() ensures false {}
} // mod graph

pub mod il {
use super::*;
use vstd::std_specs::iter::IteratorSpec;
//@ mode contracts-only C15
//@ include units/C15/il_core.rs
//@ mode contracts-only C18
//@ include units/C18/loc_core.rs
//@ include units/C18/loc_proofs.rs
//@ mode contracts-only C12
//@ include units/C12/il_rw.rs
//@ mode full
//@ include units/C14/il_mut.rs
proof fn vf_canary_il() ensures false {}
} // mod il

// the trait contract + the abstract data-flow theory of unit C09 (no axioms, no broadcast use)
pub mod fixed_point {
use super::*;
use super::il::*;
use std::collections::HashMap;
use std::fmt::Debug;
//@ mode contracts-only C09
//@ include units/C09/fp_trait.rs
//@ include units/C09/fp_theory.rs
//@ mode full
proof fn vf_canary_fixed_point() ensures false {}
} // mod fixed_point

// the forward solver (contract imported from unit C09)
pub mod fixed_point_engine {
use super::*;
use super::il::*;
use super::fixed_point::*;
use std::collections::HashMap;
use std::fmt::Debug;
//@ mode contracts-only C09
//@ include units/C09/fp_engine.rs
//@ mode full
proof fn vf_canary_fixed_point_engine() ensures false {}
} // mod fixed_point_engine

pub mod analysis {
use super::*;

// analysis::LocationSet (keys a std HashSet on il::ProgramLocation: the key-model axiom is in scope here)
pub mod location_set {
use super::super::*;
use super::super::il;
use super::super::graph;
use std::cmp::{Ordering, PartialEq, PartialOrd};
use std::collections::HashSet;
use vstd::std_specs::iter::IteratorSpec;
broadcast use {location_hash::axiom_program_location_obeys_key_model, vstd::std_specs::hash::axiom_random_state_builds_valid_hashers};
//@ mode contracts-only C12
//@ include units/C12/location_set.rs
//@ mode full
proof fn vf_canary_location_set() ensures false {}
} // mod location_set
pub use self::location_set::LocationSet;

// analysis::reaching_definitions: the analysis as an instance of C09's trait contract, the solver's contract instantiated
pub mod reaching_definitions {
use super::super::*;
use super::super::il;
use super::super::il::Loc;
use super::super::graph;
use super::LocationSet;
// `fixed_point::X` in lib/analysis/reaching_definitions.rs names the trait and the solver of lib/analysis/fixed_point.rs;
// unit C09 splits that file into two modules (trait + theory / forward solver)
pub mod fixed_point { pub use super::super::super::fixed_point::*; pub use super::super::super::fixed_point_engine::*; }
use self::fixed_point::*;
use std::collections::HashMap;
use vstd::std_specs::iter::IteratorSpec;
broadcast use {location_hash::axiom_program_location_obeys_key_model, vstd::std_specs::hash::axiom_random_state_builds_valid_hashers};
//@ mode contracts-only C12
//@ include units/C12/rd_spec.rs
//@ include units/C12/rd_analysis.rs
//@ include units/C12/rd_theory.rs
//@ include units/C12/rd_chains.rs
//@ mode full
proof fn vf_canary_reaching_definitions() ensures false {}
} // mod reaching_definitions
pub use self::reaching_definitions::reaching_definitions;

// analysis::use_def
pub mod use_def {
use super::super::*;
use super::super::il;
use super::super::il::Loc;
use super::super::graph;
use super::LocationSet;
use super::reaching_definitions;
use super::reaching_definitions::*;
use super::reaching_definitions::fixed_point::*;
use std::collections::HashMap;
use vstd::std_specs::iter::IteratorSpec;
broadcast use {location_hash::axiom_program_location_obeys_key_model, vstd::std_specs::hash::axiom_random_state_builds_valid_hashers};
//@ mode contracts-only C12
//@ include units/C12/use_def.rs
//@ mode full
proof fn vf_canary_use_def() ensures false {}
} // mod use_def
pub use self::use_def::use_def;

// analysis::def_use
pub mod def_use {
use super::super::*;
use super::super::il;
use super::super::il::Loc;
use super::super::graph;
use super::LocationSet;
use super::reaching_definitions;
use super::reaching_definitions::*;
use super::reaching_definitions::fixed_point::*;
use std::collections::HashMap;
use vstd::std_specs::iter::IteratorSpec;
broadcast use {location_hash::axiom_program_location_obeys_key_model, vstd::std_specs::hash::axiom_random_state_builds_valid_hashers};
//@ mode contracts-only C12
//@ include units/C12/def_use.rs
//@ mode full
proof fn vf_canary_def_use() ensures false {}
} // mod def_use
pub use self::def_use::def_use;

// analysis::dead_code_elimination
pub mod dead_code_elimination {
use super::super::*;
use super::super::il;
use super::super::il::Loc;
use super::super::graph;
use super::LocationSet;
use super::{def_use, reaching_definitions};
use super::reaching_definitions::*;
use super::reaching_definitions::fixed_point::*;
use std::collections::{HashMap, HashSet};
use vstd::std_specs::iter::IteratorSpec;
broadcast use {location_hash::axiom_program_location_obeys_key_model, location_hash::axiom_function_location_obeys_key_model, vstd::std_specs::hash::axiom_random_state_builds_valid_hashers};
//@ include units/C14/dce_spec.rs
//@ include units/C14/dce_fn.rs
//@ include units/C14/dce_theory.rs
proof fn vf_canary_dead_code_elimination() ensures false {}
} // mod dead_code_elimination
pub use self::dead_code_elimination::dead_code_elimination;

} // mod analysis

proof fn vf_canary_root() ensures false {}

} // verus!

fn main() {}
