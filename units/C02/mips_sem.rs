// ---- units/C02/mips_sem.rs: per-mnemonic semantic functions of lib/translator/mips/semantics.rs
//@ source lib/translator/mips/semantics.rs

/// the operand record of a decoded MIPS instruction
pub open spec fn mips_ops(i: capstone::Instr) -> cs_mips { i.detail->Some_0.arch->MIPS_0 }
pub open spec fn mips_decoded(i: capstone::Instr) -> bool { i.detail is Some && i.detail->Some_0.arch is MIPS }
/// GPR number named by operand `n` (register member of the union)
pub open spec fn op_gpr(i: capstone::Instr, n: int) -> Option<int> { gpr_no(mips_ops(i).operands[n].u_reg) }

//@ fn fn addu
//@ spec
    requires mips_decoded(*instruction), old(control_flow_graph).cfg_wf(), old(control_flow_graph).next_index < usize::MAX,
    ensures
        /*@ok*/ (op_gpr(*instruction, 0) is Some && op_gpr(*instruction, 1) is Some && op_gpr(*instruction, 2) is Some) ==> r is Ok,
//@ end
