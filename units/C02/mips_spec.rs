// ---- units/C02/mips_spec.rs: specification vocabulary for the MIPS semantic functions (operand records, register-file states,
// shape of the lifted graph, evaluation lemmas)

/// the operand record of a decoded MIPS instruction
pub open spec fn mips_ops(i: capstone::Instr) -> cs_mips { i.detail->Some_0.arch->MIPS_0 }
/// ASSUMED decoder contract, common part: the Instr carries details (CS_OPT_DETAIL is on) of the MIPS kind
pub open spec fn mips_decoded(i: capstone::Instr) -> bool { i.detail is Some && i.detail->Some_0.arch is MIPS }
/// GPR number named by the register member of operand `n`
pub open spec fn op_gpr(i: capstone::Instr, n: int) -> Option<int> { gpr_no(mips_ops(i).operands[n].u_reg) }
/// the immediate member of operand `n`
pub open spec fn op_imm(i: capstone::Instr, n: int) -> int { mips_ops(i).operands[n].u_imm as int }
/// base register / displacement of the memory member of operand `n`
pub open spec fn op_base(i: capstone::Instr, n: int) -> Option<int> { gpr_no(mips_ops(i).operands[n].u_mem.base) }
pub open spec fn op_disp(i: capstone::Instr, n: int) -> int { mips_ops(i).operands[n].u_mem.disp as int }
pub open spec fn g(o: Option<int>) -> int { o->Some_0 }

// ---- IL states that are MIPS register files ----------------------------------------------------------------------------
/// every GPR 1..31, HI and LO hold a 32-bit value (and every other bound scalar a value of its own width)
pub open spec fn mips_state(env: Env) -> bool {
    &&& env_sorted(env)
    &&& forall|k: int| 1 <= k < 32 ==> (#[trigger] env(gpr_scalar(k))) is Some
    &&& env(hi_scalar()) is Some && env(lo_scalar()) is Some
}
/// MIPS architecture: the content of GPR k (GPR 0 reads as zero)
pub open spec fn R(env: Env, k: int) -> nat { if k == 0 { 0 } else { env(gpr_scalar(k))->Some_0.1 } }
pub open spec fn HI(env: Env) -> nat { env(hi_scalar())->Some_0.1 }
pub open spec fn LO(env: Env) -> nat { env(lo_scalar())->Some_0.1 }

pub proof fn lemma_R(env: Env, k: int)
    requires mips_state(env), 0 <= k < 32,
    ensures gpr_val(env, k) == EvalR::Val(32, R(env, k)), R(env, k) < pow2(32),
{
    lemma_pow2_pos(32);
    if k != 0 { assert(env(gpr_scalar(k)) is Some); }
}

/// (name == "$zero") == (k == 0) for the 32 register names
pub proof fn lemma_zero_name()
    ensures forall|k: int| 0 <= k < 32 ==> ((#[trigger] mips_name(k)) == "$zero"@) == (k == 0),
{
    assert forall|k: int| 0 <= k < 32 implies ((#[trigger] mips_name(k)) == "$zero"@) == (k == 0) by { lemma_mips_names_distinct(k, k); }
}

/// value of `l op r` when l reads GPR a and r reads GPR b
pub proof fn lemma_bin_rr(op: BinOp, e: Expression, a: int, b: int, env: Env)
    requires reads_gpr(lhs_of(e), a), reads_gpr(rhs_of(e), b), 0 <= a < 32, 0 <= b < 32, mips_state(env),
    ensures
        op is Add && e is Add ==> eval_spec(e, env) == EvalR::Val(32, bv_add(32, R(env, a), R(env, b))),
        op is Sub && e is Sub ==> eval_spec(e, env) == EvalR::Val(32, bv_sub(32, R(env, a), R(env, b))),
        op is And && e is And ==> eval_spec(e, env) == EvalR::Val(32, bv_and(32, R(env, a), R(env, b))),
        op is Or && e is Or ==> eval_spec(e, env) == EvalR::Val(32, bv_or(32, R(env, a), R(env, b))),
        op is Xor && e is Xor ==> eval_spec(e, env) == EvalR::Val(32, bv_xor(32, R(env, a), R(env, b))),
        op is Shl && e is Shl ==> eval_spec(e, env) == EvalR::Val(32, bv_shl(32, R(env, a), R(env, b))),
        op is Shr && e is Shr ==> eval_spec(e, env) == EvalR::Val(32, bv_shr(32, R(env, a), R(env, b))),
        op is AShr && e is AShr ==> eval_spec(e, env) == EvalR::Val(32, bv_ashr(32, R(env, a), R(env, b))),
{
    lemma_reads_gpr(lhs_of(e), a, env); lemma_reads_gpr(rhs_of(e), b, env);
    lemma_R(env, a); lemma_R(env, b);
}

/// a binary word operation of two register reads is well sorted
pub proof fn lemma_bin_wf(e: Expression, a: int, b: int)
    requires reads_gpr(lhs_of(e), a), reads_gpr(rhs_of(e), b), 0 <= a < 32, 0 <= b < 32,
        e is Add || e is Sub || e is And || e is Or || e is Xor || e is Shl || e is Shr || e is AShr,
    ensures expr_wf(e), expr_bits(e) == 32,
{
    lemma_reads_gpr(lhs_of(e), a, empty_env()); lemma_reads_gpr(rhs_of(e), b, empty_env());
}


/// value of `l op c` when l reads GPR a and c is a 32-bit constant
pub proof fn lemma_bin_ri(op: BinOp, e: Expression, a: int, c: int, env: Env)
    requires reads_gpr(lhs_of(e), a), is_const32(rhs_of(e), c), 0 <= a < 32, mips_state(env),
    ensures
        op is Add && e is Add ==> eval_spec(e, env) == EvalR::Val(32, bv_add(32, R(env, a), c as nat)),
        op is Sub && e is Sub ==> eval_spec(e, env) == EvalR::Val(32, bv_sub(32, R(env, a), c as nat)),
        op is And && e is And ==> eval_spec(e, env) == EvalR::Val(32, bv_and(32, R(env, a), c as nat)),
        op is Or && e is Or ==> eval_spec(e, env) == EvalR::Val(32, bv_or(32, R(env, a), c as nat)),
        op is Xor && e is Xor ==> eval_spec(e, env) == EvalR::Val(32, bv_xor(32, R(env, a), c as nat)),
        op is Shl && e is Shl ==> eval_spec(e, env) == EvalR::Val(32, bv_shl(32, R(env, a), c as nat)),
        op is Shr && e is Shr ==> eval_spec(e, env) == EvalR::Val(32, bv_shr(32, R(env, a), c as nat)),
        op is AShr && e is AShr ==> eval_spec(e, env) == EvalR::Val(32, bv_ashr(32, R(env, a), c as nat)),
{
    lemma_reads_gpr(lhs_of(e), a, env); lemma_const32(rhs_of(e), c, env);
    lemma_R(env, a);
}

pub proof fn lemma_bin_ri_wf(e: Expression, a: int, c: int)
    requires reads_gpr(lhs_of(e), a), is_const32(rhs_of(e), c), 0 <= a < 32,
        e is Add || e is Sub || e is And || e is Or || e is Xor || e is Shl || e is Shr || e is AShr,
    ensures expr_wf(e), expr_bits(e) == 32,
{
    lemma_reads_gpr(lhs_of(e), a, empty_env()); lemma_const32(rhs_of(e), c, empty_env());
}

/// value of `c op r` when c is a 32-bit constant and r reads GPR b
pub proof fn lemma_bin_ir(op: BinOp, e: Expression, c: int, b: int, env: Env)
    requires is_const32(lhs_of(e), c), reads_gpr(rhs_of(e), b), 0 <= b < 32, mips_state(env),
    ensures
        op is Sub && e is Sub ==> eval_spec(e, env) == EvalR::Val(32, bv_sub(32, c as nat, R(env, b))),
{
    lemma_reads_gpr(rhs_of(e), b, env); lemma_const32(lhs_of(e), c, env);
    lemma_R(env, b);
}

pub proof fn lemma_bin_ir_wf(e: Expression, c: int, b: int)
    requires is_const32(lhs_of(e), c), reads_gpr(rhs_of(e), b), 0 <= b < 32, e is Sub,
    ensures expr_wf(e), expr_bits(e) == 32,
{
    lemma_reads_gpr(rhs_of(e), b, empty_env()); lemma_const32(lhs_of(e), c, empty_env());
}

/// MIPS variable shifts use the low five bits of the amount register: `x & 31 == x % 32`
pub proof fn lemma_shamt(x: nat)
    requires x < pow2(32),
    ensures bv_and(32, x, 31) == x % 32,
{
    reveal(bv_and);
    lemma_pow2_32_64();
    lemma_and_mask(x, 5);
}

/// value of `l shift (r & 31)` when l reads GPR a and r reads GPR b
pub proof fn lemma_shift_var(op: BinOp, e: Expression, a: int, b: int, env: Env)
    requires reads_gpr(lhs_of(e), a), rhs_of(e) is And, reads_gpr(lhs_of(rhs_of(e)), b), is_const32(rhs_of(rhs_of(e)), 31), 0 <= a < 32, 0 <= b < 32, mips_state(env),
    ensures
        op is Shl && e is Shl ==> eval_spec(e, env) == EvalR::Val(32, bv_shl(32, R(env, a), R(env, b) % 32)),
        op is Shr && e is Shr ==> eval_spec(e, env) == EvalR::Val(32, bv_shr(32, R(env, a), R(env, b) % 32)),
        op is AShr && e is AShr ==> eval_spec(e, env) == EvalR::Val(32, bv_ashr(32, R(env, a), R(env, b) % 32)),
{
    let m = rhs_of(e);
    lemma_reads_gpr(lhs_of(e), a, env); lemma_reads_gpr(lhs_of(m), b, env); lemma_const32(rhs_of(m), 31, env);
    lemma_R(env, a); lemma_R(env, b);
    lemma_shamt(R(env, b));
    assert(eval_spec(m, env) == EvalR::Val(32, bv_and(32, R(env, b), 31)));
}

pub proof fn lemma_shift_var_wf(e: Expression, a: int, b: int)
    requires reads_gpr(lhs_of(e), a), rhs_of(e) is And, reads_gpr(lhs_of(rhs_of(e)), b), is_const32(rhs_of(rhs_of(e)), 31), 0 <= a < 32, 0 <= b < 32,
        e is Shl || e is Shr || e is AShr,
    ensures expr_wf(e), expr_bits(e) == 32,
{
    let m = rhs_of(e);
    lemma_reads_gpr(lhs_of(e), a, empty_env()); lemma_reads_gpr(lhs_of(m), b, empty_env()); lemma_const32(rhs_of(m), 31, empty_env());
    assert(expr_wf(m) && expr_bits(m) == 32);
}

pub proof fn lemma_nor_wf(e: Expression, a: int, b: int)
    requires e is Xor, lhs_of(e) is Or, reads_gpr(lhs_of(lhs_of(e)), a), reads_gpr(rhs_of(lhs_of(e)), b), is_const32(rhs_of(e), 0xffff_ffff), 0 <= a < 32, 0 <= b < 32,
    ensures expr_wf(e), expr_bits(e) == 32,
{
    let o = lhs_of(e);
    lemma_reads_gpr(lhs_of(o), a, empty_env()); lemma_reads_gpr(rhs_of(o), b, empty_env()); lemma_const32(rhs_of(e), 0xffff_ffff, empty_env());
    assert(expr_wf(o) && expr_bits(o) == 32);
}

/// NOR: `(l | r) ^ 0xffffffff` is the bitwise complement of the OR
pub proof fn lemma_nor(e: Expression, a: int, b: int, env: Env)
    requires e is Xor, lhs_of(e) is Or, reads_gpr(lhs_of(lhs_of(e)), a), reads_gpr(rhs_of(lhs_of(e)), b), is_const32(rhs_of(e), 0xffff_ffff), 0 <= a < 32, 0 <= b < 32, mips_state(env),
    ensures eval_spec(e, env) == EvalR::Val(32, (0xffff_ffff - nat_or(R(env, a), R(env, b))) as nat), nat_or(R(env, a), R(env, b)) <= 0xffff_ffff,
{
    let o = lhs_of(e);
    lemma_reads_gpr(lhs_of(o), a, env); lemma_reads_gpr(rhs_of(o), b, env); lemma_const32(rhs_of(e), 0xffff_ffff, env);
    lemma_R(env, a); lemma_R(env, b);
    reveal(bv_or); reveal(bv_xor);
    lemma_pow2_32_64();
    lemma_or_bound(R(env, a), R(env, b), 32);
    lemma_xor_mask(nat_or(R(env, a), R(env, b)), 32);
    assert(eval_spec(o, env) == EvalR::Val(32, bv_or(32, R(env, a), R(env, b))));
}

/// HI / LO reads
pub proof fn lemma_hilo(env: Env)
    requires mips_state(env),
    ensures eval_spec(Expression::Scalar(hi_scalar()), env) == EvalR::Val(32, HI(env)), eval_spec(Expression::Scalar(lo_scalar()), env) == EvalR::Val(32, LO(env)),
        HI(env) < pow2(32), LO(env) < pow2(32),
{}

/// there is a MIPS register-file state (so facts proved `for all states` are not vacuous; used to carry state-independent
/// conclusions such as well-sortedness out of an `assert forall`)
pub proof fn lemma_state_exists()
    ensures exists|env: Env| mips_state(env),
{
    let env: Env = |s: Scalar| Some((s.bits as nat, 0nat));
    assert forall|s: Scalar| ((#[trigger] env(s)) matches Some((w, v)) ==> w == s.bits as nat && v < pow2(w)) by { lemma_pow2_pos(s.bits as nat); }
    assert(mips_state(env));
}

// ---- memory operands -----------------------------------------------------------------------------------------------------
/// MIPS effective address: GPR[base] + sign_extend(offset) (mod 2^32)
pub open spec fn ea(env: Env, base: int, disp: int) -> nat { bv_add(32, R(env, base), enc(32, disp)) }

pub proof fn lemma_ea(e: Expression, base: int, disp: int, env: Env)
    requires e is Add, reads_gpr(lhs_of(e), base), is_const32(rhs_of(e), enc(32, disp) as int), 0 <= base < 32, mips_state(env),
    ensures eval_spec(e, env) == EvalR::Val(32, ea(env, base, disp)),
{
    lemma_bin_ri(BinOp::Add, e, base, enc(32, disp) as int, env);
}
pub proof fn lemma_ea_wf(e: Expression, base: int, disp: int)
    requires e is Add, reads_gpr(lhs_of(e), base), is_const32(rhs_of(e), enc(32, disp) as int), 0 <= base < 32,
    ensures expr_wf(e), expr_bits(e) == 32,
{
    lemma_bin_ri_wf(e, base, enc(32, disp) as int);
}

/// the scalars the delay-slot machinery uses
pub open spec fn bc_scalar() -> Scalar { named_scalar("branching_condition"@, 1) }
pub open spec fn bt_scalar() -> Scalar { named_scalar("branching_target"@, 32) }

/// MIPS link value: the address of the instruction after the delay slot
pub open spec fn link_value(i: capstone::Instr) -> nat { ((i.address + 8) as nat) % pow2(32) }

/// `rs < 0` (signed) and its negation, as the lifter builds them: Cmplts(rs, 0) resp. Cmpeq(Cmplts(rs, 0), 0)
pub open spec fn is_ltz(c: Expression, a: int) -> bool { c is Cmplts && reads_gpr(lhs_of(c), a) && is_const32(rhs_of(c), 0) }

pub proof fn lemma_cond_ltz_wf(c: Expression, a: int)
    requires 0 <= a < 32,
    ensures
        is_ltz(c, a) ==> expr_wf(c) && expr_bits(c) == 1,
        (c is Cmpeq && is_ltz(lhs_of(c), a) && is_const1(rhs_of(c), 0)) ==> expr_wf(c) && expr_bits(c) == 1,
{
    if is_ltz(c, a) { lemma_reads_gpr(lhs_of(c), a, empty_env()); lemma_const32(rhs_of(c), 0, empty_env()); }
    if c is Cmpeq && is_ltz(lhs_of(c), a) && is_const1(rhs_of(c), 0) {
        let l = lhs_of(c);
        lemma_reads_gpr(lhs_of(l), a, empty_env()); lemma_const32(rhs_of(l), 0, empty_env());
        assert(expr_wf(l) && expr_bits(l) == 1);
        assert(expr_wf(rhs_of(c)) && expr_bits(rhs_of(c)) == 1);
    }
}

pub proof fn lemma_sval0()
    ensures sval(32, 0) == 0,
{
    lemma_pow2_pos(31);
}

/// value of Cmplts(l, r) / Cmpeq(x, const1 0) at the value level
pub proof fn lemma_ltz_val(x: nat)
    ensures bv_cmplts(32, x, 0) == b2n(sval(32, x) < 0), bv_cmpeq(b2n(sval(32, x) < 0), 0) == b2n(!(sval(32, x) < 0)),
{
    reveal(bv_cmplts); reveal(bv_cmpeq);
    lemma_sval0();
}

pub proof fn lemma_cond_ltz(c: Expression, a: int, env: Env)
    requires 0 <= a < 32, mips_state(env),
    ensures
        is_ltz(c, a) ==> eval_spec(c, env) == EvalR::Val(1, b2n(sval(32, R(env, a)) < 0)),
        (c is Cmpeq && is_ltz(lhs_of(c), a) && is_const1(rhs_of(c), 0)) ==> eval_spec(c, env) == EvalR::Val(1, b2n(!(sval(32, R(env, a)) < 0))),
{
    lemma_R(env, a);
    lemma_ltz_val(R(env, a));
    if is_ltz(c, a) {
        lemma_reads_gpr(lhs_of(c), a, env); lemma_const32(rhs_of(c), 0, env);
        assert(eval_spec(c, env) == EvalR::Val(1, bv_cmplts(32, R(env, a), 0)));
    }
    if c is Cmpeq && is_ltz(lhs_of(c), a) && is_const1(rhs_of(c), 0) {
        let l = lhs_of(c);
        lemma_reads_gpr(lhs_of(l), a, env); lemma_const32(rhs_of(l), 0, env);
        assert(eval_spec(l, env) == EvalR::Val(1, bv_cmplts(32, R(env, a), 0)));
        assert(eval_spec(rhs_of(c), env) == EvalR::Val(1, 0));
        assert(eval_spec(c, env) == EvalR::Val(1, bv_cmpeq(bv_cmplts(32, R(env, a), 0), 0)));
    }
}

/// comparisons of two register reads / a register read and a constant
pub proof fn lemma_cmp_rr(c: Expression, a: int, b: int, env: Env)
    requires reads_gpr(lhs_of(c), a), reads_gpr(rhs_of(c), b), 0 <= a < 32, 0 <= b < 32, mips_state(env),
    ensures
        c is Cmplts ==> eval_spec(c, env) == EvalR::Val(1, b2n(sval(32, R(env, a)) < sval(32, R(env, b)))),
        c is Cmpltu ==> eval_spec(c, env) == EvalR::Val(1, b2n(R(env, a) < R(env, b))),
        c is Cmpeq ==> eval_spec(c, env) == EvalR::Val(1, b2n(R(env, a) == R(env, b))),
        c is Cmpneq ==> eval_spec(c, env) == EvalR::Val(1, b2n(R(env, a) != R(env, b))),
{
    reveal(bv_cmplts); reveal(bv_cmpltu); reveal(bv_cmpeq); reveal(bv_cmpneq);
    lemma_reads_gpr(lhs_of(c), a, env); lemma_reads_gpr(rhs_of(c), b, env);
    lemma_R(env, a); lemma_R(env, b);
}
pub proof fn lemma_cmp_ri(c: Expression, a: int, v: int, env: Env)
    requires reads_gpr(lhs_of(c), a), is_const32(rhs_of(c), v), 0 <= a < 32, mips_state(env),
    ensures
        c is Cmplts ==> eval_spec(c, env) == EvalR::Val(1, b2n(sval(32, R(env, a)) < sval(32, v as nat))),
        c is Cmpltu ==> eval_spec(c, env) == EvalR::Val(1, b2n(R(env, a) < v as nat)),
        c is Cmpeq ==> eval_spec(c, env) == EvalR::Val(1, b2n(R(env, a) == v as nat)),
        c is Cmpneq ==> eval_spec(c, env) == EvalR::Val(1, b2n(R(env, a) != v as nat)),
{
    reveal(bv_cmplts); reveal(bv_cmpltu); reveal(bv_cmpeq); reveal(bv_cmpneq);
    lemma_reads_gpr(lhs_of(c), a, env); lemma_const32(rhs_of(c), v, env);
    lemma_R(env, a);
}

/// division / remainder of two register reads (defined when the divisor is not zero)
pub proof fn lemma_div_rr(e: Expression, a: int, b: int, env: Env)
    requires reads_gpr(lhs_of(e), a), reads_gpr(rhs_of(e), b), 0 <= a < 32, 0 <= b < 32, mips_state(env), R(env, b) != 0,
    ensures
        e is Divs ==> eval_spec(e, env) == EvalR::Val(32, bv_divs(32, R(env, a), R(env, b))),
        e is Mods ==> eval_spec(e, env) == EvalR::Val(32, bv_mods(32, R(env, a), R(env, b))),
        e is Divu ==> eval_spec(e, env) == EvalR::Val(32, bv_divu(32, R(env, a), R(env, b))),
        e is Modu ==> eval_spec(e, env) == EvalR::Val(32, bv_modu(32, R(env, a), R(env, b))),
{
    lemma_reads_gpr(lhs_of(e), a, env); lemma_reads_gpr(rhs_of(e), b, env);
    lemma_R(env, a); lemma_R(env, b);
}
pub proof fn lemma_div_wf(e: Expression, a: int, b: int)
    requires reads_gpr(lhs_of(e), a), reads_gpr(rhs_of(e), b), 0 <= a < 32, 0 <= b < 32, e is Divs || e is Mods || e is Divu || e is Modu,
    ensures expr_wf(e), expr_bits(e) == 32,
{
    lemma_reads_gpr(lhs_of(e), a, empty_env()); lemma_reads_gpr(rhs_of(e), b, empty_env());
}

/// `e` reads no general-purpose register 1..31 (by NAME: the executor's state is keyed by scalar name): what an expression that
/// is evaluated AFTER the delay slot may depend on if it is to be `determined by the branch itself`
pub open spec fn gpr_free(e: Expression) -> bool {
    forall|i: int, k: int| 0 <= i < expr_scalars(e).len() && 1 <= k < 32 ==> (#[trigger] expr_scalars(e)[i]).name@ != #[trigger] mips_name(k)
}

/// the predicate is satisfiable by a branch: a target captured in a scalar of its own (`branching_target`, as
/// units/C02/proposed_fix_3.diff does) or a constant target is GPR-free
pub proof fn lemma_gpr_free_examples(s: Scalar, c: Constant)
    requires s.name@ == "branching_target"@,
    ensures gpr_free(Expression::Scalar(s)), gpr_free(Expression::Constant(c)),
{
    assert forall|k: int| 1 <= k < 32 implies s.name@ != #[trigger] mips_name(k) by { lemma_mips_names_distinct(k, k); }
}
