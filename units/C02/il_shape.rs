// ---- units/C02/il_shape.rs: vocabulary for the SHAPE of a lifted instruction graph (shared by the MIPS and PPC parts).
// Included inside `pub mod il`.

// ---- shape of the lifted graph ---------------------------------------------------------------------------------------
/// block `blk` has index `b`, no phi nodes and exactly the instructions `ops` (fresh indices 0, 1, ..)
pub open spec fn block_holds(blk: Block, b: usize, ops: Seq<Operation>) -> bool {
    &&& blk.index == b && blk.phi_nodes@.len() == 0
    &&& blk.instructions@.len() == ops.len()
    &&& forall|i: int| 0 <= i < ops.len() ==> #[trigger] blk.instructions@[i] == mk_instruction(i as usize, ops[i])
}

/// `n` is `o` plus ONE new block (index o.next_index) that is entry and exit and holds `cnt` instructions; no edge added,
/// every old block untouched
pub open spec fn one_block(o: ControlFlowGraph, n: ControlFlowGraph, cnt: int) -> bool {
    let b = o.next_index;
    &&& n.cfg_wf()
    &&& n.next_index == b + 1 && n.next_temp_index == o.next_temp_index && n.ssa_form == o.ssa_form
    &&& n.entry == Some(b) && n.exit == Some(b)
    &&& n.graph.edges == o.graph.edges
    &&& !o.has_block(b) && n.has_block(b)
    &&& n.graph.vertices@ == o.graph.vertices@.insert(b, n.graph.vertices@[b])
    &&& n.graph.vertices@[b].index == b && n.graph.vertices@[b].phi_nodes@.len() == 0
    &&& n.graph.vertices@[b].instructions@.len() == cnt
    &&& forall|i: int| 0 <= i < cnt ==> (#[trigger] n.graph.vertices@[b].instructions@[i]).index == i
            && n.graph.vertices@[b].instructions@[i].address is None
}
/// operation of instruction `i` of the new block
pub open spec fn new_op(o: ControlFlowGraph, n: ControlFlowGraph, i: int) -> Operation { n.graph.vertices@[o.next_index].instructions@[i].operation }
pub open spec fn assign_dst(op: Operation) -> Scalar { match op { Operation::Assign { dst, src } => dst, _ => arbitrary() } }
pub open spec fn assign_src(op: Operation) -> Expression { match op { Operation::Assign { dst, src } => src, _ => arbitrary() } }

/// the whole effect of a one-instruction register write: one new block with the single instruction `dst := src`
pub open spec fn lifted_assign(o: ControlFlowGraph, n: ControlFlowGraph, dst: Scalar) -> bool {
    one_block(o, n, 1) && new_op(o, n, 0) is Assign && assign_dst(new_op(o, n, 0)) == dst
        && expr_wf(assign_src(new_op(o, n, 0))) && expr_bits(assign_src(new_op(o, n, 0))) == dst.bits
}
pub open spec fn lifted_src(o: ControlFlowGraph, n: ControlFlowGraph) -> Expression { assign_src(new_op(o, n, 0)) }

/// first / second operand of a binary expression, the operand of an extension / truncation (ghost destructuring)
pub open spec fn lhs_of(e: Expression) -> Expression {
    match e {
        Expression::Add(l, _) | Expression::Sub(l, _) | Expression::Mul(l, _) | Expression::Divu(l, _) | Expression::Modu(l, _)
        | Expression::Divs(l, _) | Expression::Mods(l, _) | Expression::And(l, _) | Expression::Or(l, _) | Expression::Xor(l, _)
        | Expression::Shl(l, _) | Expression::Shr(l, _) | Expression::AShr(l, _) | Expression::Cmpeq(l, _) | Expression::Cmpneq(l, _)
        | Expression::Cmplts(l, _) | Expression::Cmpltu(l, _) => *l,
        Expression::Zext(_, x) | Expression::Sext(_, x) | Expression::Trun(_, x) => *x,
        _ => e,
    }
}
pub open spec fn rhs_of(e: Expression) -> Expression {
    match e {
        Expression::Add(_, r) | Expression::Sub(_, r) | Expression::Mul(_, r) | Expression::Divu(_, r) | Expression::Modu(_, r)
        | Expression::Divs(_, r) | Expression::Mods(_, r) | Expression::And(_, r) | Expression::Or(_, r) | Expression::Xor(_, r)
        | Expression::Shl(_, r) | Expression::Shr(_, r) | Expression::AShr(_, r) | Expression::Cmpeq(_, r) | Expression::Cmpneq(_, r)
        | Expression::Cmplts(_, r) | Expression::Cmpltu(_, r) => *r,
        _ => e,
    }
}


// ---- accessors for the other operations ------------------------------------------------------------------------------
pub open spec fn load_dst(op: Operation) -> Scalar { match op { Operation::Load { dst, index } => dst, _ => arbitrary() } }
pub open spec fn load_index(op: Operation) -> Expression { match op { Operation::Load { dst, index } => index, _ => arbitrary() } }
pub open spec fn store_index(op: Operation) -> Expression { match op { Operation::Store { index, src } => index, _ => arbitrary() } }
pub open spec fn store_src(op: Operation) -> Expression { match op { Operation::Store { index, src } => src, _ => arbitrary() } }
pub open spec fn branch_target(op: Operation) -> Expression { match op { Operation::Branch { target } => target, _ => arbitrary() } }

/// `e` is a well-formed 32-bit constant holding `v`
pub open spec fn is_const32(e: Expression, v: int) -> bool { e matches Expression::Constant(c) && c.wf() && c.bits == 32 && c.value@ == v }

pub proof fn lemma_const32(e: Expression, v: int, env: Env)
    requires is_const32(e, v),
    ensures eval_spec(e, env) == EvalR::Val(32, v as nat), expr_wf(e), expr_bits(e) == 32,
{}


pub open spec fn is_const1(e: Expression, v: int) -> bool { e matches Expression::Constant(c) && c.wf() && c.bits == 1 && c.value@ == v }

pub proof fn lemma_const1(e: Expression, v: int, env: Env)
    requires is_const1(e, v),
    ensures eval_spec(e, env) == EvalR::Val(1, v as nat), expr_wf(e), expr_bits(e) == 1,
{}

// ---- graphs with several new blocks ---------------------------------------------------------------------------------------
/// `n` is `o` plus `k` new blocks with the indices o.next_index .. o.next_index + k - 1 (every old block untouched, counters
/// advanced, temporaries / SSA flag unchanged)
pub open spec fn k_blocks(o: ControlFlowGraph, n: ControlFlowGraph, k: int) -> bool {
    let b = o.next_index as int;
    &&& n.cfg_wf()
    &&& n.next_index == b + k && n.next_temp_index == o.next_temp_index && n.ssa_form == o.ssa_form
    &&& forall|i: int| 0 <= i < k ==> !o.has_block((b + i) as usize) && #[trigger] n.has_block((b + i) as usize)
            && n.graph.vertices@[(b + i) as usize].index == b + i && n.graph.vertices@[(b + i) as usize].phi_nodes@.len() == 0
    &&& forall|j: usize| o.has_block(j) ==> #[trigger] n.has_block(j) && n.graph.vertices@[j] == o.graph.vertices@[j]
    &&& forall|j: usize| #[trigger] n.has_block(j) ==> o.has_block(j) || (b <= j < b + k)
}
/// block number `i` (counted from the first new block) holds exactly `cnt` instructions with fresh indices 0, 1, ..
pub open spec fn blk_len(o: ControlFlowGraph, n: ControlFlowGraph, i: int, cnt: int) -> bool {
    let blk = n.graph.vertices@[(o.next_index + i) as usize];
    &&& blk.instructions@.len() == cnt
    &&& forall|q: int| 0 <= q < cnt ==> (#[trigger] blk.instructions@[q]).index == q && blk.instructions@[q].address is None
}
/// operation of instruction `q` of new block `i`
pub open spec fn blk_op(o: ControlFlowGraph, n: ControlFlowGraph, i: int, q: int) -> Operation { n.graph.vertices@[(o.next_index + i) as usize].instructions@[q].operation }
/// the edge from new block `h` to new block `t` exists; its guard
pub open spec fn has_new_edge(o: ControlFlowGraph, n: ControlFlowGraph, h: int, t: int) -> bool { n.has_edge((o.next_index + h) as usize, (o.next_index + t) as usize) }
pub open spec fn edge_cond(o: ControlFlowGraph, n: ControlFlowGraph, h: int, t: int) -> Option<Expression> {
    n.graph.edges@[((o.next_index + h) as usize, (o.next_index + t) as usize)].condition
}
/// every old edge is still there, unchanged, and every edge of `n` is an old one or one of the new pairs (given as (h, t) offsets)
pub open spec fn edges_are(o: ControlFlowGraph, n: ControlFlowGraph, pairs: Seq<(int, int)>) -> bool {
    let b = o.next_index as int;
    &&& forall|e: (usize, usize)| o.graph.edges@.contains_key(e) ==> #[trigger] n.graph.edges@.contains_key(e) && n.graph.edges@[e] == o.graph.edges@[e]
    &&& forall|e: (usize, usize)| #[trigger] n.graph.edges@.contains_key(e) ==> o.graph.edges@.contains_key(e)
            || exists|p: int| 0 <= p < pairs.len() && e.0 == b + (#[trigger] pairs[p]).0 && e.1 == b + pairs[p].1
    &&& forall|p: int| 0 <= p < pairs.len() ==> has_new_edge(o, n, (#[trigger] pairs[p]).0, pairs[p].1)
}
pub open spec fn entry_exit(o: ControlFlowGraph, n: ControlFlowGraph, entry: int, exit: int) -> bool {
    n.entry == Some((o.next_index + entry) as usize) && n.exit == Some((o.next_index + exit) as usize)
}
/// guard `c2` is the negation of guard `c1`, as the lifters build it: Cmpeq(c1, 0:1)
pub open spec fn is_negation(c2: Expression, c1: Expression) -> bool { c2 is Cmpeq && lhs_of(c2) == c1 && is_const1(rhs_of(c2), 0) }

pub proof fn lemma_negation(c2: Expression, c1: Expression, p: bool, env: Env)
    requires is_negation(c2, c1), eval_spec(c1, env) == EvalR::Val(1, b2n(p)),
    ensures eval_spec(c2, env) == EvalR::Val(1, b2n(!p)),
{
    reveal(bv_cmpeq);
    lemma_const1(rhs_of(c2), 0, env);
    assert(eval_spec(c2, env) == bin_spec(BinOp::Cmpeq, eval_spec(c1, env), eval_spec(rhs_of(c2), env)));
}
