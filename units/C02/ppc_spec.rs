// ---- units/C02/ppc_spec.rs: PowerPC condition register fields, MASK(mb, me), CR helpers, rlwinm_

// ---- ARCHITECTURE: CR bit BI (0..31, bit 0 = most significant) belongs to CR field BI / 4; within a field bit 0 = LT (negative),
// 1 = GT (positive), 2 = EQ (zero), 3 = SO (summary overflow)
pub open spec fn cr_suffix(j: int) -> Seq<char> { if j == 0 { "-lt"@ } else if j == 1 { "-gt"@ } else if j == 2 { "-eq"@ } else { "-so"@ } }
/// name of the 1-bit IL scalar that holds bit j of CR field n (lifter convention: `<cr register name>-lt|gt|eq|so`)
pub open spec fn cr_flag_name(n: int, j: int) -> Seq<char> { ppc_name(32 + n) + cr_suffix(j) }
pub open spec fn cr_flag(n: int, j: int) -> Scalar { named_scalar(cr_flag_name(n, j), 1) }
/// the same names, written out as the 32 literals condition_register_bit_to_flag uses
pub open spec fn cr_bit_literal(bit: int) -> Seq<char> {
     if bit == 0 { "cr0-lt"@ }
    else if bit == 1 { "cr0-gt"@ }
    else if bit == 2 { "cr0-eq"@ }
    else if bit == 3 { "cr0-so"@ }
    else if bit == 4 { "cr1-lt"@ }
    else if bit == 5 { "cr1-gt"@ }
    else if bit == 6 { "cr1-eq"@ }
    else if bit == 7 { "cr1-so"@ }
    else if bit == 8 { "cr2-lt"@ }
    else if bit == 9 { "cr2-gt"@ }
    else if bit == 10 { "cr2-eq"@ }
    else if bit == 11 { "cr2-so"@ }
    else if bit == 12 { "cr3-lt"@ }
    else if bit == 13 { "cr3-gt"@ }
    else if bit == 14 { "cr3-eq"@ }
    else if bit == 15 { "cr3-so"@ }
    else if bit == 16 { "cr4-lt"@ }
    else if bit == 17 { "cr4-gt"@ }
    else if bit == 18 { "cr4-eq"@ }
    else if bit == 19 { "cr4-so"@ }
    else if bit == 20 { "cr5-lt"@ }
    else if bit == 21 { "cr5-gt"@ }
    else if bit == 22 { "cr5-eq"@ }
    else if bit == 23 { "cr5-so"@ }
    else if bit == 24 { "cr6-lt"@ }
    else if bit == 25 { "cr6-gt"@ }
    else if bit == 26 { "cr6-eq"@ }
    else if bit == 27 { "cr6-so"@ }
    else if bit == 28 { "cr7-lt"@ }
    else if bit == 29 { "cr7-gt"@ }
    else if bit == 30 { "cr7-eq"@ }
    else if bit == 31 { "cr7-so"@ }
    else { ""@ }
}

/// the literal of CR bit BI is the name of (field BI / 4, bit BI % 4)
pub proof fn lemma_cr_literals(bit: int)
    requires 0 <= bit < 32,
    ensures cr_bit_literal(bit) == cr_flag_name(bit / 4, bit % 4),
{
    reveal_strlit("-lt"); reveal_strlit("-gt"); reveal_strlit("-eq"); reveal_strlit("-so");
    reveal_strlit("cr0"); reveal_strlit("cr0-lt"); reveal_strlit("cr0-gt"); reveal_strlit("cr0-eq"); reveal_strlit("cr0-so");
    reveal_strlit("cr1"); reveal_strlit("cr1-lt"); reveal_strlit("cr1-gt"); reveal_strlit("cr1-eq"); reveal_strlit("cr1-so");
    reveal_strlit("cr2"); reveal_strlit("cr2-lt"); reveal_strlit("cr2-gt"); reveal_strlit("cr2-eq"); reveal_strlit("cr2-so");
    reveal_strlit("cr3"); reveal_strlit("cr3-lt"); reveal_strlit("cr3-gt"); reveal_strlit("cr3-eq"); reveal_strlit("cr3-so");
    reveal_strlit("cr4"); reveal_strlit("cr4-lt"); reveal_strlit("cr4-gt"); reveal_strlit("cr4-eq"); reveal_strlit("cr4-so");
    reveal_strlit("cr5"); reveal_strlit("cr5-lt"); reveal_strlit("cr5-gt"); reveal_strlit("cr5-eq"); reveal_strlit("cr5-so");
    reveal_strlit("cr6"); reveal_strlit("cr6-lt"); reveal_strlit("cr6-gt"); reveal_strlit("cr6-eq"); reveal_strlit("cr6-so");
    reveal_strlit("cr7"); reveal_strlit("cr7-lt"); reveal_strlit("cr7-gt"); reveal_strlit("cr7-eq"); reveal_strlit("cr7-so");
    assert("cr0"@ + "-lt"@ =~= "cr0-lt"@);
    assert("cr0"@ + "-gt"@ =~= "cr0-gt"@);
    assert("cr0"@ + "-eq"@ =~= "cr0-eq"@);
    assert("cr0"@ + "-so"@ =~= "cr0-so"@);
    assert("cr1"@ + "-lt"@ =~= "cr1-lt"@);
    assert("cr1"@ + "-gt"@ =~= "cr1-gt"@);
    assert("cr1"@ + "-eq"@ =~= "cr1-eq"@);
    assert("cr1"@ + "-so"@ =~= "cr1-so"@);
    assert("cr2"@ + "-lt"@ =~= "cr2-lt"@);
    assert("cr2"@ + "-gt"@ =~= "cr2-gt"@);
    assert("cr2"@ + "-eq"@ =~= "cr2-eq"@);
    assert("cr2"@ + "-so"@ =~= "cr2-so"@);
    assert("cr3"@ + "-lt"@ =~= "cr3-lt"@);
    assert("cr3"@ + "-gt"@ =~= "cr3-gt"@);
    assert("cr3"@ + "-eq"@ =~= "cr3-eq"@);
    assert("cr3"@ + "-so"@ =~= "cr3-so"@);
    assert("cr4"@ + "-lt"@ =~= "cr4-lt"@);
    assert("cr4"@ + "-gt"@ =~= "cr4-gt"@);
    assert("cr4"@ + "-eq"@ =~= "cr4-eq"@);
    assert("cr4"@ + "-so"@ =~= "cr4-so"@);
    assert("cr5"@ + "-lt"@ =~= "cr5-lt"@);
    assert("cr5"@ + "-gt"@ =~= "cr5-gt"@);
    assert("cr5"@ + "-eq"@ =~= "cr5-eq"@);
    assert("cr5"@ + "-so"@ =~= "cr5-so"@);
    assert("cr6"@ + "-lt"@ =~= "cr6-lt"@);
    assert("cr6"@ + "-gt"@ =~= "cr6-gt"@);
    assert("cr6"@ + "-eq"@ =~= "cr6-eq"@);
    assert("cr6"@ + "-so"@ =~= "cr6-so"@);
    assert("cr7"@ + "-lt"@ =~= "cr7-lt"@);
    assert("cr7"@ + "-gt"@ =~= "cr7-gt"@);
    assert("cr7"@ + "-eq"@ =~= "cr7-eq"@);
    assert("cr7"@ + "-so"@ =~= "cr7-so"@);
}

//@ source lib/translator/ppc/semantics.rs
//@ fn fn condition_register_bit_to_flag
//@ spec
    ensures
        /*@flag*/ condition_register_bit < 32 ==> r == Ok::<Scalar, Error>(cr_flag(condition_register_bit as int / 4, condition_register_bit as int % 4)),
        /*@invalid*/ condition_register_bit >= 32 ==> (r matches Err(e) && e is Custom),
//@ enter
    proof {
        broadcast use crate::strmap::axiom_into_string_str;
        if condition_register_bit < 32 { lemma_cr_literals(condition_register_bit as int); }
    }
//@ end

// ---- compare: LT / GT / EQ of a CR field -----------------------------------------------------------------------------------
/// exactly three instructions were appended: `<cr>-lt := s0; <cr>-gt := s1; <cr>-eq := s2`, each a well-sorted 1-bit expression
pub open spec fn cr_assigned(b0: Block, b1: Block, cr: Seq<char>) -> bool {
    let n = b0.instructions@.len() as int;
    let k = b0.next_instruction_index;
    &&& b1.index == b0.index && b1.phi_nodes == b0.phi_nodes
    &&& b1.next_instruction_index == k + 3
    &&& b1.instructions@.len() == n + 3
    &&& b1.instructions@.subrange(0, n) == b0.instructions@
    &&& b1.instructions@[n] == mk_instruction(k, b1.instructions@[n].operation)
    &&& b1.instructions@[n + 1] == mk_instruction((k + 1) as usize, b1.instructions@[n + 1].operation)
    &&& b1.instructions@[n + 2] == mk_instruction((k + 2) as usize, b1.instructions@[n + 2].operation)
    &&& b1.instructions@[n].operation is Assign && assign_dst(b1.instructions@[n].operation) == named_scalar(cr + "-lt"@, 1)
    &&& b1.instructions@[n + 1].operation is Assign && assign_dst(b1.instructions@[n + 1].operation) == named_scalar(cr + "-gt"@, 1)
    &&& b1.instructions@[n + 2].operation is Assign && assign_dst(b1.instructions@[n + 2].operation) == named_scalar(cr + "-eq"@, 1)
    &&& forall|i: int| n <= i < n + 3 ==> expr_wf(assign_src(#[trigger] b1.instructions@[i].operation)) && expr_bits(assign_src(b1.instructions@[i].operation)) == 1
}
/// the expression assigned by the j-th (0 = LT, 1 = GT, 2 = EQ) appended instruction
pub open spec fn cr_src(b0: Block, b1: Block, j: int) -> Expression { assign_src(b1.instructions@[b0.instructions@.len() + j].operation) }

/// PowerPC architecture (cmp / cmpi: signed, cmpl / cmpli: unsigned): the three result bits for operands a, b of width w
pub open spec fn cmp_bit(signed: bool, j: int, w: nat, a: nat, b: nat) -> nat {
    if j == 0 { b2n(if signed { sval(w, a) < sval(w, b) } else { a < b }) }
    else if j == 1 { b2n(if signed { sval(w, a) > sval(w, b) } else { a > b }) }
    else { b2n(a == b) }
}
/// `src` computes bit j of the comparison of `lhs` with `rhs`
pub open spec fn cr_bit_ok(signed: bool, j: int, lhs: Expression, rhs: Expression, src: Expression, env: Env) -> bool {
    match (eval_spec(lhs, env), eval_spec(rhs, env)) {
        (EvalR::Val(w, a), EvalR::Val(w2, b)) => eval_spec(src, env) == EvalR::Val(1, cmp_bit(signed, j, w, a, b)),
        _ => true,
    }
}

pub proof fn lemma_cr_bits(signed: bool, lhs: Expression, rhs: Expression, env: Env)
    requires expr_wf(lhs), expr_wf(rhs), expr_bits(lhs) == expr_bits(rhs), env_sorted(env),
    ensures
        signed ==> cr_bit_ok(true, 0, lhs, rhs, Expression::Cmplts(Box::new(lhs), Box::new(rhs)), env),
        signed ==> cr_bit_ok(true, 1, lhs, rhs, Expression::Cmplts(Box::new(rhs), Box::new(lhs)), env),
        !signed ==> cr_bit_ok(false, 0, lhs, rhs, Expression::Cmpltu(Box::new(lhs), Box::new(rhs)), env),
        !signed ==> cr_bit_ok(false, 1, lhs, rhs, Expression::Cmpltu(Box::new(rhs), Box::new(lhs)), env),
        cr_bit_ok(signed, 2, lhs, rhs, Expression::Cmpeq(Box::new(lhs), Box::new(rhs)), env),
{
    lemma_eval_wf_val(lhs, env); lemma_eval_wf_val(rhs, env);
    reveal(bv_cmplts); reveal(bv_cmpltu); reveal(bv_cmpeq);
}

//@ fn fn set_condition_register_signed
//@ rewrite 1 `format!("{}-lt", condition_register.name())` => `crate::c02_str::format_suffix(condition_register.name(), "-lt")` ## R-format: `format!("{}<literal>", s)` with a string argument through the stand-in of units/C02/arith.rs carrying the assumed contract of std::fmt (the characters of s followed by the literal)
//@ rewrite 1 `format!("{}-gt", condition_register.name())` => `crate::c02_str::format_suffix(condition_register.name(), "-gt")` ## R-format: `format!("{}<literal>", s)` with a string argument through the stand-in of units/C02/arith.rs carrying the assumed contract of std::fmt (the characters of s followed by the literal)
//@ rewrite 1 `format!("{}-eq", condition_register.name())` => `crate::c02_str::format_suffix(condition_register.name(), "-eq")` ## R-format: `format!("{}<literal>", s)` with a string argument through the stand-in of units/C02/arith.rs carrying the assumed contract of std::fmt (the characters of s followed by the literal)
//@ spec
    requires expr_wf(lhs), expr_wf(rhs), old(block).block_wf(), old(block).next_instruction_index < usize::MAX - 3,
    ensures
        /*@wf*/ final(block).block_wf(),
        /*@no_sort_error*/ expr_bits(lhs) == expr_bits(rhs) ==> r is Ok,
        /*@err_frame*/ r is Err ==> *final(block) == *old(block),
        /*@assigned*/ r is Ok ==> cr_assigned(*old(block), *final(block), condition_register.name@),
        /*@lt*/ r is Ok ==> (forall|env: Env| env_sorted(env) ==> #[trigger] cr_bit_ok(true, 0, lhs, rhs, cr_src(*old(block), *final(block), 0), env)),
        /*@gt*/ r is Ok ==> (forall|env: Env| env_sorted(env) ==> #[trigger] cr_bit_ok(true, 1, lhs, rhs, cr_src(*old(block), *final(block), 1), env)),
        /*@eq*/ r is Ok ==> (forall|env: Env| env_sorted(env) ==> #[trigger] cr_bit_ok(true, 2, lhs, rhs, cr_src(*old(block), *final(block), 2), env)),
//@ enter
    let ghost lhs0 = lhs; let ghost rhs0 = rhs;
    proof { broadcast use crate::strmap::axiom_into_string_string; }
//@ before 0 `Ok(())`
    proof {
        let b0 = *old(block); let b1 = *block; let n = b0.instructions@.len() as int;
        assert(b1.instructions@.subrange(0, n) =~= b0.instructions@);
        // (premises instead of plain facts: a wrong comparison then fails the named postcondition lt / gt / eq, not this proof block)
        assert forall|env: Env| (env_sorted(env) && cr_src(b0, b1, 0) == Expression::Cmplts(Box::new(lhs0), Box::new(rhs0))) implies #[trigger] cr_bit_ok(true, 0, lhs0, rhs0, cr_src(b0, b1, 0), env) by { lemma_cr_bits(true, lhs0, rhs0, env); }
        assert forall|env: Env| (env_sorted(env) && cr_src(b0, b1, 1) == Expression::Cmplts(Box::new(rhs0), Box::new(lhs0))) implies #[trigger] cr_bit_ok(true, 1, lhs0, rhs0, cr_src(b0, b1, 1), env) by { lemma_cr_bits(true, lhs0, rhs0, env); }
        assert forall|env: Env| (env_sorted(env) && cr_src(b0, b1, 2) == Expression::Cmpeq(Box::new(lhs0), Box::new(rhs0))) implies #[trigger] cr_bit_ok(true, 2, lhs0, rhs0, cr_src(b0, b1, 2), env) by { lemma_cr_bits(true, lhs0, rhs0, env); }
    }
//@ end

//@ fn fn set_condition_register_unsigned
//@ rewrite 1 `format!("{}-lt", condition_register.name())` => `crate::c02_str::format_suffix(condition_register.name(), "-lt")` ## R-format: `format!("{}<literal>", s)` with a string argument through the stand-in of units/C02/arith.rs carrying the assumed contract of std::fmt (the characters of s followed by the literal)
//@ rewrite 1 `format!("{}-gt", condition_register.name())` => `crate::c02_str::format_suffix(condition_register.name(), "-gt")` ## R-format: `format!("{}<literal>", s)` with a string argument through the stand-in of units/C02/arith.rs carrying the assumed contract of std::fmt (the characters of s followed by the literal)
//@ rewrite 1 `format!("{}-eq", condition_register.name())` => `crate::c02_str::format_suffix(condition_register.name(), "-eq")` ## R-format: `format!("{}<literal>", s)` with a string argument through the stand-in of units/C02/arith.rs carrying the assumed contract of std::fmt (the characters of s followed by the literal)
//@ spec
    requires expr_wf(lhs), expr_wf(rhs), old(block).block_wf(), old(block).next_instruction_index < usize::MAX - 3,
    ensures
        /*@wf*/ final(block).block_wf(),
        /*@no_sort_error*/ expr_bits(lhs) == expr_bits(rhs) ==> r is Ok,
        /*@err_frame*/ r is Err ==> *final(block) == *old(block),
        /*@assigned*/ r is Ok ==> cr_assigned(*old(block), *final(block), condition_register.name@),
        /*@lt*/ r is Ok ==> (forall|env: Env| env_sorted(env) ==> #[trigger] cr_bit_ok(false, 0, lhs, rhs, cr_src(*old(block), *final(block), 0), env)),
        /*@gt*/ r is Ok ==> (forall|env: Env| env_sorted(env) ==> #[trigger] cr_bit_ok(false, 1, lhs, rhs, cr_src(*old(block), *final(block), 1), env)),
        /*@eq*/ r is Ok ==> (forall|env: Env| env_sorted(env) ==> #[trigger] cr_bit_ok(false, 2, lhs, rhs, cr_src(*old(block), *final(block), 2), env)),
//@ enter
    let ghost lhs0 = lhs; let ghost rhs0 = rhs;
    proof { broadcast use crate::strmap::axiom_into_string_string; }
//@ before 0 `Ok(())`
    proof {
        let b0 = *old(block); let b1 = *block; let n = b0.instructions@.len() as int;
        assert(b1.instructions@.subrange(0, n) =~= b0.instructions@);
        // (premises instead of plain facts: a wrong comparison then fails the named postcondition lt / gt / eq, not this proof block)
        assert forall|env: Env| (env_sorted(env) && cr_src(b0, b1, 0) == Expression::Cmpltu(Box::new(lhs0), Box::new(rhs0))) implies #[trigger] cr_bit_ok(false, 0, lhs0, rhs0, cr_src(b0, b1, 0), env) by { lemma_cr_bits(false, lhs0, rhs0, env); }
        assert forall|env: Env| (env_sorted(env) && cr_src(b0, b1, 1) == Expression::Cmpltu(Box::new(rhs0), Box::new(lhs0))) implies #[trigger] cr_bit_ok(false, 1, lhs0, rhs0, cr_src(b0, b1, 1), env) by { lemma_cr_bits(false, lhs0, rhs0, env); }
        assert forall|env: Env| (env_sorted(env) && cr_src(b0, b1, 2) == Expression::Cmpeq(Box::new(lhs0), Box::new(rhs0))) implies #[trigger] cr_bit_ok(false, 2, lhs0, rhs0, cr_src(b0, b1, 2), env) by { lemma_cr_bits(false, lhs0, rhs0, env); }
    }
//@ end



//@ fn fn set_condition_register_summary_overflow
//@ rewrite 1 `format!("{}-so", condition_register.name())` => `crate::c02_str::format_suffix(condition_register.name(), "-so")` ## R-format: `format!("{}<literal>", s)` with a string argument through the stand-in of units/C02/arith.rs carrying the assumed contract of std::fmt (the characters of s followed by the literal)
//@ spec
    requires old(block).block_wf(), old(block).next_instruction_index < usize::MAX,
    ensures
        /*@wf*/ final(block).block_wf(),
        /*@so*/ final(block).pushed_op(*old(block), Operation::Assign { dst: named_scalar(condition_register.name@ + "-so"@, 1), src: summary_overflow }),
//@ enter
    proof { broadcast use crate::strmap::axiom_into_string_string; }
//@ end

// ---- operand records and register-file states -------------------------------------------------------------------------------
pub open spec fn ppc_ops(i: capstone::Instr) -> cs_ppc { i.detail->Some_0.arch->PPC_0 }
/// ASSUMED decoder contract, common part: the Instr carries details (CS_OPT_DETAIL is on) of the PPC kind
pub open spec fn ppc_decoded(i: capstone::Instr) -> bool { i.detail is Some && i.detail->Some_0.arch is PPC }
/// register number named by the register member of operand `n` (0..31 GPR, 32..39 CR field, 40 CTR)
pub open spec fn pop_reg(i: capstone::Instr, n: int) -> Option<int> { ppc_no(ppc_ops(i).operands[n].u_reg) }
pub open spec fn pop_imm(i: capstone::Instr, n: int) -> int { ppc_ops(i).operands[n].u_imm as int }
pub open spec fn pop_base(i: capstone::Instr, n: int) -> Option<int> { ppc_no(ppc_ops(i).operands[n].u_mem.base) }
pub open spec fn pop_disp(i: capstone::Instr, n: int) -> int { ppc_ops(i).operands[n].u_mem.disp as int }
pub open spec fn g(o: Option<int>) -> int { o->Some_0 }

/// every register of the table, LR and CA hold a value (and every bound scalar a value of its own width)
pub open spec fn ppc_state(env: Env) -> bool {
    &&& env_sorted(env)
    &&& forall|k: int| 0 <= k < PPC_NREGS() ==> (#[trigger] env(ppc_scalar(k))) is Some
    &&& env(lr_scalar()) is Some && env(carry_scalar()) is Some
}
/// content of register number k / LR / CTR / CA
pub open spec fn PR(env: Env, k: int) -> nat { env(ppc_scalar(k))->Some_0.1 }
pub open spec fn LR(env: Env) -> nat { env(lr_scalar())->Some_0.1 }
pub open spec fn CA(env: Env) -> nat { env(carry_scalar())->Some_0.1 }

pub open spec fn reads_ppc(e: Expression, k: int) -> bool { e == Expression::Scalar(ppc_scalar(k)) }

pub proof fn lemma_PR(e: Expression, k: int, env: Env)
    requires reads_ppc(e, k), 0 <= k < PPC_NREGS(), ppc_state(env),
    ensures eval_spec(e, env) == EvalR::Val(32, PR(env, k)), PR(env, k) < pow2(32), expr_wf(e), expr_bits(e) == 32,
{
    assert(env(ppc_scalar(k)) is Some);
}
pub proof fn lemma_reads_ppc_wf(e: Expression, k: int)
    requires reads_ppc(e, k),
    ensures expr_wf(e), expr_bits(e) == 32,
{}
pub proof fn lemma_LR_CA(env: Env)
    requires ppc_state(env),
    ensures eval_spec(Expression::Scalar(lr_scalar()), env) == EvalR::Val(32, LR(env)), LR(env) < pow2(32),
        eval_spec(Expression::Scalar(carry_scalar()), env) == EvalR::Val(1, CA(env)), CA(env) < 2,
{
    lemma2_to64();
}

/// value of `l op r` for two register reads
pub proof fn lemma_pbin_rr(e: Expression, a: int, b: int, env: Env)
    requires reads_ppc(lhs_of(e), a), reads_ppc(rhs_of(e), b), 0 <= a < PPC_NREGS(), 0 <= b < PPC_NREGS(), ppc_state(env),
    ensures
        e is Add ==> eval_spec(e, env) == EvalR::Val(32, bv_add(32, PR(env, a), PR(env, b))),
        (e is Add) ==> expr_wf(e) && expr_bits(e) == 32,
{
    lemma_PR(lhs_of(e), a, env); lemma_PR(rhs_of(e), b, env);
}
/// value of `l op c` / `c op l` for a register read and a 32-bit constant
pub proof fn lemma_pbin_ri(e: Expression, a: int, c: int, env: Env)
    requires reads_ppc(lhs_of(e), a), is_const32(rhs_of(e), c), 0 <= a < PPC_NREGS(), ppc_state(env),
    ensures
        e is Add ==> eval_spec(e, env) == EvalR::Val(32, bv_add(32, PR(env, a), c as nat)),
        (e is Add) ==> expr_wf(e) && expr_bits(e) == 32,
{
    lemma_PR(lhs_of(e), a, env); lemma_const32(rhs_of(e), c, env);
}
pub proof fn lemma_pbin_ir(e: Expression, c: int, b: int, env: Env)
    requires is_const32(lhs_of(e), c), reads_ppc(rhs_of(e), b), 0 <= b < PPC_NREGS(), ppc_state(env),
    ensures
        e is Add ==> eval_spec(e, env) == EvalR::Val(32, bv_add(32, c as nat, PR(env, b))),
        (e is Add) ==> expr_wf(e) && expr_bits(e) == 32,
{
    lemma_PR(rhs_of(e), b, env); lemma_const32(lhs_of(e), c, env);
}
pub proof fn lemma_state_exists_ppc()
    ensures exists|env: Env| ppc_state(env),
{
    let env: Env = |s: Scalar| Some((s.bits as nat, 0nat));
    assert forall|s: Scalar| ((#[trigger] env(s)) matches Some((w, v)) ==> w == s.bits as nat && v < pow2(w)) by { lemma_pow2_pos(s.bits as nat); }
    assert(ppc_state(env));
}

/// PowerPC effective address: (rA) + EXTS(d)  (the lifter adds in the order offset + base)
pub open spec fn pea(env: Env, base: int, disp: int) -> nat { bv_add(32, enc(32, disp), PR(env, base)) }

/// subf: ¬(rA) + (rB) + 1 == (rB) - (rA)
pub proof fn lemma_subf_val(a: nat, b: nat)
    requires a < pow2(32), b < pow2(32),
    ensures bv_add(32, bv_add(32, bv_xor(32, a, 0xffff_ffff), b), 1) == bv_sub(32, b, a),
{
    reveal(bv_add); reveal(bv_xor); reveal(bv_sub);
    lemma_pow2_32_64();
    lemma_xor_mask(a, 32);
    let na = (0xffff_ffff - a) as nat;
    let s1 = (na + b) % 0x1_0000_0000;
    // ((na + b) % m + 1) % m == (na + b + 1) % m
    lemma_add_mod_noop((na + b) as int, 1, 0x1_0000_0000);
    lemma_small_mod(1, 0x1_0000_0000);
    assert((s1 + 1) % 0x1_0000_0000 == (na + b + 1) % 0x1_0000_0000);
    // na + b + 1 == 2^32 + (b - a)
    lemma_mod_multiples_vanish(1, b as int - a as int, 0x1_0000_0000);
}

pub open spec fn subf_shape(e: Expression, a: int, b: int) -> bool {
    e is Add && lhs_of(e) is Add && lhs_of(lhs_of(e)) is Xor && reads_ppc(lhs_of(lhs_of(lhs_of(e))), a) && is_const32(rhs_of(lhs_of(lhs_of(e))), 0xffff_ffff)
        && reads_ppc(rhs_of(lhs_of(e)), b) && is_const32(rhs_of(e), 1)
}
pub proof fn lemma_subf_wf(e: Expression, a: int, b: int)
    requires subf_shape(e, a, b),
    ensures expr_wf(e), expr_bits(e) == 32,
{
    let s = lhs_of(e); let x = lhs_of(s);
    lemma_reads_ppc_wf(lhs_of(x), a); lemma_const32(rhs_of(x), 0xffff_ffff, empty_env());
    assert(expr_wf(x) && expr_bits(x) == 32);
    lemma_reads_ppc_wf(rhs_of(s), b);
    assert(expr_wf(s) && expr_bits(s) == 32);
    lemma_const32(rhs_of(e), 1, empty_env());
}
pub proof fn lemma_subf(e: Expression, a: int, b: int, env: Env)
    requires subf_shape(e, a, b), 0 <= a < PPC_NREGS(), 0 <= b < PPC_NREGS(), ppc_state(env),
    ensures eval_spec(e, env) == EvalR::Val(32, bv_sub(32, PR(env, b), PR(env, a))),
{
    let s = lhs_of(e); let x = lhs_of(s);
    lemma_PR(lhs_of(x), a, env); lemma_const32(rhs_of(x), 0xffff_ffff, env);
    assert(eval_spec(x, env) == EvalR::Val(32, bv_xor(32, PR(env, a), 0xffff_ffff)));
    lemma_PR(rhs_of(s), b, env);
    assert(eval_spec(s, env) == EvalR::Val(32, bv_add(32, bv_xor(32, PR(env, a), 0xffff_ffff), PR(env, b))));
    lemma_const32(rhs_of(e), 1, env);
    lemma_subf_val(PR(env, a), PR(env, b));
}

// ---- MASK(mb, me) of the rotate-and-mask instructions ------------------------------------------------------------------------
/// PowerPC architecture: bit i (0 = most significant) of MASK(mb, me): ones from bit mb through bit me, wrapping around when mb > me
pub open spec fn mask_bit(mb: int, me: int, i: int) -> bool { if mb <= me { mb <= i && i <= me } else { i >= mb || i <= me } }
/// bit k (0 = least significant) of a natural number
pub open spec fn nat_bit(m: nat, k: int) -> bool { (m / pow2(k as nat)) % 2 == 1 }
/// m is the 32-bit word MASK(mb, me)
pub open spec fn is_mask(m: nat, mb: int, me: int) -> bool {
    m < pow2(32) && forall|i: int| 0 <= i < 32 ==> (#[trigger] nat_bit(m, 31 - i)) == mask_bit(mb, me, i)
}

pub proof fn lemma_mask_bits(mask: u64, mb: u64, me: u64)
    requires mb <= 31, me <= 31,
        mask == (if mb <= me { (0xffff_ffffu64 >> mb) & ((0xffff_ffffu64 << ((31 - me) as u64)) & 0xffff_ffffu64) } else { (0xffff_ffffu64 >> mb) | ((0xffff_ffffu64 << ((31 - me) as u64)) & 0xffff_ffffu64) }),
    ensures is_mask(mask as nat, mb as int, me as int),
{
    lemma_pow2_32_64();
    let s = (31 - me) as u64;
    assert(mask <= 0xffff_ffffu64) by (bit_vector)
        requires mb <= 31, s <= 31, mask == (if mb + s <= 31 { (0xffff_ffffu64 >> mb) & ((0xffff_ffffu64 << s) & 0xffff_ffffu64) } else { (0xffff_ffffu64 >> mb) | ((0xffff_ffffu64 << s) & 0xffff_ffffu64) });
    assert forall|i: int| 0 <= i < 32 implies (#[trigger] nat_bit(mask as nat, 31 - i)) == mask_bit(mb as int, me as int, i) by {
        let iu = i as u64;
        let k = (31 - i) as u64;
        let v = mask >> k;
        assert(((v & 1) == 1) == (if mb + s <= 31 { mb <= iu && iu + s <= 31 } else { iu >= mb || iu + s <= 31 })) by (bit_vector)
            requires mb <= 31, s <= 31, iu <= 31, k == 31 - iu, v == mask >> k,
                mask == (if mb + s <= 31 { (0xffff_ffffu64 >> mb) & ((0xffff_ffffu64 << s) & 0xffff_ffffu64) } else { (0xffff_ffffu64 >> mb) | ((0xffff_ffffu64 << s) & 0xffff_ffffu64) });
        assert((v & 1) == v % 2) by (bit_vector);
        vstd::bits::lemma_u64_shr_is_div(mask, k);
    }
}

/// the 32-bit word an And-mask expression masks with
pub open spec fn mask_of(src: Expression) -> nat { match rhs_of(src) { Expression::Constant(c) => c.value@, _ => arbitrary() } }
/// `src` computes ROTL32(rs, sh) & <its mask constant>
pub open spec fn rot_and_ok(rs: Expression, sh: nat, src: Expression, env: Env) -> bool {
    eval_spec(rs, env) matches EvalR::Val(w, a) ==> eval_spec(src, env) == EvalR::Val(32, bv_and(32, rotl_spec(32, a, sh), mask_of(src)))
}

pub proof fn lemma_rot_and(rs: Expression, sh: nat, src: Expression, env: Env)
    requires
        expr_wf(rs), expr_bits(rs) == 32, env_sorted(env), sh <= 32,
        src is And, rhs_of(src) matches Expression::Constant(c) && c.wf() && c.bits == 32,
        eval_spec(lhs_of(src), env) == rotl_eval(eval_spec(rs, env), EvalR::Val(32, sh)),
    ensures rot_and_ok(rs, sh, src, env),
{
    lemma_eval_wf_val(rs, env);
    let c = rhs_of(src)->Constant_0;
    assert(eval_spec(rhs_of(src), env) == EvalR::Val(32, c.value@));
    assert(eval_spec(src, env) == bin_spec(BinOp::And, eval_spec(lhs_of(src), env), eval_spec(rhs_of(src), env)));
}

//@ fn fn rlwinm_
//@ spec
    requires expr_wf(rs), expr_bits(rs) == 32, ra.bits == 32, old(control_flow_graph).cfg_wf(), old(control_flow_graph).next_index < usize::MAX,
    ensures
        /*@reject*/ (mb > 31 || me > 31) ==> r is Err,
        /*@ok*/ (mb <= 31 && me <= 31) ==> r is Ok,
        /*@shape*/ r is Ok ==> lifted_assign(*old(control_flow_graph), *final(control_flow_graph), ra),
        /*@mask*/ r is Ok ==> (lifted_src(*old(control_flow_graph), *final(control_flow_graph)) is And
            && (rhs_of(lifted_src(*old(control_flow_graph), *final(control_flow_graph))) matches Expression::Constant(c) && c.wf() && c.bits == 32)
            && is_mask(mask_of(lifted_src(*old(control_flow_graph), *final(control_flow_graph))), mb as int, me as int)),
        /*@value*/ (r is Ok && sh <= 32) ==> (forall|env: Env| env_sorted(env) ==> #[trigger] rot_and_ok(rs, sh as nat, lifted_src(*old(control_flow_graph), *final(control_flow_graph)), env)),
//@ enter
    let ghost rs0 = rs;
    proof { lemma_pow2_32_64(); }
//@ before 0 `let block_index`
    proof { lemma_mask_bits(mask, mb, me); lemma_small_mod(mask as nat, pow2(32)); if sh <= 32 { lemma_small_mod(sh as nat, pow2(32)); } }
//@ before 0 `block.assign(ra, value)`
    proof {
        let rot = lhs_of(value);
        assert(expr_wf(rhs_of(value)) && expr_bits(rhs_of(value)) == 32);
        assert(expr_wf(value) && expr_bits(value) == 32);
        // (premises instead of plain facts: a wrong mask / rotation then fails the named postconditions, not this proof block)
        assert forall|env: Env| (env_sorted(env) && sh <= 32 && value is And) implies #[trigger] rot_and_ok(rs0, sh as nat, value, env) by {
            lemma_eval_wf_val(rs0, env);
            let x = eval_spec(rot, env);
            if eval_spec(rs0, env) is Val { lemma_rot_and(rs0, sh as nat, value, env); }
        }
    }
//@ end

// ---- srawi: carry ---------------------------------------------------------------------------------------------------------
/// PowerPC architecture: CA of srawi: the source is negative and at least one 1-bit is shifted out
pub open spec fn srawi_ca(a: nat, sh: nat) -> nat { b2n(sval(32, a) < 0 && a % pow2(sh) != 0) }

pub open spec fn srawi_ca_shape(c: Expression, a: int, sh: nat) -> bool {
    c is And && lhs_of(c) is Cmplts && reads_ppc(lhs_of(lhs_of(c)), a) && is_const32(rhs_of(lhs_of(c)), 0)
        && rhs_of(c) is Cmpneq && lhs_of(rhs_of(c)) is And && reads_ppc(lhs_of(lhs_of(rhs_of(c))), a) && is_const32(rhs_of(lhs_of(rhs_of(c))), pow2(sh) - 1)
        && is_const32(rhs_of(rhs_of(c)), 0)
}

pub proof fn lemma_and_bits(p: bool, q: bool)
    ensures nat_and(b2n(p), b2n(q)) == b2n(p && q),
{
    if p && q { assert(nat_and(0, 0) == 0); assert(1nat / 2 == 0); }
}

pub proof fn lemma_srawi_ca_wf(c: Expression, a: int, sh: nat)
    requires srawi_ca_shape(c, a, sh),
    ensures expr_wf(c), expr_bits(c) == 1,
{
    let l = lhs_of(c); let r = rhs_of(c); let m = lhs_of(r);
    lemma_reads_ppc_wf(lhs_of(l), a); lemma_const32(rhs_of(l), 0, empty_env());
    assert(expr_wf(l) && expr_bits(l) == 1);
    lemma_reads_ppc_wf(lhs_of(m), a); lemma_const32(rhs_of(m), pow2(sh) - 1, empty_env());
    assert(expr_wf(m) && expr_bits(m) == 32);
    lemma_const32(rhs_of(r), 0, empty_env());
    assert(expr_wf(r) && expr_bits(r) == 1);
}

pub proof fn lemma_srawi_ca(c: Expression, a: int, sh: nat, env: Env)
    requires srawi_ca_shape(c, a, sh), 0 <= a < PPC_NREGS(), sh < 32, ppc_state(env),
    ensures eval_spec(c, env) == EvalR::Val(1, srawi_ca(PR(env, a), sh)),
{
    let l = lhs_of(c); let r = rhs_of(c); let m = lhs_of(r);
    let x = PR(env, a);
    lemma_PR(lhs_of(l), a, env); lemma_const32(rhs_of(l), 0, env);
    assert(eval_spec(l, env) == EvalR::Val(1, bv_cmplts(32, x, 0)));
    lemma_PR(lhs_of(m), a, env); lemma_const32(rhs_of(m), pow2(sh) - 1, env);
    assert(eval_spec(m, env) == EvalR::Val(32, bv_and(32, x, (pow2(sh) - 1) as nat)));
    lemma_const32(rhs_of(r), 0, env);
    assert(eval_spec(r, env) == EvalR::Val(1, bv_cmpneq(bv_and(32, x, (pow2(sh) - 1) as nat), 0)));
    assert(eval_spec(c, env) == EvalR::Val(1, bv_and(1, bv_cmplts(32, x, 0), bv_cmpneq(bv_and(32, x, (pow2(sh) - 1) as nat), 0))));
    reveal(bv_and); reveal(bv_cmplts); reveal(bv_cmpneq);
    lemma_and_mask(x, sh);
    lemma_pow2_pos(31);
    assert(sval(32, 0) == 0);
    lemma_and_bits(sval(32, x) < 0, x % pow2(sh) != 0);
}

/// the arithmetic shift itself: Expression::sra's result evaluates like AShr (unit C04's contract)
pub proof fn lemma_sra_val(e: Expression, a: int, sh: nat, env: Env)
    requires reads_ppc(lhs_of(e), a), is_const32(rhs_of(e), sh as int), e is AShr, 0 <= a < PPC_NREGS(), ppc_state(env),
    ensures eval_spec(e, env) == EvalR::Val(32, bv_ashr(32, PR(env, a), sh)),
{
    lemma_PR(lhs_of(e), a, env); lemma_const32(rhs_of(e), sh as int, env);
}

// ---- addze: carry out -----------------------------------------------------------------------------------------------------
/// (a + c) mod 2^32 is below a exactly when the 32-bit addition of the carry c (0 / 1) carries out
pub proof fn lemma_addze_carry(a: nat, c: nat)
    requires a < pow2(32), c < 2,
    ensures bv_cmpltu(bv_add(32, a, c), a) == b2n(a + c >= pow2(32)),
{
    reveal(bv_cmpltu); reveal(bv_add);
    lemma_pow2_32_64();
    if a + c >= 0x1_0000_0000 {
        lemma_mod_multiples_vanish(1, (a + c) as int - 0x1_0000_0000, 0x1_0000_0000);
        lemma_small_mod(0, 0x1_0000_0000);
    } else {
        lemma_small_mod(a + c, 0x1_0000_0000);
    }
}

pub proof fn lemma_addze_sum(e: Expression, a: int, env: Env)
    requires e is Add, reads_ppc(lhs_of(e), a), rhs_of(e) == Expression::Zext(32, Box::new(Expression::Scalar(carry_scalar()))), 0 <= a < PPC_NREGS(), ppc_state(env),
    ensures eval_spec(e, env) == EvalR::Val(32, bv_add(32, PR(env, a), CA(env))), expr_wf(e), expr_bits(e) == 32,
{
    lemma_PR(lhs_of(e), a, env); lemma_LR_CA(env);
    reveal(bv_zext);
    let z = rhs_of(e);
    assert(expr_wf(Expression::Scalar(carry_scalar())) && expr_bits(Expression::Scalar(carry_scalar())) == 1);
    assert(eval_spec(z, env) == zext_spec(32, eval_spec(Expression::Scalar(carry_scalar()), env)));
    assert(expr_wf(z) && expr_bits(z) == 32);
}

/// register-indirect branch target: `(reg & 0xfffffffc)`: the two low-order bits of LR / CTR are ignored
pub open spec fn masked_target(e: Expression, s: Scalar) -> bool { e is And && lhs_of(e) == Expression::Scalar(s) && is_const32(rhs_of(e), 0xffff_fffc) }
pub proof fn lemma_masked_target(e: Expression, s: Scalar, env: Env)
    requires masked_target(e, s), s.bits == 32, env_sorted(env), env(s) is Some,
    ensures eval_spec(e, env) == EvalR::Val(32, bv_and(32, env(s)->Some_0.1, 0xffff_fffc)), expr_wf(e), expr_bits(e) == 32,
{
    lemma_const32(rhs_of(e), 0xffff_fffc, env);
    assert(expr_wf(lhs_of(e)) && expr_bits(lhs_of(e)) == 32);
    assert(eval_spec(lhs_of(e), env) == EvalR::Val(32, env(s)->Some_0.1));
    assert(eval_spec(e, env) == bin_spec(BinOp::And, eval_spec(lhs_of(e), env), eval_spec(rhs_of(e), env)));
}
