// ---- units/C02/ppc_regs.rs: translator::ppc::semantics::{PpcRegister, PPC_REGISTERS, get_register, details}
//@ source lib/translator/ppc/semantics.rs
//@ item struct PpcRegister

// ---- the register table, extracted TWICE from the same source text (executable constant + ghost twin proved equal)
//@ itemx const PPC_REGISTERS
//@ rewrite 1 `const PPC_REGISTERS: &[PpcRegister] = &[` => `const PPC_REGISTERS_TWIN: () = (); pub open spec fn ppc_table_spec() -> Seq<PpcRegister> { seq![` ## R-table-twin: ghost twin of the table: the same literal read as a mathematical sequence (a dummy constant keeps the item a `const` for the extractor); spec-only, no executable token involved
//@ rewrite 1 `] ;` => `] }` ## R-table-twin: closes the spec function
//@ end
//@ itemx const PPC_REGISTERS exec_const
//@ rewrite 1 `const PPC_REGISTERS: &[PpcRegister] = &[` => `const PPC_REGISTERS: &'static [PpcRegister] ensures PPC_REGISTERS@ =~= ppc_table_spec() { let vf_table: &'static [PpcRegister] = &[` ## R-exec-const: Verus takes a slice constant only in the block form `exec const N: &'static [T] ensures .. { .. }` (a `const` is implicitly 'static); same literal, same value
//@ rewrite 1 `] ;` => `]; vf_table } pub const VF_PPC_REGISTERS_END: () = ();` ## R-exec-const: closes the block (the unit constant after it only gives tools/rsx.py the `;` it expects at the end of a `const` item)
//@ end

// ---- ARCHITECTURE side (independent of the table): register numbers 0..31 = GPR r0..r31, 32..39 = CR fields 0..7, 40 = CTR
pub open spec fn ppc_reg_of(k: int) -> ppc_reg {
     if k == 0 { ppc_reg::PPC_REG_R0 }
    else if k == 1 { ppc_reg::PPC_REG_R1 }
    else if k == 2 { ppc_reg::PPC_REG_R2 }
    else if k == 3 { ppc_reg::PPC_REG_R3 }
    else if k == 4 { ppc_reg::PPC_REG_R4 }
    else if k == 5 { ppc_reg::PPC_REG_R5 }
    else if k == 6 { ppc_reg::PPC_REG_R6 }
    else if k == 7 { ppc_reg::PPC_REG_R7 }
    else if k == 8 { ppc_reg::PPC_REG_R8 }
    else if k == 9 { ppc_reg::PPC_REG_R9 }
    else if k == 10 { ppc_reg::PPC_REG_R10 }
    else if k == 11 { ppc_reg::PPC_REG_R11 }
    else if k == 12 { ppc_reg::PPC_REG_R12 }
    else if k == 13 { ppc_reg::PPC_REG_R13 }
    else if k == 14 { ppc_reg::PPC_REG_R14 }
    else if k == 15 { ppc_reg::PPC_REG_R15 }
    else if k == 16 { ppc_reg::PPC_REG_R16 }
    else if k == 17 { ppc_reg::PPC_REG_R17 }
    else if k == 18 { ppc_reg::PPC_REG_R18 }
    else if k == 19 { ppc_reg::PPC_REG_R19 }
    else if k == 20 { ppc_reg::PPC_REG_R20 }
    else if k == 21 { ppc_reg::PPC_REG_R21 }
    else if k == 22 { ppc_reg::PPC_REG_R22 }
    else if k == 23 { ppc_reg::PPC_REG_R23 }
    else if k == 24 { ppc_reg::PPC_REG_R24 }
    else if k == 25 { ppc_reg::PPC_REG_R25 }
    else if k == 26 { ppc_reg::PPC_REG_R26 }
    else if k == 27 { ppc_reg::PPC_REG_R27 }
    else if k == 28 { ppc_reg::PPC_REG_R28 }
    else if k == 29 { ppc_reg::PPC_REG_R29 }
    else if k == 30 { ppc_reg::PPC_REG_R30 }
    else if k == 31 { ppc_reg::PPC_REG_R31 }
    else if k == 32 { ppc_reg::PPC_REG_CR0 }
    else if k == 33 { ppc_reg::PPC_REG_CR1 }
    else if k == 34 { ppc_reg::PPC_REG_CR2 }
    else if k == 35 { ppc_reg::PPC_REG_CR3 }
    else if k == 36 { ppc_reg::PPC_REG_CR4 }
    else if k == 37 { ppc_reg::PPC_REG_CR5 }
    else if k == 38 { ppc_reg::PPC_REG_CR6 }
    else if k == 39 { ppc_reg::PPC_REG_CR7 }
    else if k == 40 { ppc_reg::PPC_REG_CTR }
    else { ppc_reg::PPC_REG_INVALID }
}
pub open spec fn ppc_no(r: ppc_reg) -> Option<int> {
    match r {
        ppc_reg::PPC_REG_R0 => Some(0int),
        ppc_reg::PPC_REG_R1 => Some(1int),
        ppc_reg::PPC_REG_R2 => Some(2int),
        ppc_reg::PPC_REG_R3 => Some(3int),
        ppc_reg::PPC_REG_R4 => Some(4int),
        ppc_reg::PPC_REG_R5 => Some(5int),
        ppc_reg::PPC_REG_R6 => Some(6int),
        ppc_reg::PPC_REG_R7 => Some(7int),
        ppc_reg::PPC_REG_R8 => Some(8int),
        ppc_reg::PPC_REG_R9 => Some(9int),
        ppc_reg::PPC_REG_R10 => Some(10int),
        ppc_reg::PPC_REG_R11 => Some(11int),
        ppc_reg::PPC_REG_R12 => Some(12int),
        ppc_reg::PPC_REG_R13 => Some(13int),
        ppc_reg::PPC_REG_R14 => Some(14int),
        ppc_reg::PPC_REG_R15 => Some(15int),
        ppc_reg::PPC_REG_R16 => Some(16int),
        ppc_reg::PPC_REG_R17 => Some(17int),
        ppc_reg::PPC_REG_R18 => Some(18int),
        ppc_reg::PPC_REG_R19 => Some(19int),
        ppc_reg::PPC_REG_R20 => Some(20int),
        ppc_reg::PPC_REG_R21 => Some(21int),
        ppc_reg::PPC_REG_R22 => Some(22int),
        ppc_reg::PPC_REG_R23 => Some(23int),
        ppc_reg::PPC_REG_R24 => Some(24int),
        ppc_reg::PPC_REG_R25 => Some(25int),
        ppc_reg::PPC_REG_R26 => Some(26int),
        ppc_reg::PPC_REG_R27 => Some(27int),
        ppc_reg::PPC_REG_R28 => Some(28int),
        ppc_reg::PPC_REG_R29 => Some(29int),
        ppc_reg::PPC_REG_R30 => Some(30int),
        ppc_reg::PPC_REG_R31 => Some(31int),
        ppc_reg::PPC_REG_CR0 => Some(32int),
        ppc_reg::PPC_REG_CR1 => Some(33int),
        ppc_reg::PPC_REG_CR2 => Some(34int),
        ppc_reg::PPC_REG_CR3 => Some(35int),
        ppc_reg::PPC_REG_CR4 => Some(36int),
        ppc_reg::PPC_REG_CR5 => Some(37int),
        ppc_reg::PPC_REG_CR6 => Some(38int),
        ppc_reg::PPC_REG_CR7 => Some(39int),
        ppc_reg::PPC_REG_CTR => Some(40int),
        _ => None,
    }
}
/// the IL scalar NAME the lifter uses for register number k (lifter convention; the bounded witness uses the same list)
pub open spec fn ppc_name(k: int) -> Seq<char> {
     if k == 0 { "r0"@ }
    else if k == 1 { "r1"@ }
    else if k == 2 { "r2"@ }
    else if k == 3 { "r3"@ }
    else if k == 4 { "r4"@ }
    else if k == 5 { "r5"@ }
    else if k == 6 { "r6"@ }
    else if k == 7 { "r7"@ }
    else if k == 8 { "r8"@ }
    else if k == 9 { "r9"@ }
    else if k == 10 { "r10"@ }
    else if k == 11 { "r11"@ }
    else if k == 12 { "r12"@ }
    else if k == 13 { "r13"@ }
    else if k == 14 { "r14"@ }
    else if k == 15 { "r15"@ }
    else if k == 16 { "r16"@ }
    else if k == 17 { "r17"@ }
    else if k == 18 { "r18"@ }
    else if k == 19 { "r19"@ }
    else if k == 20 { "r20"@ }
    else if k == 21 { "r21"@ }
    else if k == 22 { "r22"@ }
    else if k == 23 { "r23"@ }
    else if k == 24 { "r24"@ }
    else if k == 25 { "r25"@ }
    else if k == 26 { "r26"@ }
    else if k == 27 { "r27"@ }
    else if k == 28 { "r28"@ }
    else if k == 29 { "r29"@ }
    else if k == 30 { "r30"@ }
    else if k == 31 { "r31"@ }
    else if k == 32 { "cr0"@ }
    else if k == 33 { "cr1"@ }
    else if k == 34 { "cr2"@ }
    else if k == 35 { "cr3"@ }
    else if k == 36 { "cr4"@ }
    else if k == 37 { "cr5"@ }
    else if k == 38 { "cr6"@ }
    else if k == 39 { "cr7"@ }
    else if k == 40 { "ctr"@ }
    else { ""@ }
}
pub open spec fn PPC_NREGS() -> int { 41 }

pub proof fn lemma_ppc_no_reg(k: int)
    requires 0 <= k < PPC_NREGS(),
    ensures ppc_no(ppc_reg_of(k)) == Some(k),
{}
pub proof fn lemma_ppc_reg_no(r: ppc_reg)
    ensures ppc_no(r) matches Some(k) ==> 0 <= k < PPC_NREGS() && ppc_reg_of(k) == r,
{}

/// the register names are pairwise different, and none of them is `lr` or `carry`
pub proof fn lemma_ppc_names_distinct(i: int, j: int)
    requires 0 <= i < PPC_NREGS(), 0 <= j < PPC_NREGS(),
    ensures
        i != j ==> ppc_name(i) != ppc_name(j),
        ppc_name(i) != "lr"@, ppc_name(i) != "carry"@,
{
    reveal_strlit("r0");
    reveal_strlit("r1");
    reveal_strlit("r2");
    reveal_strlit("r3");
    reveal_strlit("r4");
    reveal_strlit("r5");
    reveal_strlit("r6");
    reveal_strlit("r7");
    reveal_strlit("r8");
    reveal_strlit("r9");
    reveal_strlit("r10");
    reveal_strlit("r11");
    reveal_strlit("r12");
    reveal_strlit("r13");
    reveal_strlit("r14");
    reveal_strlit("r15");
    reveal_strlit("r16");
    reveal_strlit("r17");
    reveal_strlit("r18");
    reveal_strlit("r19");
    reveal_strlit("r20");
    reveal_strlit("r21");
    reveal_strlit("r22");
    reveal_strlit("r23");
    reveal_strlit("r24");
    reveal_strlit("r25");
    reveal_strlit("r26");
    reveal_strlit("r27");
    reveal_strlit("r28");
    reveal_strlit("r29");
    reveal_strlit("r30");
    reveal_strlit("r31");
    reveal_strlit("cr0");
    reveal_strlit("cr1");
    reveal_strlit("cr2");
    reveal_strlit("cr3");
    reveal_strlit("cr4");
    reveal_strlit("cr5");
    reveal_strlit("cr6");
    reveal_strlit("cr7");
    reveal_strlit("ctr");
    reveal_strlit("lr"); reveal_strlit("carry");
    let a = ppc_name(i);
    let b = ppc_name(j);
    assert(2 <= a.len() <= 3 && 2 <= b.len() <= 3);
    if i != j && a == b {
        assert(a.len() == b.len() && a[0] == b[0] && a[1] == b[1]);
        if a.len() == 3 { assert(a[2] == b[2]); }
    }
    if a == "lr"@ { assert(a[0] == 'l'); }
}

// ---- the REGISTER TABLE INVARIANT: record k is register number k: its capstone id, its name, 32 bits wide
pub open spec fn ppc_rec_ok(x: PpcRegister, k: int) -> bool {
    x.capstone_reg == ppc_reg_of(k) && x.bits == 32 && x.name@ == ppc_name(k)
}
pub open spec fn ppc_recs_ok_from(t: Seq<PpcRegister>, k: int) -> bool
    decreases t.len() - k,
{
    if k < 0 || k >= t.len() { true } else { ppc_rec_ok(t[k], k) && ppc_recs_ok_from(t, k + 1) }
}
pub proof fn lemma_ppc_recs_ok(t: Seq<PpcRegister>, k: int, i: int)
    requires ppc_recs_ok_from(t, k), 0 <= k <= i < t.len(),
    ensures ppc_rec_ok(t[i], i),
    decreases i - k,
{
    if k < i { lemma_ppc_recs_ok(t, k + 1, i); }
}
/// every record of the REAL table satisfies the invariant and the table has exactly 41 records
pub proof fn lemma_ppc_table_ok()
    ensures ppc_table_spec().len() == PPC_NREGS(), ppc_recs_ok_from(ppc_table_spec(), 0),
{
    assert(ppc_table_spec().len() == 41) by (compute);
    assert(ppc_recs_ok_from(ppc_table_spec(), 0)) by (compute);
}
pub proof fn lemma_ppc_table_rec(k: int)
    requires 0 <= k < PPC_NREGS(),
    ensures ppc_rec_ok(ppc_table_spec()[k], k),
{
    lemma_ppc_table_ok();
    lemma_ppc_recs_ok(ppc_table_spec(), 0, k);
}
pub open spec fn ppc_lookup_from(t: Seq<PpcRegister>, id: ppc_reg, k: int) -> Option<int>
    decreases t.len() - k,
{
    if k < 0 || k >= t.len() { None } else if t[k].capstone_reg == id { Some(k) } else { ppc_lookup_from(t, id, k + 1) }
}
pub proof fn lemma_ppc_lookup(t: Seq<PpcRegister>, id: ppc_reg, k: int)
    requires t.len() == PPC_NREGS(), ppc_recs_ok_from(t, 0), 0 <= k <= PPC_NREGS(),
    ensures ppc_lookup_from(t, id, k) == (match ppc_no(id) { Some(n) => if n >= k { Some(n) } else { None }, None => None }),
    decreases PPC_NREGS() - k,
{
    lemma_ppc_reg_no(id);
    if k < PPC_NREGS() {
        lemma_ppc_recs_ok(t, 0, k);
        lemma_ppc_no_reg(k);
        lemma_ppc_lookup(t, id, k + 1);
    }
}

//@ fn fn get_register
//@ rewrite 1 `PPC_REGISTERS.iter()` => `it: PPC_REGISTERS.iter()` ## R-iter-name: names the ghost iterator of the `for` loop (no executable change)
//@ spec
    ensures
        /*@found*/ ppc_no(capstone_id) matches Some(k) ==> (r matches Ok(x) && *x == ppc_table_spec()[k] && ppc_rec_ok(*x, k)),
        /*@missing*/ ppc_no(capstone_id) is None ==> (r matches Err(e) && e is Custom),
//@ enter
    proof { lemma_ppc_table_ok(); lemma_ppc_lookup(ppc_table_spec(), capstone_id, 0); lemma_ppc_reg_no(capstone_id); }
//@ loop 0
    invariant
        it.seq().len() == ppc_table_spec().len(),
        forall|j: int| 0 <= j < it.seq().len() ==> *#[trigger] it.seq()[j] == ppc_table_spec()[j],
        ppc_lookup_from(ppc_table_spec(), capstone_id, 0) == ppc_lookup_from(ppc_table_spec(), capstone_id, it.index@ as int),
//@ before 0 `return Ok(register)`
    proof { lemma_ppc_table_rec(it.index@ as int); }
//@ end

/// the IL scalar that holds register number k (GPR, CR field register, CTR)
pub open spec fn ppc_scalar(k: int) -> Scalar { named_scalar(ppc_name(k), 32) }
pub open spec fn lr_scalar() -> Scalar { named_scalar("lr"@, 32) }
pub open spec fn ctr_scalar() -> Scalar { named_scalar("ctr"@, 32) }
pub open spec fn carry_scalar() -> Scalar { named_scalar("carry"@, 1) }

impl PpcRegister {
//@ fn impl PpcRegister :: fn name
//@ spec
    ensures /*@field*/ r@ == self.name@,
//@ end

//@ fn impl PpcRegister :: fn scalar
//@ spec
    ensures /*@scalar*/ r == named_scalar(self.name@, self.bits), /*@name*/ r.name@ == self.name@,
//@ enter
    proof { broadcast use crate::strmap::axiom_into_string_str; }
//@ end

//@ fn impl PpcRegister :: fn expression
//@ spec
    ensures /*@reg*/ r == Expression::Scalar(named_scalar(self.name@, self.bits)),
//@ enter
    proof { broadcast use crate::strmap::axiom_into_string_str; }
//@ end
}

//@ fn fn details
//@ spec
    requires /*ASSUMED decoder contract: translate_block switches CS_OPT_DETAIL on, so every Instr carries details*/ instruction.detail is Some,
    ensures
        /*@ppc*/ instruction.detail->Some_0.arch matches capstone::DetailsArch::PPC(x) ==> r == Ok::<capstone::cs_ppc, Error>(x),
        /*@other*/ !(instruction.detail->Some_0.arch is PPC) ==> (r matches Err(e) && e is Custom),
//@ end
