// ---- units/C02/il_glue.rs: the IL helper constructors the MIPS / PPC register code calls, under NAME-precise contracts
// (il::scalar, il::expr_scalar; unit C15's contract of Scalar::new says `bits` / `ssa` only, so the REAL text of
// Scalar::new is extracted a second time as `Scalar::new_named` and proved with the name in its contract).
// Included inside `pub mod il`.

/// the String that holds exactly these characters (unique: prelude/strmap.rs axiom_string_ext)
pub open spec fn string_of(c: Seq<char>) -> String { choose|s: String| s@ == c }

pub proof fn lemma_string_of(s: String)
    ensures string_of(s@) == s,
{
    broadcast use crate::strmap::axiom_string_ext;
    let t = string_of(s@);
    assert(t@ == s@);
}

/// the scalar called `name` of width `bits` (not in SSA form), as `il::scalar(name, bits)` builds it
pub open spec fn named_scalar(name: Seq<char>, bits: usize) -> Scalar {
    Scalar { name: string_of(name), bits, ssa: None }
}

impl Scalar {
//@ fn lib/il/scalar.rs :: impl Scalar :: fn new name=new_named
//@ rewrite 1 `name.into()` => `into_string(name)` ## R-into: the same conversion through the stand-in of prelude/strmap.rs carrying the assumed contract of Into<String> (keeps the characters)
//@ spec
    ensures /*@fields*/ r == named_scalar(into_string_chars(name), bits), /*@name*/ r.name@ == into_string_chars(name),
//@ enter
    proof { assert forall|s: String| #[trigger] string_of(s@) == s by { lemma_string_of(s); } }
//@ end
}

//@ source lib/il/mod.rs
//@ fn fn scalar
//@ rewrite 1 `Scalar::new(name, bits)` => `Scalar::new_named(name, bits)` ## R-alias: Scalar::new_named IS the real text of Scalar::new (lib/il/scalar.rs), extracted on every run under a second name because unit C15's imported contract of Scalar::new does not mention the name
//@ spec
    ensures /*@fields*/ r == named_scalar(into_string_chars(name), bits), /*@name*/ r.name@ == into_string_chars(name),
//@ end

//@ fn fn expr_scalar
//@ rewrite 1 `Scalar::new(name, bits)` => `Scalar::new_named(name, bits)` ## R-alias: Scalar::new_named IS the real text of Scalar::new (lib/il/scalar.rs), extracted on every run under a second name because unit C15's imported contract of Scalar::new does not mention the name
//@ spec
    ensures /*@fields*/ r == Expression::Scalar(named_scalar(into_string_chars(name), bits)), /*@name*/ named_scalar(into_string_chars(name), bits).name@ == into_string_chars(name),
//@ end

impl Scalar {
//@ fn lib/il/scalar.rs :: impl Scalar :: fn temp
//@ spec
    ensures /*@fields*/ r.bits == bits && r.ssa is None,
//@ end
}

// `scalar.into()` : Expression (lib/il/expression.rs, `impl From<Scalar> for Expression`), proved here
impl vstd::std_specs::convert::FromSpecImpl<Scalar> for Expression {
    open spec fn obeys_from_spec() -> bool { true }
    open spec fn from_spec(s: Scalar) -> Expression { Expression::Scalar(s) }
}
//@ source lib/il/expression.rs
impl From<Scalar> for Expression {
//@ fn impl From<Scalar> for Expression :: fn from nopub
//@ spec
    ensures r == Expression::Scalar(scalar),
//@ end
}
