// ---- units/C02/arith.rs: integer-cast and small arithmetic facts the lifters rely on (included at crate root)
pub mod c02_arith {
use vstd::prelude::*;
use vstd::arithmetic::power2::*;
use vstd::arithmetic::div_mod::*;
use crate::*;
verus! {

/// Rust `as` between integer types of the same width reinterprets the two's-complement bits (Rust reference; Verus: bit_vector mode)
pub proof fn lemma_i64_as_u64(x: i64)
    ensures (x as u64) as int == (if x >= 0 { x as int } else { x as int + 0x1_0000_0000_0000_0000 }),
{
    let r = x as u64;
    assert(x >= 0 ==> r == x) by (bit_vector) requires r == x as u64;
    assert(x < 0 ==> r >= 0x8000_0000_0000_0000u64) by (bit_vector) requires r == x as u64;
    assert(x < 0 ==> (r - 0x8000_0000_0000_0000u64) as i64 == (x + 0x4000_0000_0000_0000i64) + 0x4000_0000_0000_0000i64) by (bit_vector) requires r == x as u64;
}

/// i32 -> u64 sign-extends
pub proof fn lemma_i32_as_u64(x: i32)
    ensures (x as u64) as int == (if x >= 0 { x as int } else { x as int + 0x1_0000_0000_0000_0000 }),
{
    let r = x as u64;
    assert(x >= 0 ==> r == x) by (bit_vector) requires r == x as u64;
    assert(x < 0 ==> r >= 0xffff_ffff_8000_0000u64) by (bit_vector) requires r == x as u64;
    assert(x < 0 ==> (r - 0xffff_ffff_8000_0000u64) as i32 == (x + 0x4000_0000i32) + 0x4000_0000i32) by (bit_vector) requires r == x as u64;
}

pub proof fn lemma_pow2_32_64()
    ensures pow2(32) == 0x1_0000_0000, pow2(64) == 0x1_0000_0000_0000_0000, pow2(16) == 0x1_0000, pow2(5) == 32, pow2(8) == 256, pow2(1) == 2, pow2(4) == 16,
{
    lemma2_to64();
}

/// the 32-bit constant `expr_const(x as u64, 32)` holds is the two's-complement encoding of x
pub proof fn lemma_imm32_i64(x: i64)
    ensures ((x as u64) as nat) % pow2(32) == enc(32, x as int),
{
    lemma_i64_as_u64(x);
    lemma_pow2_32_64();
    if x < 0 {
        // (x + 2^64) % 2^32 == x % 2^32
        lemma_mod_add_multiples_vanish(x as int, 0x1_0000_0000);
        assert(0x1_0000_0000_0000_0000int == 0x1_0000_0000int * 0x1_0000_0000int);
        lemma_mod_multiples_vanish(0x1_0000_0000int, x as int, 0x1_0000_0000int);
    }
}

pub proof fn lemma_imm32_i32(x: i32)
    ensures ((x as u64) as nat) % pow2(32) == enc(32, x as int),
{
    lemma_i32_as_u64(x);
    lemma_pow2_32_64();
    if x < 0 {
        assert(0x1_0000_0000_0000_0000int == 0x1_0000_0000int * 0x1_0000_0000int);
        lemma_mod_multiples_vanish(0x1_0000_0000int, x as int, 0x1_0000_0000int);
    }
}

/// enc of a value already in range
pub proof fn lemma_enc32_small(x: int)
    requires 0 <= x < 0x1_0000_0000,
    ensures enc(32, x) == x,
{
    lemma_pow2_32_64();
    lemma_small_mod(x as nat, pow2(32));
}

/// `(x as u64) << 16` for a 16-bit immediate
pub proof fn lemma_shl16(x: i64)
    requires 0 <= x < 0x1_0000,
    ensures (((x as u64) << 16u64) as nat) % pow2(32) == x * 0x1_0000,
{
    lemma_i64_as_u64(x);
    let y = x as u64;
    assert((y << 16u64) == y * 0x1_0000u64) by (bit_vector) requires y < 0x1_0000u64;
    lemma_pow2_32_64();
    lemma_small_mod((y * 0x1_0000) as nat, pow2(32));
}

/// `(x as u64) << 16` truncated to 32 bits, for ANY immediate x: the two's-complement encoding of x * 2^16
pub proof fn lemma_shl16_any(x: i64)
    ensures (((x as u64) << 16u64) as nat) % pow2(32) == enc(32, (x as int) * 0x1_0000),
{
    lemma_i64_as_u64(x);
    lemma_pow2_32_64();
    let y = x as u64;
    let v = y << 16u64;
    let z = y & 0xffffu64;
    assert((v & 0xffff_ffffu64) == (z << 16u64)) by (bit_vector) requires v == y << 16u64, z == y & 0xffffu64;
    assert(z == y % 0x1_0000u64) by (bit_vector) requires z == y & 0xffffu64;
    assert((z << 16u64) == z * 0x1_0000u64) by (bit_vector) requires z < 0x1_0000u64;
    assert((v & 0xffff_ffffu64) == v % 0x1_0000_0000u64) by (bit_vector);
    // (x * 2^16) % 2^32 == (y * 2^16) % 2^32: y = x + 2^64 for negative x, and 2^64 * 2^16 is a multiple of 2^32
    let yi = y as int;
    if x < 0 {
        assert(yi * 0x1_0000 == 0x1_0000_0000int * 0x1_0000_0000_0000int + (x as int) * 0x1_0000) by (nonlinear_arith)
            requires yi == x as int + 0x1_0000_0000_0000_0000;
        lemma_mod_multiples_vanish(0x1_0000_0000_0000int, (x as int) * 0x1_0000, 0x1_0000_0000int);
    }
    assert(((x as int) * 0x1_0000) % 0x1_0000_0000 == (yi * 0x1_0000) % 0x1_0000_0000);
    vstd::arithmetic::div_mod::lemma_truncate_middle(yi, 0x1_0000, 0x1_0000);
    assert((0x1_0000 * yi) % (0x1_0000int * 0x1_0000int) == 0x1_0000 * (yi % 0x1_0000));
    assert(0x1_0000int * 0x1_0000int == 0x1_0000_0000int);
    assert(yi * 0x1_0000 == 0x1_0000 * yi);
}

/// `x as u32 as u64` keeps the low 32 bits
pub proof fn lemma_i64_as_u32(x: i64)
    ensures ((x as u32 as u64) as nat) % pow2(32) == enc(32, x as int), (x as u32 as u64) < 0x1_0000_0000,
{
    lemma_imm32_i64(x);
    lemma_pow2_32_64();
    let y = x as u64;
    let z = x as u32 as u64;
    assert(z == y % 0x1_0000_0000u64) by (bit_vector) requires z == x as u32 as u64, y == x as u64;
    lemma_small_mod(z as nat, pow2(32));
}

} // verus!
}

// ---- `format!("{}<literal>", s)` with a string argument: ASSUMED contract of std::fmt (Display of str writes its characters,
// literal pieces are copied): the result is the concatenation
pub mod c02_str {
use vstd::prelude::*;
verus! {
#[verifier::external_body]
pub fn format_suffix(s: &str, suffix: &str) -> (r: String)
    ensures r@ == s@ + suffix@,
{
    format!("{}{}", s, suffix)
}
} // verus!
}
