// ---- units/C02/mips_regs.rs: translator::mips::semantics::{MipsRegister, MIPS_REGISTERS, get_register, details}
//@ source lib/translator/mips/semantics.rs
//@ item struct MipsRegister

// ---- the register table, extracted TWICE from the same source text (as unit C01 does for the x86 tables):
//  (1) the executable constant in the block form Verus accepts, with the postcondition that its value IS (2);
//  (2) a spec function returning the same literal as a mathematical sequence. Verus proves (1) == (2) on every run.
//@ itemx const MIPS_REGISTERS
//@ rewrite 1 `const MIPS_REGISTERS: &[MipsRegister] = &[` => `const MIPS_REGISTERS_TWIN: () = (); pub open spec fn mips_table_spec() -> Seq<MipsRegister> { seq![` ## R-table-twin: ghost twin of the table: the same literal read as a mathematical sequence (a dummy constant keeps the item a `const` for the extractor); spec-only, no executable token involved
//@ rewrite 1 `] ;` => `] }` ## R-table-twin: closes the spec function
//@ end
//@ itemx const MIPS_REGISTERS exec_const
//@ rewrite 1 `const MIPS_REGISTERS: &[MipsRegister] = &[` => `const MIPS_REGISTERS: &'static [MipsRegister] ensures MIPS_REGISTERS@ =~= mips_table_spec() { let vf_table: &'static [MipsRegister] = &[` ## R-exec-const: Verus takes a slice constant only in the block form `exec const N: &'static [T] ensures .. { .. }` (a `const` is implicitly 'static); same literal, same value
//@ rewrite 1 `] ;` => `]; vf_table } pub const VF_MIPS_REGISTERS_END: () = ();` ## R-exec-const: closes the block (the unit constant after it only gives tools/rsx.py the `;` it expects at the end of a `const` item)
//@ end

// ---- ARCHITECTURE side (independent of the table): the 32 general-purpose registers by NUMBER.
/// capstone's id of general-purpose register k (part of the ASSUMED decoder contract: MIPS_REG_k denotes GPR k)
pub open spec fn gpr_reg(k: int) -> mips_reg {
     if k == 0 { mips_reg::MIPS_REG_0 }
    else if k == 1 { mips_reg::MIPS_REG_1 }
    else if k == 2 { mips_reg::MIPS_REG_2 }
    else if k == 3 { mips_reg::MIPS_REG_3 }
    else if k == 4 { mips_reg::MIPS_REG_4 }
    else if k == 5 { mips_reg::MIPS_REG_5 }
    else if k == 6 { mips_reg::MIPS_REG_6 }
    else if k == 7 { mips_reg::MIPS_REG_7 }
    else if k == 8 { mips_reg::MIPS_REG_8 }
    else if k == 9 { mips_reg::MIPS_REG_9 }
    else if k == 10 { mips_reg::MIPS_REG_10 }
    else if k == 11 { mips_reg::MIPS_REG_11 }
    else if k == 12 { mips_reg::MIPS_REG_12 }
    else if k == 13 { mips_reg::MIPS_REG_13 }
    else if k == 14 { mips_reg::MIPS_REG_14 }
    else if k == 15 { mips_reg::MIPS_REG_15 }
    else if k == 16 { mips_reg::MIPS_REG_16 }
    else if k == 17 { mips_reg::MIPS_REG_17 }
    else if k == 18 { mips_reg::MIPS_REG_18 }
    else if k == 19 { mips_reg::MIPS_REG_19 }
    else if k == 20 { mips_reg::MIPS_REG_20 }
    else if k == 21 { mips_reg::MIPS_REG_21 }
    else if k == 22 { mips_reg::MIPS_REG_22 }
    else if k == 23 { mips_reg::MIPS_REG_23 }
    else if k == 24 { mips_reg::MIPS_REG_24 }
    else if k == 25 { mips_reg::MIPS_REG_25 }
    else if k == 26 { mips_reg::MIPS_REG_26 }
    else if k == 27 { mips_reg::MIPS_REG_27 }
    else if k == 28 { mips_reg::MIPS_REG_28 }
    else if k == 29 { mips_reg::MIPS_REG_29 }
    else if k == 30 { mips_reg::MIPS_REG_30 }
    else if k == 31 { mips_reg::MIPS_REG_31 }
    else { mips_reg::MIPS_REG_INVALID }
}

/// the GPR number a capstone register id denotes, if it denotes a GPR
pub open spec fn gpr_no(r: mips_reg) -> Option<int> {
    match r {
        mips_reg::MIPS_REG_0 => Some(0int),
        mips_reg::MIPS_REG_1 => Some(1int),
        mips_reg::MIPS_REG_2 => Some(2int),
        mips_reg::MIPS_REG_3 => Some(3int),
        mips_reg::MIPS_REG_4 => Some(4int),
        mips_reg::MIPS_REG_5 => Some(5int),
        mips_reg::MIPS_REG_6 => Some(6int),
        mips_reg::MIPS_REG_7 => Some(7int),
        mips_reg::MIPS_REG_8 => Some(8int),
        mips_reg::MIPS_REG_9 => Some(9int),
        mips_reg::MIPS_REG_10 => Some(10int),
        mips_reg::MIPS_REG_11 => Some(11int),
        mips_reg::MIPS_REG_12 => Some(12int),
        mips_reg::MIPS_REG_13 => Some(13int),
        mips_reg::MIPS_REG_14 => Some(14int),
        mips_reg::MIPS_REG_15 => Some(15int),
        mips_reg::MIPS_REG_16 => Some(16int),
        mips_reg::MIPS_REG_17 => Some(17int),
        mips_reg::MIPS_REG_18 => Some(18int),
        mips_reg::MIPS_REG_19 => Some(19int),
        mips_reg::MIPS_REG_20 => Some(20int),
        mips_reg::MIPS_REG_21 => Some(21int),
        mips_reg::MIPS_REG_22 => Some(22int),
        mips_reg::MIPS_REG_23 => Some(23int),
        mips_reg::MIPS_REG_24 => Some(24int),
        mips_reg::MIPS_REG_25 => Some(25int),
        mips_reg::MIPS_REG_26 => Some(26int),
        mips_reg::MIPS_REG_27 => Some(27int),
        mips_reg::MIPS_REG_28 => Some(28int),
        mips_reg::MIPS_REG_29 => Some(29int),
        mips_reg::MIPS_REG_30 => Some(30int),
        mips_reg::MIPS_REG_31 => Some(31int),
        _ => None,
    }
}

/// the IL scalar NAME the lifter uses for GPR k (a lifter convention, taken from the o32 ABI names; the bounded witness uses
/// the same list). What the property needs of it: 32 DIFFERENT names (lemma_mips_names_distinct), none of them `$hi` / `$lo`.
pub open spec fn mips_name(k: int) -> Seq<char> {
     if k == 0 { "$zero"@ }
    else if k == 1 { "$at"@ }
    else if k == 2 { "$v0"@ }
    else if k == 3 { "$v1"@ }
    else if k == 4 { "$a0"@ }
    else if k == 5 { "$a1"@ }
    else if k == 6 { "$a2"@ }
    else if k == 7 { "$a3"@ }
    else if k == 8 { "$t0"@ }
    else if k == 9 { "$t1"@ }
    else if k == 10 { "$t2"@ }
    else if k == 11 { "$t3"@ }
    else if k == 12 { "$t4"@ }
    else if k == 13 { "$t5"@ }
    else if k == 14 { "$t6"@ }
    else if k == 15 { "$t7"@ }
    else if k == 16 { "$s0"@ }
    else if k == 17 { "$s1"@ }
    else if k == 18 { "$s2"@ }
    else if k == 19 { "$s3"@ }
    else if k == 20 { "$s4"@ }
    else if k == 21 { "$s5"@ }
    else if k == 22 { "$s6"@ }
    else if k == 23 { "$s7"@ }
    else if k == 24 { "$t8"@ }
    else if k == 25 { "$t9"@ }
    else if k == 26 { "$k0"@ }
    else if k == 27 { "$k1"@ }
    else if k == 28 { "$gp"@ }
    else if k == 29 { "$sp"@ }
    else if k == 30 { "$fp"@ }
    else if k == 31 { "$ra"@ }
    else { ""@ }
}

pub proof fn lemma_gpr_no_reg(k: int)
    requires 0 <= k < 32,
    ensures gpr_no(gpr_reg(k)) == Some(k),
{}

pub proof fn lemma_gpr_reg_no(r: mips_reg)
    ensures gpr_no(r) matches Some(k) ==> 0 <= k < 32 && gpr_reg(k) == r,
{}

/// the 32 register names are pairwise different and none of them is `$hi`, `$lo`, `branching_condition` or `branching_target`
/// (so two different GPRs / HI / LO never share an IL scalar)
pub proof fn lemma_mips_names_distinct(i: int, j: int)
    requires 0 <= i < 32, 0 <= j < 32,
    ensures
        i != j ==> mips_name(i) != mips_name(j),
        mips_name(i) != "$hi"@, mips_name(i) != "$lo"@, mips_name(i) != "branching_condition"@, mips_name(i) != "branching_target"@,
        (mips_name(i) == "$zero"@) == (i == 0),
{
    reveal_strlit("$zero");
    reveal_strlit("$at");
    reveal_strlit("$v0");
    reveal_strlit("$v1");
    reveal_strlit("$a0");
    reveal_strlit("$a1");
    reveal_strlit("$a2");
    reveal_strlit("$a3");
    reveal_strlit("$t0");
    reveal_strlit("$t1");
    reveal_strlit("$t2");
    reveal_strlit("$t3");
    reveal_strlit("$t4");
    reveal_strlit("$t5");
    reveal_strlit("$t6");
    reveal_strlit("$t7");
    reveal_strlit("$s0");
    reveal_strlit("$s1");
    reveal_strlit("$s2");
    reveal_strlit("$s3");
    reveal_strlit("$s4");
    reveal_strlit("$s5");
    reveal_strlit("$s6");
    reveal_strlit("$s7");
    reveal_strlit("$t8");
    reveal_strlit("$t9");
    reveal_strlit("$k0");
    reveal_strlit("$k1");
    reveal_strlit("$gp");
    reveal_strlit("$sp");
    reveal_strlit("$fp");
    reveal_strlit("$ra");
    reveal_strlit("$hi"); reveal_strlit("$lo"); reveal_strlit("branching_condition"); reveal_strlit("branching_target");
    let a = mips_name(i);
    let b = mips_name(j);
    assert(a.len() >= 3 && b.len() >= 3);
    if i != j && a == b { assert(a[1] == b[1] && a[2] == b[2] && a.len() == b.len()); }
    if a == "$hi"@ { assert(a[1] == 'h' && a[2] == 'i'); }
    if a == "$lo"@ { assert(a[1] == 'l' && a[2] == 'o'); }
}

// ---- the REGISTER TABLE INVARIANT: record k is GPR k: capstone id MIPS_REG_k, the ABI name, 32 bits wide
pub open spec fn mips_rec_ok(x: MipsRegister, k: int) -> bool {
    x.capstone_reg == gpr_reg(k) && x.bits == 32 && x.name@ == mips_name(k)
}

pub open spec fn mips_recs_ok_from(t: Seq<MipsRegister>, k: int) -> bool
    decreases t.len() - k,
{
    if k < 0 || k >= t.len() { true } else { mips_rec_ok(t[k], k) && mips_recs_ok_from(t, k + 1) }
}

pub proof fn lemma_mips_recs_ok(t: Seq<MipsRegister>, k: int, i: int)
    requires mips_recs_ok_from(t, k), 0 <= k <= i < t.len(),
    ensures mips_rec_ok(t[i], i),
    decreases i - k,
{
    if k < i { lemma_mips_recs_ok(t, k + 1, i); }
}

/// every record of the REAL table satisfies the invariant and the table has exactly 32 records
pub proof fn lemma_mips_table_ok()
    ensures mips_table_spec().len() == 32, mips_recs_ok_from(mips_table_spec(), 0),
{
    assert(mips_table_spec().len() == 32) by (compute);
    assert(mips_recs_ok_from(mips_table_spec(), 0)) by (compute);
}

pub proof fn lemma_mips_table_rec(k: int)
    requires 0 <= k < 32,
    ensures mips_rec_ok(mips_table_spec()[k], k),
{
    lemma_mips_table_ok();
    lemma_mips_recs_ok(mips_table_spec(), 0, k);
}

/// index of the first record at or after `k` whose capstone id is `id`
pub open spec fn mips_lookup_from(t: Seq<MipsRegister>, id: mips_reg, k: int) -> Option<int>
    decreases t.len() - k,
{
    if k < 0 || k >= t.len() { None } else if t[k].capstone_reg == id { Some(k) } else { mips_lookup_from(t, id, k + 1) }
}

/// in a table satisfying the invariant the first record with id `id` is record gpr_no(id)
pub proof fn lemma_mips_lookup(t: Seq<MipsRegister>, id: mips_reg, k: int)
    requires t.len() == 32, mips_recs_ok_from(t, 0), 0 <= k <= 32,
    ensures
        mips_lookup_from(t, id, k) == (match gpr_no(id) { Some(n) => if n >= k { Some(n) } else { None }, None => None }),
    decreases 32 - k,
{
    lemma_gpr_reg_no(id);
    if k < 32 {
        lemma_mips_recs_ok(t, 0, k);
        lemma_gpr_no_reg(k);
        lemma_mips_lookup(t, id, k + 1);
    }
}

//@ fn fn get_register
//@ rewrite 1 `MIPS_REGISTERS.iter()` => `it: MIPS_REGISTERS.iter()` ## R-iter-name: names the ghost iterator of the `for` loop (no executable change)
//@ spec
    ensures
        /*@found*/ gpr_no(capstone_id) matches Some(k) ==> (r matches Ok(x) && *x == mips_table_spec()[k] && mips_rec_ok(*x, k)),
        /*@missing*/ gpr_no(capstone_id) is None ==> (r matches Err(e) && e is Custom),
//@ enter
    proof { lemma_mips_table_ok(); lemma_mips_lookup(mips_table_spec(), capstone_id, 0); lemma_gpr_reg_no(capstone_id); }
//@ loop 0
    invariant
        it.seq().len() == mips_table_spec().len(),
        forall|j: int| 0 <= j < it.seq().len() ==> *#[trigger] it.seq()[j] == mips_table_spec()[j],
        mips_lookup_from(mips_table_spec(), capstone_id, 0) == mips_lookup_from(mips_table_spec(), capstone_id, it.index@ as int),
//@ before 0 `return Ok(register)`
    proof { lemma_mips_table_rec(it.index@ as int); }
//@ end

// ---- meaning of a register read / the scalar of a register ---------------------------------------------------------
/// the IL scalar that holds GPR k
pub open spec fn gpr_scalar(k: int) -> Scalar { named_scalar(mips_name(k), 32) }
pub open spec fn hi_scalar() -> Scalar { named_scalar("$hi"@, 32) }
pub open spec fn lo_scalar() -> Scalar { named_scalar("$lo"@, 32) }

/// MIPS architecture: the value of GPR k in an IL state: GPR 0 is hard-wired to zero
pub open spec fn gpr_val(env: Env, k: int) -> EvalR {
    if k == 0 { EvalR::Val(32, 0) } else { eval_spec(Expression::Scalar(gpr_scalar(k)), env) }
}
pub open spec fn sc_val(env: Env, s: Scalar) -> EvalR { eval_spec(Expression::Scalar(s), env) }

/// `e` is the expression that reads GPR k: the constant 0 for k == 0, the register's scalar otherwise
pub open spec fn reads_gpr(e: Expression, k: int) -> bool {
    if k == 0 { e matches Expression::Constant(c) && c.wf() && c.bits == 32 && c.value@ == 0 } else { e == Expression::Scalar(gpr_scalar(k)) }
}

pub proof fn lemma_reads_gpr(e: Expression, k: int, env: Env)
    requires reads_gpr(e, k), 0 <= k < 32,
    ensures eval_spec(e, env) == gpr_val(env, k), expr_wf(e), expr_bits(e) == 32,
{}

impl MipsRegister {
//@ fn impl MipsRegister :: fn name
//@ spec
    ensures /*@field*/ r@ == self.name@,
//@ end

//@ fn impl MipsRegister :: fn scalar
//@ spec
    ensures /*@scalar*/ r == named_scalar(self.name@, self.bits),
//@ enter
    proof { broadcast use crate::strmap::axiom_into_string_str; }
//@ end

//@ fn impl MipsRegister :: fn expression
//@ spec
    ensures
        /*@zero*/ self.name@ == "$zero"@ ==> (r matches Expression::Constant(c) && c.wf() && c.bits == 32 && c.value@ == 0),
        /*@reg*/ self.name@ != "$zero"@ ==> r == Expression::Scalar(named_scalar(self.name@, self.bits)),
//@ enter
    proof { broadcast use crate::strmap::axiom_into_string_str; lemma2_to64(); lemma_pow2_pos(32); lemma_small_mod(0, pow2(32)); }
//@ end
}

//@ fn fn details
//@ spec
    requires /*ASSUMED decoder contract: translate_block switches CS_OPT_DETAIL on, so every Instr carries details*/ instruction.detail is Some,
    ensures
        /*@mips*/ instruction.detail->Some_0.arch matches capstone::DetailsArch::MIPS(x) ==> r == Ok::<capstone::cs_mips, Error>(x),
        /*@other*/ !(instruction.detail->Some_0.arch is MIPS) ==> (r matches Err(e) && e is Custom),
//@ end
