// Unit C18 - program locations: forward / backward stepping are converse, locations() enumerates every
// location exactly once, owned <-> borrowed locations round-trip, from_address finds an instruction.
// Generated file = this template + the real text of the items named in the `//@` holes.
#![feature(allocator_api)]
#![allow(unused_imports, unused_variables, dead_code, unused_mut, non_snake_case, unused_parens, unused_braces, deprecated)]
use vstd::prelude::*;
use vstd::arithmetic::power2::*;
use vstd::arithmetic::div_mod::*;
use vstd::arithmetic::mul::*;
use std::ops::*;
use std::cmp;
use std::cmp::Ordering;
use std::collections::{BTreeMap, BTreeSet, VecDeque};
use std::fmt;
use std::rc::Rc;

verus! {

//@ include spec/bv.rs
//@ include prelude/bigint.rs
//@ include prelude/error.rs
//@ include prelude/fxhash.rs
//@ include prelude/stdcoll.rs
//@ include prelude/rc_asref.rs
//@ include prelude/location_hash.rs
//@ include prelude/fmt_option.rs
//@ include units/C11/error_from.rs
//@ mode contracts-only C15
//@ include units/C15/error_from_string.rs
//@ mode full

// falcon::RC (default build, feature "thread_safe" off): the real alias, extracted
//@ item lib/lib.rs :: type RC#0

pub mod graph {
use super::*;
use vstd::std_specs::iter::IteratorSpec;
use rustc_hash::{FxHashMap, FxHashSet};
broadcast use {rustc_hash::axiom_fx_builds_valid_hashers, stdcoll::axiom_btreemap_index_req, stdcoll::axiom_hashmap_index_req, stdcoll::axiom_usize_pair_obeys_key_model};
//@ mode contracts-only C11
//@ include units/C11/graph_core.rs
//@ mode full
proof fn vf_canary_graph() ensures false {}
} // mod graph

pub mod il {
use super::*;
use vstd::std_specs::iter::IteratorSpec;
//@ mode contracts-only C15
//@ include units/C15/il_core.rs
//@ mode full
//@ include units/C18/loc_core.rs
//@ include units/C18/loc_proofs.rs
proof fn vf_canary_il() ensures false {}
} // mod il

// a client that keys a hash map on locations: the key-model axioms of prelude/location_hash.rs are
// consistent with everything else in scope (canary) and are what HashMap<ProgramLocation, _> needs
pub mod loc_client {
use super::*;
use super::il::*;
broadcast use {location_hash::axiom_function_location_obeys_key_model, location_hash::axiom_program_location_obeys_key_model,
    location_hash::axiom_ref_function_location_obeys_key_model, location_hash::axiom_ref_program_location_obeys_key_model};
proof fn vf_canary_loc_client() ensures false {}
} // mod loc_client

proof fn vf_canary_root() ensures false {}

} // verus!

fn main() {}
