// Unit C18 - program locations: forward / backward stepping are converse, locations() enumerates every
// location exactly once, owned <-> borrowed locations round-trip, from_address finds an instruction.
// Generated file = this template + the real text of the items named in the `//@` holes.
#![feature(allocator_api)]
#![allow(unused_imports, unused_variables, dead_code, unused_mut, non_snake_case, unused_parens, unused_braces, deprecated)]
use vstd::prelude::*;
use vstd::arithmetic::power2::*;
use vstd::arithmetic::div_mod::*;
use vstd::arithmetic::mul::*;
use std::ops::*;
use std::cmp;
use std::cmp::Ordering;
use std::collections::{BTreeMap, BTreeSet, VecDeque};
use std::fmt;
use std::rc::Rc;

verus! {

//@ include spec/bv.rs
//@ include prelude/bigint.rs
//@ include prelude/error.rs
//@ include prelude/fxhash.rs
//@ include prelude/stdcoll.rs
//@ include prelude/rc_asref.rs
//@ include prelude/location_hash.rs
//@ include prelude/fmt_option.rs
//@ include units/C11/error_from.rs
//@ mode contracts-only C15
//@ include units/C15/error_from_string.rs
//@ mode full

// falcon::RC (default build, feature "thread_safe" off): the real alias, extracted
//@ item lib/lib.rs :: type RC#0

pub mod graph {
use super::*;
use vstd::std_specs::iter::IteratorSpec;
use rustc_hash::{FxHashMap, FxHashSet};
broadcast use {rustc_hash::axiom_fx_builds_valid_hashers, stdcoll::axiom_btreemap_index_req, stdcoll::axiom_hashmap_index_req, stdcoll::axiom_usize_pair_obeys_key_model};
//@ mode contracts-only C11
//@ include units/C11/graph_core.rs
//@ mode full
proof fn vf_canary_graph() ensures false {}
} // mod graph

pub mod il {
use super::*;
use vstd::std_specs::iter::IteratorSpec;
//@ mode contracts-only C15
//@ include units/C15/il_core.rs
//@ mode full
//@ include units/C18/loc_core.rs
//@ include units/C18/loc_proofs.rs
proof fn vf_canary_il() ensures false {}
} // mod il

// a client that keys a hash map on locations: the key-model axioms of prelude/location_hash.rs are
// consistent with everything else in scope (canary) and are what HashMap<ProgramLocation, _> needs
pub mod loc_client {
use super::*;
use super::il::*;
broadcast use {location_hash::axiom_function_location_obeys_key_model, location_hash::axiom_program_location_obeys_key_model,
    location_hash::axiom_ref_function_location_obeys_key_model, location_hash::axiom_ref_program_location_obeys_key_model};

// ---- end-to-end statements of the property, proved from the contracts alone (template code, nothing extracted)

/// owned <-> borrowed round trip on the same and on a cloned program
pub fn client_roundtrip<'p>(program: &'p Program, l: RefProgramLocation<'p>)
    requires program.program_wf(), program.holds_function(*l.function), l.rpl_wf(),
{
    let owned: ProgramLocation = l.clone().into();
    let same = owned.apply(program);
    assert(same == Ok::<RefProgramLocation, Error>(l));
    let cloned = program.clone();
    let other = owned.apply(&cloned);
    assert(other == Ok::<RefProgramLocation, Error>(l));
    let owned_fl: FunctionLocation = l.function_location().clone().into();
    let f2 = l.function().clone();
    let back = owned_fl.apply(&f2);
    assert(back == Ok::<RefFunctionLocation, Error>(l.function_location));
}

/// stepping forward and backward are converse: y is among x.forward() iff x is among y.backward()
pub fn client_converse<'p>(x: RefProgramLocation<'p>, y: RefProgramLocation<'p>)
    requires x.rpl_wf(), y.rpl_wf(), *x.function == *y.function,
{
    let fw = x.forward();
    let bw = y.backward();
    assert(fw is Ok && bw is Ok);
    let fw = fw.unwrap();
    let bw = bw.unwrap();
    proof {
        lemma_forward_backward_converse(x, y, fw@, bw@);
        lemma_succ_pred_converse(*x.function, x.loc(), y.loc());
    }
    assert((exists|i: int| 0 <= i < fw@.len() && (#[trigger] fw@[i]).loc() == y.loc())
        <==> (exists|j: int| 0 <= j < bw@.len() && (#[trigger] bw@[j]).loc() == x.loc()));
}

/// locations() lists every location exactly once; the entry location is one of them
pub fn client_locations(f: &Function)
    requires f.function_wf(),
{
    let v = f.locations();
    proof { lemma_locations_set(*f, v@); }
    assert(v@.map_values(|x: RefFunctionLocation| loc_of(x)).no_duplicates());
    assert(ISet::new(|l: Loc| v@.map_values(|x: RefFunctionLocation| loc_of(x)).contains(l)) =~= all_locs(*f));
}

/// from_address finds an instruction with the address whenever the program has one
pub fn client_from_address(program: &Program, address: u64, k: usize, b: usize, q: usize)
    requires
        program.program_wf(), program.functions@.contains_key(k), (*program.functions@[k]).control_flow_graph.has_block(b),
        q < (*program.functions@[k]).control_flow_graph.blocks_view()[b].instructions@.len(),
        (*program.functions@[k]).control_flow_graph.blocks_view()[b].instructions@[q as int].address == Some(address),
{
    let r = RefProgramLocation::from_address(program, address);
    assert(r is Some) by {
        if r is None {
            assert(fn_no_addr(*program.functions@[k], address));
            assert(block_no_addr((*program.functions@[k]).control_flow_graph.graph.vertices@[b], address));
        }
    }
    let x = r.unwrap();
    assert(x.rpl_wf() && program.holds_function(*x.function) && rfl_has_addr(x.function_location, address));
}

proof fn vf_canary_loc_client() ensures false {}
} // mod loc_client

proof fn vf_canary_root() ensures false {}

} // verus!

fn main() {}
