// ======================================================================================
// units/C18/loc_proofs.rs - lemmas about the abstract step relations of units/C18/loc_core.rs:
//   * forward and backward stepping are converse relations,
//   * steps stay inside the function (closed under succ / pred),
//   * the forward closure of the entry location is exactly the set of locations on paths from
//     the entry block (C11's path vocabulary).
// Pure proof code (no `//@ fn` holes).  Included after loc_core.rs inside `pub mod il`.
// ======================================================================================

/// the endpoints of an edge of a well-formed function are blocks of the function
pub proof fn lemma_edge_ends(f: Function, h: usize, t: usize)
    requires f.function_wf(), f.control_flow_graph.has_edge(h, t),
    ensures f.control_flow_graph.has_block(h), f.control_flow_graph.has_block(t),
{
    let g = f.control_flow_graph.graph;
    assert(g.edges@.contains_key((h, t)));
    assert(g.successors@.contains_key(h) && g.successors@.contains_key(t));
}

/// position `p` of block `b` holds an instruction, so (b, its index) is a valid location
pub proof fn lemma_instr_loc_valid(f: Function, b: usize, p: int)
    requires f.control_flow_graph.has_block(b), 0 <= p < f.control_flow_graph.blocks_view()[b].instructions@.len(),
    ensures
        loc_valid(f, Loc::Instruction(b, f.control_flow_graph.blocks_view()[b].instructions@[p].index)),
        instr_at(f.control_flow_graph.blocks_view()[b], p, f.control_flow_graph.blocks_view()[b].instructions@[p].index),
{
    let blk = f.control_flow_graph.blocks_view()[b];
    assert(blk.instructions@[p].index == blk.instructions@[p].index);
    assert(blk.has_instruction(blk.instructions@[p].index));
}

/// forward half: a forward step from l to l2 is a backward step from l2 to l
pub proof fn lemma_succ_is_pred(f: Function, l: Loc, l2: Loc)
    requires f.function_wf(), succ(f, l, l2),
    ensures pred(f, l2, l),
{
    let cfg = f.control_flow_graph;
    match l {
        Loc::Instruction(b, i) => {
            let blk = cfg.blocks_view()[b];
            let p = choose|p: int| #[trigger] instr_at(blk, p, i) && (
                if p + 1 < blk.instructions@.len() { l2 == Loc::Instruction(b, blk.instructions@[p + 1].index) }
                else { is_out_edge(f, b, l2) });
            if p + 1 < blk.instructions@.len() {
                lemma_instr_loc_valid(f, b, p + 1);
                let i2 = blk.instructions@[p + 1].index;
                assert(instr_at(blk, p + 1, i2));
                assert(pred_instr(f, b, i2, l));
            } else {
                assert(blk.instructions@.last() == blk.instructions@[p]);
                assert(is_block_end(f, b, l));
            }
        }
        Loc::Edge(h, t) => {
            lemma_edge_ends(f, h, t);
            let blk = cfg.blocks_view()[t];
            if blk.instructions@.len() > 0 {
                lemma_instr_loc_valid(f, t, 0);
                assert(instr_at(blk, 0, blk.instructions@[0].index));
                assert(is_in_edge(f, t, l));
                assert(pred_instr(f, t, blk.instructions@[0].index, l));
            } else {
                assert(is_in_edge(f, t, l));
            }
        }
        Loc::EmptyBlock(b) => {
            assert(is_block_end(f, b, l));
        }
    }
}

/// backward half: a backward step from l2 to l is a forward step from l to l2
pub proof fn lemma_pred_is_succ(f: Function, l2: Loc, l: Loc)
    requires f.function_wf(), pred(f, l2, l),
    ensures succ(f, l, l2),
{
    let cfg = f.control_flow_graph;
    match l2 {
        Loc::Instruction(b, i) => {
            let blk = cfg.blocks_view()[b];
            let q = choose|q: int| #[trigger] instr_at(blk, q, i) && (
                if q > 0 { l == Loc::Instruction(b, blk.instructions@[q - 1].index) }
                else { is_in_edge(f, b, l) });
            if q > 0 {
                lemma_instr_loc_valid(f, b, q - 1);
                let i1 = blk.instructions@[q - 1].index;
                assert(instr_at(blk, q - 1, i1));
                assert(succ_instr(f, b, i1, l2));
            } else {
                assert(is_block_start(f, b, l2));
            }
        }
        Loc::Edge(h, t) => {
            lemma_edge_ends(f, h, t);
            let blk = cfg.blocks_view()[h];
            if blk.instructions@.len() > 0 {
                let n = blk.instructions@.len() - 1;
                lemma_instr_loc_valid(f, h, n);
                assert(instr_at(blk, n, blk.instructions@[n].index));
                assert(is_out_edge(f, h, l2));
                assert(succ_instr(f, h, blk.instructions@[n].index, l2));
            } else {
                assert(is_out_edge(f, h, l2));
            }
        }
        Loc::EmptyBlock(b) => {
            assert(is_block_start(f, b, l2));
        }
    }
}

/// THE CONVERSE PROPERTY: within a well-formed function, l2 is a successor of l exactly when l is a
/// predecessor of l2 (for all locations; both sides are false when l / l2 is not a location of f)
pub proof fn lemma_succ_pred_converse(f: Function, l: Loc, l2: Loc)
    requires f.function_wf(),
    ensures succ(f, l, l2) <==> pred(f, l2, l),
{
    if succ(f, l, l2) { lemma_succ_is_pred(f, l, l2); }
    if pred(f, l2, l) { lemma_pred_is_succ(f, l2, l); }
}

/// steps stay inside the function: both ends of a step are valid locations
pub proof fn lemma_step_valid(f: Function, l: Loc, l2: Loc)
    requires f.function_wf(), succ(f, l, l2),
    ensures loc_valid(f, l), loc_valid(f, l2),
{
    lemma_succ_is_pred(f, l, l2);
}

/// the converse at the level of the executable API: y is listed by x.forward() exactly when x is
/// listed by y.backward()  (stated over the abstract locations the two calls enumerate)
pub proof fn lemma_forward_backward_converse(x: RefProgramLocation, y: RefProgramLocation, fw: Seq<RefProgramLocation>, bw: Seq<RefProgramLocation>)
    requires
        x.rpl_wf(), y.rpl_wf(), *x.function == *y.function,
        lists_rpls(fw, *x.function, |l2: Loc| succ(*x.function, x.loc(), l2)),
        lists_rpls(bw, *y.function, |l2: Loc| pred(*y.function, y.loc(), l2)),
    ensures
        (exists|i: int| 0 <= i < fw.len() && (#[trigger] fw[i]).loc() == y.loc())
            <==> (exists|j: int| 0 <= j < bw.len() && (#[trigger] bw[j]).loc() == x.loc()),
{
    let f = *x.function;
    lemma_succ_pred_converse(f, x.loc(), y.loc());
    let s1 = |l2: Loc| succ(f, x.loc(), l2);
    let s2 = |l2: Loc| pred(f, y.loc(), l2);
    if exists|i: int| 0 <= i < fw.len() && (#[trigger] fw[i]).loc() == y.loc() {
        let i = choose|i: int| 0 <= i < fw.len() && (#[trigger] fw[i]).loc() == y.loc();
        assert(s1(loc_of(fw[i].function_location)));
        assert(s2(x.loc()));
        let j = choose|j: int| 0 <= j < bw.len() && loc_of((#[trigger] bw[j]).function_location) == x.loc();
        assert(bw[j].loc() == x.loc());
    }
    if exists|j: int| 0 <= j < bw.len() && (#[trigger] bw[j]).loc() == x.loc() {
        let j = choose|j: int| 0 <= j < bw.len() && (#[trigger] bw[j]).loc() == x.loc();
        assert(s2(loc_of(bw[j].function_location)));
        assert(s1(y.loc()));
        let i = choose|i: int| 0 <= i < fw.len() && loc_of((#[trigger] fw[i]).function_location) == y.loc();
        assert(fw[i].loc() == y.loc());
    }
}

// ---------------------------------------------------------------------------------------------
// forward closure of the entry location == locations on paths from the entry block

/// p[i] -> p[i + 1] is a forward step
pub open spec fn loc_walk_step(f: Function, p: Seq<Loc>, i: int) -> bool {
    succ(f, p[i], p[i + 1])
}

/// p is a non-empty sequence of locations, each a forward step from the one before
pub open spec fn loc_walk(f: Function, p: Seq<Loc>) -> bool {
    p.len() >= 1 && forall|i: int| 0 <= i < p.len() - 1 ==> #[trigger] loc_walk_step(f, p, i)
}

/// l is reachable from l0 by repeated (zero or more) forward steps
pub open spec fn loc_reach(f: Function, l0: Loc, l: Loc) -> bool {
    exists|p: Seq<Loc>| #![trigger loc_walk(f, p)] loc_walk(f, p) && p[0] == l0 && p.last() == l
}

/// l is an instruction / the EmptyBlock location of a block reachable from block e, or an edge leaving such a block
pub open spec fn on_path_from(f: Function, e: usize, l: Loc) -> bool {
    loc_valid(f, l) && match l {
        Loc::Instruction(b, _) => f.control_flow_graph.graph.reaches(e, b),
        Loc::EmptyBlock(b) => f.control_flow_graph.graph.reaches(e, b),
        Loc::Edge(h, _) => f.control_flow_graph.graph.reaches(e, h),
    }
}

/// the location where block b starts
pub open spec fn block_start(f: Function, b: usize) -> Loc {
    let blk = f.control_flow_graph.blocks_view()[b];
    if blk.instructions@.len() == 0 { Loc::EmptyBlock(b) } else { Loc::Instruction(b, blk.instructions@[0].index) }
}

pub proof fn lemma_loc_reach_refl(f: Function, l: Loc)
    ensures loc_reach(f, l, l),
{
    let p = seq![l];
    assert(loc_walk(f, p) && p[0] == l && p.last() == l);
}

pub proof fn lemma_loc_reach_step(f: Function, l0: Loc, l: Loc, l2: Loc)
    requires loc_reach(f, l0, l), succ(f, l, l2),
    ensures loc_reach(f, l0, l2),
{
    let p = choose|p: Seq<Loc>| #![trigger loc_walk(f, p)] loc_walk(f, p) && p[0] == l0 && p.last() == l;
    let q = p.push(l2);
    assert forall|i: int| 0 <= i < q.len() - 1 implies #[trigger] loc_walk_step(f, q, i) by {
        if i < p.len() - 1 {
            assert(loc_walk_step(f, p, i));
            assert(q[i] == p[i] && q[i + 1] == p[i + 1]);
        } else {
            assert(q[i] == l && q[i + 1] == l2);
        }
    }
    assert(loc_walk(f, q) && q[0] == l0 && q.last() == l2);
}

/// induction principle for forward walks
pub proof fn lemma_loc_walk_closed(f: Function, s: spec_fn(Loc) -> bool, p: Seq<Loc>, i: int)
    requires
        loc_walk(f, p), s(p[0]), 0 <= i < p.len(),
        forall|a: Loc, b: Loc| #![trigger succ(f, a, b)] s(a) && succ(f, a, b) ==> s(b),
    ensures s(p[i]),
    decreases i,
{
    if i > 0 {
        lemma_loc_walk_closed(f, s, p, i - 1);
        assert(loc_walk_step(f, p, i - 1));
    }
}

/// the set of locations on paths from block e is closed under forward steps
pub proof fn lemma_on_path_closed(f: Function, e: usize, a: Loc, b: Loc)
    requires f.function_wf(), on_path_from(f, e, a), succ(f, a, b),
    ensures on_path_from(f, e, b),
{
    let g = f.control_flow_graph.graph;
    lemma_step_valid(f, a, b);
    match a {
        Loc::Instruction(k, i) => {
            let blk = f.control_flow_graph.blocks_view()[k];
            let p = choose|p: int| #[trigger] instr_at(blk, p, i) && (
                if p + 1 < blk.instructions@.len() { b == Loc::Instruction(k, blk.instructions@[p + 1].index) }
                else { is_out_edge(f, k, b) });
        }
        Loc::Edge(h, t) => {
            assert(g.edges@.dom().contains((h, t)));
            graph::lemma_path_step(g.edges@.dom(), e, h, t);
        }
        Loc::EmptyBlock(k) => {}
    }
}

/// from the start of block b every instruction of b is reachable (induction on the position)
pub proof fn lemma_reach_within_block(f: Function, b: usize, p: int)
    requires f.function_wf(), f.control_flow_graph.has_block(b), 0 <= p < f.control_flow_graph.blocks_view()[b].instructions@.len(),
    ensures loc_reach(f, block_start(f, b), Loc::Instruction(b, f.control_flow_graph.blocks_view()[b].instructions@[p].index)),
    decreases p,
{
    let blk = f.control_flow_graph.blocks_view()[b];
    if p == 0 {
        lemma_loc_reach_refl(f, block_start(f, b));
    } else {
        lemma_reach_within_block(f, b, p - 1);
        lemma_instr_loc_valid(f, b, p - 1);
        let i1 = blk.instructions@[p - 1].index;
        let l2 = Loc::Instruction(b, blk.instructions@[p].index);
        assert(instr_at(blk, p - 1, i1));
        assert(succ_instr(f, b, i1, l2));
        lemma_loc_reach_step(f, block_start(f, b), Loc::Instruction(b, i1), l2);
    }
}

/// from the start of block h every edge leaving h is reachable
pub proof fn lemma_reach_out_edge(f: Function, h: usize, t: usize)
    requires f.function_wf(), f.control_flow_graph.has_edge(h, t),
    ensures loc_reach(f, block_start(f, h), Loc::Edge(h, t)),
{
    lemma_edge_ends(f, h, t);
    let blk = f.control_flow_graph.blocks_view()[h];
    let l2 = Loc::Edge(h, t);
    assert(is_out_edge(f, h, l2));
    if blk.instructions@.len() == 0 {
        lemma_loc_reach_refl(f, block_start(f, h));
        lemma_loc_reach_step(f, block_start(f, h), Loc::EmptyBlock(h), l2);
    } else {
        let n = blk.instructions@.len() - 1;
        lemma_reach_within_block(f, h, n);
        lemma_instr_loc_valid(f, h, n);
        let i = blk.instructions@[n].index;
        assert(instr_at(blk, n, i));
        assert(succ_instr(f, h, i, l2));
        lemma_loc_reach_step(f, block_start(f, h), Loc::Instruction(h, i), l2);
    }
}

pub proof fn lemma_loc_reach_trans(f: Function, l0: Loc, l1: Loc, l2: Loc)
    requires loc_reach(f, l0, l1), loc_reach(f, l1, l2),
    ensures loc_reach(f, l0, l2),
{
    let q = choose|q: Seq<Loc>| #![trigger loc_walk(f, q)] loc_walk(f, q) && q[0] == l1 && q.last() == l2;
    let s = |l: Loc| loc_reach(f, l0, l);
    assert forall|a: Loc, b: Loc| #![trigger succ(f, a, b)] s(a) && succ(f, a, b) implies s(b) by {
        lemma_loc_reach_step(f, l0, a, b);
    }
    lemma_loc_walk_closed(f, s, q, q.len() - 1);
}

/// the start of every block reachable from block e is reachable from the start of e
pub proof fn lemma_reach_block_start(f: Function, e: usize, b: usize)
    requires f.function_wf(), f.control_flow_graph.has_block(e), f.control_flow_graph.graph.reaches(e, b),
    ensures loc_reach(f, block_start(f, e), block_start(f, b)),
{
    let g = f.control_flow_graph.graph;
    let l0 = block_start(f, e);
    let s = |k: usize| loc_reach(f, l0, block_start(f, k));
    lemma_loc_reach_refl(f, l0);
    assert forall|h: usize, t: usize| #![trigger g.edges@.dom().contains((h, t))] s(h) && g.edges@.dom().contains((h, t)) implies s(t) by {
        assert(f.control_flow_graph.has_edge(h, t));
        lemma_reach_out_edge(f, h, t);
        lemma_loc_reach_trans(f, l0, block_start(f, h), Loc::Edge(h, t));
        assert(is_block_start(f, t, block_start(f, t)));
        lemma_loc_reach_step(f, l0, Loc::Edge(h, t), block_start(f, t));
    }
    graph::lemma_path_closed(g.edges@.dom(), s, e, b);
}

/// THE CLOSURE PROPERTY: in a well-formed function with entry block e, the locations reachable by
/// repeated forward steps from the entry location (what from_function returns) are exactly the
/// instructions and EmptyBlock locations of the blocks on paths from e and the edges leaving them
pub proof fn lemma_forward_closure(f: Function, l: Loc)
    requires f.function_wf(), f.control_flow_graph.entry is Some,
    ensures
        entry_loc(f) == Some(block_start(f, f.control_flow_graph.entry->0)),
        loc_reach(f, entry_loc(f)->0, l) <==> on_path_from(f, f.control_flow_graph.entry->0, l),
{
    let e = f.control_flow_graph.entry->0;
    let g = f.control_flow_graph.graph;
    let l0 = block_start(f, e);
    assert(f.control_flow_graph.has_block(e));
    if loc_reach(f, l0, l) {
        let p = choose|p: Seq<Loc>| #![trigger loc_walk(f, p)] loc_walk(f, p) && p[0] == l0 && p.last() == l;
        let s = |x: Loc| on_path_from(f, e, x);
        graph::lemma_path_refl(g.edges@.dom(), e);
        if f.control_flow_graph.blocks_view()[e].instructions@.len() > 0 { lemma_instr_loc_valid(f, e, 0); }
        assert(s(l0));
        assert forall|a: Loc, b: Loc| #![trigger succ(f, a, b)] s(a) && succ(f, a, b) implies s(b) by {
            lemma_on_path_closed(f, e, a, b);
        }
        lemma_loc_walk_closed(f, s, p, p.len() - 1);
    }
    if on_path_from(f, e, l) {
        match l {
            Loc::Instruction(b, i) => {
                lemma_reach_block_start(f, e, b);
                let blk = f.control_flow_graph.blocks_view()[b];
                let p = choose|p: int| 0 <= p < blk.instructions@.len() && (#[trigger] blk.instructions@[p]).index == i;
                lemma_reach_within_block(f, b, p);
                lemma_loc_reach_trans(f, l0, block_start(f, b), l);
            }
            Loc::EmptyBlock(b) => {
                lemma_reach_block_start(f, e, b);
            }
            Loc::Edge(h, t) => {
                lemma_reach_block_start(f, e, h);
                lemma_reach_out_edge(f, h, t);
                lemma_loc_reach_trans(f, l0, block_start(f, h), l);
            }
        }
    }
}
