// ======================================================================================
// units/C18/loc_proofs.rs - lemmas about the abstract step relations of units/C18/loc_core.rs:
//   * forward and backward stepping are converse relations,
//   * steps stay inside the function (closed under succ / pred),
//   * the forward closure of the entry location is exactly the set of locations on paths from
//     the entry block (C11's path vocabulary).
// Pure proof code (no `//@ fn` holes).  Included after loc_core.rs inside `pub mod il`.
// ======================================================================================

/// the endpoints of an edge of a well-formed function are blocks of the function
pub proof fn lemma_edge_ends(f: Function, h: usize, t: usize)
    requires f.function_wf(), f.control_flow_graph.has_edge(h, t),
    ensures f.control_flow_graph.has_block(h), f.control_flow_graph.has_block(t),
{
    let g = f.control_flow_graph.graph;
    assert(g.edges@.contains_key((h, t)));
    assert(g.successors@.contains_key(h) && g.successors@.contains_key(t));
}

/// position `p` of block `b` holds an instruction, so (b, its index) is a valid location
pub proof fn lemma_instr_loc_valid(f: Function, b: usize, p: int)
    requires f.control_flow_graph.has_block(b), 0 <= p < f.control_flow_graph.blocks_view()[b].instructions@.len(),
    ensures
        loc_valid(f, Loc::Instruction(b, f.control_flow_graph.blocks_view()[b].instructions@[p].index)),
        instr_at(f.control_flow_graph.blocks_view()[b], p, f.control_flow_graph.blocks_view()[b].instructions@[p].index),
{
    let blk = f.control_flow_graph.blocks_view()[b];
    assert(blk.instructions@[p].index == blk.instructions@[p].index);
    assert(blk.has_instruction(blk.instructions@[p].index));
}

/// forward half: a forward step from l to l2 is a backward step from l2 to l
pub proof fn lemma_succ_is_pred(f: Function, l: Loc, l2: Loc)
    requires f.function_wf(), succ(f, l, l2),
    ensures pred(f, l2, l),
{
    let cfg = f.control_flow_graph;
    match l {
        Loc::Instruction(b, i) => {
            let blk = cfg.blocks_view()[b];
            let p = choose|p: int| #[trigger] instr_at(blk, p, i) && (
                if p + 1 < blk.instructions@.len() { l2 == Loc::Instruction(b, blk.instructions@[p + 1].index) }
                else { is_out_edge(f, b, l2) });
            if p + 1 < blk.instructions@.len() {
                lemma_instr_loc_valid(f, b, p + 1);
                let i2 = blk.instructions@[p + 1].index;
                assert(instr_at(blk, p + 1, i2));
                assert(pred_instr(f, b, i2, l));
            } else {
                assert(blk.instructions@.last() == blk.instructions@[p]);
                assert(is_block_end(f, b, l));
            }
        }
        Loc::Edge(h, t) => {
            lemma_edge_ends(f, h, t);
            let blk = cfg.blocks_view()[t];
            if blk.instructions@.len() > 0 {
                lemma_instr_loc_valid(f, t, 0);
                assert(instr_at(blk, 0, blk.instructions@[0].index));
                assert(is_in_edge(f, t, l));
                assert(pred_instr(f, t, blk.instructions@[0].index, l));
            } else {
                assert(is_in_edge(f, t, l));
            }
        }
        Loc::EmptyBlock(b) => {
            assert(is_block_end(f, b, l));
        }
    }
}

/// backward half: a backward step from l2 to l is a forward step from l to l2
pub proof fn lemma_pred_is_succ(f: Function, l2: Loc, l: Loc)
    requires f.function_wf(), pred(f, l2, l),
    ensures succ(f, l, l2),
{
    let cfg = f.control_flow_graph;
    match l2 {
        Loc::Instruction(b, i) => {
            let blk = cfg.blocks_view()[b];
            let q = choose|q: int| #[trigger] instr_at(blk, q, i) && (
                if q > 0 { l == Loc::Instruction(b, blk.instructions@[q - 1].index) }
                else { is_in_edge(f, b, l) });
            if q > 0 {
                lemma_instr_loc_valid(f, b, q - 1);
                let i1 = blk.instructions@[q - 1].index;
                assert(instr_at(blk, q - 1, i1));
                assert(succ_instr(f, b, i1, l2));
            } else {
                assert(is_block_start(f, b, l2));
            }
        }
        Loc::Edge(h, t) => {
            lemma_edge_ends(f, h, t);
            let blk = cfg.blocks_view()[h];
            if blk.instructions@.len() > 0 {
                let n = blk.instructions@.len() - 1;
                lemma_instr_loc_valid(f, h, n);
                assert(instr_at(blk, n, blk.instructions@[n].index));
                assert(is_out_edge(f, h, l2));
                assert(succ_instr(f, h, blk.instructions@[n].index, l2));
            } else {
                assert(is_out_edge(f, h, l2));
            }
        }
        Loc::EmptyBlock(b) => {
            assert(is_block_start(f, b, l2));
        }
    }
}

/// THE CONVERSE PROPERTY: within a well-formed function, l2 is a successor of l exactly when l is a
/// predecessor of l2 (for all locations; both sides are false when l / l2 is not a location of f)
pub proof fn lemma_succ_pred_converse(f: Function, l: Loc, l2: Loc)
    requires f.function_wf(),
    ensures succ(f, l, l2) <==> pred(f, l2, l),
{
    if succ(f, l, l2) { lemma_succ_is_pred(f, l, l2); }
    if pred(f, l2, l) { lemma_pred_is_succ(f, l2, l); }
}

/// steps stay inside the function: both ends of a step are valid locations
pub proof fn lemma_step_valid(f: Function, l: Loc, l2: Loc)
    requires f.function_wf(), succ(f, l, l2),
    ensures loc_valid(f, l), loc_valid(f, l2),
{
    lemma_succ_is_pred(f, l, l2);
}

/// the converse at the level of the executable API: y is listed by x.forward() exactly when x is
/// listed by y.backward()  (stated over the abstract locations the two calls enumerate)
pub proof fn lemma_forward_backward_converse(x: RefProgramLocation, y: RefProgramLocation, fw: Seq<RefProgramLocation>, bw: Seq<RefProgramLocation>)
    requires
        x.rpl_wf(), y.rpl_wf(), *x.function == *y.function,
        lists_rpls(fw, *x.function, |l2: Loc| succ(*x.function, x.loc(), l2)),
        lists_rpls(bw, *y.function, |l2: Loc| pred(*y.function, y.loc(), l2)),
    ensures
        (exists|i: int| 0 <= i < fw.len() && (#[trigger] fw[i]).loc() == y.loc())
            <==> (exists|j: int| 0 <= j < bw.len() && (#[trigger] bw[j]).loc() == x.loc()),
{
    let f = *x.function;
    lemma_succ_pred_converse(f, x.loc(), y.loc());
    let s1 = |l2: Loc| succ(f, x.loc(), l2);
    let s2 = |l2: Loc| pred(f, y.loc(), l2);
    if exists|i: int| 0 <= i < fw.len() && (#[trigger] fw[i]).loc() == y.loc() {
        let i = choose|i: int| 0 <= i < fw.len() && (#[trigger] fw[i]).loc() == y.loc();
        assert(s1(loc_of(fw[i].function_location)));
        assert(s2(x.loc()));
        let j = choose|j: int| 0 <= j < bw.len() && loc_of((#[trigger] bw[j]).function_location) == x.loc();
        assert(bw[j].loc() == x.loc());
    }
    if exists|j: int| 0 <= j < bw.len() && (#[trigger] bw[j]).loc() == x.loc() {
        let j = choose|j: int| 0 <= j < bw.len() && (#[trigger] bw[j]).loc() == x.loc();
        assert(s2(loc_of(bw[j].function_location)));
        assert(s1(y.loc()));
        let i = choose|i: int| 0 <= i < fw.len() && loc_of((#[trigger] fw[i]).function_location) == y.loc();
        assert(fw[i].loc() == y.loc());
    }
}
