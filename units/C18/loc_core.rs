// ======================================================================================
// units/C18/loc_core.rs - falcon::il locations (lib/il/location.rs): the REAL type definitions
// (extracted), the spec vocabulary over abstract locations (`Loc`, `loc_of`, `loc_valid`, `succ`,
// `pred`, `all_locs`, ...) and the contracts of the location API.
// To be included inside `pub mod il { use super::*; ... }` AFTER units/C15/il_core.rs;
// see units/C18/PHASE1_DONE.
// ======================================================================================

//@ source lib/il/location.rs
//@ item struct RefProgramLocation
//@ item enum RefFunctionLocation
//@ item struct ProgramLocation
//@ item enum FunctionLocation

// ---- derive(Clone) / derive(PartialEq, Eq) / derive(Hash) re-supplied.  ASSUMED (listed in the
// trusted base), same reading as units C04 / C15: the compiler-generated impls are a structural
// copy / structural equality (shared references are copied / compared through), `Hash` is opaque
// (its lawfulness is the key-model axiom of prelude/location_hash.rs).
impl<'p> Clone for RefProgramLocation<'p> {
    #[verifier::external_body]
    fn clone(&self) -> (r: RefProgramLocation<'p>) ensures r == *self { unimplemented!() }
}
impl<'f> Clone for RefFunctionLocation<'f> {
    #[verifier::external_body]
    fn clone(&self) -> (r: RefFunctionLocation<'f>) ensures r == *self { unimplemented!() }
}
impl Clone for ProgramLocation {
    #[verifier::external_body]
    fn clone(&self) -> (r: ProgramLocation) ensures r == *self { unimplemented!() }
}
impl Clone for FunctionLocation {
    #[verifier::external_body]
    fn clone(&self) -> (r: FunctionLocation) ensures r == *self { unimplemented!() }
}

impl<'p> vstd::std_specs::cmp::PartialEqSpecImpl for RefProgramLocation<'p> {
    open spec fn obeys_eq_spec() -> bool { true }
    open spec fn eq_spec(&self, other: &RefProgramLocation<'p>) -> bool { *self == *other }
}
impl<'p> PartialEq for RefProgramLocation<'p> {
    #[verifier::external_body]
    fn eq(&self, other: &RefProgramLocation<'p>) -> (r: bool) ensures r == (*self == *other) { unimplemented!() }
}
impl<'p> Eq for RefProgramLocation<'p> {}
impl<'f> vstd::std_specs::cmp::PartialEqSpecImpl for RefFunctionLocation<'f> {
    open spec fn obeys_eq_spec() -> bool { true }
    open spec fn eq_spec(&self, other: &RefFunctionLocation<'f>) -> bool { *self == *other }
}
impl<'f> PartialEq for RefFunctionLocation<'f> {
    #[verifier::external_body]
    fn eq(&self, other: &RefFunctionLocation<'f>) -> (r: bool) ensures r == (*self == *other) { unimplemented!() }
}
impl<'f> Eq for RefFunctionLocation<'f> {}
impl vstd::std_specs::cmp::PartialEqSpecImpl for ProgramLocation {
    open spec fn obeys_eq_spec() -> bool { true }
    open spec fn eq_spec(&self, other: &ProgramLocation) -> bool { *self == *other }
}
impl PartialEq for ProgramLocation {
    #[verifier::external_body]
    fn eq(&self, other: &ProgramLocation) -> (r: bool) ensures r == (*self == *other) { unimplemented!() }
}
impl Eq for ProgramLocation {}
impl vstd::std_specs::cmp::PartialEqSpecImpl for FunctionLocation {
    open spec fn obeys_eq_spec() -> bool { true }
    open spec fn eq_spec(&self, other: &FunctionLocation) -> bool { *self == *other }
}
impl PartialEq for FunctionLocation {
    #[verifier::external_body]
    fn eq(&self, other: &FunctionLocation) -> (r: bool) ensures r == (*self == *other) { unimplemented!() }
}
impl Eq for FunctionLocation {}

impl<'p> std::hash::Hash for RefProgramLocation<'p> {
    #[verifier::external_body]
    fn hash<H: std::hash::Hasher>(&self, state: &mut H) { unimplemented!() }
}
impl<'f> std::hash::Hash for RefFunctionLocation<'f> {
    #[verifier::external_body]
    fn hash<H: std::hash::Hasher>(&self, state: &mut H) { unimplemented!() }
}
impl std::hash::Hash for ProgramLocation {
    #[verifier::external_body]
    fn hash<H: std::hash::Hasher>(&self, state: &mut H) { unimplemented!() }
}
impl std::hash::Hash for FunctionLocation {
    #[verifier::external_body]
    fn hash<H: std::hash::Hasher>(&self, state: &mut H) { unimplemented!() }
}

// ---------------------------------------------------------------------------------------------
// spec vocabulary: abstract locations

/// a location of a function, by indices: Instruction(block index, instruction index),
/// Edge(head block index, tail block index), EmptyBlock(block index)
pub enum Loc {
    Instruction(usize, usize),
    Edge(usize, usize),
    EmptyBlock(usize),
}

/// the abstract location a borrowed location denotes
pub open spec fn loc_of(rfl: RefFunctionLocation) -> Loc {
    match rfl {
        RefFunctionLocation::Instruction(b, ins) => Loc::Instruction(b.index, ins.index),
        RefFunctionLocation::Edge(e) => Loc::Edge(e.head, e.tail),
        RefFunctionLocation::EmptyBlock(b) => Loc::EmptyBlock(b.index),
    }
}

/// the abstract location an owned location denotes (FunctionLocation is isomorphic to Loc)
pub open spec fn fl_loc(fl: FunctionLocation) -> Loc {
    match fl {
        FunctionLocation::Instruction(b, i) => Loc::Instruction(b, i),
        FunctionLocation::Edge(h, t) => Loc::Edge(h, t),
        FunctionLocation::EmptyBlock(b) => Loc::EmptyBlock(b),
    }
}

pub open spec fn loc_fl(l: Loc) -> FunctionLocation {
    match l {
        Loc::Instruction(b, i) => FunctionLocation::Instruction(b, i),
        Loc::Edge(h, t) => FunctionLocation::Edge(h, t),
        Loc::EmptyBlock(b) => FunctionLocation::EmptyBlock(b),
    }
}

/// the instruction at position `p` of block `b` has instruction index `i`
pub open spec fn instr_at(b: Block, p: int, i: usize) -> bool {
    0 <= p < b.instructions@.len() && b.instructions@[p].index == i
}

// NOTE (Verus 0.2026.09.13): a quantifier written directly inside a `match` arm whose trigger mentions
// pattern-bound variables is never instantiated; every quantified case below is therefore its own spec fn.

/// block `b` of `f` exists and holds an instruction with instruction index `i`
pub open spec fn instr_valid(f: Function, b: usize, i: usize) -> bool {
    f.control_flow_graph.has_block(b) && f.control_flow_graph.blocks_view()[b].has_instruction(i)
}

/// the location exists in `f`: the block / instruction / edge exists; EmptyBlock only for blocks
/// without instructions
pub open spec fn loc_valid(f: Function, l: Loc) -> bool {
    let cfg = f.control_flow_graph;
    match l {
        Loc::Instruction(b, i) => instr_valid(f, b, i),
        Loc::Edge(h, t) => cfg.has_edge(h, t),
        Loc::EmptyBlock(b) => cfg.has_block(b) && cfg.blocks_view()[b].instructions@.len() == 0,
    }
}

/// every location of `f`  (ISet: vstd's general set; `Set` is the finite one in this vstd)
pub open spec fn all_locs(f: Function) -> ISet<Loc> {
    ISet::new(|l: Loc| loc_valid(f, l))
}

/// `l2` is (the location of) an edge leaving block `b`
pub open spec fn is_out_edge(f: Function, b: usize, l2: Loc) -> bool {
    l2 matches Loc::Edge(h, t) && h == b && f.control_flow_graph.has_edge(b, t)
}

/// `l2` is (the location of) an edge entering block `b`
pub open spec fn is_in_edge(f: Function, b: usize, l2: Loc) -> bool {
    l2 matches Loc::Edge(h, t) && t == b && f.control_flow_graph.has_edge(h, b)
}

/// `l2` is where block `b` starts: its first instruction, or its EmptyBlock location
pub open spec fn is_block_start(f: Function, b: usize, l2: Loc) -> bool {
    let blk = f.control_flow_graph.blocks_view()[b];
    if blk.instructions@.len() == 0 { l2 == Loc::EmptyBlock(b) } else { l2 == Loc::Instruction(b, blk.instructions@[0].index) }
}

/// `l2` is where block `b` ends: its last instruction, or its EmptyBlock location
pub open spec fn is_block_end(f: Function, b: usize, l2: Loc) -> bool {
    let blk = f.control_flow_graph.blocks_view()[b];
    if blk.instructions@.len() == 0 { l2 == Loc::EmptyBlock(b) } else { l2 == Loc::Instruction(b, blk.instructions@.last().index) }
}

/// forward step from instruction `i` of block `b`: the next instruction of the block, or, from the
/// last instruction, the out-edges of the block
pub open spec fn succ_instr(f: Function, b: usize, i: usize, l2: Loc) -> bool {
    let blk = f.control_flow_graph.blocks_view()[b];
    exists|p: int| #[trigger] instr_at(blk, p, i) && (
        if p + 1 < blk.instructions@.len() { l2 == Loc::Instruction(b, blk.instructions@[p + 1].index) }
        else { is_out_edge(f, b, l2) })
}

/// backward step from instruction `i` of block `b`: the previous instruction of the block, or, from
/// the first instruction, the in-edges of the block
pub open spec fn pred_instr(f: Function, b: usize, i: usize, l2: Loc) -> bool {
    let blk = f.control_flow_graph.blocks_view()[b];
    exists|p: int| #[trigger] instr_at(blk, p, i) && (
        if p > 0 { l2 == Loc::Instruction(b, blk.instructions@[p - 1].index) }
        else { is_in_edge(f, b, l2) })
}

/// forward step, from the meaning of the IL:
///  * an instruction is followed by the next instruction of its block; the last instruction of a
///    block is followed by the out-edges of the block (by nothing if there are none),
///  * an edge is followed by the first instruction of its tail block, or by the tail block's
///    EmptyBlock location when that block has no instructions,
///  * an empty block is followed by its out-edges.
pub open spec fn succ(f: Function, l: Loc, l2: Loc) -> bool {
    loc_valid(f, l) && match l {
        Loc::Instruction(b, i) => succ_instr(f, b, i, l2),
        Loc::Edge(h, t) => is_block_start(f, t, l2),
        Loc::EmptyBlock(b) => is_out_edge(f, b, l2),
    }
}

/// backward step, from the meaning of the IL:
///  * an instruction is preceded by the previous instruction of its block; the first instruction
///    of a block is preceded by the in-edges of the block (by nothing if there are none),
///  * an edge is preceded by the last instruction of its head block, or by the head block's
///    EmptyBlock location when that block has no instructions,
///  * an empty block is preceded by its in-edges.
pub open spec fn pred(f: Function, l: Loc, l2: Loc) -> bool {
    loc_valid(f, l) && match l {
        Loc::Instruction(b, i) => pred_instr(f, b, i, l2),
        Loc::Edge(h, t) => is_block_end(f, h, l2),
        Loc::EmptyBlock(b) => is_in_edge(f, b, l2),
    }
}

/// `ins` is one of the instructions stored in `b`
pub open spec fn block_holds(b: Block, ins: Instruction) -> bool {
    exists|p: int| 0 <= p < b.instructions@.len() && #[trigger] b.instructions@[p] == ins
}

/// `b` is the block `f` stores under `b.index`
pub open spec fn block_of(f: Function, b: Block) -> bool {
    f.control_flow_graph.has_block(b.index) && b == f.control_flow_graph.blocks_view()[b.index]
}

/// `e` is the edge `f` stores under `(e.head, e.tail)`
pub open spec fn edge_of(f: Function, e: Edge) -> bool {
    f.control_flow_graph.has_edge(e.head, e.tail) && e == f.control_flow_graph.edges_view()[(e.head, e.tail)]
}

/// the borrowed location points INTO `f`: its block / edge is the one `f` stores under that index,
/// its instruction is one of that block's.  (References are compared by value: Verus' `&T` is the
/// value it points to.)  No emptiness condition on EmptyBlock: this is what FunctionLocation::apply
/// guarantees for every accepted input.
pub open spec fn rfl_points_in(f: Function, rfl: RefFunctionLocation) -> bool {
    match rfl {
        RefFunctionLocation::Instruction(b, ins) => block_of(f, *b) && block_holds(*b, *ins),
        RefFunctionLocation::Edge(e) => edge_of(f, *e),
        RefFunctionLocation::EmptyBlock(b) => block_of(f, *b),
    }
}

/// the borrowed location is a location OF `f`: it points into `f`, and EmptyBlock is used only for
/// a block without instructions
pub open spec fn rfl_in(f: Function, rfl: RefFunctionLocation) -> bool {
    rfl_points_in(f, rfl) && (rfl matches RefFunctionLocation::EmptyBlock(b) ==> b.instructions@.len() == 0)
}

impl<'p> RefProgramLocation<'p> {
    /// data invariant of a program location: the function is well formed and the function location points into it
    pub open spec fn rpl_wf(&self) -> bool {
        (*self.function).function_wf() && rfl_in(*self.function, self.function_location)
    }

    /// the abstract location
    pub open spec fn loc(&self) -> Loc { loc_of(self.function_location) }
}

/// `v` lists, without repetition, exactly the locations `l` of `f` with `sel(l)`; every item is a
/// location of (a function equal to) `f` and points into it
pub open spec fn lists_rpls(v: Seq<RefProgramLocation>, f: Function, sel: spec_fn(Loc) -> bool) -> bool {
    &&& forall|i: int| 0 <= i < v.len() ==> *(#[trigger] v[i]).function == f && rfl_in(f, v[i].function_location)
            && sel(loc_of(v[i].function_location))
    &&& forall|i: int, j: int| 0 <= i < j < v.len() ==> loc_of((#[trigger] v[i]).function_location) != loc_of((#[trigger] v[j]).function_location)
    &&& forall|l: Loc| #[trigger] sel(l) ==> exists|i: int| 0 <= i < v.len() && loc_of((#[trigger] v[i]).function_location) == l
}

/// the same for function locations
pub open spec fn lists_rfls(v: Seq<RefFunctionLocation>, f: Function, sel: spec_fn(Loc) -> bool) -> bool {
    &&& forall|i: int| 0 <= i < v.len() ==> rfl_in(f, #[trigger] v[i]) && sel(loc_of(v[i]))
    &&& forall|i: int, j: int| 0 <= i < j < v.len() ==> loc_of(#[trigger] v[i]) != loc_of(#[trigger] v[j])
    &&& forall|l: Loc| #[trigger] sel(l) ==> exists|i: int| 0 <= i < v.len() && loc_of(#[trigger] v[i]) == l
}

/// the entry location of a function (what `RefProgramLocation::from_function` computes)
pub open spec fn entry_loc(f: Function) -> Option<Loc> {
    let cfg = f.control_flow_graph;
    match cfg.entry {
        None => None,
        Some(e) =>
            if !cfg.has_block(e) { None }
            else if cfg.blocks_view()[e].instructions@.len() == 0 { Some(Loc::EmptyBlock(e)) }
            else { Some(Loc::Instruction(e, cfg.blocks_view()[e].instructions@[0].index)) },
    }
}

/// what FunctionLocation::apply needs to succeed (note: EmptyBlock(b) is accepted for ANY existing block)
pub open spec fn fl_applies(f: Function, fl: FunctionLocation) -> bool {
    let cfg = f.control_flow_graph;
    match fl {
        FunctionLocation::Instruction(b, i) => cfg.has_block(b) && cfg.blocks_view()[b].has_instruction(i),
        FunctionLocation::Edge(h, t) => cfg.has_edge(h, t),
        FunctionLocation::EmptyBlock(b) => cfg.has_block(b),
    }
}

// ---------------------------------------------------------------------------------------------
// basic lemmas about the vocabulary

/// a borrowed location of `f` denotes a valid location of `f`
pub proof fn lemma_rfl_in_valid(f: Function, rfl: RefFunctionLocation)
    requires rfl_in(f, rfl),
    ensures loc_valid(f, loc_of(rfl)),
{
    match rfl {
        RefFunctionLocation::Instruction(b, ins) => {
            let p = choose|p: int| 0 <= p < b.instructions@.len() && #[trigger] b.instructions@[p] == *ins;
            assert(b.instructions@[p].index == ins.index);
            assert(b.has_instruction(ins.index));
        }
        _ => {}
    }
}

/// in a well-formed function a borrowed location is determined by the abstract location it denotes
pub proof fn lemma_rfl_in_unique(f: Function, a: RefFunctionLocation, b: RefFunctionLocation)
    requires f.function_wf(), rfl_points_in(f, a), rfl_points_in(f, b), loc_of(a) == loc_of(b),
    ensures a == b,
{
    match (a, b) {
        (RefFunctionLocation::Instruction(ba, ia), RefFunctionLocation::Instruction(bb, ib)) => {
            assert(*ba == *bb);
            let blk = f.control_flow_graph.graph.vertices@[ba.index];
            assert(blk.block_wf());
            let p = choose|p: int| 0 <= p < ba.instructions@.len() && #[trigger] ba.instructions@[p] == *ia;
            let q = choose|q: int| 0 <= q < bb.instructions@.len() && #[trigger] bb.instructions@[q] == *ib;
            if p < q { assert(blk.instructions@[p].index != blk.instructions@[q].index); }
            if q < p { assert(blk.instructions@[q].index != blk.instructions@[p].index); }
            assert(*ia == *ib);
        }
        _ => {}
    }
}

// ---------------------------------------------------------------------------------------------
// contracts

impl<'p> RefProgramLocation<'p> {
//@ source lib/il/location.rs
//@ fn impl<'p> RefProgramLocation<'p> :: fn new
//@ spec
    ensures /*@fields*/ r == (RefProgramLocation { function: function, function_location: function_location }),
//@ end
//@ fn impl<'p> RefProgramLocation<'p> :: fn function
//@ spec
    ensures /*@field*/ *r == *self.function,
//@ end
//@ fn impl<'p> RefProgramLocation<'p> :: fn function_location
//@ spec
    ensures /*@field*/ *r == self.function_location,
//@ end
//@ fn impl<'p> RefProgramLocation<'p> :: fn block
//@ spec
    ensures
        /*@instruction*/ self.function_location matches RefFunctionLocation::Instruction(b, _) ==> r == Some(b),
        /*@empty*/ self.function_location matches RefFunctionLocation::EmptyBlock(b) ==> r == Some(b),
        /*@edge*/ self.function_location is Edge ==> r is None,
//@ end
//@ fn impl<'p> RefProgramLocation<'p> :: fn instruction
//@ spec
    ensures
        /*@instruction*/ self.function_location matches RefFunctionLocation::Instruction(_, i) ==> r == Some(i),
        /*@other*/ !(self.function_location is Instruction) ==> r is None,
//@ end
//@ fn impl<'p> RefProgramLocation<'p> :: fn edge
//@ spec
    ensures
        /*@edge*/ self.function_location matches RefFunctionLocation::Edge(e) ==> r == Some(e),
        /*@other*/ !(self.function_location is Edge) ==> r is None,
//@ end
//@ fn impl<'p> RefProgramLocation<'p> :: fn address
//@ spec
    ensures
        /*@instruction*/ self.function_location matches RefFunctionLocation::Instruction(_, i) ==> r == i.address,
        /*@other*/ !(self.function_location is Instruction) ==> r is None,
//@ end
}

impl<'f> RefFunctionLocation<'f> {
//@ fn impl<'f> RefFunctionLocation<'f> :: fn block
//@ spec
    ensures
        /*@instruction*/ *self matches RefFunctionLocation::Instruction(b, _) ==> r == Some(b),
        /*@empty*/ *self matches RefFunctionLocation::EmptyBlock(b) ==> r == Some(b),
        /*@edge*/ *self is Edge ==> r is None,
//@ end
//@ fn impl<'f> RefFunctionLocation<'f> :: fn instruction
//@ spec
    ensures
        /*@instruction*/ *self matches RefFunctionLocation::Instruction(_, i) ==> r == Some(i),
        /*@other*/ !(*self is Instruction) ==> r is None,
//@ end
//@ fn impl<'f> RefFunctionLocation<'f> :: fn edge
//@ spec
    ensures
        /*@edge*/ *self matches RefFunctionLocation::Edge(e) ==> r == Some(e),
        /*@other*/ !(*self is Edge) ==> r is None,
//@ end
//@ fn impl<'f> RefFunctionLocation<'f> :: fn program_location
//@ spec
    ensures /*@fields*/ r == (RefProgramLocation { function: function, function_location: self }),
//@ end
}

impl ProgramLocation {
//@ fn impl ProgramLocation :: fn new
//@ spec
    ensures /*@fields*/ r == (ProgramLocation { function_index: function_index, function_location: function_location }),
//@ end
//@ fn impl ProgramLocation :: fn function_location
//@ spec
    ensures /*@field*/ *r == self.function_location,
//@ end
//@ fn impl ProgramLocation :: fn block_index
//@ spec
    ensures
        /*@instruction*/ self.function_location matches FunctionLocation::Instruction(b, _) ==> r == Some(b),
        /*@empty*/ self.function_location matches FunctionLocation::EmptyBlock(b) ==> r == Some(b),
        /*@edge*/ self.function_location is Edge ==> r is None,
//@ end
//@ fn impl ProgramLocation :: fn instruction_index
//@ spec
    ensures
        /*@instruction*/ self.function_location matches FunctionLocation::Instruction(_, i) ==> r == Some(i),
        /*@other*/ !(self.function_location is Instruction) ==> r is None,
//@ end
}

impl FunctionLocation {
//@ fn impl FunctionLocation :: fn block_index
//@ spec
    ensures
        /*@instruction*/ *self matches FunctionLocation::Instruction(b, _) ==> r == Some(b),
        /*@empty*/ *self matches FunctionLocation::EmptyBlock(b) ==> r == Some(b),
        /*@edge*/ *self is Edge ==> r is None,
//@ end
//@ fn impl FunctionLocation :: fn instruction_index
//@ spec
    ensures
        /*@instruction*/ *self matches FunctionLocation::Instruction(_, i) ==> r == Some(i),
        /*@other*/ !(*self is Instruction) ==> r is None,
//@ end
}

// ---------------------------------------------------------------------------------------------
// stepping

/// the program location of `f` at function location `x`
pub open spec fn rpl_at<'a>(f: &'a Function, x: RefFunctionLocation<'a>) -> RefProgramLocation<'a> {
    RefProgramLocation { function: f, function_location: x }
}

/// wrapping an exact enumeration of the edges leaving block `b` gives an exact enumeration of the
/// out-edge locations of `b`
pub proof fn lemma_out_edge_locs(f: &Function, es: Seq<&Edge>, v: Seq<RefProgramLocation>, b: usize)
    requires
        f.function_wf(),
        f.control_flow_graph.graph.lists_edges(es, |k: (usize, usize)| k.0 == b),
        v.len() == es.len(),
        forall|j: int| 0 <= j < v.len() ==> #[trigger] v[j] == rpl_at(f, RefFunctionLocation::Edge(es[j])),
    ensures lists_rpls(v, *f, |l2: Loc| is_out_edge(*f, b, l2)),
{
    let sel = |l2: Loc| is_out_edge(*f, b, l2);
    let g = f.control_flow_graph.graph;
    assert forall|i: int| 0 <= i < v.len() implies *(#[trigger] v[i]).function == *f && rfl_in(*f, v[i].function_location)
            && sel(loc_of(v[i].function_location)) by {
        assert(g.edges@.contains_key((graph::Edge::head_spec(es[i]), graph::Edge::tail_spec(es[i]))));
    }
    assert forall|i: int, j: int| 0 <= i < j < v.len() implies loc_of((#[trigger] v[i]).function_location) != loc_of((#[trigger] v[j]).function_location) by {
        assert((graph::Edge::head_spec(es[i]), graph::Edge::tail_spec(es[i])) != (graph::Edge::head_spec(es[j]), graph::Edge::tail_spec(es[j])));
    }
    assert forall|l: Loc| #[trigger] sel(l) implies exists|i: int| 0 <= i < v.len() && loc_of((#[trigger] v[i]).function_location) == l by {
        match l {
            Loc::Edge(h, t) => {
                let k = (h, t);
                assert((|k: (usize, usize)| k.0 == b)(k) && g.edges@.contains_key(k));
                let i = choose|i: int| 0 <= i < es.len() && (graph::Edge::head_spec(#[trigger] es[i]), graph::Edge::tail_spec(es[i])) == k;
                assert(loc_of(v[i].function_location) == l);
            }
            _ => {}
        }
    }
}

/// the same for the edges entering block `b`
pub proof fn lemma_in_edge_locs(f: &Function, es: Seq<&Edge>, v: Seq<RefProgramLocation>, b: usize)
    requires
        f.function_wf(),
        f.control_flow_graph.graph.lists_edges(es, |k: (usize, usize)| k.1 == b),
        v.len() == es.len(),
        forall|j: int| 0 <= j < v.len() ==> #[trigger] v[j] == rpl_at(f, RefFunctionLocation::Edge(es[j])),
    ensures lists_rpls(v, *f, |l2: Loc| is_in_edge(*f, b, l2)),
{
    let sel = |l2: Loc| is_in_edge(*f, b, l2);
    let g = f.control_flow_graph.graph;
    assert forall|i: int| 0 <= i < v.len() implies *(#[trigger] v[i]).function == *f && rfl_in(*f, v[i].function_location)
            && sel(loc_of(v[i].function_location)) by {
        assert(g.edges@.contains_key((graph::Edge::head_spec(es[i]), graph::Edge::tail_spec(es[i]))));
    }
    assert forall|i: int, j: int| 0 <= i < j < v.len() implies loc_of((#[trigger] v[i]).function_location) != loc_of((#[trigger] v[j]).function_location) by {
        assert((graph::Edge::head_spec(es[i]), graph::Edge::tail_spec(es[i])) != (graph::Edge::head_spec(es[j]), graph::Edge::tail_spec(es[j])));
    }
    assert forall|l: Loc| #[trigger] sel(l) implies exists|i: int| 0 <= i < v.len() && loc_of((#[trigger] v[i]).function_location) == l by {
        match l {
            Loc::Edge(h, t) => {
                let k = (h, t);
                assert((|k: (usize, usize)| k.1 == b)(k) && g.edges@.contains_key(k));
                let i = choose|i: int| 0 <= i < es.len() && (graph::Edge::head_spec(#[trigger] es[i]), graph::Edge::tail_spec(es[i])) == k;
                assert(loc_of(v[i].function_location) == l);
            }
            _ => {}
        }
    }
}

/// a one-element list holding the location `x` of `f` lists exactly `{ loc_of(x) }`
pub proof fn lemma_single_loc(f: &Function, v: Seq<RefProgramLocation>, x: RefFunctionLocation, sel: spec_fn(Loc) -> bool)
    requires
        v.len() == 1, v[0] == rpl_at(f, x), rfl_in(*f, x),
        forall|l: Loc| #[trigger] sel(l) <==> l == loc_of(x),
    ensures lists_rpls(v, *f, sel),
{
    assert forall|l: Loc| #[trigger] sel(l) implies exists|i: int| 0 <= i < v.len() && loc_of((#[trigger] v[i]).function_location) == l by {
        assert(loc_of(v[0].function_location) == l);
    }
}

/// `lists_rpls` only depends on the extension of the selector
pub proof fn lemma_lists_rpls_ext(v: Seq<RefProgramLocation>, f: Function, s1: spec_fn(Loc) -> bool, s2: spec_fn(Loc) -> bool)
    requires lists_rpls(v, f, s1), forall|l: Loc| #![trigger s1(l)] #![trigger s2(l)] s1(l) <==> s2(l),
    ensures lists_rpls(v, f, s2),
{
    assert forall|l: Loc| #[trigger] s2(l) implies exists|i: int| 0 <= i < v.len() && loc_of((#[trigger] v[i]).function_location) == l by {
        assert(s1(l));
    }
}

/// in a well-formed function the position of an instruction index inside its block is unique, so the
/// forward step from the instruction at position `p` is determined by `p`
pub proof fn lemma_succ_instr_at(f: Function, b: usize, p: int, i: usize)
    requires f.function_wf(), f.control_flow_graph.has_block(b), instr_at(f.control_flow_graph.blocks_view()[b], p, i),
    ensures
        forall|l2: Loc| #[trigger] succ_instr(f, b, i, l2) <==> (
            if p + 1 < f.control_flow_graph.blocks_view()[b].instructions@.len() {
                l2 == Loc::Instruction(b, f.control_flow_graph.blocks_view()[b].instructions@[p + 1].index)
            } else { is_out_edge(f, b, l2) }),
{
    let blk = f.control_flow_graph.graph.vertices@[b];
    assert(blk.block_wf());
    assert forall|l2: Loc| #[trigger] succ_instr(f, b, i, l2) <==> (
            if p + 1 < blk.instructions@.len() { l2 == Loc::Instruction(b, blk.instructions@[p + 1].index) } else { is_out_edge(f, b, l2) }) by {
        if succ_instr(f, b, i, l2) {
            let q = choose|q: int| #[trigger] instr_at(blk, q, i) && (
                if q + 1 < blk.instructions@.len() { l2 == Loc::Instruction(b, blk.instructions@[q + 1].index) } else { is_out_edge(f, b, l2) });
            if q < p { assert(blk.instructions@[q].index != blk.instructions@[p].index); }
            if p < q { assert(blk.instructions@[p].index != blk.instructions@[q].index); }
        }
    }
}

/// the same for the backward step
pub proof fn lemma_pred_instr_at(f: Function, b: usize, p: int, i: usize)
    requires f.function_wf(), f.control_flow_graph.has_block(b), instr_at(f.control_flow_graph.blocks_view()[b], p, i),
    ensures
        forall|l2: Loc| #[trigger] pred_instr(f, b, i, l2) <==> (
            if p > 0 { l2 == Loc::Instruction(b, f.control_flow_graph.blocks_view()[b].instructions@[p - 1].index) }
            else { is_in_edge(f, b, l2) }),
{
    let blk = f.control_flow_graph.graph.vertices@[b];
    assert(blk.block_wf());
    assert forall|l2: Loc| #[trigger] pred_instr(f, b, i, l2) <==> (
            if p > 0 { l2 == Loc::Instruction(b, blk.instructions@[p - 1].index) } else { is_in_edge(f, b, l2) }) by {
        if pred_instr(f, b, i, l2) {
            let q = choose|q: int| #[trigger] instr_at(blk, q, i) && (
                if q > 0 { l2 == Loc::Instruction(b, blk.instructions@[q - 1].index) } else { is_in_edge(f, b, l2) });
            if q < p { assert(blk.instructions@[q].index != blk.instructions@[p].index); }
            if p < q { assert(blk.instructions@[p].index != blk.instructions@[q].index); }
        }
    }
}

/// `succ` / `pred` from a location of `f`, case by case (the validity conjunct is discharged)
pub proof fn lemma_step_cases(f: Function, x: RefFunctionLocation)
    requires rfl_in(f, x),
    ensures
        loc_valid(f, loc_of(x)),
        x matches RefFunctionLocation::Instruction(b, ins) ==> b.has_instruction(ins.index),
        forall|l2: Loc| #[trigger] succ(f, loc_of(x), l2) <==> (match x {
            RefFunctionLocation::Instruction(b, ins) => succ_instr(f, b.index, ins.index, l2),
            RefFunctionLocation::Edge(e) => is_block_start(f, e.tail, l2),
            RefFunctionLocation::EmptyBlock(b) => is_out_edge(f, b.index, l2),
        }),
        forall|l2: Loc| #[trigger] pred(f, loc_of(x), l2) <==> (match x {
            RefFunctionLocation::Instruction(b, ins) => pred_instr(f, b.index, ins.index, l2),
            RefFunctionLocation::Edge(e) => is_block_end(f, e.head, l2),
            RefFunctionLocation::EmptyBlock(b) => is_in_edge(f, b.index, l2),
        }),
{
    lemma_rfl_in_valid(f, x);
}

impl<'p> RefProgramLocation<'p> {
//@ fn impl<'p> RefProgramLocation<'p> :: fn empty_block_forward loops=1
//@ rewrite 1 `let mut locations = Vec::new();` => `let mut locations: Vec<RefProgramLocation<'p>> = Vec::new();` ## R-type-annot: writes down the element type rustc infers for `locations` (the function returns it); needed because the invariant mentions `locations` before the first `push`
//@ rewrite 1 `for edge in edges {` => `for edge in it: edges {` ## R-ghost-iter-name: names the ghost iterator of the for loop so that invariants can mention it; no executable change
//@ spec
    requires (*self.function).function_wf(), block_of(*self.function, *block),
    ensures
        /*@ok*/ r is Ok,
        /*@list*/ r matches Ok(v) ==> lists_rpls(v@, *self.function, |l2: Loc| is_out_edge(*self.function, block.index, l2)),
//@ before 0 `let mut locations`
    let ghost es = edges@;
//@ loop 0
    invariant
        it.seq() == es,
        locations@.len() == it.index@,
        forall|j: int| 0 <= j < locations@.len() ==> #[trigger] locations@[j] == rpl_at(self.function, RefFunctionLocation::Edge(es[j])),
//@ before 0 `Ok(locations)`
    proof { lemma_out_edge_locs(self.function, es, locations@, block.index); }
//@ end
//@ fn impl<'p> RefProgramLocation<'p> :: fn empty_block_backward loops=1
//@ rewrite 1 `let mut locations = Vec::new();` => `let mut locations: Vec<RefProgramLocation<'p>> = Vec::new();` ## R-type-annot: writes down the element type rustc infers for `locations` (the function returns it); needed because the invariant mentions `locations` before the first `push`
//@ rewrite 1 `for edge in edges {` => `for edge in it: edges {` ## R-ghost-iter-name: names the ghost iterator of the for loop so that invariants can mention it; no executable change
//@ spec
    requires (*self.function).function_wf(), block_of(*self.function, *block),
    ensures
        /*@ok*/ r is Ok,
        /*@list*/ r matches Ok(v) ==> lists_rpls(v@, *self.function, |l2: Loc| is_in_edge(*self.function, block.index, l2)),
//@ before 0 `let mut locations`
    let ghost es = edges@;
//@ loop 0
    invariant
        it.seq() == es,
        locations@.len() == it.index@,
        forall|j: int| 0 <= j < locations@.len() ==> #[trigger] locations@[j] == rpl_at(self.function, RefFunctionLocation::Edge(es[j])),
//@ before 0 `Ok(locations)`
    proof { lemma_in_edge_locs(self.function, es, locations@, block.index); }
//@ end

//@ fn impl<'p> RefProgramLocation<'p> :: fn edge_forward
//@ spec
    requires (*self.function).function_wf(), edge_of(*self.function, *edge),
    ensures
        /*@ok*/ r is Ok,
        /*@list*/ r matches Ok(v) ==> lists_rpls(v@, *self.function, |l2: Loc| is_block_start(*self.function, edge.tail, l2)),
//@ end

//@ fn impl<'p> RefProgramLocation<'p> :: fn edge_backward
//@ spec
    requires (*self.function).function_wf(), edge_of(*self.function, *edge),
    ensures
        /*@ok*/ r is Ok,
        /*@list*/ r matches Ok(v) ==> lists_rpls(v@, *self.function, |l2: Loc| is_block_end(*self.function, edge.head, l2)),
//@ end

//@ fn impl<'p> RefProgramLocation<'p> :: fn instruction_forward loops=2
//@ rewrite 1 `let mut locations = Vec::new();` => `let mut locations: Vec<RefProgramLocation<'p>> = Vec::new();` ## R-type-annot: writes down the element type rustc infers for `locations` (the function returns it); needed because the invariant mentions `locations` before the first `push`
//@ rewrite 1 `for edge in edges {` => `for edge in it: edges {` ## R-ghost-iter-name: names the ghost iterator of the for loop so that invariants can mention it; no executable change
//@ spec
    requires (*self.function).function_wf(), block_of(*self.function, *block),
    ensures
        /*@found*/ block.has_instruction(instruction.index) ==> r is Ok,
        /*@missing*/ !block.has_instruction(instruction.index) ==> r is Err,
        /*@list*/ r matches Ok(v) ==> lists_rpls(v@, *self.function, |l2: Loc| succ_instr(*self.function, block.index, instruction.index, l2)),
//@ enter
    broadcast use {vstd::std_specs::fmt::axiom_fmt_req_all_debug, vstd::std_specs::fmt::axiom_fmt_req_all_usize, fmt_option::axiom_fmt_req_all_option};
//@ loop 0
    invariant
        *instructions == block.instructions,
        (*self.function).function_wf(), block_of(*self.function, *block),
        forall|j: int| 0 <= j < i ==> (#[trigger] block.instructions@[j]).index != instruction.index,
//@ before 0 `let mut locations`
    let ghost es = edges@;
//@ loop 1
    invariant
        it.seq() == es,
        locations@.len() == it.index@,
        forall|j: int| 0 <= j < locations@.len() ==> #[trigger] locations@[j] == rpl_at(self.function, RefFunctionLocation::Edge(es[j])),
//@ before 0 `let instruction = &instructions[i + 1];`
    proof { lemma_succ_instr_at(*self.function, block.index, i as int, instruction.index); }
//@ before 0 `return Ok(locations)`
    proof {
        lemma_out_edge_locs(self.function, es, locations@, block.index);
        lemma_succ_instr_at(*self.function, block.index, i as int, instruction.index);
        lemma_lists_rpls_ext(locations@, *self.function, |l2: Loc| is_out_edge(*self.function, block.index, l2),
            |l2: Loc| succ_instr(*self.function, block.index, instruction.index, l2));
    }
//@ end

//@ fn impl<'p> RefProgramLocation<'p> :: fn instruction_backward loops=2
//@ rewrite 1 `let mut locations = Vec::new();` => `let mut locations: Vec<RefProgramLocation<'p>> = Vec::new();` ## R-type-annot: writes down the element type rustc infers for `locations` (the function returns it); needed because the invariant mentions `locations` before the first `push`
//@ rewrite 1 `for edge in edges {` => `for edge in it: edges {` ## R-ghost-iter-name: names the ghost iterator of the for loop so that invariants can mention it; no executable change
//@ rewrite 1 `for i in (0..instructions.len()).rev() {` => `for i in it0: (0..instructions.len()).rev() {` ## R-ghost-iter-name: names the ghost iterator of the for loop so that invariants can mention it; no executable change
//@ spec
    requires (*self.function).function_wf(), block_of(*self.function, *block),
    ensures
        /*@found*/ block.has_instruction(instruction.index) ==> r is Ok,
        /*@missing*/ !block.has_instruction(instruction.index) ==> r is Err,
        /*@list*/ r matches Ok(v) ==> lists_rpls(v@, *self.function, |l2: Loc| pred_instr(*self.function, block.index, instruction.index, l2)),
//@ enter
    broadcast use {vstd::std_specs::fmt::axiom_fmt_req_all_debug, vstd::std_specs::fmt::axiom_fmt_req_all_usize, fmt_option::axiom_fmt_req_all_option};
//@ loop 0
    invariant
        *instructions == block.instructions,
        (*self.function).function_wf(), block_of(*self.function, *block),
        it0.seq().len() == block.instructions@.len(),
        forall|k: int| 0 <= k < it0.seq().len() ==> #[trigger] it0.seq()[k] == block.instructions@.len() - 1 - k,
        forall|j: int| block.instructions@.len() - it0.index@ <= j < block.instructions@.len() ==> (#[trigger] block.instructions@[j]).index != instruction.index,
//@ before 0 `let mut locations`
    let ghost es = edges@;
//@ loop 1
    invariant
        it.seq() == es,
        locations@.len() == it.index@,
        forall|j: int| 0 <= j < locations@.len() ==> #[trigger] locations@[j] == rpl_at(self.function, RefFunctionLocation::Edge(es[j])),
//@ before 0 `let instruction = &instructions[i - 1];`
    proof { lemma_pred_instr_at(*self.function, block.index, i as int, instruction.index); }
//@ before 0 `return Ok(locations)`
    proof {
        lemma_in_edge_locs(self.function, es, locations@, block.index);
        lemma_pred_instr_at(*self.function, block.index, i as int, instruction.index);
        lemma_lists_rpls_ext(locations@, *self.function, |l2: Loc| is_in_edge(*self.function, block.index, l2),
            |l2: Loc| pred_instr(*self.function, block.index, instruction.index, l2));
    }
//@ end

//@ fn impl<'p> RefProgramLocation<'p> :: fn forward
//@ spec
    requires self.rpl_wf(),
    ensures
        /*@ok*/ r is Ok,
        /*@list*/ r matches Ok(v) ==> lists_rpls(v@, *self.function, |l2: Loc| succ(*self.function, self.loc(), l2)),
//@ enter
    proof {
        lemma_step_cases(*self.function, self.function_location);
        match self.function_location {
            RefFunctionLocation::Instruction(b, ins) => {
                assert((|l2: Loc| succ(*self.function, self.loc(), l2)) =~= (|l2: Loc| succ_instr(*self.function, b.index, ins.index, l2)));
            }
            RefFunctionLocation::Edge(e) => {
                assert((|l2: Loc| succ(*self.function, self.loc(), l2)) =~= (|l2: Loc| is_block_start(*self.function, e.tail, l2)));
            }
            RefFunctionLocation::EmptyBlock(b) => {
                assert((|l2: Loc| succ(*self.function, self.loc(), l2)) =~= (|l2: Loc| is_out_edge(*self.function, b.index, l2)));
            }
        }
    }
//@ end

//@ fn impl<'p> RefProgramLocation<'p> :: fn backward
//@ spec
    requires self.rpl_wf(),
    ensures
        /*@ok*/ r is Ok,
        /*@list*/ r matches Ok(v) ==> lists_rpls(v@, *self.function, |l2: Loc| pred(*self.function, self.loc(), l2)),
//@ enter
    proof {
        lemma_step_cases(*self.function, self.function_location);
        match self.function_location {
            RefFunctionLocation::Instruction(b, ins) => {
                assert((|l2: Loc| pred(*self.function, self.loc(), l2)) =~= (|l2: Loc| pred_instr(*self.function, b.index, ins.index, l2)));
            }
            RefFunctionLocation::Edge(e) => {
                assert((|l2: Loc| pred(*self.function, self.loc(), l2)) =~= (|l2: Loc| is_block_end(*self.function, e.head, l2)));
            }
            RefFunctionLocation::EmptyBlock(b) => {
                assert((|l2: Loc| pred(*self.function, self.loc(), l2)) =~= (|l2: Loc| is_in_edge(*self.function, b.index, l2)));
            }
        }
    }
//@ end
}

// ---------------------------------------------------------------------------------------------
// owned <-> borrowed

impl<'f> vstd::std_specs::convert::FromSpecImpl<RefFunctionLocation<'f>> for FunctionLocation {
    open spec fn obeys_from_spec() -> bool { true }
    open spec fn from_spec(v: RefFunctionLocation<'f>) -> FunctionLocation { loc_fl(loc_of(v)) }
}
impl<'f> From<RefFunctionLocation<'f>> for FunctionLocation {
//@ fn impl<'f> From<RefFunctionLocation<'f>> for FunctionLocation :: fn from nopub
//@ spec
    ensures /*@loc*/ r == loc_fl(loc_of(function_location)),
//@ end
}

impl<'p> vstd::std_specs::convert::FromSpecImpl<RefProgramLocation<'p>> for ProgramLocation {
    open spec fn obeys_from_spec() -> bool { true }
    open spec fn from_spec(v: RefProgramLocation<'p>) -> ProgramLocation {
        ProgramLocation { function_index: v.function.index, function_location: loc_fl(loc_of(v.function_location)) }
    }
}
impl<'p> From<RefProgramLocation<'p>> for ProgramLocation {
//@ fn impl<'p> From<RefProgramLocation<'p>> for ProgramLocation :: fn from nopub
//@ spec
    ensures /*@fields*/ r == (ProgramLocation { function_index: program_location.function.index, function_location: loc_fl(loc_of(program_location.function_location)) }),
//@ end
}

impl FunctionLocation {
//@ fn impl FunctionLocation :: fn apply
//@ rewrite 3 `|_|` => `|_e|` ## R-closure-param-name: names the ignored closure parameter (Verus rejects `_` closure parameters); the parameter stays unused
//@ closure 0 |_e: Error| -> (r0: Error)
    ensures r0 == Error::FunctionLocationApplication,
//@ closure 1 |_e: Error| -> (r0: Error)
    ensures r0 == Error::FunctionLocationApplication,
//@ closure 2 |_e: Error| -> (r0: Error)
    ensures r0 == Error::FunctionLocationApplication,
//@ spec
    ensures
        /*@ok*/ fl_applies(*function, *self) ==> r is Ok,
        /*@err*/ !fl_applies(*function, *self) ==> r == Err::<RefFunctionLocation<'f>, Error>(Error::FunctionLocationApplication),
        /*@loc*/ r matches Ok(x) ==> ((*function).function_wf() ==> loc_of(x) == fl_loc(*self) && rfl_points_in(*function, x)),
        /*@valid*/ r matches Ok(x) ==> ((*function).function_wf() && loc_valid(*function, fl_loc(*self)) ==> rfl_in(*function, x)),
        /*@roundtrip*/ (*function).function_wf() ==> forall|l: RefFunctionLocation| #![trigger rfl_in(*function, l)]
            rfl_in(*function, l) && loc_of(l) == fl_loc(*self) ==> r == Ok::<RefFunctionLocation<'f>, Error>(l),
//@ end
}

impl ProgramLocation {
//@ fn impl ProgramLocation :: fn apply
//@ spec
    ensures
        /*@none*/ self.function_index is None ==> r == Err::<RefProgramLocation<'p>, Error>(Error::ProgramLocationApplication),
        /*@nofn*/ self.function_index matches Some(k) && !program.functions@.contains_key(k) ==> r == Err::<RefProgramLocation<'p>, Error>(Error::ProgramLocationApplication),
        /*@ok*/ self.function_index matches Some(k) && program.functions@.contains_key(k) && fl_applies(*program.functions@[k], self.function_location) ==> r is Ok,
        /*@err*/ self.function_index matches Some(k) && program.functions@.contains_key(k) && !fl_applies(*program.functions@[k], self.function_location)
            ==> r == Err::<RefProgramLocation<'p>, Error>(Error::FunctionLocationApplication),
        /*@fn*/ r matches Ok(x) ==> self.function_index matches Some(k) && program.functions@.contains_key(k) && *x.function == *program.functions@[k],
        /*@loc*/ r matches Ok(x) ==> ((*x.function).function_wf() ==> loc_of(x.function_location) == fl_loc(self.function_location) && rfl_points_in(*x.function, x.function_location)),
        /*@valid*/ r matches Ok(x) ==> ((*x.function).function_wf() && loc_valid(*x.function, fl_loc(self.function_location)) ==> x.rpl_wf()),
        /*@roundtrip*/ program.program_wf() ==> forall|l: RefProgramLocation| #![trigger rfl_in(*l.function, l.function_location)]
            program.holds_function(*l.function) && rfl_in(*l.function, l.function_location)
            && *self == (ProgramLocation { function_index: l.function.index, function_location: loc_fl(loc_of(l.function_location)) })
            ==> r == Ok::<RefProgramLocation<'p>, Error>(l),
//@ enter
    reveal(Program::holds_function);
//@ end
}

/// the borrowed entry location of `f` whose entry block is `e`
pub open spec fn entry_rfl<'a>(f: &'a Function, e: usize) -> RefFunctionLocation<'a> {
    let blk = &f.control_flow_graph.graph.vertices@[e];
    if blk.instructions@.len() == 0 { RefFunctionLocation::EmptyBlock(blk) } else { RefFunctionLocation::Instruction(blk, &blk.instructions@[0]) }
}

impl<'p> RefProgramLocation<'p> {
//@ fn impl<'p> RefProgramLocation<'p> :: fn from_function
//@ closure 0 |entry: usize| -> (r0: Result<RefProgramLocation<'_>, Error>)
    ensures
        function.control_flow_graph.has_block(entry) ==> r0 == Ok::<RefProgramLocation<'_>, Error>(rpl_at(function, entry_rfl(function, entry))),
        !function.control_flow_graph.has_block(entry) ==> r0 == Err::<RefProgramLocation<'_>, Error>(Error::GraphVertexNotFound(entry)),
//@ closure 1 |block: &Block| -> (r1: RefProgramLocation<'_>)
    ensures r1 == rpl_at(function, if block.instructions@.len() == 0 { RefFunctionLocation::EmptyBlock(block) } else { RefFunctionLocation::Instruction(block, &block.instructions@[0]) }),
//@ closure 2 |instruction: &Instruction| -> (r2: RefFunctionLocation<'_>)
    ensures r2 == RefFunctionLocation::Instruction(block, instruction),
//@ spec
    ensures
        /*@none*/ function.control_flow_graph.entry is None ==> r is None,
        /*@missing*/ function.control_flow_graph.entry matches Some(e) ==> (!function.control_flow_graph.has_block(e)
            ==> r == Some(Err::<RefProgramLocation<'_>, Error>(Error::GraphVertexNotFound(e)))),
        /*@entry*/ function.control_flow_graph.entry matches Some(e) ==> (function.control_flow_graph.has_block(e)
            ==> r == Some(Ok::<RefProgramLocation<'_>, Error>(rpl_at(function, entry_rfl(function, e))))),
        /*@wf*/ function.function_wf() ==> (r matches Some(Ok(x)) ==> x.rpl_wf() && Some(x.loc()) == entry_loc(*function)),
//@ end
}

// ---------------------------------------------------------------------------------------------
// Function::locations(): every location exactly once

/// the block a non-edge location lives in
pub open spec fn loc_block(l: Loc) -> Option<usize> {
    match l {
        Loc::Instruction(b, _) => Some(b),
        Loc::EmptyBlock(b) => Some(b),
        Loc::Edge(_, _) => None,
    }
}

/// block index `b` is among the first `n` entries of `bs`
pub open spec fn block_listed(bs: Seq<&Block>, n: int, b: usize) -> bool {
    exists|m: int| 0 <= m < n && m < bs.len() && (#[trigger] bs[m]).index == b
}

/// `l` is a (non-edge) location of `f` inside one of the first `n` blocks of `bs`
pub open spec fn blocks_sel(f: Function, bs: Seq<&Block>, n: int, l: Loc) -> bool {
    loc_valid(f, l) && loc_block(l) is Some && block_listed(bs, n, loc_block(l)->0)
}

/// instruction index `i` is among the first `q` instructions of `b`
pub open spec fn instr_listed(b: Block, q: int, i: usize) -> bool {
    exists|p: int| 0 <= p < q && #[trigger] instr_at(b, p, i)
}

/// `l` is the location of one of the first `q` instructions of block `b`
pub open spec fn instr_sel(b: Block, q: int, l: Loc) -> bool {
    match l {
        Loc::Instruction(k, i) => k == b.index && instr_listed(b, q, i),
        _ => false,
    }
}

/// progress of the block phase of `locations()`: the first `n` blocks are done, plus the first `q`
/// instructions of block `bs[n]`
pub open spec fn sel_bq(f: Function, bs: Seq<&Block>, n: int, q: int) -> spec_fn(Loc) -> bool {
    |l: Loc| blocks_sel(f, bs, n, l) || (0 <= n < bs.len() && instr_sel(*bs[n], q, l))
}

/// edge (h, t) is among the first `m` entries of `es`
pub open spec fn edge_listed(es: Seq<&Edge>, m: int, h: usize, t: usize) -> bool {
    exists|j: int| 0 <= j < m && j < es.len() && (#[trigger] es[j]).head == h && es[j].tail == t
}

/// progress of the edge phase of `locations()`: every non-edge location, plus the first `m` edges of `es`
pub open spec fn sel_e(f: Function, es: Seq<&Edge>, m: int) -> spec_fn(Loc) -> bool {
    |l: Loc| loc_valid(f, l) && (match l {
        Loc::Edge(h, t) => edge_listed(es, m, h, t),
        _ => true,
    })
}

/// every location of `f`
pub open spec fn sel_all(f: Function) -> spec_fn(Loc) -> bool {
    |l: Loc| loc_valid(f, l)
}

pub proof fn lemma_lists_rfls_ext(v: Seq<RefFunctionLocation>, f: Function, s1: spec_fn(Loc) -> bool, s2: spec_fn(Loc) -> bool)
    requires lists_rfls(v, f, s1), forall|l: Loc| #![trigger s1(l)] #![trigger s2(l)] s1(l) <==> s2(l),
    ensures lists_rfls(v, f, s2),
{
    assert forall|l: Loc| #[trigger] s2(l) implies exists|i: int| 0 <= i < v.len() && loc_of(#[trigger] v[i]) == l by {
        assert(s1(l));
    }
}

/// appending a location of `f` that is not listed yet
pub proof fn lemma_lists_rfls_push(v: Seq<RefFunctionLocation>, f: Function, s1: spec_fn(Loc) -> bool, x: RefFunctionLocation, s2: spec_fn(Loc) -> bool)
    requires
        lists_rfls(v, f, s1), rfl_in(f, x), !s1(loc_of(x)),
        forall|l: Loc| #![trigger s1(l)] #![trigger s2(l)] s2(l) <==> (s1(l) || l == loc_of(x)),
    ensures lists_rfls(v.push(x), f, s2),
{
    let w = v.push(x);
    assert forall|i: int| 0 <= i < w.len() implies rfl_in(f, #[trigger] w[i]) && s2(loc_of(w[i])) by {
        if i < v.len() { assert(w[i] == v[i]); assert(s1(loc_of(v[i]))); }
    }
    assert forall|i: int, j: int| 0 <= i < j < w.len() implies loc_of(#[trigger] w[i]) != loc_of(#[trigger] w[j]) by {
        assert(w[i] == v[i]);
        if j < v.len() { assert(w[j] == v[j]); } else { assert(s1(loc_of(v[i]))); }
    }
    assert forall|l: Loc| #[trigger] s2(l) implies exists|i: int| 0 <= i < w.len() && loc_of(#[trigger] w[i]) == l by {
        if s1(l) {
            let i = choose|i: int| 0 <= i < v.len() && loc_of(#[trigger] v[i]) == l;
            assert(w[i] == v[i]);
        } else {
            assert(loc_of(w[v.len() as int]) == l);
        }
    }
}

/// the block indices of an exact enumeration of the blocks are pairwise distinct: block bs[n] is not among bs[0..n)
pub proof fn lemma_block_not_listed(f: Function, bs: Seq<&Block>, n: int)
    requires f.control_flow_graph.graph.lists_vertices(bs, |k: usize| true), 0 <= n < bs.len(),
    ensures !block_listed(bs, n, bs[n].index), block_of(f, *bs[n]),
{
    if block_listed(bs, n, bs[n].index) {
        let m = choose|m: int| 0 <= m < n && m < bs.len() && (#[trigger] bs[m]).index == bs[n].index;
        assert(graph::Vertex::index_spec(bs[m]) != graph::Vertex::index_spec(bs[n]));
    }
    assert(f.control_flow_graph.graph.vertices@.contains_key(graph::Vertex::index_spec(bs[n])));
}

/// block phase, empty block: pushing EmptyBlock(bs[n]) finishes block n
pub proof fn lemma_locs_empty_block(f: Function, bs: Seq<&Block>, n: int, v: Seq<RefFunctionLocation>)
    requires
        f.function_wf(), f.control_flow_graph.graph.lists_vertices(bs, |k: usize| true), 0 <= n < bs.len(),
        lists_rfls(v, f, sel_bq(f, bs, n, 0)), bs[n].instructions@.len() == 0,
    ensures lists_rfls(v.push(RefFunctionLocation::EmptyBlock(bs[n])), f, sel_bq(f, bs, n + 1, 0)),
{
    let x = RefFunctionLocation::EmptyBlock(bs[n]);
    let s1 = sel_bq(f, bs, n, 0);
    let s2 = sel_bq(f, bs, n + 1, 0);
    let k = bs[n].index;
    lemma_block_not_listed(f, bs, n);
    assert forall|l: Loc| #![trigger s1(l)] #![trigger s2(l)] s2(l) <==> (s1(l) || l == loc_of(x)) by {
        lemma_block_listed_step(bs, n, loc_block(l));
        if l == loc_of(x) { assert(block_listed(bs, n + 1, k)); }
    }
    lemma_lists_rfls_push(v, f, s1, x, s2);
}

/// block_listed(bs, n + 1, b) is block_listed(bs, n, b) or b == bs[n].index; no instruction is listed at q = 0
pub proof fn lemma_block_listed_step(bs: Seq<&Block>, n: int, ob: Option<usize>)
    requires 0 <= n < bs.len(),
    ensures
        ob matches Some(b) ==> (block_listed(bs, n + 1, b) <==> (block_listed(bs, n, b) || b == bs[n].index)),
        forall|l: Loc| !instr_sel(*bs[n], 0, l),
{
    if ob is Some {
        let b = ob->0;
        if block_listed(bs, n + 1, b) {
            let m = choose|m: int| 0 <= m < n + 1 && m < bs.len() && (#[trigger] bs[m]).index == b;
            if m < n { assert(block_listed(bs, n, b)); }
        }
        if block_listed(bs, n, b) {
            let m = choose|m: int| 0 <= m < n && m < bs.len() && (#[trigger] bs[m]).index == b;
            assert(block_listed(bs, n + 1, b));
        }
        if b == bs[n].index { assert(bs[n].index == b); assert(block_listed(bs, n + 1, b)); }
    }
    assert forall|l: Loc| !instr_sel(*bs[n], 0, l) by {}
}

/// block phase, instruction q of block n: pushing Instruction(bs[n], bs[n].instructions[q])
pub proof fn lemma_locs_push_instr(f: Function, bs: Seq<&Block>, n: int, q: int, v: Seq<RefFunctionLocation>, ins: &Instruction)
    requires
        f.function_wf(), f.control_flow_graph.graph.lists_vertices(bs, |k: usize| true), 0 <= n < bs.len(),
        0 <= q < bs[n].instructions@.len(), *ins == bs[n].instructions@[q],
        lists_rfls(v, f, sel_bq(f, bs, n, q)),
    ensures lists_rfls(v.push(RefFunctionLocation::Instruction(bs[n], ins)), f, sel_bq(f, bs, n, q + 1)),
{
    let blk = *bs[n];
    let x = RefFunctionLocation::Instruction(bs[n], ins);
    let s1 = sel_bq(f, bs, n, q);
    let s2 = sel_bq(f, bs, n, q + 1);
    let k = blk.index;
    lemma_block_not_listed(f, bs, n);
    assert(blk.block_wf());
    assert(blk.instructions@[q] == *ins);
    assert(block_holds(blk, *ins));
    assert(instr_at(blk, q, ins.index));
    assert forall|l: Loc| #![trigger s1(l)] #![trigger s2(l)] s2(l) <==> (s1(l) || l == loc_of(x)) by {
        match l {
            Loc::Instruction(kk, i) => {
                if kk == k {
                    if instr_listed(blk, q + 1, i) {
                        let p = choose|p: int| 0 <= p < q + 1 && #[trigger] instr_at(blk, p, i);
                        if p < q { assert(instr_listed(blk, q, i)); }
                    }
                    if instr_listed(blk, q, i) {
                        let p = choose|p: int| 0 <= p < q && #[trigger] instr_at(blk, p, i);
                        assert(instr_listed(blk, q + 1, i));
                    }
                    if i == ins.index { assert(instr_listed(blk, q + 1, i)); }
                }
            }
            _ => {}
        }
    }
    assert(!s1(loc_of(x))) by {
        if instr_listed(blk, q, ins.index) {
            let p = choose|p: int| 0 <= p < q && #[trigger] instr_at(blk, p, ins.index);
            assert(blk.instructions@[p].index != blk.instructions@[q].index);
        }
    }
    lemma_lists_rfls_push(v, f, s1, x, s2);
}

/// block phase, end of a non-empty block: all its instructions listed = the block is done
pub proof fn lemma_locs_block_done(f: Function, bs: Seq<&Block>, n: int, v: Seq<RefFunctionLocation>)
    requires
        f.function_wf(), f.control_flow_graph.graph.lists_vertices(bs, |k: usize| true), 0 <= n < bs.len(),
        bs[n].instructions@.len() > 0,
        lists_rfls(v, f, sel_bq(f, bs, n, bs[n].instructions@.len() as int)),
    ensures lists_rfls(v, f, sel_bq(f, bs, n + 1, 0)),
{
    let blk = *bs[n];
    let len = blk.instructions@.len() as int;
    let s1 = sel_bq(f, bs, n, len);
    let s2 = sel_bq(f, bs, n + 1, 0);
    let k = blk.index;
    lemma_block_not_listed(f, bs, n);
    assert forall|l: Loc| #![trigger s1(l)] #![trigger s2(l)] s1(l) <==> s2(l) by {
        lemma_block_listed_step(bs, n, loc_block(l));
        if n + 1 < bs.len() { lemma_block_listed_step(bs, n + 1, None); }
        match l {
            Loc::Instruction(kk, i) => {
                if kk == k {
                    if instr_listed(blk, len, i) {
                        let p = choose|p: int| 0 <= p < len && #[trigger] instr_at(blk, p, i);
                        assert(blk.instructions@[p].index == i);
                        assert(blk.has_instruction(i));
                    }
                    if loc_valid(f, l) {
                        let p = choose|p: int| 0 <= p < blk.instructions@.len() && (#[trigger] blk.instructions@[p]).index == i;
                        assert(instr_at(blk, p, i));
                        assert(instr_listed(blk, len, i));
                    }
                }
            }
            _ => {}
        }
    }
    lemma_lists_rfls_ext(v, f, s1, s2);
}

/// end of the block phase = start of the edge phase: every non-edge location is listed
pub proof fn lemma_locs_blocks_done(f: Function, bs: Seq<&Block>, v: Seq<RefFunctionLocation>)
    requires
        f.function_wf(), f.control_flow_graph.graph.lists_vertices(bs, |k: usize| true),
        lists_rfls(v, f, sel_bq(f, bs, bs.len() as int, 0)),
    ensures forall|es: Seq<&Edge>| lists_rfls(v, f, #[trigger] sel_e(f, es, 0)),
{
    assert forall|es: Seq<&Edge>| lists_rfls(v, f, #[trigger] sel_e(f, es, 0)) by {
        lemma_locs_blocks_done_es(f, bs, es, v);
    }
}

pub proof fn lemma_locs_blocks_done_es(f: Function, bs: Seq<&Block>, es: Seq<&Edge>, v: Seq<RefFunctionLocation>)
    requires
        f.function_wf(), f.control_flow_graph.graph.lists_vertices(bs, |k: usize| true),
        lists_rfls(v, f, sel_bq(f, bs, bs.len() as int, 0)),
    ensures lists_rfls(v, f, sel_e(f, es, 0)),
{
    let s1 = sel_bq(f, bs, bs.len() as int, 0);
    let s2 = sel_e(f, es, 0);
    let g = f.control_flow_graph.graph;
    assert forall|l: Loc| #![trigger s1(l)] #![trigger s2(l)] s1(l) <==> s2(l) by {
        if loc_valid(f, l) && loc_block(l) is Some {
            let b = loc_block(l)->0;
            assert((|k: usize| true)(b) && g.vertices@.contains_key(b));
            let m = choose|m: int| 0 <= m < bs.len() && graph::Vertex::index_spec(#[trigger] bs[m]) == b;
            assert(bs[m].index == b);
            assert(block_listed(bs, bs.len() as int, b));
        }
    }
    lemma_lists_rfls_ext(v, f, s1, s2);
}

/// edge phase: pushing Edge(es[m])
pub proof fn lemma_locs_push_edge(f: Function, es: Seq<&Edge>, m: int, v: Seq<RefFunctionLocation>)
    requires
        f.function_wf(), f.control_flow_graph.graph.lists_edges(es, |k: (usize, usize)| true), 0 <= m < es.len(),
        lists_rfls(v, f, sel_e(f, es, m)),
    ensures lists_rfls(v.push(RefFunctionLocation::Edge(es[m])), f, sel_e(f, es, m + 1)),
{
    let x = RefFunctionLocation::Edge(es[m]);
    let s1 = sel_e(f, es, m);
    let s2 = sel_e(f, es, m + 1);
    let g = f.control_flow_graph.graph;
    assert(g.edges@.contains_key((graph::Edge::head_spec(es[m]), graph::Edge::tail_spec(es[m]))));
    assert(edge_of(f, *es[m]));
    assert forall|l: Loc| #![trigger s1(l)] #![trigger s2(l)] s2(l) <==> (s1(l) || l == loc_of(x)) by {
        match l {
            Loc::Edge(h, t) => {
                if edge_listed(es, m + 1, h, t) {
                    let j = choose|j: int| 0 <= j < m + 1 && j < es.len() && (#[trigger] es[j]).head == h && es[j].tail == t;
                    if j < m { assert(edge_listed(es, m, h, t)); }
                }
                if edge_listed(es, m, h, t) {
                    let j = choose|j: int| 0 <= j < m && j < es.len() && (#[trigger] es[j]).head == h && es[j].tail == t;
                    assert(edge_listed(es, m + 1, h, t));
                }
                if l == loc_of(x) { assert(es[m].head == h && es[m].tail == t); assert(edge_listed(es, m + 1, h, t)); }
            }
            _ => {}
        }
    }
    assert(!s1(loc_of(x))) by {
        if edge_listed(es, m, es[m].head, es[m].tail) {
            let j = choose|j: int| 0 <= j < m && j < es.len() && (#[trigger] es[j]).head == es[m].head && es[j].tail == es[m].tail;
            assert((graph::Edge::head_spec(es[j]), graph::Edge::tail_spec(es[j])) != (graph::Edge::head_spec(es[m]), graph::Edge::tail_spec(es[m])));
        }
    }
    lemma_lists_rfls_push(v, f, s1, x, s2);
}

/// end of the edge phase: every location is listed
pub proof fn lemma_locs_edges_done(f: Function, es: Seq<&Edge>, v: Seq<RefFunctionLocation>)
    requires
        f.function_wf(), f.control_flow_graph.graph.lists_edges(es, |k: (usize, usize)| true),
        lists_rfls(v, f, sel_e(f, es, es.len() as int)),
    ensures lists_rfls(v, f, sel_all(f)),
{
    let s1 = sel_e(f, es, es.len() as int);
    let s2 = sel_all(f);
    let g = f.control_flow_graph.graph;
    assert forall|l: Loc| #![trigger s1(l)] #![trigger s2(l)] s1(l) <==> s2(l) by {
        match l {
            Loc::Edge(h, t) => {
                if loc_valid(f, l) {
                    let k = (h, t);
                    assert((|k: (usize, usize)| true)(k) && g.edges@.contains_key(k));
                    let j = choose|j: int| 0 <= j < es.len() && (graph::Edge::head_spec(#[trigger] es[j]), graph::Edge::tail_spec(es[j])) == k;
                    assert(es[j].head == h && es[j].tail == t);
                    assert(edge_listed(es, es.len() as int, h, t));
                }
            }
            _ => {}
        }
    }
    lemma_lists_rfls_ext(v, f, s1, s2);
}

/// the set form of the enumeration property: the locations listed are exactly all_locs(f)
pub proof fn lemma_locations_set(f: Function, v: Seq<RefFunctionLocation>)
    requires lists_rfls(v, f, sel_all(f)),
    ensures
        v.map_values(|x: RefFunctionLocation| loc_of(x)).no_duplicates(),
        ISet::new(|l: Loc| v.map_values(|x: RefFunctionLocation| loc_of(x)).contains(l)) =~= all_locs(f),
{
    let w = v.map_values(|x: RefFunctionLocation| loc_of(x));
    let s = sel_all(f);
    assert forall|i: int, j: int| 0 <= i < w.len() && 0 <= j < w.len() && i != j implies w[i] != w[j] by {
        if i < j { assert(loc_of(v[i]) != loc_of(v[j])); } else { assert(loc_of(v[j]) != loc_of(v[i])); }
    }
    assert forall|l: Loc| w.contains(l) <==> loc_valid(f, l) by {
        if w.contains(l) {
            let i = choose|i: int| 0 <= i < w.len() && w[i] == l;
            assert(s(loc_of(v[i])));
        }
        if loc_valid(f, l) {
            assert(s(l));
            let i = choose|i: int| 0 <= i < v.len() && loc_of(#[trigger] v[i]) == l;
            assert(w[i] == l);
        }
    }
}

impl Function {
//@ fn lib/il/function.rs :: impl Function :: fn locations loops=3
//@ rewrite 1 `let mut locations = Vec::new();` => `let mut locations: Vec<RefFunctionLocation<'_>> = Vec::new();` ## R-type-annot: writes down the element type rustc infers for `locations` (the function returns it); needed because the invariants mention `locations` before the first `push`
//@ rewrite 1 `for block in self.blocks() {` => `let blocks__ = self.blocks(); for block in it: blocks__ {` ## R-bind-temp: binds the temporary `self.blocks()` (evaluated once, before the loop, in both forms) to a local so that ghost code can name its value, and names the ghost iterator; no executable change
//@ rewrite 1 `for instruction in instructions {` => `for instruction in it1: instructions {` ## R-ghost-iter-name: names the ghost iterator of the for loop so that invariants can mention it; no executable change
//@ rewrite 1 `for edge in self.edges() {` => `let edges__ = self.edges(); for edge in it2: edges__ {` ## R-bind-temp: binds the temporary `self.edges()` (evaluated once, before the loop, in both forms) to a local so that ghost code can name its value, and names the ghost iterator; no executable change
//@ spec
    requires self.function_wf(),
    ensures /*@list*/ lists_rfls(r@, *self, sel_all(*self)),
//@ before 0 `for block in it: blocks__`
    let ghost bs = blocks__@;
//@ loop 0
    invariant
        self.function_wf(), it.seq() == bs,
        self.control_flow_graph.graph.lists_vertices(bs, |k: usize| true),
        lists_rfls(locations@, *self, sel_bq(*self, bs, it.index@, 0)),
//@ before 0 `let instructions = block.instructions();`
    let ghost n = it.index@;
    proof {
        assert(block == bs[n]);
        if block.instructions@.len() == 0 { lemma_locs_empty_block(*self, bs, n, locations@); }
    }
//@ loop 1
    invariant
        self.function_wf(), 0 <= n < bs.len(), block == bs[n], bs == it.seq(), n == it.index@,
        self.control_flow_graph.graph.lists_vertices(bs, |k: usize| true),
        *instructions == block.instructions, block.instructions@.len() > 0,
        it1.seq().len() == block.instructions@.len(),
        forall|j: int| 0 <= j < it1.seq().len() ==> *#[trigger] it1.seq()[j] == block.instructions@[j],
        lists_rfls(locations@, *self, sel_bq(*self, bs, n, it1.index@)),
//@ before 0 `locations.push(RefFunctionLocation::Instruction(block, instruction));`
    proof { lemma_locs_push_instr(*self, bs, n, it1.index@, locations@, instruction); }
//@ after 0 `locations.push(RefFunctionLocation::Instruction(block, instruction)); }`
    proof { lemma_locs_block_done(*self, bs, n, locations@); }
//@ before 0 `let edges__ = self.edges();`
    proof { lemma_locs_blocks_done(*self, bs, locations@); }
//@ before 0 `for edge in it2: edges__`
    let ghost es = edges__@;
//@ loop 2
    invariant
        self.function_wf(), it2.seq() == es,
        self.control_flow_graph.graph.lists_edges(es, |k: (usize, usize)| true),
        lists_rfls(locations@, *self, sel_e(*self, es, it2.index@)),
//@ before 0 `locations.push(RefFunctionLocation::Edge(edge))`
    proof { lemma_locs_push_edge(*self, es, it2.index@, locations@); }
//@ before 0 `locations }`
    proof { lemma_locs_edges_done(*self, es, locations@); }
//@ end
}

// ---------------------------------------------------------------------------------------------
// RefProgramLocation::from_address

/// no instruction of block `b` has address `a`
pub open spec fn block_no_addr(b: Block, a: u64) -> bool {
    forall|q: int| 0 <= q < b.instructions@.len() ==> (#[trigger] b.instructions@[q]).address != Some(a)
}

/// no instruction of function `f` has address `a`
pub open spec fn fn_no_addr(f: Function, a: u64) -> bool {
    forall|b: usize| #![trigger f.control_flow_graph.graph.vertices@[b]] f.control_flow_graph.has_block(b) ==> block_no_addr(f.control_flow_graph.blocks_view()[b], a)
}

/// no instruction of program `p` has address `a`
pub open spec fn program_no_addr(p: Program, a: u64) -> bool {
    forall|k: usize| #![trigger p.functions@[k]] p.functions@.contains_key(k) ==> fn_no_addr(*p.functions@[k], a)
}

/// `x` is an instruction location whose instruction has address `a`
pub open spec fn rfl_has_addr(x: RefFunctionLocation, a: u64) -> bool {
    match x {
        RefFunctionLocation::Instruction(_, ins) => ins.address == Some(a),
        _ => false,
    }
}

pub proof fn lemma_fn_no_addr(f: Function, bs: Seq<&Block>, a: u64)
    requires
        f.control_flow_graph.graph.lists_vertices(bs, |k: usize| true),
        forall|j: int| 0 <= j < bs.len() ==> block_no_addr(*#[trigger] bs[j], a),
    ensures fn_no_addr(f, a),
{
    let g = f.control_flow_graph.graph;
    assert forall|b: usize| #![trigger g.vertices@[b]] f.control_flow_graph.has_block(b) implies block_no_addr(g.vertices@[b], a) by {
        assert((|k: usize| true)(b) && g.vertices@.contains_key(b));
        let m = choose|m: int| 0 <= m < bs.len() && graph::Vertex::index_spec(#[trigger] bs[m]) == b;
        assert(*bs[m] == g.vertices@[b]);
    }
}

pub proof fn lemma_program_no_addr(p: Program, fs: Seq<&Function>, a: u64)
    requires
        p.lists_functions(fs),
        forall|i: int| 0 <= i < fs.len() ==> fn_no_addr(*#[trigger] fs[i], a),
    ensures program_no_addr(p, a),
{
    assert forall|k: usize| #![trigger p.functions@[k]] p.functions@.contains_key(k) implies fn_no_addr(*p.functions@[k], a) by {
        let i = choose|i: int| 0 <= i < fs.len() && *#[trigger] fs[i] == *p.functions@[k];
        assert(fn_no_addr(*fs[i], a));
    }
}

/// a function held by a well-formed program is well formed
pub proof fn lemma_held_function_wf(p: Program, f: Function)
    requires p.program_wf(), p.holds_function(f),
    ensures f.function_wf(),
{
    reveal(Program::holds_function);
    let k = choose|k: usize| #![trigger p.functions@.contains_key(k)] p.functions@.contains_key(k) && *p.functions@[k] == f;
    assert((*p.functions@[k]).function_wf());
}

/// the instruction at position q of listed block bs[n] gives a well-formed location of f
pub proof fn lemma_instr_rpl_wf(f: &Function, bs: Seq<&Block>, n: int, q: int, ins: &Instruction)
    requires
        f.function_wf(), f.control_flow_graph.graph.lists_vertices(bs, |k: usize| true), 0 <= n < bs.len(),
        0 <= q < bs[n].instructions@.len(), *ins == bs[n].instructions@[q],
    ensures rpl_at(f, RefFunctionLocation::Instruction(bs[n], ins)).rpl_wf(),
{
    lemma_block_not_listed(*f, bs, n);
    assert(bs[n].instructions@[q] == *ins);
    assert(block_holds(*bs[n], *ins));
}

impl<'p> RefProgramLocation<'p> {
//@ fn lib/il/location.rs :: impl<'p> RefProgramLocation<'p> :: fn from_address loops=6
//@ rewrite 1 `let mut function = None;` => `let mut function: Option<&'p Function> = None;` ## R-type-annot: writes down the type rustc infers for `function` (it is later passed to RefProgramLocation::new as `&'p Function`); needed because the invariant mentions it before the first assignment
//@ rewrite 1 `for f in program.functions() {` => `for f in it0: program.functions() {` ## R-ghost-iter-name: names the ghost iterator of the for loop so that invariants can mention it; no executable change
//@ rewrite 1 `for function in program.functions() {` => `let fns__ = program.functions(); for function in it_f: fns__ {` ## R-bind-temp: binds the temporary `program.functions()` (evaluated once, before the loop, in both forms) to a local so that ghost code can name its value, and names the ghost iterator; no executable change
//@ rewrite 2 `for block in function.blocks() {` => `let blocks__ = function.blocks(); for block in it_b: blocks__ {` ## R-bind-temp: binds the temporary `function.blocks()` (evaluated once, before the loop, in both forms) to a local so that ghost code can name its value, and names the ghost iterator; no executable change
//@ rewrite 2 `for instruction in block.instructions() {` => `for instruction in it_i: block.instructions() {` ## R-ghost-iter-name: names the ghost iterator of the for loop so that invariants can mention it; no executable change
//@ rewrite 1 `{ continue; } if function.is_none() {` => `{ } else if function.is_none() {` ## R-continue: `if C { continue; } REST` at the end of a loop body is by definition `if C { } else { REST }` (Verus: "for-loops do not yet support continue"); part 1 of 3, first pass (closest-function heuristic) only
//@ rewrite 1 `continue; } let ff` => `} else { let ff` ## R-continue: part 2 of 3 (`if D { S; continue; } REST2` = `if D { S; } else { REST2 }`)
//@ rewrite 1 `ff.address() { function = Some(f); }` => `ff.address() { function = Some(f); } }` ## R-continue: part 3 of 3 (closes the `else` block opened in part 2 at the end of the loop body)
//@ closure 0 |a: u64| -> (r0: bool)
    ensures r0 == (a == address),
//@ spec
    requires program.program_wf(),
    ensures
        /*@found*/ r matches Some(x) ==> program.holds_function(*x.function) && x.rpl_wf() && rfl_has_addr(x.function_location, address),
        /*@missing*/ r is None ==> program_no_addr(*program, address),
//@ loop 0
    invariant
        program.lists_functions(it0.seq()),
        function matches Some(g) ==> program.holds_function(*g),
//@ before 0 `let blocks__ = function.blocks();`
    proof { lemma_held_function_wf(*program, *function); }
//@ before 0 `for block in it_b: blocks__`
    let ghost bs = blocks__@;
//@ loop 1
    invariant
        program.holds_function(*function), function.function_wf(), it_b.seq() == bs,
        function.control_flow_graph.graph.lists_vertices(bs, |k: usize| true),
//@ loop 2
    invariant
        program.holds_function(*function), function.function_wf(), it_b.seq() == bs, 0 <= it_b.index@ < bs.len(), block == bs[it_b.index@],
        function.control_flow_graph.graph.lists_vertices(bs, |k: usize| true),
        it_i.seq().len() == block.instructions@.len(),
        forall|j: int| 0 <= j < it_i.seq().len() ==> *#[trigger] it_i.seq()[j] == block.instructions@[j],
//@ before 0 `return Some(RefProgramLocation::new(`
    proof { lemma_instr_rpl_wf(function, bs, it_b.index@, it_i.index@, instruction); }
//@ before 0 `for function in it_f: fns__`
    let ghost fs = fns__@;
//@ loop 3
    invariant
        program.program_wf(), it_f.seq() == fs, program.lists_functions(fs),
        forall|i: int| 0 <= i < it_f.index@ ==> fn_no_addr(*#[trigger] fs[i], address),
//@ before 1 `let blocks__ = function.blocks();`
    proof { lemma_held_function_wf(*program, *function); }
//@ before 1 `for block in it_b: blocks__`
    let ghost bs = blocks__@;
//@ loop 4
    invariant
        program.holds_function(*function), function.function_wf(), it_b.seq() == bs,
        function.control_flow_graph.graph.lists_vertices(bs, |k: usize| true),
        forall|j: int| 0 <= j < it_b.index@ ==> block_no_addr(*#[trigger] bs[j], address),
//@ loop 5
    invariant
        program.holds_function(*function), function.function_wf(), it_b.seq() == bs, 0 <= it_b.index@ < bs.len(), block == bs[it_b.index@],
        function.control_flow_graph.graph.lists_vertices(bs, |k: usize| true),
        it_i.seq().len() == block.instructions@.len(),
        forall|j: int| 0 <= j < it_i.seq().len() ==> *#[trigger] it_i.seq()[j] == block.instructions@[j],
        forall|q: int| 0 <= q < it_i.index@ ==> (#[trigger] block.instructions@[q]).address != Some(address),
//@ before 1 `return Some(RefProgramLocation::new(`
    proof { lemma_instr_rpl_wf(function, bs, it_b.index@, it_i.index@, instruction); }
//@ after 1 `)); } } } }`
    proof { lemma_fn_no_addr(*function, bs, address); }
//@ before 0 `None }`
    proof { lemma_program_no_addr(*program, fs, address); }
//@ end
}

impl<'p> RefProgramLocation<'p> {
//@ fn lib/il/location.rs :: impl<'p> RefProgramLocation<'p> :: fn migrate
//@ closure 0 || -> (e0: Error)
    requires self.function.index is Some,
    ensures e0 is FalconInternal,
//@ closure 1 || -> (e1: Error)
    requires self.function.index is Some,
    ensures e1 is FalconInternal,
//@ spec
    requires self.function.index is Some,
    ensures
        /*@nofn*/ !program.functions@.contains_key(self.function.index->0) ==> (r matches Err(e) && e is FalconInternal),
        /*@ok*/ program.functions@.contains_key(self.function.index->0)
            && fl_applies(*program.functions@[self.function.index->0], loc_fl(self.loc())) ==> r is Ok,
        /*@err*/ program.functions@.contains_key(self.function.index->0)
            && !fl_applies(*program.functions@[self.function.index->0], loc_fl(self.loc())) ==> r is Err,
        /*@fn*/ r matches Ok(x) ==> program.functions@.contains_key(self.function.index->0) && *x.function == *program.functions@[self.function.index->0],
        /*@loc*/ r matches Ok(x) ==> ((*x.function).function_wf() ==> x.loc() == self.loc() && rfl_points_in(*x.function, x.function_location)),
        /*@same*/ program.program_wf() && program.holds_function(*self.function) && rfl_in(*self.function, self.function_location)
            ==> r == Ok::<RefProgramLocation<'m>, Error>(*self),
//@ enter
    broadcast use {vstd::std_specs::fmt::axiom_fmt_req_all_display, vstd::std_specs::fmt::axiom_fmt_req_all_usize};
    reveal(Program::holds_function);
//@ end
}
