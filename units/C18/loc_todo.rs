// ======================================================================================
// units/C18/loc_todo.rs - contracts STATED but NOT YET PROVED.  NOT included by unit.rs /
// loc_core.rs, so nothing in here is claimed.  Each hole moves to loc_core.rs once it verifies.
// (empty: every function of lib/il/location.rs and Function::locations is proved in loc_core.rs)
// ======================================================================================
