// ======================================================================================
// units/C18/loc_todo.rs - contracts STATED but NOT YET PROVED.  NOT included by unit.rs /
// loc_core.rs, so nothing in here is claimed.  Each hole moves to loc_core.rs once it verifies.
// ======================================================================================

/// some instruction of some block of some function of `p` has address `a`
pub open spec fn program_has_address(p: Program, a: u64) -> bool {
    exists|k: usize, b: usize, q: int| #![trigger p.functions@[k], (*p.functions@[k]).control_flow_graph.graph.vertices@[b].instructions@[q]]
        p.functions@.contains_key(k) && (*p.functions@[k]).control_flow_graph.has_block(b)
        && 0 <= q < (*p.functions@[k]).control_flow_graph.blocks_view()[b].instructions@.len()
        && (*p.functions@[k]).control_flow_graph.blocks_view()[b].instructions@[q].address == Some(a)
}

impl Function {
//@ fn lib/il/function.rs :: impl Function :: fn locations
//@ spec
    requires self.function_wf(),
    ensures /*@list*/ lists_rfls(r@, *self, |l: Loc| loc_valid(*self, l)),
//@ end
}

impl<'p> RefProgramLocation<'p> {
//@ fn lib/il/location.rs :: impl<'p> RefProgramLocation<'p> :: fn from_address
//@ spec
    requires program.program_wf(),
    ensures
        /*@found*/ r matches Some(x) ==> program.holds_function(*x.function) && x.rpl_wf()
            && (x.function_location matches RefFunctionLocation::Instruction(_, ins) && ins.address == Some(address)),
        /*@some*/ program_has_address(*program, address) ==> r is Some,
//@ end
}
