// ======================================================================================
// units/C13/constants_analysis.rs - `impl FixedPointAnalysis<'r, Constants> for ConstantsAnalysis`:
// the transfer function as a function on views (`trans_view`), the lattice laws of unit C09's trait
// contract discharged for this instance, and the contracts of `trans` / `join`.
// Included inside `pub mod constants` after constants_core.rs.
// ======================================================================================

// ---------------------------------------------------------------------------------------------
// the transfer function on views

/// position of the instruction with index `i` in block `blk`
pub open spec fn instr_pos(blk: il::Block, i: usize) -> int {
    choose|p: int| il::instr_at(blk, p, i)
}

/// the operation at location `l` of `f` (None: an edge or an empty block)
pub open spec fn op_at(f: il::Function, l: Loc) -> Option<il::Operation> {
    match l {
        Loc::Instruction(b, i) => {
            let blk = f.control_flow_graph.blocks_view()[b];
            Some(blk.instructions@[instr_pos(blk, i)].operation)
        }
        _ => None,
    }
}

/// the operation a borrowed location points at
pub open spec fn op_of(rfl: il::RefFunctionLocation) -> Option<il::Operation> {
    match rfl {
        il::RefFunctionLocation::Instruction(b, ins) => Some(ins.operation),
        _ => None,
    }
}

/// for a location OF a well-formed function the two readings agree
pub proof fn lemma_op_of_at(f: il::Function, rfl: il::RefFunctionLocation)
    requires f.function_wf(), il::rfl_in(f, rfl),
    ensures op_of(rfl) == op_at(f, il::loc_of(rfl)),
{
    match rfl {
        il::RefFunctionLocation::Instruction(b, ins) => {
            let blk = f.control_flow_graph.graph.vertices@[b.index];
            assert(blk == *b);
            assert(blk.block_wf());
            let p = choose|p: int| 0 <= p < b.instructions@.len() && #[trigger] b.instructions@[p] == *ins;
            assert(il::instr_at(blk, p, ins.index));
            let q = instr_pos(blk, ins.index);
            assert(il::instr_at(blk, q, ins.index));
            if p < q { assert(blk.instructions@[p].index != blk.instructions@[q].index); }
            if q < p { assert(blk.instructions@[q].index != blk.instructions@[p].index); }
        }
        _ => {}
    }
}

pub open spec fn in_view(s: Option<Constants>) -> CView {
    match s { Some(x) => x@, None => Map::<il::Scalar, Constant>::empty() }
}

/// what an assignment stores for its destination: the value of the source under the known constants, else Top
pub open spec fn assign_val(m: CView, src: Expression) -> Constant {
    match eval_view(m, src) { Some(c) => Constant::Constant(c), None => Constant::Top }
}

/// THE TRANSFER FUNCTION, per operation kind
pub open spec fn trans_view(op: Option<il::Operation>, m: CView) -> CView {
    match op {
        None => m,
        Some(il::Operation::Assign { dst, src }) => m.insert(dst, assign_val(m, src)),
        Some(il::Operation::Load { dst, index }) => m.insert(dst, Constant::Top),
        Some(il::Operation::Store { index, src }) => m,
        Some(il::Operation::Branch { target }) => top_view(m),
        Some(il::Operation::Intrinsic { intrinsic }) => match il::written_scalars(intrinsic) {
            Some(ss) => tops_view(m, ss),
            None => top_view(m),
        },
        Some(il::Operation::Nop { placeholder }) => m,
    }
}

/// what `trans` needs from the function: the source of every assignment is a sane expression
/// (constant leaves satisfy il::Constant's invariant, explicit widths are in 1..=MAX_BITS) - the
/// precondition of executor::eval (unit C04)
pub open spec fn op_sane(op: il::Operation) -> bool {
    op matches il::Operation::Assign { dst, src } ==> expr_sane(src)
}
pub open spec fn instr_sane(f: il::Function, b: usize, p: int) -> bool {
    op_sane(f.control_flow_graph.blocks_view()[b].instructions@[p].operation)
}
pub open spec fn exprs_sane(f: il::Function) -> bool {
    forall|b: usize, p: int| f.control_flow_graph.has_block(b) && 0 <= p < f.control_flow_graph.blocks_view()[b].instructions@.len()
        ==> #[trigger] instr_sane(f, b, p)
}

pub proof fn lemma_op_at_sane(f: il::Function, l: Loc)
    requires exprs_sane(f), il::loc_valid(f, l),
    ensures op_at(f, l) matches Some(op) ==> op_sane(op),
{
    match l {
        Loc::Instruction(b, i) => {
            let blk = f.control_flow_graph.blocks_view()[b];
            let p = choose|p: int| 0 <= p < blk.instructions@.len() && (#[trigger] blk.instructions@[p]).index == i;
            assert(il::instr_at(blk, p, i));
            let q = instr_pos(blk, i);
            assert(il::instr_at(blk, q, i));
            assert(instr_sane(f, b, q));
        }
        _ => {}
    }
}

// ---------------------------------------------------------------------------------------------
// the order on views and its laws

pub open spec fn view_inv(m: CView) -> bool { consts_wf(m) && no_bottom(m) }

pub proof fn lemma_cle_refl(x: Constant)
    ensures cle(x, x),
{
}

pub proof fn lemma_cle_trans(x: Constant, y: Constant, z: Constant)
    requires cle(x, y), cle(y, z),
    ensures cle(x, z),
{
}

pub proof fn lemma_cle_antisym(x: Constant, y: Constant)
    requires cle(x, y), cle(y, x),
    ensures x == y,
{
}

pub proof fn lemma_le_antisym(a: CView, b: CView)
    requires all_le(a, b), all_le(b, a),
    ensures a == b,
{
    assert forall|s: il::Scalar| a.contains_key(s) == b.contains_key(s) by {}
    assert forall|s: il::Scalar| a.contains_key(s) implies a[s] == b[s] by { lemma_cle_antisym(a[s], b[s]); }
    assert(a =~= b);
}

pub proof fn lemma_le_refl(a: CView)
    ensures all_le(a, a),
{
    assert forall|s: il::Scalar| #[trigger] a.contains_key(s) implies a.contains_key(s) && cle(a[s], a[s]) by { lemma_cle_refl(a[s]); }
}

pub proof fn lemma_le_trans(a: CView, b: CView, c: CView)
    requires all_le(a, b), all_le(b, c),
    ensures all_le(a, c),
{
    assert forall|s: il::Scalar| #[trigger] a.contains_key(s) implies c.contains_key(s) && cle(a[s], c[s]) by {
        assert(b.contains_key(s));
        lemma_cle_trans(a[s], b[s], c[s]);
    }
}

pub proof fn lemma_join_ub(a: CView, b: CView)
    ensures all_le(a, join_view(a, b)), all_le(b, join_view(a, b)),
{
    let j = join_view(a, b);
    assert forall|s: il::Scalar| #[trigger] a.contains_key(s) implies j.contains_key(s) && cle(a[s], j[s]) by {
        assert(a.dom().union(b.dom()).contains(s));
        lemma_cle_refl(a[s]);
    }
    assert forall|s: il::Scalar| #[trigger] b.contains_key(s) implies j.contains_key(s) && cle(b[s], j[s]) by {
        assert(a.dom().union(b.dom()).contains(s));
        lemma_cle_refl(b[s]);
    }
}

pub proof fn lemma_join_least(a: CView, b: CView, c: CView)
    requires all_le(a, c), all_le(b, c), no_bottom(a), no_bottom(b),
    ensures all_le(join_view(a, b), c),
{
    let j = join_view(a, b);
    assert forall|s: il::Scalar| #[trigger] j.contains_key(s) implies c.contains_key(s) && cle(j[s], c[s]) by {
        assert(a.contains_key(s) || b.contains_key(s));
        if a.contains_key(s) { assert(!(a[s] is Bottom)); }
        if b.contains_key(s) { assert(!(b[s] is Bottom)); }
    }
}

pub proof fn lemma_join_inv(a: CView, b: CView)
    requires view_inv(a), view_inv(b),
    ensures view_inv(join_view(a, b)),
{
    let j = join_view(a, b);
    assert forall|s: il::Scalar| #![trigger j[s]] j.contains_key(s) implies (j[s] matches Constant::Constant(c) ==> c.wf()) && !(j[s] is Bottom) by {
        assert(a.contains_key(s) || b.contains_key(s));
        if a.contains_key(s) { assert(!(a[s] is Bottom)); assert(a[s] matches Constant::Constant(c) ==> c.wf()); }
        if b.contains_key(s) { assert(!(b[s] is Bottom)); assert(b[s] matches Constant::Constant(c) ==> c.wf()); }
    }
}

/// `Some(Equal)` from cmp_view means: the two views are the same
pub proof fn lemma_cmp_equal(a: CView, b: CView)
    requires cmp_view(a, b) == Some(Ordering::Equal),
    ensures a == b,
{
    assert(a.len() == b.len() && dom_sub(a, b));
    lemma_same_len_dom(a, b);
    assert forall|s: il::Scalar| a.contains_key(s) implies a[s] == b[s] by {
        assert(b.dom().contains(s));
        let o = ccmp(a[s], b[s]);
        assert(rel_at(a, b, s, o));
        assert(o == Some(Ordering::Equal));
    }
    assert(a =~= b);
}

pub proof fn lemma_trans_inv(op: Option<il::Operation>, m: CView)
    requires view_inv(m),
    ensures view_inv(trans_view(op, m)),
{
    let t = trans_view(op, m);
    assert forall|s: il::Scalar| #![trigger t[s]] t.contains_key(s) implies (t[s] matches Constant::Constant(c) ==> c.wf()) && !(t[s] is Bottom) by {
        match op {
            Some(il::Operation::Assign { dst, src }) => {
                if s != dst { assert(m.contains_key(s) && t[s] == m[s]); }
            }
            Some(il::Operation::Load { dst, index }) => {
                if s != dst { assert(m.contains_key(s) && t[s] == m[s]); }
            }
            Some(il::Operation::Intrinsic { intrinsic }) => {
                match il::written_scalars(intrinsic) {
                    Some(ss) => { if !ss.contains(s) { assert(m.contains_key(s) && t[s] == m[s]); } }
                    None => {}
                }
            }
            Some(il::Operation::Branch { target }) => {}
            _ => { assert(t[s] == m[s]); }
        }
    }
}

// ---------------------------------------------------------------------------------------------
// the instance of the trait contract (unit C09)

/// the state with view `m`
pub open spec fn state_of(m: CView) -> Constants {
    Constants { constants: hashmap_of::hashmap_of(m) }
}

impl<'r> fixed_point::FixedPointAnalysis<'r, Constants> for ConstantsAnalysis {
    open spec fn an_inv(&self, f: il::Function) -> bool { exprs_sane(f) }
    open spec fn st_inv(&self, s: Constants) -> bool { view_inv(s@) }
    open spec fn le(&self, a: Constants, b: Constants) -> bool { all_le(a@, b@) }
    open spec fn trans_spec(&self, f: il::Function, l: Loc, s: Option<Constants>) -> Constants {
        state_of(trans_view(op_at(f, l), in_view(s)))
    }
    open spec fn trans_err(&self, f: il::Function, l: Loc, s: Option<Constants>, e: Error) -> bool { false }
    open spec fn join_spec(&self, a: Constants, b: Constants) -> Constants { state_of(join_view(a@, b@)) }
    /// `partial_cmp == Some(Equal)` means equal views (needs the candidate fix 3; false on /repo as is)
    open spec fn cmp_exact(&self) -> bool { true }
    /// the transfer function is NOT monotone in general (an assignment whose source mentions a scalar that is
    /// absent from the smaller state and a known constant in the bigger one goes from Top down to a constant)
    open spec fn monotone(&self, f: il::Function, fwd: bool) -> bool { false }

    proof fn law_partial_cmp() {}
    proof fn law_clone(&self, a: Constants, b: Constants) {
        lemma_le_refl(a@);
    }
    proof fn law_le_refl(&self, a: Constants) { lemma_le_refl(a@); }
    proof fn law_le_trans(&self, a: Constants, b: Constants, c: Constants) { lemma_le_trans(a@, b@, c@); }
    proof fn law_join_inv(&self, a: Constants, b: Constants) {
        broadcast use hashmap_of::axiom_hashmap_of;
        lemma_join_inv(a@, b@);
    }
    proof fn law_join_ub(&self, a: Constants, b: Constants) {
        broadcast use hashmap_of::axiom_hashmap_of;
        lemma_join_ub(a@, b@);
    }
    proof fn law_join_least(&self, a: Constants, b: Constants, c: Constants) {
        broadcast use hashmap_of::axiom_hashmap_of;
        lemma_join_least(a@, b@, c@);
    }
    proof fn law_trans_inv(&self, f: il::Function, fwd: bool, l: Loc, s: Option<Constants>) {
        broadcast use hashmap_of::axiom_hashmap_of;
        lemma_trans_inv(op_at(f, l), in_view(s));
    }
    proof fn law_trans_cong(&self, f: il::Function, fwd: bool, l: Loc, s1: Constants, s2: Constants) {
        broadcast use hashmap_of::axiom_hashmap_of;
        lemma_le_antisym(s1@, s2@);
        lemma_le_refl(trans_view(op_at(f, l), s1@));
    }
    proof fn law_cmp_exact(&self, new: Constants, old: Constants) {
        lemma_cmp_equal(new@, old@);
        lemma_le_refl(new@);
    }
    proof fn law_trans_mono(&self, f: il::Function, fwd: bool, l: Loc, s1: Option<Constants>, s2: Option<Constants>) {}
    proof fn law_cmp_equal(&self, f: il::Function, fwd: bool, new: Constants, old: Constants) {}
    proof fn law_cmp_ascending(&self, f: il::Function, fwd: bool, new: Constants, old: Constants) {}

//@ source lib/analysis/constants.rs
//@ fn impl<'r> fixed_point::FixedPointAnalysis<'r, Constants> for ConstantsAnalysis :: fn trans nopub loops=1
//@ rewrite 1 `.map(Constant::Constant)` => `.map(|vf_c: il::Constant| -> (vf_r: Constant) ensures vf_r == Constant::Constant(vf_c) { Constant::Constant(vf_c) })` ## R-ctor-eta: a tuple-variant constructor used as a function value is the closure that applies it (eta expansion; Verus does not accept constructors as function values)
//@ rewrite 1 `scalars_written .into_iter() .for_each(|scalar|` => `for scalar in vf_it: scalars_written.into_iter() {` ## R-for-each: `ITER.for_each(|x| BODY)` is by definition `for x in ITER { BODY }` (part 1 of 2; ITER and BODY stay the original tokens)
//@ rewrite 1 `)); } else {` => `); } } else {` ## R-for-each: part 2 of 2 (the parenthesis that closed `for_each(` becomes the brace that closes the loop body)
//@ spec
    ensures
        /*@exact*/ r matches Ok(s) && s@ == trans_view(op_of(location.function_location), in_view(state)),
//@ enter
    proof {
        lemma_op_of_at(*location.function, location.function_location);
        il::lemma_rfl_in_valid(*location.function, location.function_location);
        lemma_op_at_sane(*location.function, location.loc());
        lemma_trans_inv(op_of(location.function_location), in_view(state));
        lemma_le_refl(trans_view(op_of(location.function_location), in_view(state)));
    }
    broadcast use hashmap_of::axiom_hashmap_of;
    let ghost m0 = in_view(state);
//@ before 0 `if let Some(scalars_written) = intrinsic.scalars_written()`
    let ghost ss = il::written_scalars(*intrinsic);
//@ before 0 `for scalar in vf_it`
    let ghost refs = scalars_written@;
    proof { lemma_tops_none(m0, ss.unwrap()); }
//@ loop 0
    invariant
        vf_it.seq() == refs,
        ss is Some,
        il::refs_are(refs, ss.unwrap()),
        state@ == tops_view(m0, ss.unwrap().take(vf_it.index@ as int)),
//@ before 0 `state.set_scalar(scalar.clone(), Constant::Top)`
    proof { lemma_tops_step(m0, ss.unwrap(), vf_it.index@ as int); }
//@ after 0 `state.set_scalar(scalar.clone(), Constant::Top); }`
    proof { assert(ss.unwrap().take(ss.unwrap().len() as int) =~= ss.unwrap()); }
//@ end

//@ fn impl<'r> fixed_point::FixedPointAnalysis<'r, Constants> for ConstantsAnalysis :: fn join nopub
//@ spec
    ensures /*@exact*/ r matches Ok(s) && s@ == join_view(state0@, state1@),
//@ enter
    proof {
        lemma_join_inv(state0@, state1@);
        lemma_le_refl(join_view(state0@, state1@));
    }
    broadcast use hashmap_of::axiom_hashmap_of;
//@ end
}
