// ======================================================================================
// units/C13/constants_theory.rs - SPEC LEVEL ONLY (no `//@ fn` holes): the concrete small-step
// semantics of the IL restricted to the scalar store, the concretisation gamma, local soundness of the
// transfer function per operation kind, and the abstract-interpretation lemma L-AI for this instance:
//   every finite execution from the entry location stays inside gamma of the in-state `constants()`
//   reports for the location it has reached.
// Included inside `pub mod constants` after constants_fn.rs.
// ======================================================================================

/// the set of scalars the function itself has assigned so far
pub type ASet = spec_fn(il::Scalar) -> bool;

pub open spec fn aset_empty() -> ASet { |s: il::Scalar| false }

pub open spec fn aset_add(a: ASet, ss: Seq<il::Scalar>) -> ASet { |s: il::Scalar| a(s) || ss.contains(s) }

/// the scalars an operation assigns: Assign / Load destinations, DECLARED intrinsic writes
pub open spec fn written(op: Option<il::Operation>) -> Seq<il::Scalar> {
    match op {
        Some(il::Operation::Assign { dst, src }) => seq![dst],
        Some(il::Operation::Load { dst, index }) => seq![dst],
        Some(il::Operation::Intrinsic { intrinsic }) => match il::written_scalars(intrinsic) {
            Some(ss) => ss,
            None => Seq::<il::Scalar>::empty(),
        },
        _ => Seq::<il::Scalar>::empty(),
    }
}

/// pointwise equality of stores
pub open spec fn env_same(a: Env, b: Env) -> bool { forall|x: il::Scalar| #[trigger] a(x) == b(x) }

/// ONE CONCRETE STEP of an operation on the scalar store `s1` (C04's `Env`: scalar -> (width, value)):
///  * Assign: the source has a value under s1 (otherwise the execution stops with an error) and dst receives it;
///  * Load: dst receives SOME value (memory is not modelled: every loaded value is possible);
///  * Store / Nop / edges / empty blocks: the scalar store is unchanged;
///  * Branch: control leaves the IL of the function; when it continues ANY store is possible;
///  * Intrinsic with declared writes: every scalar that is not declared keeps its value;
///    undeclared: any store is possible.
pub open spec fn op_step(op: Option<il::Operation>, s1: Env, s2: Env) -> bool {
    match op {
        None => env_same(s2, s1),
        Some(il::Operation::Assign { dst, src }) => eval_spec(src, s1) matches EvalR::Val(w, v) && env_same(s2, env_upd(s1, dst, w, v)),
        Some(il::Operation::Load { dst, index }) => exists|w: nat, v: nat| #[trigger] env_same(s2, env_upd(s1, dst, w, v)),
        Some(il::Operation::Store { index, src }) => env_same(s2, s1),
        Some(il::Operation::Branch { target }) => true,
        Some(il::Operation::Intrinsic { intrinsic }) => match il::written_scalars(intrinsic) {
            Some(ss) => forall|x: il::Scalar| !ss.contains(x) ==> #[trigger] s2(x) == s1(x),
            None => true,
        },
        Some(il::Operation::Nop { placeholder }) => env_same(s2, s1),
    }
}

/// CONCRETISATION: (sigma, assigned) is described by the abstract state `m` when every scalar the function has
/// assigned is a key of `m`, and every assigned scalar for which `m` holds a constant has exactly that value
/// (Top and absent entries constrain nothing)
pub open spec fn gamma(m: CView, sigma: Env, a: ASet) -> bool {
    &&& forall|s: il::Scalar| #[trigger] a(s) ==> m.contains_key(s)
    &&& forall|s: il::Scalar| #![trigger a(s)] a(s) ==> (known(m, s) matches Some(c) ==> sigma(s) == Some((c.bits as nat, c.value@)))
}

/// nothing assigned yet: every abstract state describes the configuration
pub proof fn lemma_gamma_entry(m: CView, sigma: Env)
    ensures gamma(m, sigma, aset_empty()),
{
}

/// gamma is monotone in the abstract order
pub proof fn lemma_gamma_mono(m1: CView, m2: CView, sigma: Env, a: ASet)
    requires all_le(m1, m2), no_bottom(m1), gamma(m1, sigma, a),
    ensures gamma(m2, sigma, a),
{
    assert forall|s: il::Scalar| #![trigger a(s)] a(s) implies m2.contains_key(s) && (known(m2, s) matches Some(c) ==> sigma(s) == Some((c.bits as nat, c.value@))) by {
        assert(m1.contains_key(s));
        assert(cle(m1[s], m2[s]));
        assert(!(m1[s] is Bottom));
    }
}

/// Constants::eval, semantically: a reported value is the value of the expression in EVERY configuration of
/// gamma(m) in which all scalars of the expression that `m` knows have been assigned by the function
pub proof fn lemma_eval_sound(m: CView, e: Expression, sigma: Env, a: ASet, c: il::Constant)
    requires
        eval_view(m, e) == Some(c), gamma(m, sigma, a),
        forall|i: int| 0 <= i < expr_scalars(e).len() ==> a(#[trigger] expr_scalars(e)[i]),
    ensures eval_spec(e, sigma) == EvalR::Val(c.bits as nat, c.value@),
{
    broadcast use axiom_biguint_of;
    lemma_eval_view_val(m, e);
    let ss = expr_scalars(e);
    assert forall|i: int| 0 <= i < ss.len() implies sigma(#[trigger] ss[i]) == cenv(m)(ss[i]) by {
        assert(a(ss[i]));
        assert(known(m, ss[i]) is Some);
    }
    lemma_eval_view_env(m, e, sigma);
}

/// "no scalar is read before it is assigned", locally: the scalars of an assignment's source have been assigned
pub open spec fn reads_assigned(op: Option<il::Operation>, a: ASet) -> bool {
    op matches Some(il::Operation::Assign { dst, src }) ==> forall|i: int| 0 <= i < expr_scalars(src).len() ==> a(#[trigger] expr_scalars(src)[i])
}

/// LOCAL SOUNDNESS of the transfer function, per operation kind
pub proof fn lemma_trans_sound(op: Option<il::Operation>, m: CView, s1: Env, a1: ASet, s2: Env)
    requires gamma(m, s1, a1), op_step(op, s1, s2), reads_assigned(op, a1),
    ensures gamma(trans_view(op, m), s2, aset_add(a1, written(op))),
{
    let t = trans_view(op, m);
    let a2 = aset_add(a1, written(op));
    match op {
        None => {}
        Some(il::Operation::Assign { dst, src }) => {
            assert forall|s: il::Scalar| #![trigger a2(s)] a2(s) implies t.contains_key(s) && (known(t, s) matches Some(c) ==> s2(s) == Some((c.bits as nat, c.value@))) by {
                if s == dst {
                    if known(t, s) is Some {
                        let c = known(t, s).unwrap();
                        assert(eval_view(m, src) == Some(c));
                        lemma_eval_sound(m, src, s1, a1, c);
                    }
                } else {
                    assert(a1(s)) by { if !a1(s) { assert(written(op)[0] == dst); } }
                    assert(s2(s) == env_upd(s1, dst, (eval_spec(src, s1)->Val_0), (eval_spec(src, s1)->Val_1))(s));
                }
            }
        }
        Some(il::Operation::Load { dst, index }) => {
            let (w, v) = choose|w: nat, v: nat| #[trigger] env_same(s2, env_upd(s1, dst, w, v));
            assert forall|s: il::Scalar| #![trigger a2(s)] a2(s) implies t.contains_key(s) && (known(t, s) matches Some(c) ==> s2(s) == Some((c.bits as nat, c.value@))) by {
                if s != dst {
                    assert(a1(s)) by { if !a1(s) { assert(written(op)[0] == dst); } }
                    assert(s2(s) == env_upd(s1, dst, w, v)(s));
                }
            }
        }
        Some(il::Operation::Store { index, src }) => {}
        Some(il::Operation::Branch { target }) => {
            assert forall|s: il::Scalar| #![trigger a2(s)] a2(s) implies t.contains_key(s) && known(t, s) is None by {
                assert(a1(s));
                assert(m.dom().contains(s));
            }
        }
        Some(il::Operation::Intrinsic { intrinsic }) => {
            match il::written_scalars(intrinsic) {
                Some(ss) => {
                    assert forall|s: il::Scalar| #![trigger a2(s)] a2(s) implies t.contains_key(s) && (known(t, s) matches Some(c) ==> s2(s) == Some((c.bits as nat, c.value@))) by {
                        if ss.contains(s) {
                            assert(ss.to_set().contains(s));
                        } else {
                            assert(a1(s));
                            assert(m.dom().contains(s));
                            assert(s2(s) == s1(s));
                        }
                    }
                }
                None => {
                    assert forall|s: il::Scalar| #![trigger a2(s)] a2(s) implies t.contains_key(s) && known(t, s) is None by {
                        assert(a1(s));
                        assert(m.dom().contains(s));
                    }
                }
            }
        }
        Some(il::Operation::Nop { placeholder }) => {}
    }
}

// ---------------------------------------------------------------------------------------------
// executions of a function

/// a configuration: the location about to execute, the scalar store, the scalars assigned so far
pub type Config = (Loc, Env, ASet);

/// one step of the function: the operation at the location executes, control moves to a successor location
/// (`succ` of unit C18; edge conditions are over-approximated: every successor is possible)
pub open spec fn run_step(f: il::Function, c1: Config, c2: Config) -> bool {
    &&& il::succ(f, c1.0, c2.0)
    &&& op_step(op_at(f, c1.0), c1.1, c2.1)
    &&& forall|s: il::Scalar| #[trigger] c2.2(s) == aset_add(c1.2, written(op_at(f, c1.0)))(s)
}

/// a finite execution prefix inside the function, from its entry location, with nothing assigned yet
pub open spec fn is_run(f: il::Function, run: Seq<Config>) -> bool {
    &&& run.len() > 0
    &&& Some(run[0].0) == il::entry_loc(f)
    &&& forall|s: il::Scalar| !(#[trigger] run[0].2(s))
    &&& forall|k: int| 0 <= k < run.len() - 1 ==> run_step(f, #[trigger] run[k], run[k + 1])
}

/// "no scalar can be read before it is assigned": in every execution, when an assignment executes, every scalar
/// of its source has been assigned by the function
pub open spec fn def_before_use(f: il::Function) -> bool {
    forall|run: Seq<Config>, k: int| is_run(f, run) && 0 <= k < run.len() ==> reads_assigned(op_at(f, (#[trigger] run[k]).0), run[k].2)
}

/// the reported in-state is the in-state of the data-flow equation: out(l) = trans(l, in(l))
pub proof fn lemma_out_is_trans_in(f: il::Function, m: Map<il::ProgramLocation, Constants>, res: Map<il::ProgramLocation, Constants>, l: Loc)
    requires f.function_wf(), exprs_sane(f), is_solution(f, m), is_remap(f, m, res), fp_closure(f, true, l),
    ensures
        fview(m, f)(l) is Some, res.contains_key(ploc(f, l)),
        fview(m, f)(l).unwrap()@ == trans_view(op_at(f, l), res[ploc(f, l)]@),
{
    broadcast use hashmap_of::axiom_hashmap_of;
    let a = ConstantsAnalysis {};
    let out = fview(m, f);
    let rin = res[ploc(f, l)];
    assert(out(l) is Some);
    assert(eqn_at(&a, f, true, out, l));
    let ps = choose|ps: Seq<Loc>| #[trigger] lists_inputs(f, true, l, ps) && eqv(&a, out(l).unwrap(), a.trans_spec(f, l, in_fold(&a, out, ps)));
    lemma_in_fold_is_lub(&a, f, true, out, l, ps);
    let j = in_fold(&a, out, ps);
    assert(is_in_state(f, out, l, rin@));
    assert(in_view(j) == rin@) by {
        match j {
            Some(js) => {
                assert(inputs_below(&a, f, true, out, l, js));
                assert(preds_below(f, out, l, js@)) by {
                    assert forall|p: Loc| il::pred(f, l, p) && #[trigger] out(p) is Some implies all_le(out(p).unwrap()@, js@) by {
                        assert(input_of(f, true, l, p));
                    }
                }
                assert(all_le(rin@, js@));
                assert(inputs_below(&a, f, true, out, l, rin)) by {
                    assert forall|p: Loc| input_of(f, true, l, p) && #[trigger] out(p) is Some implies a.le(out(p).unwrap(), rin) by {
                        assert(il::pred(f, l, p));
                    }
                }
                assert(a.st_inv(rin));
                assert(a.le(js, rin));
                lemma_le_antisym(rin@, js@);
            }
            None => {
                let e = Map::<il::Scalar, Constant>::empty();
                assert(preds_below(f, out, l, e)) by {
                    assert forall|p: Loc| il::pred(f, l, p) && #[trigger] out(p) is Some implies all_le(out(p).unwrap()@, e) by {
                        assert(input_of(f, true, l, p));
                    }
                }
                assert(all_le(rin@, e));
                assert(rin@ =~= e);
            }
        }
    }
    lemma_le_antisym(out(l).unwrap()@, trans_view(op_at(f, l), in_view(j)));
}

/// L-AI: EVERY FINITE EXECUTION FROM THE ENTRY STAYS INSIDE gamma OF THE REPORTED IN-STATE.
/// Hypotheses: the function is well formed and its assignment sources are sane (what `constants()` requires),
/// `res` is what `constants()` returned (the in-states of a solution `m` of the equations), and no scalar is
/// read before it is assigned.
pub proof fn lemma_ai(f: il::Function, m: Map<il::ProgramLocation, Constants>, res: Map<il::ProgramLocation, Constants>, run: Seq<Config>, k: int)
    requires
        f.function_wf(), exprs_sane(f), is_solution(f, m), is_remap(f, m, res),
        def_before_use(f), is_run(f, run), 0 <= k < run.len(),
    ensures
        fp_closure(f, true, run[k].0),
        res.contains_key(ploc(f, run[k].0)),
        gamma(res[ploc(f, run[k].0)]@, run[k].1, run[k].2),
    decreases k,
{
    if k == 0 {
        lemma_closure_start(f, true);
        assert(gamma(res[ploc(f, run[0].0)]@, run[0].1, run[0].2)) by {
            assert forall|s: il::Scalar| !(#[trigger] run[0].2(s)) by {}
        }
    } else {
        lemma_ai(f, m, res, run, k - 1);
        let c1 = run[k - 1];
        let c2 = run[k];
        assert(run_step(f, c1, c2));
        let l1 = c1.0;
        let l2 = c2.0;
        let out = fview(m, f);
        lemma_closure_step(f, true, l1, l2);
        lemma_out_is_trans_in(f, m, res, l1);
        let r1 = res[ploc(f, l1)]@;
        let r2 = res[ploc(f, l2)]@;
        let op = op_at(f, l1);
        assert(reads_assigned(op, c1.2));
        lemma_trans_sound(op, r1, c1.1, c1.2, c2.1);
        let a2 = aset_add(c1.2, written(op));
        // the out-state of l1 is below the in-state of its successor l2
        lemma_step_input(f, true, l1, l2);
        assert(il::pred(f, l2, l1));
        assert(is_in_state(f, out, l2, r2));
        assert(all_le(out(l1).unwrap()@, r2));
        assert(opt_inv(&(ConstantsAnalysis {}), out(l1)));
        lemma_gamma_mono(out(l1).unwrap()@, r2, c2.1, a2);
        assert(gamma(r2, c2.1, c2.2)) by {
            assert forall|s: il::Scalar| #![trigger c2.2(s)] c2.2(s) == a2(s) by {}
        }
    }
}
