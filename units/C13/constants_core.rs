// ======================================================================================
// units/C13/constants_core.rs - lib/analysis/constants.rs: the REAL types (extracted) and the
// contracts of Constant::{get, partial_cmp}, Constants::{new, scalar, set_scalar, top, eval, join,
// partial_cmp}.  Included inside `pub mod constants`.
// ======================================================================================

//@ source lib/analysis/constants.rs
//@ item enum Constant
//@ item struct Constants

// ---- derive(Clone, PartialEq) re-supplied.  ASSUMED (same reading as units C04 / C15 / C18): the
// compiler-generated impls are a structural copy / structural equality.
impl Clone for Constant {
    #[verifier::external_body]
    fn clone(&self) -> (r: Constant) ensures r == *self { unimplemented!() }
}
impl vstd::std_specs::cmp::PartialEqSpecImpl for Constant {
    open spec fn obeys_eq_spec() -> bool { true }
    open spec fn eq_spec(&self, other: &Constant) -> bool { *self == *other }
}
impl PartialEq for Constant {
    #[verifier::external_body]
    fn eq(&self, other: &Constant) -> (r: bool) ensures r == (*self == *other) { unimplemented!() }
}
// derive(Clone) on Constants clones the HashMap: std's `HashMap::clone` yields a map with the same
// key/value pairs (keys and values cloned; both clones are structural copies).  Stated on the view.
impl Clone for Constants {
    #[verifier::external_body]
    fn clone(&self) -> (r: Constants) ensures r.constants@ == self.constants@ { unimplemented!() }
}
// derive(Debug): needed as a trait bound only; opaque, no contract
impl std::fmt::Debug for Constants {
    #[verifier::external_body]
    fn fmt(&self, f: &mut std::fmt::Formatter<'_>) -> std::fmt::Result { unimplemented!() }
}

// ---------------------------------------------------------------------------------------------
// spec vocabulary

/// what Constant::partial_cmp computes: Bottom < Constant(c) < Top, two different constants are unrelated
pub open spec fn ccmp(a: Constant, b: Constant) -> Option<Ordering> {
    match a {
        Constant::Top => match b {
            Constant::Top => Some(Ordering::Equal),
            _ => Some(Ordering::Greater),
        },
        Constant::Constant(lc) => match b {
            Constant::Top => Some(Ordering::Less),
            Constant::Constant(rc) => if lc == rc { Some(Ordering::Equal) } else { None },
            Constant::Bottom => Some(Ordering::Greater),
        },
        Constant::Bottom => match b {
            Constant::Bottom => Some(Ordering::Equal),
            _ => Some(Ordering::Less),
        },
    }
}

impl vstd::std_specs::cmp::PartialOrdSpecImpl for Constant {
    open spec fn obeys_partial_cmp_spec() -> bool { true }
    open spec fn partial_cmp_spec(&self, other: &Constant) -> Option<Ordering> { ccmp(*self, *other) }
}

impl Constant {
//@ fn impl Constant :: fn get
//@ spec
    ensures
        /*@constant*/ *self matches Constant::Constant(c) ==> r == Some(&c),
        /*@other*/ !(*self is Constant) ==> r is None,
//@ end
}

impl PartialOrd for Constant {
//@ fn impl PartialOrd for Constant :: fn partial_cmp nopub
//@ spec
    ensures /*@exact*/ r == ccmp(*self, *other),
//@ end
}

impl Constants {
    pub open spec fn view(&self) -> Map<il::Scalar, Constant> { self.constants@ }

//@ fn impl Constants :: fn new
//@ spec
    ensures /*@empty*/ r@ == Map::<il::Scalar, Constant>::empty(),
//@ end

//@ fn impl Constants :: fn set_scalar
//@ spec
    ensures /*@insert*/ final(self)@ == old(self)@.insert(scalar, constant),
//@ end
}
