// ======================================================================================
// units/C13/constants_core.rs - lib/analysis/constants.rs: contracts of Constant::{get, partial_cmp},
// Constants::{new, scalar, set_scalar, top, eval, join, partial_cmp}.
// Included inside `pub mod constants` after constants_spec.rs.
// ======================================================================================

//@ source lib/analysis/constants.rs

impl Constant {
//@ fn impl Constant :: fn get
//@ spec
    ensures
        /*@constant*/ *self matches Constant::Constant(c) ==> r == Some(&c),
        /*@other*/ !(*self is Constant) ==> r is None,
//@ end
}

impl PartialOrd for Constant {
//@ fn impl PartialOrd for Constant :: fn partial_cmp nopub
//@ spec
    ensures /*@exact*/ r == ccmp(*self, *other),
//@ end
}

// ---------------------------------------------------------------------------------------------
// facts about an enumeration of a map (vstd's HashMap::iter contract, vocabulary of units/C11)

/// key `s` is among the first `n` items
pub open spec fn seen(items: Seq<(&il::Scalar, &Constant)>, n: int, s: il::Scalar) -> bool {
    exists|i: int| 0 <= i < n && i < items.len() && *(#[trigger] items[i]).0 == s
}

pub proof fn lemma_items(items: Seq<(&il::Scalar, &Constant)>, m: CView)
    requires graph::seq_lists_map(items, m),
    ensures
        items.len() == m.len(),
        forall|i: int| 0 <= i < items.len() ==> m.contains_key(*(#[trigger] items[i]).0) && m[*items[i].0] == *items[i].1,
        forall|i: int, j: int| 0 <= i < items.len() && 0 <= j < items.len() && i != j ==> *(#[trigger] items[i]).0 != *(#[trigger] items[j]).0,
        forall|s: il::Scalar| m.contains_key(s) <==> seen(items, items.len() as int, s),
{
    graph::lemma_seq_lists_map(items, m);
    assert forall|i: int| 0 <= i < items.len() implies m.contains_key(*(#[trigger] items[i]).0) && m[*items[i].0] == *items[i].1 by {
        assert(m.contains_pair(*items[i].0, *items[i].1));
    }
    assert forall|s: il::Scalar| m.contains_key(s) <==> seen(items, items.len() as int, s) by {
        if m.contains_key(s) {
            let i = choose|i: int| 0 <= i < items.len() && *(#[trigger] items[i]).0 == s;
            assert(seen(items, items.len() as int, s));
        }
        if seen(items, items.len() as int, s) {
            let i = choose|i: int| 0 <= i < items.len() && *(#[trigger] items[i]).0 == s;
            assert(m.contains_pair(*items[i].0, *items[i].1));
        }
    }
}

/// two finite maps of the same size, one domain inside the other: the domains coincide
pub proof fn lemma_same_len_dom(a: CView, b: CView)
    requires a.len() == b.len(), dom_sub(a, b),
    ensures a.dom() == b.dom(),
{
    assert(a.dom().subset_of(b.dom())) by {
        assert forall|s: il::Scalar| a.dom().contains(s) implies b.dom().contains(s) by { assert(a.contains_key(s)); }
    }
    vstd::set_lib::lemma_subset_equality(a.dom(), b.dom());
}

/// the first `n` items of `a` have counterparts in `b` that are at least as high
pub open spec fn le_scan(b: CView, items: Seq<(&il::Scalar, &Constant)>, n: int) -> bool {
    forall|i: int| 0 <= i < n ==> b.contains_key(*(#[trigger] items[i]).0) && cle(*items[i].1, b[*items[i].0])
}

pub proof fn lemma_le_scan(a: CView, b: CView, items: Seq<(&il::Scalar, &Constant)>, n: int)
    requires graph::seq_lists_map(items, a), 0 <= n <= items.len(), le_scan(b, items, n),
    ensures n == items.len() ==> all_le(a, b),
{
    if n == items.len() {
        lemma_items(items, a);
        assert forall|s: il::Scalar| #[trigger] a.contains_key(s) implies b.contains_key(s) && cle(a[s], b[s]) by {
            assert(seen(items, items.len() as int, s));
            let i = choose|i: int| 0 <= i < items.len() && *(#[trigger] items[i]).0 == s;
        }
    }
}

pub proof fn lemma_le_fail(a: CView, b: CView, s: il::Scalar)
    requires a.contains_key(s),
    ensures !(b.contains_key(s) && cle(a[s], b[s])) ==> !all_le(a, b),
{
}

/// state of the scan of the equal-size case of Constants::partial_cmp after `n` items
pub open spec fn eq_scan(b: CView, items: Seq<(&il::Scalar, &Constant)>, n: int, order: Ordering) -> bool {
    &&& forall|i: int| 0 <= i < n ==> b.contains_key(*(#[trigger] items[i]).0) && ccmp(*items[i].1, b[*items[i].0]) is Some
    &&& order == Ordering::Equal ==> forall|i: int| 0 <= i < n ==> ccmp(*(#[trigger] items[i]).1, b[*items[i].0]) == Some(Ordering::Equal)
    &&& order == Ordering::Less ==> (forall|i: int| 0 <= i < n ==> ccmp(*(#[trigger] items[i]).1, b[*items[i].0]) != Some(Ordering::Greater))
            && (exists|i: int| 0 <= i < n && ccmp(*(#[trigger] items[i]).1, b[*items[i].0]) == Some(Ordering::Less))
    &&& order == Ordering::Greater ==> (forall|i: int| 0 <= i < n ==> ccmp(*(#[trigger] items[i]).1, b[*items[i].0]) != Some(Ordering::Less))
            && (exists|i: int| 0 <= i < n && ccmp(*(#[trigger] items[i]).1, b[*items[i].0]) == Some(Ordering::Greater))
}

/// one step of the scan: item `n` is comparable; the running order moves as the code moves it
pub proof fn lemma_eq_scan_step(b: CView, items: Seq<(&il::Scalar, &Constant)>, n: int, order: Ordering, order2: Ordering)
    requires
        eq_scan(b, items, n, order), 0 <= n < items.len(),
        b.contains_key(*items[n].0),
        ({ let c = ccmp(*items[n].1, b[*items[n].0]);
           ||| c == Some(Ordering::Equal) && order2 == order
           ||| c == Some(Ordering::Less) && order != Ordering::Greater && order2 == Ordering::Less
           ||| c == Some(Ordering::Greater) && order != Ordering::Less && order2 == Ordering::Greater }),
    ensures eq_scan(b, items, n + 1, order2),
{
    let c = ccmp(*items[n].1, b[*items[n].0]);
    if order2 == Ordering::Less {
        if c == Some(Ordering::Less) { assert(ccmp(*items[n].1, b[*items[n].0]) == Some(Ordering::Less)); }
        else { let i = choose|i: int| 0 <= i < n && ccmp(*(#[trigger] items[i]).1, b[*items[i].0]) == Some(Ordering::Less); }
    }
    if order2 == Ordering::Greater {
        if c == Some(Ordering::Greater) { assert(ccmp(*items[n].1, b[*items[n].0]) == Some(Ordering::Greater)); }
        else { let i = choose|i: int| 0 <= i < n && ccmp(*(#[trigger] items[i]).1, b[*items[i].0]) == Some(Ordering::Greater); }
    }
}

/// the scan is complete: the running order is the answer
pub proof fn lemma_eq_scan_done(a: CView, b: CView, items: Seq<(&il::Scalar, &Constant)>, n: int, order: Ordering)
    requires graph::seq_lists_map(items, a), a.len() == b.len(), 0 <= n <= items.len(), eq_scan(b, items, n, order),
    ensures n == items.len() ==> cmp_view(a, b) == Some(order),
{
    if n == items.len() {
        lemma_items(items, a);
        assert(dom_sub(a, b)) by {
            assert forall|s: il::Scalar| #[trigger] a.contains_key(s) implies b.contains_key(s) by {
                assert(seen(items, items.len() as int, s));
                let i = choose|i: int| 0 <= i < items.len() && *(#[trigger] items[i]).0 == s;
            }
        }
        assert forall|s: il::Scalar, o: Option<Ordering>| #[trigger] rel_at(a, b, s, o) implies
            exists|i: int| 0 <= i < n && *(#[trigger] items[i]).0 == s && ccmp(*items[i].1, b[*items[i].0]) == o by {
            assert(seen(items, items.len() as int, s));
            let i = choose|i: int| 0 <= i < items.len() && *(#[trigger] items[i]).0 == s;
        }
        assert(!some_rel(a, b, None));
        if order == Ordering::Less {
            let i = choose|i: int| 0 <= i < n && ccmp(*(#[trigger] items[i]).1, b[*items[i].0]) == Some(Ordering::Less);
            assert(rel_at(a, b, *items[i].0, Some(Ordering::Less)));
            assert(!some_rel(a, b, Some(Ordering::Greater)));
        } else if order == Ordering::Greater {
            let i = choose|i: int| 0 <= i < n && ccmp(*(#[trigger] items[i]).1, b[*items[i].0]) == Some(Ordering::Greater);
            assert(rel_at(a, b, *items[i].0, Some(Ordering::Greater)));
            assert(!some_rel(a, b, Some(Ordering::Less)));
        } else {
            assert(!some_rel(a, b, Some(Ordering::Less)));
            assert(!some_rel(a, b, Some(Ordering::Greater)));
        }
    }
}

/// the scan stops: a key of `a` is missing in `b`, or an entry is unrelated, or both directions occur
pub proof fn lemma_eq_scan_none(a: CView, b: CView, items: Seq<(&il::Scalar, &Constant)>, n: int, order: Ordering)
    requires
        graph::seq_lists_map(items, a), a.len() == b.len(), 0 <= n < items.len(), eq_scan(b, items, n, order),
    ensures
        ({ let k = *items[n].0; let v = *items[n].1;
           ||| !b.contains_key(k)
           ||| ccmp(v, b[k]) is None
           ||| ccmp(v, b[k]) == Some(Ordering::Less) && order == Ordering::Greater
           ||| ccmp(v, b[k]) == Some(Ordering::Greater) && order == Ordering::Less }) ==> cmp_view(a, b) is None,
{
    lemma_items(items, a);
    let k = *items[n].0; let v = *items[n].1;
    assert(a.contains_key(k) && a[k] == v);
    if !(!b.contains_key(k) || ccmp(v, b[k]) is None || (ccmp(v, b[k]) == Some(Ordering::Less) && order == Ordering::Greater)
        || (ccmp(v, b[k]) == Some(Ordering::Greater) && order == Ordering::Less)) {
    } else if !b.contains_key(k) {
        assert(!dom_sub(a, b));
    } else if ccmp(v, b[k]) is None {
        assert(rel_at(a, b, k, None));
    } else if ccmp(v, b[k]) == Some(Ordering::Less) {
        let i = choose|i: int| 0 <= i < n && ccmp(*(#[trigger] items[i]).1, b[*items[i].0]) == Some(Ordering::Greater);
        assert(rel_at(a, b, k, Some(Ordering::Less)));
        assert(rel_at(a, b, *items[i].0, Some(Ordering::Greater)));
    } else {
        let i = choose|i: int| 0 <= i < n && ccmp(*(#[trigger] items[i]).1, b[*items[i].0]) == Some(Ordering::Less);
        assert(rel_at(a, b, k, Some(Ordering::Greater)));
        assert(rel_at(a, b, *items[i].0, Some(Ordering::Less)));
    }
}

impl PartialOrd for Constants {
//@ fn impl PartialOrd for Constants :: fn partial_cmp nopub loops=3
//@ rewrite 1 `for (ls, lc) in self.constants.iter() {` => `for (ls, lc) in it: self.constants.iter() {` ## R-ghost-iter-name: names the ghost iterator of the for loop so that invariants can mention it; no executable change
//@ rewrite 1 `for (ls, lc) in other.constants.iter() {` => `for (ls, lc) in it: other.constants.iter() {` ## R-ghost-iter-name: names the ghost iterator of the for loop so that invariants can mention it; no executable change
//@ rewrite 1 `for (ls, lc) in &self.constants {` => `for (ls, lc) in it: &self.constants {` ## R-ghost-iter-name: names the ghost iterator of the for loop so that invariants can mention it; no executable change
//@ closure 0 |rc: &Constant| -> (b: bool)
    ensures b == cle(*lc, *rc),
//@ closure 1 |rc: &Constant| -> (b: bool)
    ensures b == cle(*lc, *rc),
//@ spec
    ensures /*@exact*/ r == cmp_view(self@, other@),
//@ loop 0
    invariant
        graph::seq_lists_map(it.seq(), self@),
        self@.len() < other@.len(),
        le_scan(other@, it.seq(), it.index@),
        it.index@ == it.seq().len() ==> all_le(self@, other@),
//@ before 0 `if !other.constants.get(ls)`
    proof { lemma_items(it.seq(), self@); lemma_le_fail(self@, other@, *ls); }
//@ after 0 `return None; }`
    proof { lemma_le_scan(self@, other@, it.seq(), it.index@ + 1); }
//@ loop 1
    invariant
        graph::seq_lists_map(it.seq(), other@),
        self@.len() > other@.len(),
        le_scan(self@, it.seq(), it.index@),
        it.index@ == it.seq().len() ==> all_le(other@, self@),
//@ before 0 `if !self.constants.get(ls)`
    proof { lemma_items(it.seq(), other@); lemma_le_fail(other@, self@, *ls); }
//@ after 1 `return None; }`
    proof { lemma_le_scan(other@, self@, it.seq(), it.index@ + 1); }
//@ loop 2
    invariant
        graph::seq_lists_map(it.seq(), self@),
        self@.len() == other@.len(),
        eq_scan(other@, it.seq(), it.index@, order),
        it.index@ == it.seq().len() ==> cmp_view(self@, other@) == Some(order),
//@ before 0 `match other.constants.get(ls) {`
    broadcast use {ordering_cmp::axiom_ordering_obeys_partial_cmp, ordering_cmp::axiom_ordering_partial_cmp};
    let ghost order0 = order;
    proof { lemma_eq_scan_none(self@, other@, it.seq(), it.index@, order0); }
//@ after 0 `None => { return None; } }`
    proof {
        lemma_eq_scan_step(other@, it.seq(), it.index@, order0, order);
        lemma_eq_scan_done(self@, other@, it.seq(), it.index@ + 1, order);
    }
//@ end
}

impl Constants {

//@ fn impl Constants :: fn new
//@ spec
    ensures /*@empty*/ r@ == Map::<il::Scalar, Constant>::empty(),
//@ end

//@ fn impl Constants :: fn scalar
//@ closure 0 |constant: &Constant| -> (o: Option<&il::Constant>)
    ensures
        *constant matches Constant::Constant(c) ==> o == Some(&c),
        !(*constant is Constant) ==> o is None,
//@ spec
    ensures
        /*@known*/ r matches Some(c) ==> known(self@, *scalar) == Some(*c),
        /*@unknown*/ r is None ==> known(self@, *scalar) is None,
//@ end

//@ fn impl Constants :: fn set_scalar
//@ spec
    ensures /*@insert*/ final(self)@ == old(self)@.insert(scalar, constant),
//@ end

//@ fn impl Constants :: fn top
//@ rewrite 1 `self.constants .iter_mut() .for_each(|(_, constant)| *constant =` => `hashmap_fill::hashmap_fill_values(&mut self.constants,` ## R-fill: `m.iter_mut().for_each(|(_, x)| *x = E)` assigns E to every stored value and touches no key; for a side-effect-free E that does not mention the entry this is `hashmap_fill_values(&mut m, E)` (prelude/hashmap_fill.rs, assumed contract of iter_mut); E stays the original tokens
//@ spec
    ensures /*@top*/ final(self)@ == top_view(old(self)@),
//@ end

//@ fn impl Constants :: fn eval loops=1
//@ rewrite 1 `let expression = expression_scalars .into_iter() .try_fold(expression.clone(), |expr, scalar| {` => `let mut vf_acc = expression.clone(); for scalar in vf_it: expression_scalars.into_iter() { let expr = vf_acc; vf_acc = {` ## R-try_fold: `let x = ITER.try_fold(INIT, |acc, item| BODY)?;` (BODY: Option<_>) is by definition `let mut a = INIT; for item in ITER { let acc = a; a = BODY?; } let x = a;` - the first None ends the fold and is returned by the `?` behind it; a `?` inside BODY leaves the closure with None, which has the same effect (part 1 of 2; ITER, INIT and BODY stay the original tokens)
//@ rewrite 1 `}) ?;` => `}?; } let expression = vf_acc;` ## R-try_fold: part 2 of 2 (closes the loop and binds the fold's result to the original name)
//@ spec
    requires expr_sane(*expression), consts_wf(self@),
    ensures
        /*@exact*/ r == eval_view(self@, *expression),
        /*@sound*/ r matches Some(c) ==> c.wf() && all_known(self@, expr_scalars(*expression))
            && eval_spec(*expression, cenv(self@)) == EvalR::Val(c.bits as nat, c.value@),
//@ before 0 `let mut vf_acc`
    let ghost ss = expr_scalars(*expression);
    let ghost refs = expression_scalars@;
//@ loop 0
    invariant
        vf_it.seq() == refs,
        refs.len() == ss.len(),
        forall|i: int| 0 <= i < refs.len() ==> *(#[trigger] refs[i]) == ss[i],
        ss == expr_scalars(*expression),
        subst_seq(*expression, ss.take(vf_it.index@ as int), self@) == Some(vf_acc),
//@ before 0 `let expr = vf_acc;`
    proof {
        lemma_subst_step(*expression, ss, self@, vf_it.index@ as int);
        lemma_subst_prefix_none(*expression, ss, self@, vf_it.index@ + 1);
    }
//@ before 0 `let expression = vf_acc;`
    proof {
        assert(ss.take(ss.len() as int) =~= ss);
        lemma_subst_seq(*expression, ss, self@, il::empty_env());
    }
//@ after 0 `let expression = vf_acc;`
    let ghost e2 = expression;
//@ before 0 `eval(&expression).ok()`
    proof {
        assert forall|res: Result<il::Constant, Error>| il::eval_agrees(res, eval_spec(e2, il::empty_env())) implies
            (res matches Ok(c) ==> eval_view(self@, *old_expression) == Some(c) && c.wf()) && (res is Err ==> eval_view(self@, *old_expression) is None) by {
            lemma_eval_view_result(self@, *old_expression, e2, res);
        }
        if eval_view(self@, *old_expression) is Some { lemma_eval_view_sound(self@, *old_expression, eval_view(self@, *old_expression).unwrap()); }
    }
//@ before 0 `let expression_scalars`
    let ghost old_expression = expression;
//@ end

//@ fn impl Constants :: fn join loops=1
//@ rewrite 1 `for (scalar, constant) in other.constants.iter() {` => `for (scalar, constant) in it: other.constants.iter() {` ## R-ghost-iter-name: names the ghost iterator of the for loop so that invariants can mention it; no executable change
//@ spec
    ensures /*@join*/ r@ == join_view(self@, other@),
//@ loop 0
    invariant
        graph::seq_lists_map(it.seq(), other@),
        forall|s: il::Scalar| #![trigger result@.contains_key(s)] result@.contains_key(s) <==> (self@.contains_key(s) || seen(it.seq(), it.index@, s)),
        forall|s: il::Scalar| #![trigger result@[s]] result@.contains_key(s) ==> result@[s] == (if seen(it.seq(), it.index@, s) { join_val(self@, other@, s) } else { self@[s] }),
//@ end

} // impl Constants
