// ======================================================================================
// units/C13/constants_fn.rs - `constants()`: run the forward solver (contract imported from unit
// C09) and remap: every location gets the JOIN OF THE OUT-STATES OF ITS PREDECESSORS (its in-state).
// Included inside `pub mod constants` after constants_analysis.rs.
// ======================================================================================

/// the abstract solution the solver's map denotes
pub open spec fn out_of(f: il::Function, m: Map<il::ProgramLocation, Constants>) -> LMap<Constants> { fview(m, f) }

/// `m` is an upper bound of the out-states of the predecessors of `l`
pub open spec fn preds_below(f: il::Function, out: LMap<Constants>, l: Loc, m: CView) -> bool {
    forall|p: Loc| il::pred(f, l, p) && #[trigger] out(p) is Some ==> all_le(out(p).unwrap()@, m)
}

/// `m` is THE JOIN (least upper bound, unique as a view) of the out-states of the predecessors of `l`;
/// the empty state when no predecessor has a state
pub open spec fn is_in_state(f: il::Function, out: LMap<Constants>, l: Loc, m: CView) -> bool {
    &&& view_inv(m)
    &&& preds_below(f, out, l, m)
    &&& forall|c: CView| #[trigger] preds_below(f, out, l, c) ==> all_le(m, c)
}

/// what the solver returned: a solution of the data-flow equations of this analysis over the locations
/// reachable from the entry location
pub open spec fn is_solution(f: il::Function, m: Map<il::ProgramLocation, Constants>) -> bool {
    &&& fkeys_ok(m, f)
    &&& solution_domain(f, true, fview(m, f))
    &&& lm_inv(&(ConstantsAnalysis {}), fview(m, f))
    &&& solution_eqs(&(ConstantsAnalysis {}), f, true, fview(m, f))
}

/// the result of `constants()` with respect to the solver's solution `m`
pub open spec fn is_remap(f: il::Function, m: Map<il::ProgramLocation, Constants>, res: Map<il::ProgramLocation, Constants>) -> bool {
    &&& res.dom() == m.dom()
    &&& forall|l: Loc| #![trigger fp_closure(f, true, l)] fp_closure(f, true, l) ==>
            res.contains_key(ploc(f, l)) && is_in_state(f, fview(m, f), l, res[ploc(f, l)]@)
}

/// scan of the predecessor list: the first `n` listed predecessors are below `m`
pub open spec fn first_below(out: LMap<Constants>, ps: Seq<il::RefProgramLocation>, n: int, m: CView) -> bool {
    forall|i: int| 0 <= i < n && i < ps.len() && #[trigger] out(ps[i].loc()) is Some ==> all_le(out(ps[i].loc()).unwrap()@, m)
}

/// the accumulator is the join of the states of the first `n` listed predecessors
pub open spec fn acc_ok(out: LMap<Constants>, ps: Seq<il::RefProgramLocation>, n: int, m: CView) -> bool {
    &&& view_inv(m)
    &&& first_below(out, ps, n, m)
    &&& forall|c: CView| #[trigger] first_below(out, ps, n, c) ==> all_le(m, c)
}

pub proof fn lemma_acc_init(out: LMap<Constants>, ps: Seq<il::RefProgramLocation>)
    ensures acc_ok(out, ps, 0, Map::<il::Scalar, Constant>::empty()),
{
}

/// predecessor `n` has no state: nothing changes
pub proof fn lemma_acc_skip(out: LMap<Constants>, ps: Seq<il::RefProgramLocation>, n: int, m: CView)
    requires acc_ok(out, ps, n, m), 0 <= n < ps.len(), out(ps[n].loc()) is None,
    ensures acc_ok(out, ps, n + 1, m),
{
    assert forall|c: CView| #[trigger] first_below(out, ps, n + 1, c) implies all_le(m, c) by {
        assert(first_below(out, ps, n, c));
    }
}

/// predecessor `n` has state `x`: the accumulator is joined with it
pub proof fn lemma_acc_join(out: LMap<Constants>, ps: Seq<il::RefProgramLocation>, n: int, m: CView, x: CView)
    requires acc_ok(out, ps, n, m), 0 <= n < ps.len(), out(ps[n].loc()) matches Some(s) && s@ == x, view_inv(x),
    ensures acc_ok(out, ps, n + 1, join_view(m, x)),
{
    let j = join_view(m, x);
    lemma_join_inv(m, x);
    lemma_join_ub(m, x);
    assert(first_below(out, ps, n + 1, j)) by {
        assert forall|i: int| 0 <= i < n + 1 && i < ps.len() && #[trigger] out(ps[i].loc()) is Some implies all_le(out(ps[i].loc()).unwrap()@, j) by {
            if i < n { lemma_le_trans(out(ps[i].loc()).unwrap()@, m, j); }
        }
    }
    assert forall|c: CView| #[trigger] first_below(out, ps, n + 1, c) implies all_le(j, c) by {
        assert(first_below(out, ps, n, c));
        assert(out(ps[n].loc()) is Some);
        assert(all_le(x, c));
        lemma_join_least(m, x, c);
    }
}

/// the whole list scanned: the accumulator is the in-state
pub proof fn lemma_acc_done(f: il::Function, out: LMap<Constants>, l: Loc, ps: Seq<il::RefProgramLocation>, m: CView)
    requires acc_ok(out, ps, ps.len() as int, m), il::lists_rpls(ps, f, |l2: Loc| il::pred(f, l, l2)),
    ensures is_in_state(f, out, l, m),
{
    let sel = |l2: Loc| il::pred(f, l, l2);
    assert(preds_below(f, out, l, m)) by {
        assert forall|p: Loc| il::pred(f, l, p) && #[trigger] out(p) is Some implies all_le(out(p).unwrap()@, m) by {
            assert(sel(p));
            let i = choose|i: int| 0 <= i < ps.len() && il::loc_of((#[trigger] ps[i]).function_location) == p;
            assert(ps[i].loc() == p);
            assert(out(ps[i].loc()) is Some);
        }
    }
    assert forall|c: CView| #[trigger] preds_below(f, out, l, c) implies all_le(m, c) by {
        assert(first_below(out, ps, ps.len() as int, c)) by {
            assert forall|i: int| 0 <= i < ps.len() && #[trigger] out(ps[i].loc()) is Some implies all_le(out(ps[i].loc()).unwrap()@, c) by {
                assert(sel(il::loc_of(ps[i].function_location)));
                assert(il::pred(f, l, ps[i].loc()));
            }
        }
    }
}

/// the remapped entries for the first `n` keys of the enumeration
pub open spec fn remap_scan(f: il::Function, m: Map<il::ProgramLocation, Constants>, keys: Seq<&il::ProgramLocation>, n: int, res: Map<il::ProgramLocation, Constants>) -> bool {
    &&& forall|k: il::ProgramLocation| #![trigger res.contains_key(k)] res.contains_key(k) <==> (exists|i: int| 0 <= i < n && i < keys.len() && *(#[trigger] keys[i]) == k)
    &&& forall|i: int| 0 <= i < n && i < keys.len() ==> is_in_state(f, fview(m, f), il::fl_loc((#[trigger] keys[i]).function_location), res[*keys[i]]@)
}

pub proof fn lemma_remap_step(f: il::Function, m: Map<il::ProgramLocation, Constants>, keys: Seq<&il::ProgramLocation>, n: int,
        res: Map<il::ProgramLocation, Constants>, v: Constants)
    requires
        remap_scan(f, m, keys, n, res), 0 <= n < keys.len(), keys.no_duplicates(),
        is_in_state(f, fview(m, f), il::fl_loc(keys[n].function_location), v@),
    ensures remap_scan(f, m, keys, n + 1, res.insert(*keys[n], v)),
{
    let res2 = res.insert(*keys[n], v);
    assert forall|k: il::ProgramLocation| #![trigger res2.contains_key(k)] res2.contains_key(k) <==> (exists|i: int| 0 <= i < n + 1 && i < keys.len() && *(#[trigger] keys[i]) == k) by {
        if res2.contains_key(k) {
            if k == *keys[n] { assert(*keys[n] == k); }
            else { assert(res.contains_key(k)); let i = choose|i: int| 0 <= i < n && i < keys.len() && *(#[trigger] keys[i]) == k; assert(*keys[i] == k); }
        }
        if exists|i: int| 0 <= i < n + 1 && i < keys.len() && *(#[trigger] keys[i]) == k {
            let i = choose|i: int| 0 <= i < n + 1 && i < keys.len() && *(#[trigger] keys[i]) == k;
            if i < n { assert(res.contains_key(k)); }
        }
    }
    assert forall|i: int| 0 <= i < n + 1 && i < keys.len() implies is_in_state(f, fview(m, f), il::fl_loc((#[trigger] keys[i]).function_location), res2[*keys[i]]@) by {
        if i < n {
            assert(keys[i] != keys[n]);
            assert(*keys[i] != *keys[n]);
        }
    }
}

pub proof fn lemma_remap_done(f: il::Function, m: Map<il::ProgramLocation, Constants>, keys: Seq<&il::ProgramLocation>, n: int, res: Map<il::ProgramLocation, Constants>)
    requires
        remap_scan(f, m, keys, n, res), 0 <= n <= keys.len(), graph::seq_lists_set_ref(keys, m.dom()),
        fkeys_ok(m, f), solution_domain(f, true, fview(m, f)),
    ensures n == keys.len() ==> is_remap(f, m, res),
{
    if n != keys.len() { return; }
    graph::lemma_seq_lists_set_ref(keys, m.dom());
    assert forall|k: il::ProgramLocation| res.dom().contains(k) <==> m.dom().contains(k) by {
        if res.contains_key(k) { let i = choose|i: int| 0 <= i < keys.len() && *(#[trigger] keys[i]) == k; assert(m.dom().contains(*keys[i])); }
        if m.dom().contains(k) { let i = choose|i: int| 0 <= i < keys.len() && *(#[trigger] keys[i]) == k; assert(res.contains_key(k)); }
    }
    assert(res.dom() =~= m.dom());
    assert forall|l: Loc| #![trigger fp_closure(f, true, l)] fp_closure(f, true, l) implies
            res.contains_key(ploc(f, l)) && is_in_state(f, fview(m, f), l, res[ploc(f, l)]@) by {
        assert(fview(m, f)(l) is Some);
        assert(m.dom().contains(ploc(f, l)));
        let i = choose|i: int| 0 <= i < keys.len() && *(#[trigger] keys[i]) == ploc(f, l);
        lemma_ploc_inj(f, l, l);
    }
}

/// nothing to remap when the solver's map is empty (cannot happen: the entry location always has a state)
pub proof fn lemma_remap_empty(f: il::Function, m: Map<il::ProgramLocation, Constants>)
    requires solution_domain(f, true, fview(m, f)),
    ensures m.dom().len() == 0 ==> is_remap(f, m, Map::<il::ProgramLocation, Constants>::empty()),
{
    if m.dom().len() == 0 {
        m.dom().lemma_len0_is_empty();
        assert(m.dom() =~= Set::<il::ProgramLocation>::empty());
        assert(Map::<il::ProgramLocation, Constants>::empty().dom() =~= m.dom());
        assert forall|l: Loc| #![trigger fp_closure(f, true, l)] fp_closure(f, true, l) implies false by {
            assert(fview(m, f)(l) is Some);
            assert(m.dom().contains(ploc(f, l)));
        }
    }
}

//@ source lib/analysis/constants.rs
//@ fn fn constants loops=2
//@ rewrite 1 `let mut result = HashMap::new();` => `let mut result: HashMap<il::ProgramLocation, Constants> = HashMap::new();` ## R-type-annot: writes down the type rustc infers for `result` (the function returns it); needed because the invariant mentions `result` before the first `insert`
//@ rewrite 1 `for location in constants.keys() {` => `for location in it0: constants.keys() {` ## R-ghost-iter-name: names the ghost iterator of the for loop so that invariants can mention it; no executable change
//@ rewrite 1 `result.insert( location.clone(),` => `let vf_key = location.clone(); let vf_preds =` ## R-arg-let: `m.insert(K, V);` is `let k = K; let v = V; m.insert(k, v);` (arguments are evaluated left to right before the call); part 1 of 3: the key expression is bound first, the value expression (which starts with the original `rpl.backward()?`) follows
//@ rewrite 1 `.into_iter() .fold(Constants::new(), |c, location| {` => `; let mut vf_acc = Constants::new(); for location in vf_it: vf_preds.into_iter() { let c = vf_acc; vf_acc = {` ## R-fold: `ITER.fold(INIT, |c, x| BODY)` is by definition `let mut acc = INIT; for x in ITER { let c = acc; acc = BODY; } acc`; BODY is kept token for token (part 2 of 3)
//@ rewrite 1 `}), );` => `}; } result.insert(vf_key, vf_acc);` ## R-fold: part 3 of 3 (closes the loop and performs the original insert with the two bound values)
//@ spec
    requires function.function_wf(), exprs_sane(*function),
    ensures
        /*@no_entry*/ function.control_flow_graph.entry is None ==> r == Err::<HashMap<il::ProgramLocation, Constants>, Error>(Error::FixedPointRequiresEntry),
        /*@in_states*/ r matches Ok(res) ==> exists|m: Map<il::ProgramLocation, Constants>| #[trigger] is_solution(*function, m) && is_remap(*function, m, res@),
        /*@errors*/ r matches Err(e) ==> fp_error(&(ConstantsAnalysis {}), *function, true, false, e),
//@ enter
    broadcast use {location_hash::axiom_program_location_obeys_key_model};
    let ghost f = *function;
//@ before 0 `let mut result`
    let ghost m = constants@;
    let ghost out = fview(m, f);
    proof { assert(is_solution(f, m)); }
//@ after 0 `let mut result: HashMap<il::ProgramLocation, Constants> = HashMap::new();`
    proof { lemma_remap_empty(f, m); }
//@ loop 0
    invariant
        f == *function, function.function_wf(), m == constants@, out == fview(m, f),
        is_solution(f, m),
        graph::seq_lists_set_ref(it0.seq(), m.dom()),
        remap_scan(f, m, it0.seq(), it0.index@, result@),
        it0.index@ == it0.seq().len() ==> is_remap(f, m, result@),
//@ before 0 `let rfl = location.function_location().apply(function).unwrap();`
    broadcast use {location_hash::axiom_program_location_obeys_key_model};
    let ghost l0 = il::fl_loc(location.function_location);
    proof {
        graph::lemma_seq_lists_set_ref(it0.seq(), m.dom());
        assert(m.contains_key(*location));
        lemma_ploc_of(f, *location);
        assert(out(l0) is Some);
        lemma_closure_valid(f, true, l0);
        lemma_valid_applies(f, location.function_location);
    }
//@ before 0 `let mut vf_acc`
    let ghost preds = vf_preds@;
    proof { lemma_acc_init(out, preds); }
//@ loop 1
    invariant
        f == *function, m == constants@, out == fview(m, f), is_solution(f, m),
        vf_it.seq() == preds,
        il::lists_rpls(preds, f, |l2: Loc| il::pred(f, l0, l2)),
        acc_ok(out, preds, vf_it.index@ as int, vf_acc@),
//@ before 0 `let c = vf_acc;`
    broadcast use {location_hash::axiom_program_location_obeys_key_model};
    let ghost pl = location.loc();
    proof {
        assert(*location.function == f);
        assert(opt_inv(&(ConstantsAnalysis {}), out(pl)));
    }
//@ before 0 `} result.insert(vf_key, vf_acc);`
    proof {
        if out(pl) is Some { lemma_acc_join(out, preds, vf_it.index@ as int, c@, out(pl).unwrap()@); }
        else { lemma_acc_skip(out, preds, vf_it.index@ as int, c@); }
    }
//@ before 0 `result.insert(vf_key, vf_acc);`
    proof { lemma_acc_done(f, out, l0, preds, vf_acc@); }
    let ghost old_result = result@;
//@ after 0 `result.insert(vf_key, vf_acc);`
    proof {
        lemma_remap_step(f, m, it0.seq(), it0.index@, old_result, result@[*location]);
        lemma_remap_done(f, m, it0.seq(), it0.index@ + 1, result@);
    }
//@ end
