// ======================================================================================
// units/C13/constants_spec.rs - lib/analysis/constants.rs: the REAL types (extracted), the
// re-supplied derives, and the spec vocabulary over VIEWS  (Map<il::Scalar, Constant>):
// the per-entry comparison `ccmp`, the comparison of two states `cmp_view`, `join_view`, `top_view`,
// the known-constants environment `cenv`, substitution of the known constants `subst_seq` and what
// `Constants::eval` computes, `eval_view`, with its soundness lemma.
// Included inside `pub mod constants` before constants_core.rs.  No axioms are used here.
// ======================================================================================

//@ source lib/analysis/constants.rs
//@ item enum Constant
//@ item struct Constants
//@ item struct ConstantsAnalysis

// ---- derive(Clone, PartialEq) re-supplied.  ASSUMED (same reading as units C04 / C15 / C18): the
// compiler-generated impls are a structural copy / structural equality.
impl Clone for Constant {
    #[verifier::external_body]
    fn clone(&self) -> (r: Constant) ensures r == *self { unimplemented!() }
}
impl vstd::std_specs::cmp::PartialEqSpecImpl for Constant {
    open spec fn obeys_eq_spec() -> bool { true }
    open spec fn eq_spec(&self, other: &Constant) -> bool { *self == *other }
}
impl PartialEq for Constant {
    #[verifier::external_body]
    fn eq(&self, other: &Constant) -> (r: bool) ensures r == (*self == *other) { unimplemented!() }
}
// derive(Clone) on Constants clones the HashMap: std's `HashMap::clone` yields a map with the same
// key/value pairs (keys and values cloned; both clones are structural copies).  Stated on the view.
impl Clone for Constants {
    #[verifier::external_body]
    fn clone(&self) -> (r: Constants) ensures r.constants@ == self.constants@ { unimplemented!() }
}
// derive(Debug): needed as a trait bound only; opaque, no contract
impl std::fmt::Debug for Constants {
    #[verifier::external_body]
    fn fmt(&self, f: &mut std::fmt::Formatter<'_>) -> std::fmt::Result { unimplemented!() }
}

pub type CView = Map<il::Scalar, Constant>;

impl Constants {
    pub open spec fn view(&self) -> CView { self.constants@ }
}

// ---------------------------------------------------------------------------------------------
// per-entry comparison

/// what Constant::partial_cmp computes: Bottom < Constant(c) < Top, two different constants are unrelated
pub open spec fn ccmp(a: Constant, b: Constant) -> Option<Ordering> {
    match a {
        Constant::Top => match b {
            Constant::Top => Some(Ordering::Equal),
            _ => Some(Ordering::Greater),
        },
        Constant::Constant(lc) => match b {
            Constant::Top => Some(Ordering::Less),
            Constant::Constant(rc) => if lc == rc { Some(Ordering::Equal) } else { None },
            Constant::Bottom => Some(Ordering::Greater),
        },
        Constant::Bottom => match b {
            Constant::Bottom => Some(Ordering::Equal),
            _ => Some(Ordering::Less),
        },
    }
}

pub open spec fn cle(a: Constant, b: Constant) -> bool {
    ccmp(a, b) == Some(Ordering::Less) || ccmp(a, b) == Some(Ordering::Equal)
}

impl vstd::std_specs::cmp::PartialOrdSpecImpl for Constant {
    open spec fn obeys_partial_cmp_spec() -> bool { true }
    open spec fn partial_cmp_spec(&self, other: &Constant) -> Option<Ordering> { ccmp(*self, *other) }
}

// ---------------------------------------------------------------------------------------------
// comparison of two states (what Constants::partial_cmp computes, independent of the iteration order)

/// every entry of `a` has a counterpart in `b` that is at least as high
pub open spec fn all_le(a: CView, b: CView) -> bool {
    forall|s: il::Scalar| #[trigger] a.contains_key(s) ==> b.contains_key(s) && cle(a[s], b[s])
}
pub open spec fn dom_sub(a: CView, b: CView) -> bool {
    forall|s: il::Scalar| #[trigger] a.contains_key(s) ==> b.contains_key(s)
}
pub open spec fn rel_at(a: CView, b: CView, s: il::Scalar, o: Option<Ordering>) -> bool {
    a.contains_key(s) && b.contains_key(s) && ccmp(a[s], b[s]) == o
}
pub open spec fn some_rel(a: CView, b: CView, o: Option<Ordering>) -> bool {
    exists|s: il::Scalar| #[trigger] rel_at(a, b, s, o)
}

pub open spec fn cmp_view(a: CView, b: CView) -> Option<Ordering> {
    if a.len() < b.len() {
        if all_le(a, b) { Some(Ordering::Less) } else { None }
    } else if a.len() > b.len() {
        if all_le(b, a) { Some(Ordering::Greater) } else { None }
    } else if !dom_sub(a, b) || some_rel(a, b, None) {
        None
    } else if some_rel(a, b, Some(Ordering::Less)) {
        if some_rel(a, b, Some(Ordering::Greater)) { None } else { Some(Ordering::Less) }
    } else if some_rel(a, b, Some(Ordering::Greater)) {
        Some(Ordering::Greater)
    } else {
        Some(Ordering::Equal)
    }
}

impl vstd::std_specs::cmp::PartialOrdSpecImpl for Constants {
    open spec fn obeys_partial_cmp_spec() -> bool { true }
    open spec fn partial_cmp_spec(&self, other: &Constants) -> Option<Ordering> { cmp_view(self@, other@) }
}
// derive(PartialEq) on Constants: `HashMap == HashMap` compares the two maps as sets of key/value pairs
impl vstd::std_specs::cmp::PartialEqSpecImpl for Constants {
    open spec fn obeys_eq_spec() -> bool { true }
    open spec fn eq_spec(&self, other: &Constants) -> bool { self@ == other@ }
}
impl PartialEq for Constants {
    #[verifier::external_body]
    fn eq(&self, other: &Constants) -> (r: bool) ensures r == (self@ == other@) { unimplemented!() }
}

// ---------------------------------------------------------------------------------------------
// join / top

pub open spec fn join_val(a: CView, b: CView, s: il::Scalar) -> Constant {
    if a.contains_key(s) && b.contains_key(s) { if a[s] == b[s] { a[s] } else { Constant::Top } }
    else if a.contains_key(s) { a[s] } else { b[s] }
}

/// pointwise: equal entries stay, different entries become Top, an entry present on one side only is kept
pub open spec fn join_view(a: CView, b: CView) -> CView {
    Map::new(a.dom().union(b.dom()), |s: il::Scalar| join_val(a, b, s))
}

/// every EXISTING entry becomes Top
pub open spec fn top_view(a: CView) -> CView {
    Map::new(a.dom(), |s: il::Scalar| Constant::Top)
}

/// the scalars of `ss` become Top, everything else stays
pub open spec fn tops_view(a: CView, ss: Seq<il::Scalar>) -> CView {
    Map::new(a.dom().union(ss.to_set()), |s: il::Scalar| if ss.contains(s) { Constant::Top } else { a[s] })
}

// ---------------------------------------------------------------------------------------------
// known constants, substitution, evaluation

pub open spec fn known(m: CView, s: il::Scalar) -> Option<il::Constant> {
    if m.contains_key(s) { match m[s] { Constant::Constant(c) => Some(c), _ => None } } else { None }
}

/// every stored constant satisfies il::Constant's invariant
pub open spec fn consts_wf(m: CView) -> bool {
    forall|s: il::Scalar| #![trigger m[s]] m.contains_key(s) ==> (m[s] matches Constant::Constant(c) ==> c.wf())
}

/// no entry is Bottom (the variant is never constructed)
pub open spec fn no_bottom(m: CView) -> bool {
    forall|s: il::Scalar| #![trigger m[s]] m.contains_key(s) ==> !(m[s] is Bottom)
}

/// the environment of the known constants
pub open spec fn cenv(m: CView) -> Env {
    |s: il::Scalar| match known(m, s) { Some(c) => Some((c.bits as nat, c.value@)), None => None::<(nat, nat)> }
}

pub open spec fn all_known(m: CView, ss: Seq<il::Scalar>) -> bool {
    forall|i: int| 0 <= i < ss.len() ==> known(m, #[trigger] ss[i]) is Some
}

/// replace, one scalar of `ss` after the other, every occurrence by its known constant; None when a
/// scalar has no known constant or a replacement is rejected by the sort-checking constructors
pub open spec fn subst_seq(e: Expression, ss: Seq<il::Scalar>, m: CView) -> Option<Expression>
    decreases ss.len(),
{
    if ss.len() == 0 { Some(e) } else {
        match subst_seq(e, ss.drop_last(), m) {
            None => None,
            Some(e1) => match known(m, ss.last()) {
                None => None,
                Some(c) => replace_spec(e1, ss.last(), Expression::Constant(c)),
            },
        }
    }
}

/// `env` overridden by the known constants of the scalars in `ss`
pub open spec fn over_at(env: Env, ss: Seq<il::Scalar>, m: CView, x: il::Scalar) -> Option<(nat, nat)> {
    if ss.contains(x) && known(m, x) is Some { cenv(m)(x) } else { env(x) }
}
pub open spec fn over(env: Env, ss: Seq<il::Scalar>, m: CView) -> Env {
    |x: il::Scalar| over_at(env, ss, m, x)
}

pub open spec fn mk_const(w: nat, v: nat) -> il::Constant {
    il::Constant { value: biguint_of(v), bits: w as usize }
}

/// what Constants::eval computes
pub open spec fn eval_view(m: CView, e: Expression) -> Option<il::Constant> {
    match subst_seq(e, expr_scalars(e), m) {
        None => None,
        Some(e2) => match eval_spec(e2, il::empty_env()) {
            EvalR::Val(w, v) => if w <= usize::MAX && mk_const(w, v).wf() { Some(mk_const(w, v)) } else { None },
            _ => None,
        },
    }
}

/// two environments that agree on the scalars of `e` give `e` the same meaning
pub proof fn lemma_env_agree(e: Expression, env1: Env, env2: Env)
    requires forall|i: int| 0 <= i < expr_scalars(e).len() ==> env1(#[trigger] expr_scalars(e)[i]) == env2(expr_scalars(e)[i]),
    ensures eval_spec(e, env1) == eval_spec(e, env2),
    decreases e,
{
    let ss = expr_scalars(e);
    match e {
        Expression::Scalar(s) => { assert(ss[0] == s); }
        Expression::Constant(c) => {}
        Expression::Add(l, r) | Expression::Sub(l, r) | Expression::Mul(l, r) | Expression::Divu(l, r)
        | Expression::Modu(l, r) | Expression::Divs(l, r) | Expression::Mods(l, r) | Expression::And(l, r)
        | Expression::Or(l, r) | Expression::Xor(l, r) | Expression::Shl(l, r) | Expression::Shr(l, r)
        | Expression::AShr(l, r) | Expression::Cmpeq(l, r) | Expression::Cmpneq(l, r) | Expression::Cmplts(l, r)
        | Expression::Cmpltu(l, r) => {
            let sl = expr_scalars(*l); let sr = expr_scalars(*r);
            assert(ss == sl + sr);
            assert forall|i: int| 0 <= i < sl.len() implies env1(#[trigger] sl[i]) == env2(sl[i]) by { assert(ss[i] == sl[i]); }
            assert forall|i: int| 0 <= i < sr.len() implies env1(#[trigger] sr[i]) == env2(sr[i]) by { assert(ss[sl.len() + i] == sr[i]); }
            lemma_env_agree(*l, env1, env2); lemma_env_agree(*r, env1, env2);
        }
        Expression::Zext(b, x) | Expression::Sext(b, x) | Expression::Trun(b, x) => { lemma_env_agree(*x, env1, env2); }
        Expression::Ite(c, t, f) => {
            let sc = expr_scalars(*c); let st = expr_scalars(*t); let sf = expr_scalars(*f);
            assert(ss == sc + st + sf);
            assert forall|i: int| 0 <= i < sc.len() implies env1(#[trigger] sc[i]) == env2(sc[i]) by { assert(ss[i] == sc[i]); }
            assert forall|i: int| 0 <= i < st.len() implies env1(#[trigger] st[i]) == env2(st[i]) by { assert(ss[sc.len() + i] == st[i]); }
            assert forall|i: int| 0 <= i < sf.len() implies env1(#[trigger] sf[i]) == env2(sf[i]) by { assert(ss[sc.len() + st.len() + i] == sf[i]); }
            lemma_env_agree(*c, env1, env2); lemma_env_agree(*t, env1, env2); lemma_env_agree(*f, env1, env2);
        }
    }
}

/// substituting a sane expression into a sane expression gives a sane expression
pub proof fn lemma_replace_sane(e: Expression, s: il::Scalar, v: Expression)
    requires expr_sane(e), expr_sane(v), replace_spec(e, s, v) is Some,
    ensures expr_sane(replace_spec(e, s, v).unwrap()),
    decreases e,
{
    let g = repl_g(s, v);
    if g(e) is Some {
    } else {
        match e {
            Expression::Scalar(x) => {}
            Expression::Constant(c) => {}
            Expression::Add(l, r) | Expression::Sub(l, r) | Expression::Mul(l, r) | Expression::Divu(l, r)
            | Expression::Modu(l, r) | Expression::Divs(l, r) | Expression::Mods(l, r) | Expression::And(l, r)
            | Expression::Or(l, r) | Expression::Xor(l, r) | Expression::Shl(l, r) | Expression::Shr(l, r)
            | Expression::AShr(l, r) | Expression::Cmpeq(l, r) | Expression::Cmpneq(l, r) | Expression::Cmplts(l, r)
            | Expression::Cmpltu(l, r) => { lemma_replace_sane(*l, s, v); lemma_replace_sane(*r, s, v); }
            Expression::Zext(b, x) | Expression::Sext(b, x) | Expression::Trun(b, x) => { lemma_replace_sane(*x, s, v); }
            Expression::Ite(c, t, f) => { lemma_replace_sane(*c, s, v); lemma_replace_sane(*t, s, v); lemma_replace_sane(*f, s, v); }
        }
    }
}

/// one substitution step, semantically (C04's lemma_subst_eval for a constant)
pub proof fn lemma_replace_const_eval(e: Expression, s: il::Scalar, c: il::Constant, env: Env)
    requires replace_spec(e, s, Expression::Constant(c)) is Some,
    ensures eval_spec(replace_spec(e, s, Expression::Constant(c)).unwrap(), env) == eval_spec(e, env_upd(env, s, c.bits as nat, c.value@)),
{
    lemma_subst_eval(e, s, Expression::Constant(c), env, c.bits as nat, c.value@);
}

/// the substituted expression means, under ANY environment, what the original means under that
/// environment overridden by the known constants of the substituted scalars; it is sane if the original is
pub proof fn lemma_subst_seq(e: Expression, ss: Seq<il::Scalar>, m: CView, env: Env)
    requires subst_seq(e, ss, m) is Some,
    ensures
        all_known(m, ss),
        eval_spec(subst_seq(e, ss, m).unwrap(), env) == eval_spec(e, over(env, ss, m)),
        expr_sane(e) && consts_wf(m) ==> expr_sane(subst_seq(e, ss, m).unwrap()),
    decreases ss.len(),
{
    if ss.len() == 0 {
        assert(over(env, ss, m) =~= env);
    } else {
        let pre = ss.drop_last();
        let s = ss.last();
        let e1 = subst_seq(e, pre, m).unwrap();
        let c = known(m, s).unwrap();
        let env1 = env_upd(env, s, c.bits as nat, c.value@);
        lemma_subst_seq(e, pre, m, env1);
        lemma_replace_const_eval(e1, s, c, env);
        assert(over(env1, pre, m) =~= over(env, ss, m)) by {
            assert forall|x: il::Scalar| #[trigger] over_at(env1, pre, m, x) == over_at(env, ss, m, x) by {
                assert(ss.contains(x) <==> (pre.contains(x) || x == s)) by {
                    assert(ss =~= pre.push(s));
                    if pre.contains(x) { let i = choose|i: int| 0 <= i < pre.len() && pre[i] == x; assert(ss[i] == x); }
                    if x == s { assert(ss[ss.len() - 1] == x); }
                    if ss.contains(x) { let i = choose|i: int| 0 <= i < ss.len() && ss[i] == x; if i < pre.len() { assert(pre[i] == x); } }
                }
            }
        }
        assert(all_known(m, ss)) by {
            assert forall|i: int| 0 <= i < ss.len() implies known(m, #[trigger] ss[i]) is Some by {
                if i < pre.len() { assert(pre[i] == ss[i]); }
            }
        }
        if expr_sane(e) && consts_wf(m) {
            assert(m[s] == Constant::Constant(c));
            assert(c.wf());
            lemma_replace_sane(e1, s, Expression::Constant(c));
        }
    }
}

/// SOUNDNESS of eval_view: a result is the value of `e` under the known constants, and every scalar of `e` is known
pub proof fn lemma_eval_view_val(m: CView, e: Expression)
    requires eval_view(m, e) is Some,
    ensures
        all_known(m, expr_scalars(e)),
        eval_spec(e, cenv(m)) matches EvalR::Val(w, v) && eval_view(m, e) == Some(mk_const(w, v)) && w <= usize::MAX,
{
    let ss = expr_scalars(e);
    let e2 = subst_seq(e, ss, m).unwrap();
    lemma_subst_seq(e, ss, m, il::empty_env());
    let o = over(il::empty_env(), ss, m);
    assert forall|i: int| 0 <= i < ss.len() implies o(#[trigger] ss[i]) == cenv(m)(ss[i]) by {
        assert(ss.contains(ss[i]));
    }
    lemma_env_agree(e, o, cenv(m));
}

/// any environment that agrees with the known constants on the scalars of `e` gives `e` the value eval_view reports
pub proof fn lemma_eval_view_env(m: CView, e: Expression, env: Env)
    requires
        eval_view(m, e) is Some,
        forall|i: int| 0 <= i < expr_scalars(e).len() ==> env(#[trigger] expr_scalars(e)[i]) == cenv(m)(expr_scalars(e)[i]),
    ensures
        eval_spec(e, env) matches EvalR::Val(w, v) && eval_view(m, e) == Some(mk_const(w, v)) && w <= usize::MAX,
{
    lemma_eval_view_val(m, e);
    lemma_env_agree(e, env, cenv(m));
}

/// unfolding of subst_seq at a prefix of `ss`
pub proof fn lemma_subst_step(e: Expression, ss: Seq<il::Scalar>, m: CView, n: int)
    requires 0 <= n < ss.len(),
    ensures
        subst_seq(e, ss.take(n + 1), m) == (match subst_seq(e, ss.take(n), m) {
            None => None::<Expression>,
            Some(e1) => match known(m, ss[n]) {
                None => None::<Expression>,
                Some(c) => replace_spec(e1, ss[n], Expression::Constant(c)),
            },
        }),
{
    assert(ss.take(n + 1).drop_last() =~= ss.take(n));
    assert(ss.take(n + 1).last() == ss[n]);
}

/// once a prefix fails, the whole substitution fails
pub proof fn lemma_subst_prefix_none(e: Expression, ss: Seq<il::Scalar>, m: CView, n: int)
    requires 0 <= n <= ss.len(),
    ensures subst_seq(e, ss.take(n), m) is None ==> subst_seq(e, ss, m) is None,
    decreases ss.len() - n,
{
    if subst_seq(e, ss.take(n), m) is Some {
    } else if n == ss.len() {
        assert(ss.take(n) =~= ss);
    } else {
        lemma_subst_step(e, ss, m, n);
        lemma_subst_prefix_none(e, ss, m, n + 1);
    }
}

/// the executable result of eval agrees with eval_view once the substitution has gone through
pub proof fn lemma_eval_view_result(m: CView, e: Expression, e2: Expression, res: Result<il::Constant, Error>)
    requires subst_seq(e, expr_scalars(e), m) == Some(e2), il::eval_agrees(res, eval_spec(e2, il::empty_env())),
    ensures
        res matches Ok(c) ==> eval_view(m, e) == Some(c) && c.wf(),
        res is Err ==> eval_view(m, e) is None,
{
    broadcast use {axiom_biguint_ext, axiom_biguint_of};
    match eval_spec(e2, il::empty_env()) {
        EvalR::Val(w, v) => {
            let c = res->Ok_0;
            assert(c.bits as nat == w && c.value@ == v);
            assert(mk_const(w, v).value@ == v);
            assert(mk_const(w, v).bits == c.bits);
            assert(mk_const(w, v) == c);
        }
        _ => {}
    }
}

/// eval_view's results are well-formed constants with the reported value
pub proof fn lemma_eval_view_sound(m: CView, e: Expression, c: il::Constant)
    requires eval_view(m, e) == Some(c),
    ensures
        all_known(m, expr_scalars(e)),
        eval_spec(e, cenv(m)) == EvalR::Val(c.bits as nat, c.value@),
{
    broadcast use {axiom_biguint_of};
    lemma_eval_view_val(m, e);
}

/// topping one more scalar of the list
pub proof fn lemma_tops_step(m: CView, sq: Seq<il::Scalar>, n: int)
    requires 0 <= n < sq.len(),
    ensures tops_view(m, sq.take(n)).insert(sq[n], Constant::Top) == tops_view(m, sq.take(n + 1)),
{
    let t0 = sq.take(n);
    let t1 = sq.take(n + 1);
    assert forall|x: il::Scalar| t1.contains(x) <==> (t0.contains(x) || x == sq[n]) by {
        if t0.contains(x) { let i = choose|i: int| 0 <= i < t0.len() && t0[i] == x; assert(t1[i] == x); }
        if x == sq[n] { assert(t1[n] == x); }
        if t1.contains(x) { let i = choose|i: int| 0 <= i < t1.len() && t1[i] == x; if i < n { assert(t0[i] == x); } }
    }
    assert forall|x: il::Scalar| t1.to_set().contains(x) <==> t0.to_set().insert(sq[n]).contains(x) by {
        assert(t1.contains(x) <==> (t0.contains(x) || x == sq[n]));
    }
    assert(t1.to_set() =~= t0.to_set().insert(sq[n]));
    assert(tops_view(m, t0).insert(sq[n], Constant::Top) =~= tops_view(m, t1));
}

pub proof fn lemma_tops_none(m: CView, sq: Seq<il::Scalar>)
    ensures tops_view(m, sq.take(0)) == m,
{
    assert(sq.take(0).to_set() =~= Set::<il::Scalar>::empty());
    assert(tops_view(m, sq.take(0)) =~= m);
}
