// ======================================================================================
// units/C13/il_scalars.rs - the scalars of an expression / written by an intrinsic
// (Expression::scalars, Intrinsic::{written_expressions, scalars_written}) + the re-supplied
// derives of il::Scalar / il::Constant that the constants analysis needs (HashMap key, `==`).
// To be included inside `pub mod il` after il_core.rs (+ C04's subst.rs / builders.rs).
// ======================================================================================

// ---- derive(Eq, Hash) on il::Scalar, derive(PartialEq) on il::Constant re-supplied.  ASSUMED, same
// reading as units C04 / C15 / C18: derive = structural equality; `Hash` is opaque (its lawfulness
// is the key-model axiom of prelude/scalar_hash.rs).
impl Eq for Scalar {}
impl std::hash::Hash for Scalar {
    #[verifier::external_body]
    fn hash<H: std::hash::Hasher>(&self, state: &mut H) { unimplemented!() }
}
impl vstd::std_specs::cmp::PartialEqSpecImpl for Constant {
    open spec fn obeys_eq_spec() -> bool { true }
    open spec fn eq_spec(&self, other: &Constant) -> bool { *self == *other }
}
impl PartialEq for Constant {
    #[verifier::external_body]
    fn eq(&self, other: &Constant) -> (r: bool) ensures r == (*self == *other) { unimplemented!() }
}

// ---------------------------------------------------------------------------------------------
// the scalars of an expression: `expr_scalars` and the contract of Expression::scalars are C04's
// (units/C04/expression.rs: r@[i] points to expr_scalars(*self)[i]).

/// `s` occurs in `e`
pub open spec fn occurs(e: Expression, s: Scalar) -> bool { expr_scalars(e).contains(s) }

// ---------------------------------------------------------------------------------------------
// the scalars an intrinsic declares to write

/// the scalars of a list of expressions, in order, with repetitions
pub open spec fn exprs_scalars(es: Seq<Expression>) -> Seq<Scalar>
    decreases es.len(),
{
    if es.len() == 0 { Seq::<Scalar>::empty() } else { exprs_scalars(es.drop_last()) + expr_scalars(es.last()) }
}

/// the scalars the intrinsic declares to write: None = "undeclared, assume it writes anything"
pub open spec fn written_scalars(i: Intrinsic) -> Option<Seq<Scalar>> {
    match i.written_expressions {
        None => None,
        Some(v) => Some(exprs_scalars(v@)),
    }
}

/// the references of `v` point to the scalars `ss`
pub open spec fn refs_are(v: Seq<&Scalar>, ss: Seq<Scalar>) -> bool {
    v.len() == ss.len() && forall|i: int| 0 <= i < v.len() ==> *(#[trigger] v[i]) == ss[i]
}

pub proof fn lemma_exprs_scalars_step(es: Seq<Expression>, n: int)
    requires 0 <= n < es.len(),
    ensures exprs_scalars(es.take(n + 1)) == exprs_scalars(es.take(n)) + expr_scalars(es[n]),
{
    assert(es.take(n + 1).drop_last() =~= es.take(n));
    assert(es.take(n + 1).last() == es[n]);
}

impl Intrinsic {
//@ source lib/il/intrinsic.rs
//@ fn impl Intrinsic :: fn written_expressions
//@ rewrite 1 `self.written_expressions.as_deref()` => `opt_slice::opt_vec_as_slice(&self.written_expressions)` ## R-as-deref: the same conversion through a stand-in carrying the assumed contract of Option<Vec<T>>::as_deref (prelude/opt_slice.rs)
//@ spec
    ensures
        /*@none*/ self.written_expressions is None ==> r is None,
        /*@some*/ self.written_expressions matches Some(v) ==> (r matches Some(s) && s@ == v@),
//@ end

//@ fn impl Intrinsic :: fn scalars_written
//@ rewrite 1 `written_expressions .iter() .flat_map(|expression| expression.scalars()) .collect::<Vec<&Scalar>>()` => `{ let mut vf_out: Vec<&Scalar> = Vec::new(); for expression in vf_it: written_expressions.iter() { let mut vf_part = expression.scalars(); vf_out.append(&mut vf_part); } vf_out }` ## R-flat-map-collect: `ITER.flat_map(|x| F).collect::<Vec<_>>()` is by definition the vector that receives, for every item x of ITER in order, all items of F in order; `expression.scalars()` is the original F
//@ closure 0 |written_expressions: &[Expression]| -> (o: Vec<&Scalar>)
    ensures refs_are(o@, exprs_scalars(written_expressions@)),
//@ spec
    ensures
        /*@undeclared*/ written_scalars(*self) is None ==> r is None,
        /*@declared*/ written_scalars(*self) matches Some(ss) ==> (r matches Some(v) && refs_are(v@, ss)),
//@ loop 0
    invariant
        vf_it.seq().len() == written_expressions@.len(),
        forall|j: int| 0 <= j < vf_it.seq().len() ==> *(#[trigger] vf_it.seq()[j]) == written_expressions@[j],
        refs_are(vf_out@, exprs_scalars(written_expressions@.take(vf_it.index@ as int))),
//@ before 0 `let mut vf_part`
    proof { lemma_exprs_scalars_step(written_expressions@, vf_it.index@ as int); }
//@ before 0 `vf_out }`
    proof { assert(written_expressions@.take(written_expressions@.len() as int) =~= written_expressions@); }
//@ end
}
