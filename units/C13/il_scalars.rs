// ======================================================================================
// units/C13/il_scalars.rs - the scalars of an expression / written by an intrinsic
// (Expression::scalars, Intrinsic::{written_expressions, scalars_written}) + the re-supplied
// derives of il::Scalar / il::Constant that the constants analysis needs (HashMap key, `==`).
// To be included inside `pub mod il` after il_core.rs (+ C04's subst.rs / builders.rs).
// ======================================================================================

// ---- derive(Eq, Hash) on il::Scalar, derive(PartialEq) on il::Constant re-supplied.  ASSUMED, same
// reading as units C04 / C15 / C18: derive = structural equality; `Hash` is opaque (its lawfulness
// is the key-model axiom of prelude/scalar_hash.rs).
impl Eq for Scalar {}
impl std::hash::Hash for Scalar {
    #[verifier::external_body]
    fn hash<H: std::hash::Hasher>(&self, state: &mut H) { unimplemented!() }
}
impl vstd::std_specs::cmp::PartialEqSpecImpl for Constant {
    open spec fn obeys_eq_spec() -> bool { true }
    open spec fn eq_spec(&self, other: &Constant) -> bool { *self == *other }
}
impl PartialEq for Constant {
    #[verifier::external_body]
    fn eq(&self, other: &Constant) -> (r: bool) ensures r == (*self == *other) { unimplemented!() }
}

// ---------------------------------------------------------------------------------------------
// the scalars of an expression: `expr_scalars` and the contract of Expression::scalars are C04's
// (units/C04/expression.rs: r@[i] points to expr_scalars(*self)[i]).

/// `s` occurs in `e`
pub open spec fn occurs(e: Expression, s: Scalar) -> bool { expr_scalars(e).contains(s) }
