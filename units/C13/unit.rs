// Unit C13 - the constants analysis (lib/analysis/constants.rs) is a sound forward data-flow analysis:
// per-function contracts (Constant / Constants / ConstantsAnalysis), the concretisation gamma, local soundness of
// `trans`, `join` an upper bound, and the abstract-interpretation lemma L-AI for this instance.
// Generated file = this template + the real text of the items named in the `//@` holes.
#![feature(allocator_api)]
#![allow(unused_imports, unused_variables, dead_code, unused_mut, non_snake_case, unused_parens, unused_braces, deprecated)]
use vstd::prelude::*;
use vstd::arithmetic::power2::*;
use vstd::arithmetic::div_mod::*;
use vstd::arithmetic::mul::*;
use std::ops::*;
use std::cmp;
use std::cmp::Ordering;
use std::collections::{BTreeMap, BTreeSet, VecDeque};
use std::fmt;
use std::rc::Rc;

verus! {

//@ include spec/bv.rs
//@ include prelude/bigint.rs
//@ include prelude/error.rs
//@ include prelude/fxhash.rs
//@ include prelude/stdcoll.rs
//@ include prelude/rc_asref.rs
//@ include prelude/location_hash.rs
//@ include prelude/fmt_option.rs
//@ include prelude/scalar_hash.rs
//@ include prelude/hashmap_fill.rs
//@ include prelude/ordering_cmp.rs
//@ include prelude/opt_slice.rs
//@ include prelude/hashmap_of.rs
//@ include units/C11/error_from.rs
//@ mode contracts-only C15
//@ include units/C15/error_from_string.rs
//@ mode full

// falcon::RC (default build, feature "thread_safe" off): the real alias, extracted
//@ item lib/lib.rs :: type RC#0

pub mod graph {
use super::*;
use vstd::std_specs::iter::IteratorSpec;
use rustc_hash::{FxHashMap, FxHashSet};
broadcast use {rustc_hash::axiom_fx_builds_valid_hashers, stdcoll::axiom_btreemap_index_req, stdcoll::axiom_hashmap_index_req, stdcoll::axiom_usize_pair_obeys_key_model};
//@ mode contracts-only C11
//@ include units/C11/graph_core.rs
//@ mode full
proof fn vf_canary_graph() ensures false {}
} // mod graph

pub mod il {
use super::*;
use vstd::std_specs::iter::IteratorSpec;
//@ mode contracts-only C15
//@ include units/C15/il_core.rs
//@ mode contracts-only C18
//@ include units/C18/loc_core.rs
//@ include units/C18/loc_proofs.rs
//@ mode contracts-only C04
//@ include units/C04/builders.rs
//@ mode full
//@ include units/C13/il_scalars.rs
proof fn vf_canary_il() ensures false {}
} // mod il

// scalar substitution (C04); its own module because subst.rs hoists falcon's nested `struct Map<F>`,
// which would shadow vstd's `Map` inside `mod il`  (same layout as units/C17/unit.rs)
pub mod il_subst {
use super::*;
use super::il::*;
//@ mode contracts-only C04
//@ include units/C04/subst.rs
//@ mode full
} // mod il_subst

pub mod executor {
use super::*;
use super::il::*;
//@ mode contracts-only C04
//@ include units/C04/eval.rs
//@ mode full
} // mod executor

// the trait contract + the abstract data-flow theory of unit C09 (no axioms, no broadcast use)
pub mod fixed_point {
use super::*;
use super::il::*;
use std::collections::HashMap;
use std::fmt::Debug;
//@ mode contracts-only C09
//@ include units/C09/fp_trait.rs
//@ include units/C09/fp_theory.rs
//@ mode full
proof fn vf_canary_fixed_point() ensures false {}
} // mod fixed_point

// the forward solver (contract imported from unit C09)
pub mod fixed_point_engine {
use super::*;
use super::il::*;
use super::fixed_point::*;
use std::collections::HashMap;
use std::fmt::Debug;
//@ mode contracts-only C09
//@ include units/C09/fp_engine.rs
//@ mode full
proof fn vf_canary_fixed_point_engine() ensures false {}
} // mod fixed_point_engine

// the analysis itself (keys hash maps on il::Scalar: the key-model axiom is in scope here only)
pub mod constants {
use super::*;
use super::il;
use super::il::{Scalar, Expression, Env, EvalR, Loc, eval_spec, expr_sane, expr_wf, expr_bits, expr_scalars, occurs};
use super::il_subst::{replace_spec, repl_g, map_spec, map_result, env_upd, lemma_subst_eval};
use super::graph;
use super::executor::eval;
// `fixed_point::X` in lib/analysis/constants.rs names the trait and the solver of lib/analysis/fixed_point.rs;
// unit C09 splits that file into two modules (trait + theory / forward solver)
pub mod fixed_point { pub use super::super::fixed_point::*; pub use super::super::fixed_point_engine::*; }
use self::fixed_point::*;
use std::collections::HashMap;
use std::cmp::PartialOrd;
use vstd::std_specs::iter::IteratorSpec;
broadcast use {scalar_hash::axiom_scalar_obeys_key_model, vstd::std_specs::hash::axiom_random_state_builds_valid_hashers};
//@ include units/C13/constants_spec.rs
//@ include units/C13/constants_core.rs
//@ include units/C13/constants_analysis.rs
//@ include units/C13/constants_fn.rs
//@ include units/C13/constants_theory.rs
proof fn vf_canary_constants() ensures false {}
} // mod constants

proof fn vf_canary_root() ensures false {}

} // verus!

fn main() {}
