// ======================================================================================
// units/C10/ssa_phi.rs - phi placement: scalars_mutated_in_block(s), compute_non_local_scalars, insert_phi_nodes
// ======================================================================================

/// the scalars an instruction writes / reads as the transformation sees them: an intrinsic that does not declare
/// them counts as writing / reading none (`unwrap_or_default`)
pub open spec fn ins_writes(i: il::Instruction) -> Seq<il::Scalar> {
    match il::op_writes(i.operation) { Some(s) => s, None => Seq::<il::Scalar>::empty() }
}
pub open spec fn ins_reads(i: il::Instruction) -> Seq<il::Scalar> {
    match il::op_reads(i.operation) { Some(s) => s, None => Seq::<il::Scalar>::empty() }
}

/// `s` is written by one of the first `n` instructions of the block
pub open spec fn writes_before(b: il::Block, n: int, s: il::Scalar) -> bool {
    exists|j: int| 0 <= j < n && j < b.instructions@.len() && ins_writes(#[trigger] b.instructions@[j]).contains(s)
}

/// `s` is written by some instruction of the block
pub open spec fn block_writes(b: il::Block, s: il::Scalar) -> bool {
    writes_before(b, b.instructions@.len() as int, s)
}

//@ source lib/transformation/ssa_transformation.rs
//@ fn fn scalars_mutated_in_block loops=2
//@ rewrite 1 `block .instructions() .iter() .flat_map(|inst| inst.scalars_written().unwrap_or_default()) .collect()` => `{ let mut vf_out: HashSet<&il::Scalar> = HashSet::new(); for inst in vf_it: block.instructions().iter() { let vf_part = inst.scalars_written().unwrap_or_default(); for vf_s in vf_it2: vf_part { vf_out.insert(vf_s); } } vf_out }` ## R-flat-map-collect: `ITER.flat_map(|x| F).collect::<HashSet<_>>()` is by definition the set that receives, for every item x of ITER in order, all items of F; `inst.scalars_written().unwrap_or_default()` is the original F
//@ spec
    ensures
        /*@exact*/ forall|s: &il::Scalar| #![trigger r@.contains(s)] r@.contains(s) <==> block_writes(*block, *s),
//@ loop 0
    invariant
        vf_it.seq().len() == block.instructions@.len(),
        forall|j: int| 0 <= j < vf_it.seq().len() ==> *(#[trigger] vf_it.seq()[j]) == block.instructions@[j],
        forall|s: &il::Scalar| #![trigger vf_out@.contains(s)] vf_out@.contains(s) <==> writes_before(*block, vf_it.index@ as int, *s),
//@ before 0 `for vf_s in`
    let ghost vf_k = vf_it.index@ as int;
    let ghost vf_refs = vf_part@;
    proof {
        assert(*inst == block.instructions@[vf_k]);
        assert(il::refs_are(vf_refs, ins_writes(block.instructions@[vf_k])));
    }
//@ loop 1
    invariant
        vf_it2.seq() == vf_refs,
        0 <= vf_k < block.instructions@.len(),
        il::refs_are(vf_refs, ins_writes(block.instructions@[vf_k])),
        forall|s: &il::Scalar| #![trigger vf_out@.contains(s)] vf_out@.contains(s) <==>
            (writes_before(*block, vf_k, *s) || exists|j: int| 0 <= j < vf_it2.index@ && *(#[trigger] vf_refs[j]) == *s),
//@ after 0 `vf_out.insert(vf_s); }`
    proof {
        assert forall|s: &il::Scalar| #![trigger vf_out@.contains(s)] vf_out@.contains(s) <==> writes_before(*block, vf_k + 1, *s) by {
            let w = ins_writes(block.instructions@[vf_k]);
            if writes_before(*block, vf_k + 1, *s) && !writes_before(*block, vf_k, *s) {
                let j = choose|j: int| 0 <= j < vf_k + 1 && j < block.instructions@.len() && ins_writes(#[trigger] block.instructions@[j]).contains(*s);
                assert(j == vf_k);
                let i = choose|i: int| 0 <= i < w.len() && w[i] == *s;
                assert(*vf_refs[i] == *s);
            }
            if vf_out@.contains(s) && !writes_before(*block, vf_k, *s) {
                let j = choose|j: int| 0 <= j < vf_refs.len() && *(#[trigger] vf_refs[j]) == *s;
                assert(w[j] == *s);
                assert(ins_writes(block.instructions@[vf_k]).contains(*s));
            }
        }
    }
//@ end

/// block `k` of `cfg` holds an instruction that writes `s`
pub open spec fn mutated_at(cfg: il::ControlFlowGraph, s: il::Scalar, k: usize) -> bool {
    cfg.has_block(k) && block_writes(cfg.blocks_view()[k], s)
}

/// one of the first `n` listed blocks has index `k` and writes `s`
pub open spec fn mutated_in_prefix(bs: Seq<&il::Block>, n: int, s: il::Scalar, k: usize) -> bool {
    exists|i: int| 0 <= i < n && i < bs.len() && (#[trigger] bs[i]).index == k && block_writes(*bs[i], s)
}

pub open spec fn listed_before(refs: Seq<&&il::Scalar>, n: int, s: il::Scalar) -> bool {
    exists|j: int| 0 <= j < n && j < refs.len() && **(#[trigger] refs[j]) == s
}

/// the set `set` holds exactly the scalars block `b` writes and `refs` lists it: a scalar is listed iff the block writes it
pub proof fn lemma_listed_full(refs: Seq<&&il::Scalar>, set: Set<&il::Scalar>, b: il::Block)
    requires
        graph::seq_lists_set_ref(refs, set),
        forall|s: &il::Scalar| #![trigger set.contains(s)] set.contains(s) <==> block_writes(b, *s),
    ensures
        forall|s: il::Scalar| #![trigger block_writes(b, s)] listed_before(refs, refs.len() as int, s) <==> block_writes(b, s),
{
    graph::lemma_seq_lists_set_ref(refs, set);
    assert forall|s: il::Scalar| #![trigger block_writes(b, s)] listed_before(refs, refs.len() as int, s) <==> block_writes(b, s) by {
        if listed_before(refs, refs.len() as int, s) {
            let j = choose|j: int| 0 <= j < refs.len() && **(#[trigger] refs[j]) == s;
            assert(set.contains(*refs[j]));
        }
        if block_writes(b, s) {
            assert(set.contains(&s));
            let j = choose|j: int| 0 <= j < refs.len() && *(#[trigger] refs[j]) == &s;
            assert(**refs[j] == s);
        }
    }
}

/// a complete, duplicate-free listing of the blocks: "some listed block with index k writes s" is "block k of cfg writes s"
pub proof fn lemma_prefix_full(cfg: il::ControlFlowGraph, bs: Seq<&il::Block>)
    requires cfg.graph.lists_vertices(bs, |k: usize| true),
    ensures forall|s: il::Scalar, k: usize| #![trigger mutated_at(cfg, s, k)] mutated_in_prefix(bs, bs.len() as int, s, k) <==> mutated_at(cfg, s, k),
{
    assert forall|s: il::Scalar, k: usize| #![trigger mutated_at(cfg, s, k)] mutated_in_prefix(bs, bs.len() as int, s, k) <==> mutated_at(cfg, s, k) by {
        if mutated_in_prefix(bs, bs.len() as int, s, k) {
            let i = choose|i: int| 0 <= i < bs.len() && (#[trigger] bs[i]).index == k && block_writes(*bs[i], s);
            assert(cfg.graph.vertices@.contains_key(bs[i].index_spec()) && *bs[i] == cfg.graph.vertices@[bs[i].index_spec()]);
        }
        if mutated_at(cfg, s, k) {
            let ids = |k: usize| true;
            assert(ids(k) && cfg.graph.vertices@.contains_key(k));
            let i = choose|i: int| 0 <= i < bs.len() && (#[trigger] bs[i]).index_spec() == k;
            assert(*bs[i] == cfg.graph.vertices@[bs[i].index_spec()]);
        }
    }
}

/// what the table under construction records: the pairs of the first `n` listed blocks, plus (cur, s) for the first `j` listed scalars
pub open spec fn table_is(m: Map<il::Scalar, HashSet<usize>>, bs: Seq<&il::Block>, n: int, cur: usize, refs: Seq<&&il::Scalar>, j: int) -> bool {
    forall|s: il::Scalar, k: usize| #![trigger m[s]@.contains(k)] (m.contains_key(s) && m[s]@.contains(k)) <==>
        (mutated_in_prefix(bs, n, s, k) || (k == cur && listed_before(refs, j, s)))
}

pub proof fn lemma_table_next_block(m: Map<il::Scalar, HashSet<usize>>, bs: Seq<&il::Block>, n: int, refs: Seq<&&il::Scalar>, set: Set<&il::Scalar>)
    requires
        0 <= n < bs.len(),
        graph::seq_lists_set_ref(refs, set),
        forall|s: &il::Scalar| #![trigger set.contains(s)] set.contains(s) <==> block_writes(*bs[n], *s),
        table_is(m, bs, n, bs[n].index, refs, refs.len() as int),
    ensures
        table_is(m, bs, n + 1, 0, Seq::<&&il::Scalar>::empty(), 0),
{
    lemma_listed_full(refs, set, *bs[n]);
    assert forall|s: il::Scalar, k: usize| #![trigger m[s]@.contains(k)] (m.contains_key(s) && m[s]@.contains(k)) <==> mutated_in_prefix(bs, n + 1, s, k) by {
        if mutated_in_prefix(bs, n + 1, s, k) && !mutated_in_prefix(bs, n, s, k) {
            let i = choose|i: int| 0 <= i < n + 1 && i < bs.len() && (#[trigger] bs[i]).index == k && block_writes(*bs[i], s);
            assert(i == n);
        }
        if k == bs[n].index && block_writes(*bs[n], s) { assert(bs[n].index == k && block_writes(*bs[n], s)); }
        if mutated_in_prefix(bs, n, s, k) {
            let i = choose|i: int| 0 <= i < n && i < bs.len() && (#[trigger] bs[i]).index == k && block_writes(*bs[i], s);
            assert(0 <= i < n + 1);
        }
    }
}

//@ fn fn scalars_mutated_in_blocks loops=2
//@ rewrite 1 `let mut mutated_in = HashMap::new();` => `let mut mutated_in: HashMap<il::Scalar, HashSet<usize>> = HashMap::new();` ## R-type-annot: writes down the type rustc infers for the local (it is the function's return type); needed because the invariant mentions it before the first insert
//@ rewrite 1 `for block in cfg.blocks() {` => `for block in vf_it: cfg.blocks() {` ## R-ghost-iter-name: names the ghost iterator of the for loop so that invariants can mention it; no executable change
//@ rewrite 1 `for scalar in scalars_mutated_in_block(block) {` => `let vf_set = scalars_mutated_in_block(block); for vf_r in vf_it2: vf_set.iter() { let scalar: &il::Scalar = *vf_r;` ## R-iter-copy: by-value iteration over a HashSet of Copy items (`&il::Scalar`) that is not used afterwards = by-reference iteration copying each item (Verus has no model of hash_set::IntoIter)
//@ spec
    requires cfg.graph.graph_wf(),
    ensures
        /*@exact*/ forall|s: il::Scalar, k: usize| #![trigger r@[s]@.contains(k)] (r@.contains_key(s) && r@[s]@.contains(k)) <==> mutated_at(*cfg, s, k),
//@ loop 0
    invariant
        cfg.graph.graph_wf(),
        cfg.graph.lists_vertices(vf_it.seq(), |k: usize| true),
        vf_it.seq().len() == cfg.graph.vertices@.dom().len(),
        table_is(mutated_in@, vf_it.seq(), vf_it.index@ as int, 0, Seq::<&&il::Scalar>::empty(), 0),
        vf_it.index@ == vf_it.seq().len() ==> (forall|s: il::Scalar, k: usize| #![trigger mutated_in@[s]@.contains(k)] (mutated_in@.contains_key(s) && mutated_in@[s]@.contains(k)) <==> mutated_at(*cfg, s, k)),
//@ before 0 `for block in vf_it`
    proof {
        if cfg.graph.vertices@.dom().len() == 0 {
            assert(cfg.graph.vertices@.dom().finite());
            assert forall|k: usize| !cfg.graph.vertices@.contains_key(k) by { if cfg.graph.vertices@.dom().contains(k) { vstd::set_lib::lemma_set_empty_equivalency_len(cfg.graph.vertices@.dom()); } }
        }
    }
//@ before 0 `for vf_r in`
    let ghost vf_k = vf_it.index@ as int;
    let ghost vf_bs = vf_it.seq();
    proof {
        assert(*block == *vf_bs[vf_k]);
        if vf_set@.len() == 0 {
            assert forall|s: &il::Scalar| !vf_set@.contains(s) by { if vf_set@.contains(s) { vstd::set_lib::lemma_set_empty_equivalency_len(vf_set@); } }
            lemma_table_next_block(mutated_in@, vf_bs, vf_k, Seq::<&&il::Scalar>::empty(), vf_set@);
        }
    }
//@ loop 1
    invariant
        0 <= vf_k < vf_bs.len(),
        *block == *vf_bs[vf_k],
        forall|s: &il::Scalar| #![trigger vf_set@.contains(s)] vf_set@.contains(s) <==> block_writes(*vf_bs[vf_k], *s),
        graph::seq_lists_set_ref(vf_it2.seq(), vf_set@),
        table_is(mutated_in@, vf_bs, vf_k, block.index, vf_it2.seq(), vf_it2.index@ as int),
        vf_it2.index@ == vf_it2.seq().len() ==> table_is(mutated_in@, vf_bs, vf_k + 1, 0, Seq::<&&il::Scalar>::empty(), 0),
//@ before 0 `if !mutated_in.contains_key(scalar)`
    let ghost vf_m0 = mutated_in@;
    let ghost vf_j = vf_it2.index@ as int;
    proof { assert(**vf_it2.seq()[vf_j] == *scalar); }
//@ after 0 `mutated_in.get_mut(scalar).unwrap().insert(block.index());`
    proof {
        let refs = vf_it2.seq();
        assert forall|s: il::Scalar, k: usize| #![trigger mutated_in@[s]@.contains(k)] (mutated_in@.contains_key(s) && mutated_in@[s]@.contains(k)) <==>
            (mutated_in_prefix(vf_bs, vf_k, s, k) || (k == block.index && listed_before(refs, vf_j + 1, s))) by {
            if s == *scalar {
                assert(**refs[vf_j] == s);
                if listed_before(refs, vf_j, s) {
                    let j = choose|j: int| 0 <= j < vf_j && j < refs.len() && **(#[trigger] refs[j]) == s;
                    assert(0 <= j < vf_j + 1);
                }
                if vf_m0.contains_key(s) { assert(vf_m0[s]@.contains(k) == (mutated_in_prefix(vf_bs, vf_k, s, k) || (k == block.index && listed_before(refs, vf_j, s)))); }
            } else {
                assert(mutated_in@.contains_key(s) == vf_m0.contains_key(s));
                if vf_m0.contains_key(s) { assert(mutated_in@[s] == vf_m0[s]); assert(vf_m0[s]@.contains(k) == mutated_in@[s]@.contains(k)); }
                if listed_before(refs, vf_j + 1, s) {
                    let j = choose|j: int| 0 <= j < vf_j + 1 && j < refs.len() && **(#[trigger] refs[j]) == s;
                    assert(j != vf_j);
                    assert(0 <= j < vf_j);
                }
                if listed_before(refs, vf_j, s) {
                    let j = choose|j: int| 0 <= j < vf_j && j < refs.len() && **(#[trigger] refs[j]) == s;
                    assert(0 <= j < vf_j + 1);
                }
            }
        }
        if vf_j + 1 == refs.len() { lemma_table_next_block(mutated_in@, vf_bs, vf_k, refs, vf_set@); }
    }
//@ after 0 `mutated_in.get_mut(scalar).unwrap().insert(block.index()); }`
    proof {
        if vf_k + 1 == vf_bs.len() { lemma_prefix_full(*cfg, vf_bs); }
    }
//@ end
