// ======================================================================================
// units/C10/ssa_phi.rs - phi placement: scalars_mutated_in_block(s), compute_non_local_scalars, insert_phi_nodes
// ======================================================================================

/// the scalars an instruction writes / reads as the transformation sees them: an intrinsic that does not declare
/// them counts as writing / reading none (`unwrap_or_default`)
pub open spec fn ins_writes(i: il::Instruction) -> Seq<il::Scalar> {
    match il::op_writes(i.operation) { Some(s) => s, None => Seq::<il::Scalar>::empty() }
}
pub open spec fn ins_reads(i: il::Instruction) -> Seq<il::Scalar> {
    match il::op_reads(i.operation) { Some(s) => s, None => Seq::<il::Scalar>::empty() }
}

/// `s` is written by one of the first `n` instructions of the block
pub open spec fn writes_before(b: il::Block, n: int, s: il::Scalar) -> bool {
    exists|j: int| 0 <= j < n && j < b.instructions@.len() && ins_writes(#[trigger] b.instructions@[j]).contains(s)
}

/// `s` is written by some instruction of the block
pub open spec fn block_writes(b: il::Block, s: il::Scalar) -> bool {
    writes_before(b, b.instructions@.len() as int, s)
}

//@ source lib/transformation/ssa_transformation.rs
//@ fn fn scalars_mutated_in_block loops=2
//@ rewrite 1 `block .instructions() .iter() .flat_map(|inst| inst.scalars_written().unwrap_or_default()) .collect()` => `{ let mut vf_out: HashSet<&il::Scalar> = HashSet::new(); for inst in vf_it: block.instructions().iter() { let vf_part = inst.scalars_written().unwrap_or_default(); for vf_s in vf_it2: vf_part { vf_out.insert(vf_s); } } vf_out }` ## R-flat-map-collect: `ITER.flat_map(|x| F).collect::<HashSet<_>>()` is by definition the set that receives, for every item x of ITER in order, all items of F; `inst.scalars_written().unwrap_or_default()` is the original F
//@ spec
    ensures
        /*@exact*/ forall|s: &il::Scalar| #![trigger r@.contains(s)] r@.contains(s) <==> block_writes(*block, *s),
//@ loop 0
    invariant
        vf_it.seq().len() == block.instructions@.len(),
        forall|j: int| 0 <= j < vf_it.seq().len() ==> *(#[trigger] vf_it.seq()[j]) == block.instructions@[j],
        forall|s: &il::Scalar| #![trigger vf_out@.contains(s)] vf_out@.contains(s) <==> writes_before(*block, vf_it.index@ as int, *s),
//@ before 0 `for vf_s in`
    let ghost vf_k = vf_it.index@ as int;
    let ghost vf_refs = vf_part@;
    proof {
        assert(*inst == block.instructions@[vf_k]);
        assert(il::refs_are(vf_refs, ins_writes(block.instructions@[vf_k])));
    }
//@ loop 1
    invariant
        vf_it2.seq() == vf_refs,
        0 <= vf_k < block.instructions@.len(),
        il::refs_are(vf_refs, ins_writes(block.instructions@[vf_k])),
        forall|s: &il::Scalar| #![trigger vf_out@.contains(s)] vf_out@.contains(s) <==>
            (writes_before(*block, vf_k, *s) || exists|j: int| 0 <= j < vf_it2.index@ && *(#[trigger] vf_refs[j]) == *s),
//@ after 0 `vf_out.insert(vf_s); }`
    proof {
        assert forall|s: &il::Scalar| #![trigger vf_out@.contains(s)] vf_out@.contains(s) <==> writes_before(*block, vf_k + 1, *s) by {
            let w = ins_writes(block.instructions@[vf_k]);
            if writes_before(*block, vf_k + 1, *s) && !writes_before(*block, vf_k, *s) {
                let j = choose|j: int| 0 <= j < vf_k + 1 && j < block.instructions@.len() && ins_writes(#[trigger] block.instructions@[j]).contains(*s);
                assert(j == vf_k);
                let i = choose|i: int| 0 <= i < w.len() && w[i] == *s;
                assert(*vf_refs[i] == *s);
            }
            if vf_out@.contains(s) && !writes_before(*block, vf_k, *s) {
                let j = choose|j: int| 0 <= j < vf_refs.len() && *(#[trigger] vf_refs[j]) == *s;
                assert(w[j] == *s);
                assert(ins_writes(block.instructions@[vf_k]).contains(*s));
            }
        }
    }
//@ end
